(* F2 / F3 - the naming functions of internal/util.go + internal/cases and of
   processProto3OptionalFields equal protoc's:
     json_name_eq_protoc          internal.JSONName  = ToJsonName         (every byte string)
     map_entry_name_eq_protoc     internal.MapEntry  = MapEntryName       (every byte string)
     oo_name_total / _is_synth    the X-prefix loop terminates within the fuel of the model and
                                  returns protoc's name for the same set of taken names
     synthetic_oneof_names_fresh / _eq_protoc   the loop over the fields
   and two local facts of the descriptor construction (parser/result.go):
     reserved_names_iff           addReservedNames, either spelling: what one reserved statement reports and records
     range_max                    a range written with max ends at the limit handed in (half-open for messages)
     message_ranges_limit         the ranges of a message descriptor are the ranges written in its own body, each
                                  bounded by the limit of that message itself (message set or not) *)
From Coq Require Import List NArith ZArith Bool Lia Arith FinFun.
From PV Require Import Model.MiniProto Model.Lower Model.ProtocDescriptor.
Import ListNotations.
Open Scope N_scope.

(* ------------------------------------------------------------------------------------------ *)
(* JSONName and MapEntry *)

Lemma split_us_nonempty s : split_us s <> [].
Proof.
  destruct s as [|c r]; cbn; [discriminate|]. destruct (c =? us); [discriminate|].
  destruct (split_us r); discriminate.
Qed.

Lemma to_upper_ascii c : to_upper c = ascii_toupper c.
Proof. reflexivity. Qed.

(* both shapes at once: at a word boundary, and inside a word *)
Lemma conv_camel s :
  (forall pascal fw, conv_words pascal false fw (split_us s) = camel_from (pascal || negb fw) s) /\
  (forall pascal up, match split_us s with
                     | w :: ws => conv_word up false false w ++ conv_words pascal false false ws
                     | [] => []
                     end = camel_from false s).
Proof.
  induction s as [|c r [IH1 IH2]].
  - split; intros; cbn; reflexivity.
  - split.
    + intros pascal fw. cbn [split_us camel_from]. unfold us in *. destruct (c =? 95) eqn:E.
      * cbn [conv_words conv_word app]. rewrite IH1. cbn [negb]. rewrite orb_true_r. reflexivity.
      * specialize (IH2 pascal (pascal || negb fw)). pose proof (split_us_nonempty r) as Hne.
        destruct (split_us r) as [|w ws]; [congruence|].
        cbn [conv_words conv_word app]. rewrite IH2.
        rewrite andb_true_r, orb_false_r. unfold set_case.
        destruct (pascal || negb fw); reflexivity.
    + intros pascal up. cbn [split_us camel_from]. unfold us in *. destruct (c =? 95) eqn:E.
      * cbn [conv_word app]. rewrite IH1. cbn [negb]. rewrite orb_true_r. reflexivity.
      * specialize (IH2 pascal up). pose proof (split_us_nonempty r) as Hne.
        destruct (split_us r) as [|w ws]; [congruence|].
        cbn [conv_word]. rewrite andb_false_r. cbn [orb app]. rewrite IH2. reflexivity.
Qed.

Theorem json_name_eq_protoc_lemma : forall s, json_name s = to_json_name s.
Proof. intros s. unfold json_name, to_json_name. now rewrite (proj1 (conv_camel s)). Qed.

Theorem map_entry_name_eq_protoc_lemma : forall s, map_entry s = map_entry_name s.
Proof. intros s. unfold map_entry, map_entry_name. now rewrite (proj1 (conv_camel s)). Qed.

(* ------------------------------------------------------------------------------------------ *)
(* names as a decidable type *)
Lemma name_eqb_eq a b : name_eqb a b = true <-> a = b.
Proof.
  revert b. induction a as [|x a IH]; intros [|y b]; cbn; try (split; [discriminate|discriminate]); try tauto.
  rewrite andb_true_iff, N.eqb_eq, IH. split; [intros [-> ->]; reflexivity|intros H; injection H; auto].
Qed.

Lemma mem_name_In x l : mem_name x l = true <-> In x l.
Proof.
  induction l as [|y r IH]; cbn; [split; [discriminate|tauto]|].
  rewrite orb_true_iff, name_eqb_eq, IH. split; intros [H|H]; auto.
Qed.

Lemma mem_name_false x l : mem_name x l = false <-> ~ In x l.
Proof. rewrite <- mem_name_In. destruct (mem_name x l); split; congruence. Qed.

(* ------------------------------------------------------------------------------------------ *)
(* the X-prefix loop *)
Lemma oo_candidate_eq f : oo_candidate f = synth_candidate f.
Proof. destruct f as [|c r]; reflexivity. Qed.

Lemma x_times_shift k c : x_times k (88 :: c) = 88 :: x_times k c.
Proof. induction k as [|k IH]; cbn; [reflexivity|now rewrite IH]. Qed.

Lemma x_times_length k c : length (x_times k c) = (k + length c)%nat.
Proof. induction k as [|k IH]; cbn; [reflexivity|now rewrite IH]. Qed.

Lemma oo_search_some fuel : forall all c r, oo_search fuel all c = Some r ->
  exists k, (k < fuel)%nat /\ r = x_times k c /\ ~ In r all /\ forall j, (j < k)%nat -> In (x_times j c) all.
Proof.
  induction fuel as [|f IH]; intros all c r H; cbn in H; [discriminate|].
  destruct (mem_name c all) eqn:E.
  - apply IH in H. destruct H as (k & Hk & -> & Hn & Hlt). exists (S k).
    split; [lia|]. split; [cbn; now rewrite x_times_shift|]. split; [assumption|].
    intros [|j] Hj; cbn.
    + now apply mem_name_In.
    + rewrite <- x_times_shift. apply Hlt. lia.
  - injection H as <-. exists 0%nat. split; [lia|]. split; [reflexivity|]. split; [now apply mem_name_false|].
    intros j Hj. lia.
Qed.

Lemma oo_search_none fuel : forall all c, oo_search fuel all c = None ->
  forall j, (j < fuel)%nat -> In (x_times j c) all.
Proof.
  induction fuel as [|f IH]; intros all c H j Hj; [lia|]. cbn in H.
  destruct (mem_name c all) eqn:E; [|discriminate].
  destruct j as [|j]; cbn; [now apply mem_name_In|]. rewrite <- x_times_shift. apply IH; [assumption|lia].
Qed.

Lemma x_times_seq_nodup c n : NoDup (map (fun k => x_times k c) (seq 0 n)).
Proof.
  apply Injective_map_NoDup; [|apply seq_NoDup].
  intros a b H. apply (f_equal (@length N)) in H. rewrite !x_times_length in H. lia.
Qed.

(* the fuel of the model always suffices *)
Theorem oo_name_total_lemma : forall all f, oo_name all f <> None.
Proof.
  intros all f H. unfold oo_name in H. pose proof (oo_search_none _ _ _ H) as Hall.
  set (c := oo_candidate f) in *. set (n := S (length all)) in *.
  assert (Hincl : incl (map (fun k => x_times k c) (seq 0 n)) all).
  { intros x Hx. apply in_map_iff in Hx. destruct Hx as (k & <- & Hk). apply in_seq in Hk. apply Hall. lia. }
  pose proof (NoDup_incl_length (x_times_seq_nodup c n) Hincl) as Hlen.
  rewrite map_length, seq_length in Hlen. subst n. lia.
Qed.

(* and the name is the one protoc computes from the same set of taken names *)
Theorem oo_name_is_synth_lemma : forall all f r, oo_name all f = Some r -> is_synth_name all f r.
Proof.
  intros all f r H. unfold oo_name in H. apply oo_search_some in H.
  destruct H as (k & _ & -> & Hn & Hlt). rewrite oo_candidate_eq in *. exists k. auto.
Qed.

(* protoc's name is unique, and depends on the taken names only as a set *)
Lemma is_synth_name_unique all all' f r r' :
  (forall k, In (x_times k (synth_candidate f)) all <-> In (x_times k (synth_candidate f)) all') ->
  is_synth_name all f r -> is_synth_name all' f r' -> r = r'.
Proof.
  intros Hsame (k & -> & Hn & Hlt) (k' & -> & Hn' & Hlt').
  destruct (Nat.lt_trichotomy k k') as [H|[H|H]].
  - exfalso. apply Hn. apply Hsame. now apply Hlt'.
  - now subst.
  - exfalso. apply Hn'. apply Hsame. now apply Hlt.
Qed.

(* ------------------------------------------------------------------------------------------ *)
(* the loop over the fields *)

(* the loop never runs out of fuel *)
Lemma p3opt_loop_total : forall fs done all oneofs, p3opt_loop fs done all oneofs <> None.
Proof.
  induction fs as [|fd r IH]; intros done all oneofs; cbn [p3opt_loop]; [discriminate|].
  destruct (df_p3opt fd); [|apply IH].
  destruct (oo_name all (df_name fd)) eqn:E; [apply IH|]. now apply oo_name_total_lemma in E.
Qed.

(* synthetic_oneof_names_fresh: the new oneof names are appended, are pairwise distinct and
   differ from every name collected from the message *)
Lemma p3opt_loop_fresh : forall fs done all oneofs fs' oneofs',
  p3opt_loop fs done all oneofs = Some (fs', oneofs') ->
  exists new, oneofs' = oneofs ++ new /\ NoDup new /\ forall n, In n new -> ~ In n all.
Proof.
  induction fs as [|fd r IH]; intros done all oneofs fs' oneofs' H; cbn [p3opt_loop] in H.
  - injection H as <- <-. exists []. rewrite app_nil_r. repeat split; [constructor|intros n []].
  - destruct (df_p3opt fd).
    + destruct (oo_name all (df_name fd)) as [oo|] eqn:E; [|discriminate].
      apply IH in H. destruct H as (new & -> & Hnd & Hfresh).
      exists (oo :: new). rewrite <- app_assoc. split; [reflexivity|].
      apply oo_name_is_synth_lemma in E. destruct E as (k & Hoo & Hn & _).
      split.
      * constructor; [|assumption]. intros Hin. apply (Hfresh oo Hin). now left.
      * intros n [<- | Hin]; [assumption|]. intros Hall. apply (Hfresh n Hin). now right.
    + now apply IH in H.
Qed.

Theorem synthetic_oneof_names_fresh_lemma : forall all fields oneofs fs' oneofs',
  process_p3opt all fields oneofs = Some (fs', oneofs') ->
  exists new, oneofs' = oneofs ++ new /\ NoDup new /\ forall n, In n new -> ~ In n all.
Proof. intros all fields oneofs fs' oneofs'. apply p3opt_loop_fresh. Qed.

Theorem process_p3opt_total_lemma : forall all fields oneofs, process_p3opt all fields oneofs <> None.
Proof. intros. apply p3opt_loop_total. Qed.

(* synthetic_oneof_names_eq_protoc: with the larger set of names the Go code collects (also
   extensions, enums, enum values, nested messages) the result is the same as with protoc's set
   (fields and oneofs), provided none of the extra names is a candidate of an optional field *)
Lemma p3opt_loop_eq : forall fs done allG allP oneofs,
  (forall n, In n allP -> In n allG) ->
  (forall f k, In f fs -> df_p3opt f = true ->
               In (x_times k (synth_candidate (df_name f))) allG -> In (x_times k (synth_candidate (df_name f))) allP) ->
  (forall f k oo, In f fs -> df_p3opt f = true -> In (x_times k (synth_candidate (df_name f))) (oo :: allG) ->
                  In (x_times k (synth_candidate (df_name f))) (oo :: allP)) ->
  p3opt_loop fs done allG oneofs = p3opt_loop fs done allP oneofs.
Proof.
  induction fs as [|fd r IH]; intros done allG allP oneofs Hsub Hcand Hcand'; cbn [p3opt_loop]; [reflexivity|].
  destruct (df_p3opt fd) eqn:Ep.
  - destruct (oo_name allG (df_name fd)) as [g|] eqn:Eg; [|now apply oo_name_total_lemma in Eg].
    destruct (oo_name allP (df_name fd)) as [p|] eqn:Epn; [|now apply oo_name_total_lemma in Epn].
    assert (g = p).
    { apply (is_synth_name_unique allG allP (df_name fd)).
      - intros k. split; [apply Hcand; [now left|assumption]|apply Hsub].
      - now apply oo_name_is_synth_lemma.
      - now apply oo_name_is_synth_lemma. }
    subst p. apply IH.
    + intros n [<-|Hn]; [now left|right; now apply Hsub].
    + intros f k Hf Hp Hin. apply (Hcand' f k g); [now right|assumption|assumption].
    + intros f k oo Hf Hp [<-|Hin]; [now left|]. right. apply (Hcand' f k g); [now right|assumption|assumption].
  - apply IH; [assumption| |].
    + intros f k Hf. apply Hcand. now right.
    + intros f k oo Hf. apply Hcand'. now right.
Qed.

Theorem synthetic_oneof_names_eq_protoc_lemma : forall fields oneofs exts enums nested,
  (forall f k n, In f fields -> df_p3opt f = true ->
     In n (go_all_names fields oneofs exts enums nested) -> ~ In n (protoc_all_names fields oneofs) ->
     n <> x_times k (synth_candidate (df_name f))) ->
  process_p3opt (go_all_names fields oneofs exts enums nested) fields oneofs
  = process_p3opt (protoc_all_names fields oneofs) fields oneofs.
Proof.
  intros fields oneofs exts enums nested Hextra. unfold process_p3opt.
  assert (Hsub : forall n, In n (protoc_all_names fields oneofs) -> In n (go_all_names fields oneofs exts enums nested)).
  { unfold protoc_all_names, go_all_names. intros n Hn. rewrite !in_app_iff in *. tauto. }
  assert (Hback : forall f k, In f fields -> df_p3opt f = true ->
            In (x_times k (synth_candidate (df_name f))) (go_all_names fields oneofs exts enums nested) ->
            In (x_times k (synth_candidate (df_name f))) (protoc_all_names fields oneofs)).
  { intros f k Hf Hp Hin.
    destruct (mem_name (x_times k (synth_candidate (df_name f))) (protoc_all_names fields oneofs)) eqn:E.
    - now apply mem_name_In.
    - apply mem_name_false in E. exfalso. exact (Hextra f k _ Hf Hp Hin E eq_refl). }
  apply p3opt_loop_eq; [assumption|assumption|].
  intros f k oo Hf Hp [<-|Hin]; [now left|right; now apply Hback].
Qed.

(* non-vacuity witnesses used by Props/C02.v *)
Lemma c02_example :
  json_name [102;111;111;95;98;97;114] = [102;111;111;66;97;114] /\
  map_entry [102;111;111;95;98;97;114] = [70;111;111;66;97;114;69;110;116;114;121] /\
  json_name [95;120] = [88] /\
  oo_name [[97]; [95;97]; [88;95;97]] [97] = Some [88;88;95;97].
Proof. repeat split; vm_compute; reflexivity. Qed.

(* ------------------------------------------------------------------------------------------ *)
(* addReservedNames, both spellings: which list the syntax reads, and what the loop reports *)
Definition spelled (syn : syntax) (strs idents : list name) : list name :=
  match syn with Editions => idents | _ => strs end.
Definition misspelled (syn : syntax) (strs idents : list name) : list name :=
  match syn with Editions => strs | _ => idents end.

Lemma reserve_loop_spec : forall ns names seen errs,
  exists added dups,
    reserve_loop ns names seen errs = (names ++ added, seen ++ added, errs ++ dups) /\
    Forall (eq EReservedNameDup) dups /\
    (forall x, In x (seen ++ added) <-> In x seen \/ In x ns) /\
    (dups = [] <-> NoDup ns /\ forall x, In x ns -> ~ In x seen) /\
    (dups = [] -> added = ns).
Proof.
  induction ns as [|n r IH]; intros names seen errs; cbn [reserve_loop].
  - exists [], []. rewrite !app_nil_r. split; [reflexivity|]. split; [constructor|].
    split; [intros x; cbn [In]; tauto|]. split; [|reflexivity].
    split; [|reflexivity]. intros _. split; [constructor|intros x []].
  - destruct (mem_name n seen) eqn:E.
    + destruct (IH names seen (errs ++ [EReservedNameDup])) as (added & dups & Heq & Hd & Hin & Hiff & Hadd).
      exists added, (EReservedNameDup :: dups). rewrite Heq, <- app_assoc. cbn [app].
      split; [reflexivity|]. split; [constructor; [reflexivity|exact Hd]|].
      split.
      { intros x. rewrite Hin. cbn [In]. apply mem_name_In in E. split.
        - intros [H|H]; [now left|right; now right].
        - intros [H|[<-|H]]; [now left|now left|now right]. }
      split; [|discriminate].
      split; [discriminate|]. intros [_ Hdis]. exfalso. apply mem_name_In in E. exact (Hdis n (or_introl eq_refl) E).
    + destruct (IH (names ++ [n]) (seen ++ [n]) errs) as (added & dups & Heq & Hd & Hin & Hiff & Hadd).
      exists (n :: added), dups. rewrite Heq, <- !app_assoc. cbn [app].
      split; [reflexivity|]. split; [exact Hd|].
      assert (Hin' : forall x, In x (seen ++ n :: added) <-> In x seen \/ In x (n :: r)).
      { intros x. specialize (Hin x). rewrite <- app_assoc in Hin. cbn [app] in Hin. rewrite Hin.
        rewrite in_app_iff. cbn [In]. tauto. }
      split; [exact Hin'|].
      apply mem_name_false in E.
      split.
      * rewrite Hiff. split.
        -- intros [Hnd Hdis]. split.
           ++ constructor; [|exact Hnd]. intros Hr. apply (Hdis n Hr). apply in_app_iff. right. now left.
           ++ intros x [<-|Hx]; [exact E|]. intros Hs. apply (Hdis x Hx). apply in_app_iff. now left.
        -- intros [Hnd Hdis]. inversion Hnd as [|? ? Hn Hnd']; subst. split; [exact Hnd'|].
           intros x Hx Hs. apply in_app_iff in Hs. destruct Hs as [Hs|[<-|[]]].
           ++ exact (Hdis x (or_intror Hx) Hs).
           ++ exact (Hn Hx).
      * intros H. now rewrite (Hadd H).
Qed.

(* one reserved statement, either spelling: the wrong spelling is reported iff it is used; a duplicate is reported iff
   the names written in the spelling of the syntax repeat or meet a name reserved by an earlier statement of the same
   message / enum; afterwards exactly the earlier names and those of this statement count as reserved; without a
   report the names are appended in source order *)
Theorem reserved_names_iff_lemma : forall syn strs idents names seen names' seen' errs',
  add_reserved_names syn strs idents names seen = (names', seen', errs') ->
  let ns := spelled syn strs idents in
  (In EReservedNameForm errs' <-> misspelled syn strs idents <> []) /\
  (In EReservedNameDup errs' <-> ~ (NoDup ns /\ forall x, In x ns -> ~ In x seen)) /\
  (errs' = [] <-> misspelled syn strs idents = [] /\ NoDup ns /\ forall x, In x ns -> ~ In x seen) /\
  (forall x, In x seen' <-> In x seen \/ In x ns) /\
  (exists added, names' = names ++ added /\ seen' = seen ++ added /\ (errs' = [] -> added = ns)).
Proof.
  intros syn strs idents names seen names' seen' errs' H ns.
  set (ms := misspelled syn strs idents).
  set (e0 := match ms with [] => [] | _ => [EReservedNameForm] end).
  assert (H' : reserve_loop ns names seen e0 = (names', seen', errs')).
  { subst ns ms e0. unfold add_reserved_names in H. destruct syn; exact H. }
  clear H. destruct (reserve_loop_spec ns names seen e0) as (added & dups & Heq & Hd & Hin & Hiff & Hadd).
  rewrite Heq in H'. inversion H'; subst names' seen' errs'. clear H'.
  assert (Hform : In EReservedNameForm (e0 ++ dups) <-> ms <> []).
  { rewrite in_app_iff. subst e0. split.
    - intros [Hf|Hf]; [destruct ms; [destruct Hf|discriminate]|].
      rewrite Forall_forall in Hd. specialize (Hd _ Hf). discriminate.
    - intros Hne. left. destruct ms; [contradiction|now left]. }
  assert (Hdup : In EReservedNameDup (e0 ++ dups) <-> dups <> []).
  { rewrite in_app_iff. subst e0. split.
    - intros [Hf|Hf]; [destruct ms; [destruct Hf|destruct Hf as [Hf|[]]; discriminate]|]. intros ->. destruct Hf.
    - intros Hne. right. destruct dups as [|d ds]; [contradiction|]. inversion Hd; subst. now left. }
  split; [exact Hform|]. split.
  { rewrite Hdup. split.
    - intros Hne HP. apply Hne. now apply Hiff.
    - intros HnP ->. apply HnP. now apply Hiff. }
  split.
  { split.
    - intros He. apply app_eq_nil in He. destruct He as [He0 Hdn]. split.
      + subst e0. destruct ms; [reflexivity|discriminate].
      + now apply Hiff.
    - intros [Hms HP]. apply Hiff in HP. rewrite HP, app_nil_r. subst e0. now rewrite Hms. }
  split; [exact Hin|].
  exists added. split; [reflexivity|]. split; [reflexivity|].
  intros He. apply app_eq_nil in He. destruct He as [_ Hdn]. exact (Hadd Hdn).
Qed.

(* ------------------------------------------------------------------------------------------ *)
(* what max means: the upper limit handed to the range, for all three kinds of range *)
Open Scope Z_scope.
Theorem range_max_lemma : forall r, sr_max r = true ->
  (forall mt, 1 <= sr_start r <= mt -> msg_range r mt = ((sr_start r, mt + 1), [])) /\
  (int32_min <= sr_start r <= int32_max -> enum_range r = ((sr_start r, int32_max), [])).
Proof.
  intros [s e m] Hm. cbn [sr_max] in Hm. subst m. split.
  - intros mt Hs. cbn [sr_start] in Hs. unfold msg_range, range_bounds, as_int32. cbn [sr_start sr_end sr_max].
    replace (s <? 1) with false by (symmetry; apply Z.ltb_ge; lia).
    replace (mt <? s) with false by (symmetry; apply Z.ltb_ge; lia).
    cbn [orb andb]. replace (mt <? s) with false by (symmetry; apply Z.ltb_ge; lia).
    destruct e; reflexivity.
  - intros Hs. cbn [sr_start] in Hs. unfold enum_range, range_bounds, as_int32. cbn [sr_start sr_end sr_max].
    replace (s <? int32_min) with false by (symmetry; apply Z.ltb_ge; lia).
    replace (int32_max <? s) with false by (symmetry; apply Z.ltb_ge; lia).
    cbn [orb andb]. replace (int32_max <? s) with false by (symmetry; apply Z.ltb_ge; lia).
    destruct e; reflexivity.
Qed.

(* ------------------------------------------------------------------------------------------ *)
(* which limit a message hands to its ranges *)

Definition msg_limit (body : list melem) : Z :=
  match is_msgset body with MsYes => msgset_max | _ => field_max end.
Definition own_rsvr (mt : Z) (e : melem) : list (Z * Z) :=
  match e with MReserved rs => fst (lower_ranges (fun r => msg_range r mt) rs) | _ => [] end.
Definition own_extr (mt : Z) (e : melem) : list (Z * Z) :=
  match e with
  | MExtensions rs => fst (lower_ranges (fun r => msg_range r mt) rs)
  | MExtensionsOpt rs _ => fst (lower_ranges (fun r => msg_range r mt) rs)
  | _ => []
  end.

Definition same_ranges (a b : macc) : Prop := a_rsvr b = a_rsvr a /\ a_extr b = a_extr a.

Lemma same_refl a : same_ranges a a. Proof. split; reflexivity. Qed.
Lemma same_trans a b c : same_ranges a b -> same_ranges b c -> same_ranges a c.
Proof. intros [H1 H2] [H3 H4]. split; congruence. Qed.
Lemma same_add_errs a es : same_ranges a (add_errs a es). Proof. split; reflexivity. Qed.
Lemma same_add_field a fd : same_ranges a (add_field a fd). Proof. split; reflexivity. Qed.
Lemma same_add_nested a m : same_ranges a (add_nested a m). Proof. split; reflexivity. Qed.
Lemma same_add_ext a fd : same_ranges a (add_ext a fd). Proof. split; reflexivity. Qed.

Lemma lower_elem_ranges : forall syn mt d e a,
  a_rsvr (lower_elem syn mt d a e) = a_rsvr a ++ own_rsvr mt e /\
  a_extr (lower_elem syn mt d a e) = a_extr a ++ own_extr mt e.
Proof.
  intros syn mt d e a. destruct e; cbn [own_rsvr own_extr]; rewrite ?app_nil_r.
  - simpl. destruct (as_field syn mt f). split; reflexivity.
  - simpl. destruct (lower_map syn mt (S d) key val nm num opts) as [[fd md] es]. split; reflexivity.
  - simpl. repeat match goal with |- context [match ?X with pair _ _ => _ end] => destruct X end. split; reflexivity.
  - simpl.
    match goal with |- context [match ?F ?p elems with pair _ _ => _ end] =>
      assert (Hst : forall els ac, same_ranges (fst ac) (fst (F ac els)));
      [ induction els as [|x r IHr]; intros ac; [apply same_refl|];
        destruct x; simpl; try apply IHr;
        repeat match goal with |- context [match ?X with pair _ _ => _ end] => destruct X end;
        (eapply same_trans; [|apply IHr]); cbn [fst]; split; reflexivity
      | destruct (F p elems) as [a2 n] eqn:E; specialize (Hst elems p); rewrite E in Hst; cbn [fst] in Hst;
        destruct Hst as [H1 H2]; destruct n; cbn; rewrite ?H1, ?H2; split; reflexivity ]
    end.
  - simpl. repeat match goal with |- context [match ?X with pair _ _ => _ end] => destruct X end. split; reflexivity.
  - simpl. match goal with |- context [lower_enum syn ?E] => destruct (lower_enum syn E) end. split; reflexivity.
  - simpl.
    match goal with |- context [match ?F ?p elems with pair _ _ => _ end] =>
      assert (Hst : forall els ac, same_ranges (fst ac) (fst (F ac els)));
      [ induction els as [|x r IHr]; intros ac; [apply same_refl|];
        destruct x; simpl; try apply IHr;
        repeat match goal with |- context [match ?X with pair _ _ => _ end] => destruct X end;
        (eapply same_trans; [|apply IHr]); cbn [fst]; split; reflexivity
      | destruct (F p elems) as [a2 n] eqn:E; specialize (Hst elems p); rewrite E in Hst; cbn [fst] in Hst;
        destruct Hst as [H1 H2]; destruct n; cbn; rewrite ?H1, ?H2; split; reflexivity ]
    end.
  - simpl. match goal with |- context [lower_ranges ?G ?R] => destruct (lower_ranges G R) end. cbn. rewrite ?app_nil_r. split; reflexivity.
  - simpl. match goal with |- context [lower_ranges ?G ?R] => destruct (lower_ranges G R) end. cbn. rewrite ?app_nil_r. split; reflexivity.
  - simpl. match goal with |- context [lower_ranges ?G ?R] => destruct (lower_ranges G R) end. cbn. rewrite ?app_nil_r. split; reflexivity.
  - simpl. match goal with |- context [add_reserved_names ?A ?B ?C ?D ?E] => destruct (add_reserved_names A B C D E) as [[? ?] ?] end. cbn. rewrite ?app_nil_r. split; reflexivity.
  - simpl. rewrite ?app_nil_r. split; reflexivity.
Qed.

Lemma fold_lower_ranges : forall syn mt d body a,
  a_rsvr (fold_left (lower_elem syn mt d) body a) = a_rsvr a ++ flat_map (own_rsvr mt) body /\
  a_extr (fold_left (lower_elem syn mt d) body a) = a_extr a ++ flat_map (own_extr mt) body.
Proof.
  induction body as [|e r IH]; intros a; cbn [fold_left flat_map].
  - rewrite !app_nil_r. split; reflexivity.
  - destruct (IH (lower_elem syn mt d a e)) as [H1 H2]. destruct (lower_elem_ranges syn mt d e a) as [H3 H4].
    rewrite H1, H2, H3, H4, <- !app_assoc. split; reflexivity.
Qed.

(* a message written inside another message (or at file level): its descriptor is appended to the nested types, and the
   reserved / extension ranges of that descriptor are the ranges written in its own body, in source order, each bounded
   by the limit of this message itself - msgset_max iff its own body carries the option set to true - whatever the
   limit of the enclosing message is *)
Theorem message_ranges_limit_lemma : forall syn mt d a nm body, (S d < 32)%nat ->
  exists md, a_nested (lower_elem syn mt d a (MMessage nm body)) = a_nested a ++ [md] /\
    dm_rsvr md = flat_map (own_rsvr (msg_limit body)) body /\
    dm_extr md = flat_map (own_extr (msg_limit body)) body /\
    dm_msgset md = match is_msgset body with MsYes => true | _ => false end.
Proof.
  intros syn mt d a nm body Hd. simpl. apply Nat.ltb_lt in Hd. rewrite Hd.
  match goal with |- context [match (if ?c then ?t else ?e) with pair _ _ => _ end] => destruct (if c then t else e) as [[? ?] ?] end.
  eexists. split; [reflexivity|]. cbn [dm_rsvr dm_extr dm_msgset].
  match goal with |- context [fold_left (lower_elem syn ?L (S d)) body macc0] =>
    destruct (fold_lower_ranges syn L (S d) body macc0) as [H1 H2] end.
  cbn [macc0 a_rsvr a_extr app] in H1, H2. unfold msg_limit.
  destruct (is_msgset body); (split; [exact H1|split; [exact H2|reflexivity]]).
Qed.
Close Scope Z_scope.
