(* Proofs about Model/ExplicitFlag.v: with the request loop under the lock, the files ef_checked for
   unused imports are exactly the requested ones, for every request order and every schedule. *)
From Coq Require Import List NArith Bool.
Import ListNotations.
From PV Require Import Model.ExplicitFlag.

Lemma rlookup_app rs rs2 p :
  rlookup (rs ++ rs2) p = match rlookup rs p with Some b => Some b | None => rlookup rs2 p end.
Proof.
  induction rs as [|[q b] r IH]; cbn [app rlookup]; [reflexivity|].
  destruct (N.eqb q p); [reflexivity|exact IH].
Qed.

Lemma rlookup_compile_locked rs q e p :
  rlookup (compile_locked rs (q, e)) p =
  match rlookup rs p with Some b => Some b | None => if N.eqb q p then Some e else None end.
Proof.
  unfold compile_locked. cbn [fst]. destruct (rlookup rs q) as [b0|] eqn:Eq.
  - destruct (rlookup rs p) as [b|] eqn:Ep; [reflexivity|].
    destruct (N.eqb q p) eqn:E; [|reflexivity]. apply N.eqb_eq in E. subst p. congruence.
  - rewrite rlookup_app. destruct (rlookup rs p); [reflexivity|]. cbn [rlookup].
    destruct (N.eqb q p); reflexivity.
Qed.

(* a block of calls with one flag: earlier results win, then membership in the block *)
Lemma rlookup_block e : forall l rs p,
  rlookup (run_events rs (map (fun q => (q, e)) l)) p =
  match rlookup rs p with Some b => Some b | None => if memP p l then Some e else None end.
Proof.
  induction l as [|q l IH]; intros rs p; cbn [map run_events fold_left memP].
  - destruct (rlookup rs p); reflexivity.
  - fold (run_events (compile_locked rs (q, e)) (map (fun q0 => (q0, e)) l)). rewrite IH, rlookup_compile_locked.
    destruct (rlookup rs p); [reflexivity|]. destruct (N.eqb q p); cbn [orb]; reflexivity.
Qed.

Lemma memP_In x l : memP x l = true <-> In x l.
Proof.
  induction l as [|y l IH]; cbn [memP In]; [split; [discriminate|tauto]|].
  rewrite orb_true_iff, IH, N.eqb_eq. tauto.
Qed.

Lemma checked_is_requested req sched p : ef_checked req sched p = memP p req.
Proof.
  unfold ef_checked, checked_in, compile_run. rewrite !rlookup_block. cbn [rlookup].
  destruct (memP p req); [reflexivity|]. destruct (memP p sched); reflexivity.
Qed.

Lemma checked_iff_requested_lemma req sched p : ef_checked req sched p = true <-> In p req.
Proof. rewrite checked_is_requested. apply memP_In. Qed.

Lemma checked_schedule_order_independent_lemma req1 req2 sched1 sched2 :
  (forall p, In p req1 <-> In p req2) -> forall p, ef_checked req1 sched1 p = ef_checked req2 sched2 p.
Proof.
  intros H p. rewrite !checked_is_requested.
  destruct (memP p req1) eqn:E1, (memP p req2) eqn:E2; try reflexivity.
  - apply memP_In, H, memP_In in E1. congruence.
  - apply memP_In, H, memP_In in E2. congruence.
Qed.

(* without the lock the calls of the loop and of the tasks interleave: file 1 is requested first and
   imports file 2, its task asks for 2 before the loop does, and 2 - requested - is never ef_checked *)
Lemma unlocked_loop_refuted_lemma :
  exists evs p, In (p, true) evs /\ checked_in (run_events [] evs) p = false.
Proof. exists [(1, true); (2, false); (2, true)]%N, 2%N. split; [cbn; tauto|reflexivity]. Qed.

Lemma explicit_flag_example :
  ef_checked [1; 2; 1]%N [2; 3]%N 2%N = true /\ ef_checked [1; 2; 1]%N [2; 3]%N 3%N = false /\
  ef_checked [2; 1]%N [3; 2]%N 1%N = true.
Proof. repeat split. Qed.
