(* Proofs about Model/Retention.v (property C22). *)
From Coq Require Import List NArith Bool Lia.
From PV Require Import Model.Retention.
Import ListNotations.
Open Scope N_scope.

(* ---------------------------------------------------------------- induction principles *)
Section OvalInd.
  Variable P : oval -> Prop.
  Hypothesis HS : forall p, P (VScalar p).
  Hypothesis HM : forall a fs unk, Forall (fun f => P (snd f)) fs -> P (VMsg a fs unk).
  Hypothesis HL : forall items, Forall P items -> P (VList items).
  Fixpoint oval_ind' (v : oval) : P v :=
    match v with
    | VScalar p => HS p
    | VMsg a fs unk =>
      HM a fs unk ((fix go (l : list (N * ret * oval)) : Forall (fun f => P (snd f)) l :=
                      match l with
                      | [] => Forall_nil _
                      | f :: tl => Forall_cons f (oval_ind' (snd f)) (go tl)
                      end) fs)
    | VList items =>
      HL items ((fix go (l : list oval) : Forall P l :=
                   match l with
                   | [] => Forall_nil _
                   | w :: tl => Forall_cons w (oval_ind' w) (go tl)
                   end) items)
    end.
End OvalInd.

Section ElemInd.
  Variable P : elem -> Prop.
  Hypothesis HE : forall k a o rest unk slots, Forall (Forall P) slots -> P (Elem k a o rest unk slots).
  Fixpoint elem_ind' (e : elem) : P e :=
    match e with
    | Elem k a o rest unk slots =>
      HE k a o rest unk slots
         ((fix go (ss : list (list elem)) : Forall (Forall P) ss :=
             match ss with
             | [] => Forall_nil _
             | s :: tl =>
               Forall_cons s ((fix go1 (l : list elem) : Forall P l :=
                                 match l with
                                 | [] => Forall_nil _
                                 | x :: m => Forall_cons x (elem_ind' x) (go1 m)
                                 end) s) (go tl)
             end) slots)
    end.
End ElemInd.

(* ---------------------------------------------------------------- the trie is a set of prefixes *)
Lemma is_removed_empty : forall p, is_removed p trie_empty = false.
Proof. destruct p; reflexivity. Qed.

Lemma is_removed_marked : forall p ch, is_removed p (Trie true ch) = true.
Proof. destruct p; reflexivity. Qed.

Lemma find_upd_child : forall f x y ch,
  find_child y (upd_child f x ch) =
  if x =? y then Some (f (match find_child x ch with Some c => c | None => trie_empty end))
  else find_child y ch.
Proof.
  intros f x y ch. induction ch as [|[z c] tl IH]; cbn [upd_child find_child].
  - rewrite (N.eqb_sym y x). destruct (x =? y); reflexivity.
  - destruct (x =? z) eqn:Exz; cbn [find_child].
    + apply N.eqb_eq in Exz. subst z.
      rewrite (N.eqb_sym y x). destruct (x =? y); reflexivity.
    + rewrite IH. destruct (x =? y) eqn:Exy.
      * apply N.eqb_eq in Exy. subst y. rewrite Exz. reflexivity.
      * reflexivity.
Qed.

Lemma is_removed_add : forall q p t, is_removed p (add_path q t) = is_removed p t || is_prefix q p.
Proof.
  induction q as [|x r IH]; intros p t; destruct t as [rm ch]; cbn [add_path is_prefix].
  - rewrite is_removed_marked. rewrite orb_true_r. reflexivity.
  - destruct rm.
    + rewrite !is_removed_marked. reflexivity.
    + destruct p as [|y p']; cbn [is_removed].
      * reflexivity.
      * rewrite find_upd_child. destruct (x =? y) eqn:Exy.
        -- apply N.eqb_eq in Exy. subst y. rewrite IH.
           destruct (find_child x ch) as [c|]; cbn [andb].
           ++ reflexivity.
           ++ rewrite is_removed_empty. reflexivity.
        -- cbn [andb]. rewrite orb_false_r. reflexivity.
Qed.

Lemma is_removed_fold : forall qs p t,
  is_removed p (fold_left (fun t q => add_path q t) qs t) = is_removed p t || under_any qs p.
Proof.
  induction qs as [|q qs IH]; intros p t; cbn [fold_left under_any existsb].
  - rewrite orb_false_r. reflexivity.
  - rewrite IH, is_removed_add. unfold under_any. rewrite orb_assoc. reflexivity.
Qed.

Lemma trie_is_prefix_set_lemma : forall qs p, is_removed p (trie_of qs) = under_any qs p.
Proof. intros. unfold trie_of. rewrite is_removed_fold, is_removed_empty. reflexivity. Qed.

(* ---------------------------------------------------------------- projections of the walk *)
Definition res {A B C} (x : A * B * C) : A := fst (fst x).
Definition chg {A B C} (x : A * B * C) : B := snd (fst x).
Definition rem {A B C} (x : A * B * C) : C := snd x.

Lemma triple_eta : forall {A B C} (x : A * B * C), x = (res x, chg x, rem x).
Proof. intros A B C [[a b] c]. reflexivity. Qed.

Section AllSlotsEq.
  Variable f : path -> elem -> elem * bool * list path.

  Lemma strip_all_cons : forall pt x tl i,
    strip_all f pt (x :: tl) i =
    (res (f (pt ++ [i]) x) :: res (strip_all f pt tl (i + 1)),
     chg (f (pt ++ [i]) x) || chg (strip_all f pt tl (i + 1)),
     rem (f (pt ++ [i]) x) ++ rem (strip_all f pt tl (i + 1))).
  Proof.
    intros. cbn [strip_all].
    destruct (f (pt ++ [i]) x) as [[x' cx] rx].
    destruct (strip_all f pt tl (i + 1)) as [[tl' ct] rt]. reflexivity.
  Qed.

  Lemma strip_slots_cons : forall p s ss t k sc,
    strip_slots f p (s :: ss) ((t, k) :: sc) =
    (res (strip_all f (p ++ [t]) s 0) :: res (strip_slots f p ss sc),
     chg (strip_all f (p ++ [t]) s 0) || chg (strip_slots f p ss sc),
     rem (strip_all f (p ++ [t]) s 0) ++ rem (strip_slots f p ss sc)).
  Proof.
    intros. cbn [strip_slots].
    destruct (strip_all f (p ++ [t]) s 0) as [[s' c1] r1].
    destruct (strip_slots f p ss sc) as [[ss' c2] r2]. reflexivity.
  Qed.

  Lemma strip_slots_stop : forall p ss sc,
    ss = [] \/ sc = [] -> strip_slots f p ss sc = (ss, false, []).
  Proof.
    intros p ss sc [H|H]; subst.
    - reflexivity.
    - destruct ss; reflexivity.
  Qed.
End AllSlotsEq.

Section WalkEq.
  Variable so : N -> option omsg -> path -> option omsg * bool * list path.
  Variable ku : bool.

  Lemma strip_elem_eq : forall g p k a o rest unk slots,
    strip_elem so ku g p (Elem k a o rest unk slots) =
    let so' := so g o (p ++ [opts_tag k]) in
    let sl' := strip_slots (strip_elem so ku g) p slots (schema k) in
    (if chg so' || chg sl'
     then Elem k (fresh g a) (res so') rest (if ku then unk else []) (res sl')
     else Elem k a o rest unk slots,
     chg so' || chg sl', rem so' ++ rem sl').
  Proof.
    intros. cbn [strip_elem].
    destruct (so g o (p ++ [opts_tag k])) as [[o' och] orem].
    destruct (strip_slots (strip_elem so ku g) p slots (schema k)) as [[sl sch] srem].
    reflexivity.
  Qed.

  Lemma chg_strip_elem : forall g p k a o rest unk slots,
    chg (strip_elem so ku g p (Elem k a o rest unk slots)) =
    chg (so g o (p ++ [opts_tag k])) || chg (strip_slots (strip_elem so ku g) p slots (schema k)).
  Proof. intros. rewrite strip_elem_eq. reflexivity. Qed.

  Lemma rem_strip_elem : forall g p k a o rest unk slots,
    rem (strip_elem so ku g p (Elem k a o rest unk slots)) =
    rem (so g o (p ++ [opts_tag k])) ++ rem (strip_slots (strip_elem so ku g) p slots (schema k)).
  Proof. intros. rewrite strip_elem_eq. reflexivity. Qed.

  Lemma res_strip_elem : forall g p k a o rest unk slots,
    res (strip_elem so ku g p (Elem k a o rest unk slots)) =
    if chg (so g o (p ++ [opts_tag k])) || chg (strip_slots (strip_elem so ku g) p slots (schema k))
    then Elem k (fresh g a) (res (so g o (p ++ [opts_tag k]))) rest (if ku then unk else [])
              (res (strip_slots (strip_elem so ku g) p slots (schema k)))
    else Elem k a o rest unk slots.
  Proof. intros. rewrite strip_elem_eq. reflexivity. Qed.
End WalkEq.

(* ---------------------------------------------------------------- stripOptionsFromAll and the slot loop, generically *)
Ltac fa_inv H := inversion H; subst; clear H.

Section ListLemmas.
  Variables f f' : path -> elem -> elem * bool * list path.

  (* an unchanged flag means: same list, no path *)
  Lemma all_unchanged : forall l pt i,
    Forall (fun x => forall q, chg (f q x) = false -> res (f q x) = x /\ rem (f q x) = []) l ->
    chg (strip_all f pt l i) = false ->
    res (strip_all f pt l i) = l /\ rem (strip_all f pt l i) = [].
  Proof.
    induction l as [|x tl IH]; intros pt i HF Hc.
    - split; reflexivity.
    - fa_inv HF. rewrite strip_all_cons in *. unfold res, chg, rem in Hc |- *. cbn [fst snd] in *.
      apply orb_false_iff in Hc. destruct Hc as [Hc1 Hc2].
      destruct (H1 (pt ++ [i]) Hc1) as [E1 E2].
      destruct (IH pt (i + 1) H2 Hc2) as [E3 E4].
      unfold res, rem in *. rewrite E1, E2, E3, E4. split; reflexivity.
  Qed.

  Lemma slots_unchanged : forall ss sc p,
    Forall (Forall (fun x => forall q, chg (f q x) = false -> res (f q x) = x /\ rem (f q x) = [])) ss ->
    chg (strip_slots f p ss sc) = false ->
    res (strip_slots f p ss sc) = ss /\ rem (strip_slots f p ss sc) = [].
  Proof.
    induction ss as [|s ss IH]; intros sc p HF Hc.
    - split; reflexivity.
    - destruct sc as [|[t k] sc].
      + split; reflexivity.
      + fa_inv HF. rewrite strip_slots_cons in *. unfold res, chg, rem in Hc |- *. cbn [fst snd] in *.
        apply orb_false_iff in Hc. destruct Hc as [Hc1 Hc2].
        destruct (all_unchanged s (p ++ [t]) 0 H1 Hc1) as [E1 E2].
        destruct (IH sc p H2 Hc2) as [E3 E4].
        unfold res, rem in *. rewrite E1, E2, E3, E4. split; reflexivity.
  Qed.

  (* the flag does not depend on generation and path *)
  Lemma all_flag : forall l pt i pt' i',
    Forall (fun x => forall q q', chg (f q x) = chg (f' q' x)) l ->
    chg (strip_all f pt l i) = chg (strip_all f' pt' l i').
  Proof.
    induction l as [|x tl IH]; intros pt i pt' i' HF.
    - reflexivity.
    - fa_inv HF. rewrite !strip_all_cons. unfold chg at 1 4. cbn [fst snd].
      rewrite (H1 (pt ++ [i]) (pt' ++ [i'])), (IH pt (i + 1) pt' (i' + 1) H2). reflexivity.
  Qed.

  Lemma slots_flag : forall ss sc p p',
    Forall (Forall (fun x => forall q q', chg (f q x) = chg (f' q' x))) ss ->
    chg (strip_slots f p ss sc) = chg (strip_slots f' p' ss sc).
  Proof.
    induction ss as [|s ss IH]; intros sc p p' HF.
    - reflexivity.
    - destruct sc as [|[t k] sc].
      + reflexivity.
      + fa_inv HF. rewrite !strip_slots_cons. unfold chg at 1 4. cbn [fst snd].
        rewrite (all_flag s (p ++ [t]) 0 (p' ++ [t]) 0 H1), (IH sc p p' H2). reflexivity.
  Qed.

  (* a second pass over the result changes nothing *)
  Lemma all_idem : forall l pt i pt' i',
    Forall (fun x => forall q q', chg (f' q' (res (f q x))) = false) l ->
    chg (strip_all f' pt' (res (strip_all f pt l i)) i') = false.
  Proof.
    induction l as [|x tl IH]; intros pt i pt' i' HF.
    - reflexivity.
    - fa_inv HF. rewrite strip_all_cons. unfold res at 1. cbn [fst snd].
      rewrite strip_all_cons. unfold chg at 1. cbn [fst snd].
      rewrite H1, (IH pt (i + 1) pt' (i' + 1) H2). reflexivity.
  Qed.

  Lemma slots_idem : forall ss sc p p',
    Forall (Forall (fun x => forall q q', chg (f' q' (res (f q x))) = false)) ss ->
    chg (strip_slots f' p' (res (strip_slots f p ss sc)) sc) = false.
  Proof.
    induction ss as [|s ss IH]; intros sc p p' HF.
    - reflexivity.
    - destruct sc as [|[t k] sc].
      + reflexivity.
      + fa_inv HF. rewrite strip_slots_cons. unfold res at 1. cbn [fst snd].
        rewrite strip_slots_cons. unfold chg at 1. cbn [fst snd].
        rewrite (all_idem s (p ++ [t]) 0 (p' ++ [t]) 0 H1), (IH sc p p' H2). reflexivity.
  Qed.

  (* objects of the result that live below g are objects of the input *)
  Lemma all_pure : forall g o l pt i,
    Forall (fun x => forall q, In o (elem_objs (res (f q x))) -> obj_addr o < g -> In o (elem_objs x)) l ->
    In o (flat_map elem_objs (res (strip_all f pt l i))) -> obj_addr o < g -> In o (flat_map elem_objs l).
  Proof.
    induction l as [|x tl IH]; intros pt i HF HI Hlt.
    - exact HI.
    - fa_inv HF. rewrite strip_all_cons in HI. unfold res at 1 in HI. cbn [fst snd flat_map] in HI |- *.
      apply in_app_iff in HI. apply in_app_iff. destruct HI as [HI|HI].
      + left. eapply H1; eassumption.
      + right. eapply IH; eassumption.
  Qed.

  Lemma slots_pure : forall g o ss sc p,
    Forall (Forall (fun x => forall q, In o (elem_objs (res (f q x))) -> obj_addr o < g -> In o (elem_objs x))) ss ->
    In o (flat_map (flat_map elem_objs) (res (strip_slots f p ss sc))) -> obj_addr o < g ->
    In o (flat_map (flat_map elem_objs) ss).
  Proof.
    induction ss as [|s ss IH]; intros sc p HF HI Hlt.
    - exact HI.
    - destruct sc as [|[t k] sc].
      + exact HI.
      + fa_inv HF. rewrite strip_slots_cons in HI. unfold res at 1 in HI. cbn [fst snd flat_map] in HI |- *.
        apply in_app_iff in HI. apply in_app_iff. destruct HI as [HI|HI].
        * left. eapply all_pure; eassumption.
        * right. eapply IH; eassumption.
  Qed.

  (* pruning *)
  Lemma all_prune : forall ok l pt i,
    Forall (fun x => forall q, ok x = true -> prune_elem (res (f q x)) = prune_elem x) l ->
    forallb ok l = true ->
    map prune_elem (res (strip_all f pt l i)) = map prune_elem l.
  Proof.
    induction l as [|x tl IH]; intros pt i HF Hok.
    - reflexivity.
    - fa_inv HF. cbn [forallb] in Hok. apply andb_true_iff in Hok. destruct Hok as [Hx Htl].
      rewrite strip_all_cons. unfold res at 1. cbn [fst snd map].
      rewrite (H1 _ Hx), (IH _ _ H2 Htl). reflexivity.
  Qed.

  Lemma slots_prune : forall ok ss sc p,
    Forall (Forall (fun x => forall q, ok x = true -> prune_elem (res (f q x)) = prune_elem x)) ss ->
    forallb (forallb ok) ss = true ->
    map (map prune_elem) (res (strip_slots f p ss sc)) = map (map prune_elem) ss.
  Proof.
    induction ss as [|s ss IH]; intros sc p HF Hok.
    - reflexivity.
    - destruct sc as [|[t k] sc].
      + reflexivity.
      + fa_inv HF. cbn [forallb] in Hok. apply andb_true_iff in Hok. destruct Hok as [Hs Hss].
        rewrite strip_slots_cons. unfold res at 1. cbn [fst snd map].
        rewrite (all_prune ok s _ _ H1 Hs), (IH _ _ H2 Hss). reflexivity.
  Qed.

  (* which results still hold a source-retention field *)
  Lemma all_has_source : forall ens l pt i,
    Forall (fun x => forall q, wf_elem x = true -> elem_has_source (res (f q x)) = negb (ens x)) l ->
    forallb wf_elem l = true ->
    existsb elem_has_source (res (strip_all f pt l i)) = negb (forallb ens l).
  Proof.
    induction l as [|x tl IH]; intros pt i HF Hwf.
    - reflexivity.
    - fa_inv HF. cbn [forallb] in Hwf. apply andb_true_iff in Hwf. destruct Hwf as [Hx Htl].
      rewrite strip_all_cons. unfold res at 1. cbn [fst snd existsb forallb].
      rewrite (H1 _ Hx), (IH _ _ H2 Htl), negb_andb. reflexivity.
  Qed.

  Lemma slots_has_source : forall ens ss sc p,
    Forall (Forall (fun x => forall q, wf_elem x = true -> elem_has_source (res (f q x)) = negb (ens x))) ss ->
    forallb (forallb wf_elem) ss = true -> length ss = length sc ->
    existsb (existsb elem_has_source) (res (strip_slots f p ss sc)) = negb (forallb (forallb ens) ss).
  Proof.
    induction ss as [|s ss IH]; intros sc p HF Hwf Hlen.
    - reflexivity.
    - destruct sc as [|[t k] sc].
      + discriminate Hlen.
      + fa_inv HF. cbn [forallb] in Hwf. apply andb_true_iff in Hwf. destruct Hwf as [Hs Hss].
        cbn [length] in Hlen. injection Hlen as Hlen.
        rewrite strip_slots_cons. unfold res at 1. cbn [fst snd existsb forallb].
        rewrite (all_has_source ens s _ _ H1 Hs), (IH _ _ H2 Hss Hlen), negb_andb. reflexivity.
  Qed.

  (* the paths *)
  Lemma all_removed : forall rp l pt i,
    Forall (fun x => forall q, rem (f q x) = rp q x) l ->
    rem (strip_all f pt l i) = removed_all rp pt l i.
  Proof.
    induction l as [|x tl IH]; intros pt i HF.
    - reflexivity.
    - fa_inv HF. rewrite strip_all_cons. unfold rem at 1. cbn [fst snd removed_all].
      rewrite H1, (IH _ _ H2). reflexivity.
  Qed.

  Lemma slots_removed : forall rp ss sc p,
    Forall (Forall (fun x => forall q, rem (f q x) = rp q x)) ss ->
    rem (strip_slots f p ss sc) = removed_slots rp p ss sc.
  Proof.
    induction ss as [|s ss IH]; intros sc p HF.
    - reflexivity.
    - destruct sc as [|[t k] sc].
      + reflexivity.
      + fa_inv HF. rewrite strip_slots_cons. unfold rem at 1. cbn [fst snd removed_slots].
        rewrite (all_removed rp s _ _ H1), (IH _ _ H2). reflexivity.
  Qed.
End ListLemmas.

Lemma Forall_Forall_all : forall {A} (P : A -> Prop) (ss : list (list A)), (forall x, P x) -> Forall (Forall P) ss.
Proof.
  intros A P ss H. apply Forall_forall. intros s _. apply Forall_forall. intros x _. apply H.
Qed.

Lemma Forall_Forall_impl : forall {A} (P Q : A -> Prop) (ss : list (list A)),
  (forall x, P x -> Q x) -> Forall (Forall P) ss -> Forall (Forall Q) ss.
Proof.
  intros A P Q ss H HF. eapply Forall_impl; [|exact HF]. intros s Hs. eapply Forall_impl; [|exact Hs]. exact H.
Qed.

(* ---------------------------------------------------------------- the walk, for any options stripper with these properties *)
Section WalkProofs.
  Variable so : N -> option omsg -> path -> option omsg * bool * list path.
  Variable ku : bool.
  Variable Gd : option omsg -> bool.      (* guard under which so preserves what is not source *)
  Variable NS : option omsg -> bool.      (* exactly when the result of so is free of source fields *)
  Variable RS : path -> option omsg -> list path.   (* the paths so reports *)

  Hypothesis so_unch : forall g o p, chg (so g o p) = false -> res (so g o p) = o /\ rem (so g o p) = [].
  Hypothesis so_flag : forall g p g' p' o, chg (so g o p) = chg (so g' o p').
  Hypothesis so_idem : forall g p g' p' o, chg (so g' (res (so g o p)) p') = false.
  Hypothesis so_pure : forall g o p x, In x (opts_objs (res (so g o p))) -> obj_addr x < g -> In x (opts_objs o).
  Hypothesis so_prune : forall g o p, Gd o = true -> prune_opts (res (so g o p)) = prune_opts o.
  Hypothesis so_ns : forall g o p, opts_has_source (res (so g o p)) = negb (NS o).
  Hypothesis so_rem : forall g o p, rem (so g o p) = RS p o.

  Let se := strip_elem so ku.

  Lemma elem_unchanged : forall e g p, chg (se g p e) = false -> res (se g p e) = e /\ rem (se g p e) = [].
  Proof.
    induction e as [k a o rest unk slots IH] using elem_ind'. intros g p Hc.
    unfold se in *. rewrite res_strip_elem, rem_strip_elem. rewrite chg_strip_elem in Hc.
    rewrite Hc. split; [reflexivity|].
    apply orb_false_iff in Hc. destruct Hc as [Hc1 Hc2].
    destruct (so_unch _ _ _ Hc1) as [_ E2]. rewrite E2.
    assert (HF : Forall (Forall (fun x => forall q, chg (strip_elem so ku g q x) = false ->
                                res (strip_elem so ku g q x) = x /\ rem (strip_elem so ku g q x) = [])) slots).
    { eapply Forall_Forall_impl; [|exact IH]. intros x Hx q. apply Hx. }
    destruct (slots_unchanged _ slots (schema k) p HF Hc2) as [_ E4]. rewrite E4. reflexivity.
  Qed.

  Lemma elem_flag : forall e g p g' p', chg (se g p e) = chg (se g' p' e).
  Proof.
    induction e as [k a o rest unk slots IH] using elem_ind'. intros g p g' p'.
    unfold se in *. rewrite !chg_strip_elem.
    rewrite (so_flag g (p ++ [opts_tag k]) g' (p' ++ [opts_tag k]) o).
    rewrite (slots_flag (strip_elem so ku g) (strip_elem so ku g') slots (schema k) p p').
    - reflexivity.
    - eapply Forall_Forall_impl; [|exact IH]. intros x Hx q q'. apply Hx.
  Qed.

  (* both results are built from the stripped options and the stripped children, dirty or not *)
  Lemma elem_parts : forall g p k a o rest unk slots,
    exists a' unk',
      res (se g p (Elem k a o rest unk slots)) =
      Elem k a' (res (so g o (p ++ [opts_tag k]))) rest unk' (res (strip_slots (se g) p slots (schema k)))
      /\ (unk' = unk \/ (ku = false /\ unk' = [])).
  Proof.
    intros. unfold se. rewrite res_strip_elem.
    destruct (chg (so g o (p ++ [opts_tag k])) || chg (strip_slots (strip_elem so ku g) p slots (schema k))) eqn:D.
    - exists (fresh g a), (if ku then unk else []). split; [reflexivity|].
      destruct ku; [left; reflexivity | right; split; reflexivity].
    - apply orb_false_iff in D. destruct D as [D1 D2].
      destruct (so_unch _ _ _ D1) as [E1 _].
      assert (HF : Forall (Forall (fun x => forall q, chg (strip_elem so ku g q x) = false ->
                                  res (strip_elem so ku g q x) = x /\ rem (strip_elem so ku g q x) = [])) slots).
      { apply Forall_Forall_all. intros x q. apply (elem_unchanged x g q). }
      destruct (slots_unchanged _ slots (schema k) p HF D2) as [E3 _].
      exists a, unk. rewrite E1, E3. split; [reflexivity | left; reflexivity].
  Qed.

  Lemma elem_idem : forall e g p g' p', chg (se g' p' (res (se g p e))) = false.
  Proof.
    induction e as [k a o rest unk slots IH] using elem_ind'. intros g p g' p'.
    destruct (chg (se g p (Elem k a o rest unk slots))) eqn:D.
    - unfold se in *. rewrite res_strip_elem. rewrite chg_strip_elem in D. rewrite D.
      rewrite chg_strip_elem. rewrite so_idem.
      rewrite (slots_idem (strip_elem so ku g) (strip_elem so ku g') slots (schema k) p p').
      + reflexivity.
      + eapply Forall_Forall_impl; [|exact IH]. intros x Hx q q'. apply Hx.
    - destruct (elem_unchanged _ _ _ D) as [E _]. rewrite E.
      rewrite (elem_flag _ g' p' g p). exact D.
  Qed.

  Lemma elem_pure : forall e g p x, In x (elem_objs (res (se g p e))) -> obj_addr x < g -> In x (elem_objs e).
  Proof.
    induction e as [k a o rest unk slots IH] using elem_ind'. intros g p x HI Hlt.
    unfold se in *. rewrite res_strip_elem in HI.
    destruct (chg (so g o (p ++ [opts_tag k])) || chg (strip_slots (strip_elem so ku g) p slots (schema k))).
    - cbn [elem_objs] in HI |- *. destruct HI as [HI|HI].
      + subst x. cbn [obj_addr] in Hlt. unfold fresh in Hlt. lia.
      + right. apply in_app_iff in HI. apply in_app_iff. destruct HI as [HI|HI].
        * left. eapply so_pure; eassumption.
        * right. eapply slots_pure; [|exact HI|exact Hlt].
          eapply Forall_Forall_impl; [|exact IH]. intros y Hy q. apply Hy.
    - exact HI.
  Qed.

  Definition elem_guard := elem_all (fun o unk => Gd o && (ku || is_nil unk)).

  Lemma elem_prune : forall e g p, elem_guard e = true -> prune_elem (res (se g p e)) = prune_elem e.
  Proof.
    induction e as [k a o rest unk slots IH] using elem_ind'. intros g p Hg.
    unfold elem_guard in Hg. cbn [elem_all] in Hg. apply andb_true_iff in Hg. destruct Hg as [Hg Hch].
    apply andb_true_iff in Hg. destruct Hg as [HGd Hunk].
    destruct (elem_parts g p k a o rest unk slots) as [a' [unk' [E Hu]]]. rewrite E.
    cbn [prune_elem]. rewrite (so_prune _ _ _ HGd).
    rewrite (slots_prune (se g) elem_guard slots (schema k) p).
    - destruct Hu as [Hu|[Hk Hu]]; subst unk'; [reflexivity|].
      subst ku. cbn [orb] in Hunk. destruct unk; [reflexivity | discriminate Hunk].
    - eapply Forall_Forall_impl; [|exact IH]. intros y Hy q. apply Hy.
    - exact Hch.
  Qed.

  Lemma elem_ns : forall e g p, wf_elem e = true ->
    elem_has_source (res (se g p e)) = negb (elem_all (fun o _ => NS o) e).
  Proof.
    induction e as [k a o rest unk slots IH] using elem_ind'. intros g p Hwf.
    cbn [wf_elem] in Hwf. apply andb_true_iff in Hwf. destruct Hwf as [Hlen Hwf].
    apply Nat.eqb_eq in Hlen.
    destruct (elem_parts g p k a o rest unk slots) as [a' [unk' [E _]]]. rewrite E.
    cbn [elem_has_source elem_all]. rewrite so_ns.
    rewrite (slots_has_source (se g) (elem_all (fun o _ => NS o)) slots (schema k) p).
    - rewrite negb_andb. reflexivity.
    - eapply Forall_Forall_impl; [|exact IH]. intros y Hy q. apply Hy.
    - exact Hwf.
    - exact Hlen.
  Qed.

  Lemma elem_removed : forall e g p, rem (se g p e) = removed_elem RS p e.
  Proof.
    induction e as [k a o rest unk slots IH] using elem_ind'. intros g p.
    unfold se in *. rewrite rem_strip_elem. cbn [removed_elem].
    rewrite so_rem.
    rewrite (slots_removed (strip_elem so ku g) (removed_elem RS) slots (schema k) p).
    - reflexivity.
    - eapply Forall_Forall_impl; [|exact IH]. intros y Hy q. apply Hy.
  Qed.

  (* ---- the file ---- *)
  Let sf := strip_file so ku.

  Lemma file_idem : forall g g' f, sf g' (fst (sf g f)) = (fst (sf g f), false).
  Proof.
    intros g g' f. unfold sf, strip_file.
    rewrite (triple_eta (strip_elem so ku g [] (f_root f))).
    destruct (chg (strip_elem so ku g [] (f_root f))) eqn:D; cbn [fst f_root].
    - pose proof (elem_idem (f_root f) g [] g' []) as H. unfold se in H.
      destruct (elem_unchanged _ _ _ H) as [E1 E2]. unfold se in E1, E2.
      rewrite (triple_eta (strip_elem so ku g' [] _)). rewrite H. reflexivity.
    - rewrite (triple_eta (strip_elem so ku g' [] (f_root f))).
      pose proof (elem_flag (f_root f) g' [] g []) as H. unfold se in H. rewrite H, D. reflexivity.
  Qed.

  Lemma file_pure : forall g f x, In x (file_objs (fst (sf g f))) -> obj_addr x < g -> In x (file_objs f).
  Proof.
    intros g f x HI Hlt. unfold sf, strip_file in HI.
    rewrite (triple_eta (strip_elem so ku g [] (f_root f))) in HI.
    destruct (chg (strip_elem so ku g [] (f_root f))); cbn [fst] in HI; [|exact HI].
    unfold file_objs in HI |- *. cbn [f_root f_sci] in HI.
    apply in_app_iff in HI. apply in_app_iff. destruct HI as [HI|HI].
    - left. eapply elem_pure; eassumption.
    - right. destruct (f_sci f) as [[a locs]|]; cbn [strip_sci] in HI; [|exact HI].
      destruct locs as [|l locs]; [exact HI|].
      cbn [In] in HI. destruct HI as [HI|[]]. subst x. cbn [obj_addr] in Hlt. unfold fresh in Hlt. lia.
  Qed.

  Lemma file_prune : forall g f, elem_guard (f_root f) = true ->
    prune_elem (f_root (fst (sf g f))) = prune_elem (f_root f).
  Proof.
    intros g f Hg. unfold sf, strip_file.
    rewrite (triple_eta (strip_elem so ku g [] (f_root f))).
    destruct (chg (strip_elem so ku g [] (f_root f))); cbn [fst f_root]; [|reflexivity].
    apply (elem_prune _ g [] Hg).
  Qed.

  Lemma file_root : forall g f, f_root (fst (sf g f)) = res (se g [] (f_root f)).
  Proof.
    intros g f. unfold sf, strip_file, se.
    rewrite (triple_eta (strip_elem so ku g [] (f_root f))).
    destruct (chg (strip_elem so ku g [] (f_root f))) eqn:D; cbn [fst f_root]; [reflexivity|].
    symmetry. apply (elem_unchanged _ _ _ D).
  Qed.

  Lemma file_ns : forall g f, wf_elem (f_root f) = true ->
    elem_has_source (f_root (fst (sf g f))) = negb (elem_all (fun o _ => NS o) (f_root f)).
  Proof. intros g f Hwf. rewrite file_root. apply elem_ns. exact Hwf. Qed.

  (* source code info: the locations under a removed option path go, nothing else *)
  Lemma file_locations : forall g f,
    let qs := removed_elem RS [] (f_root f) in
    match f_sci f with
    | Some (a, l :: locs) =>
      if snd (sf g f)
      then f_sci (fst (sf g f)) = Some (fresh g a, filter (fun l => negb (under_any qs (fst l))) (l :: locs))
      else fst (sf g f) = f
    | other => f_sci (fst (sf g f)) = other
    end.
  Proof.
    intros g f qs. unfold sf, strip_file.
    rewrite (triple_eta (strip_elem so ku g [] (f_root f))).
    pose proof (elem_removed (f_root f) g []) as HR. unfold se in HR. rewrite HR. fold qs.
    destruct (f_sci f) as [[a [|l locs]]|] eqn:ES;
      destruct (chg (strip_elem so ku g [] (f_root f))); cbn [fst snd f_sci strip_sci]; try reflexivity;
      try (rewrite ES; reflexivity).
    f_equal. f_equal. apply filter_ext. intros l0. rewrite trie_is_prefix_set_lemma. reflexivity.
  Qed.
End WalkProofs.
