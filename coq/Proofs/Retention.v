(* Proofs about Model/Retention.v (property C22). *)
From Coq Require Import List NArith Bool Lia PeanoNat.
From PV Require Import Model.Retention.
Import ListNotations.
Open Scope N_scope.

(* ---------------------------------------------------------------- induction principles *)
Section OvalInd.
  Variable P : oval -> Prop.
  Hypothesis HS : forall p, P (VScalar p).
  Hypothesis HM : forall a fs unk, Forall (fun f => P (snd f)) fs -> P (VMsg a fs unk).
  Hypothesis HL : forall items, Forall P items -> P (VList items).
  Fixpoint oval_ind' (v : oval) : P v :=
    match v with
    | VScalar p => HS p
    | VMsg a fs unk =>
      HM a fs unk ((fix go (l : list (N * ret * oval)) : Forall (fun f => P (snd f)) l :=
                      match l with
                      | [] => Forall_nil _
                      | f :: tl => Forall_cons f (oval_ind' (snd f)) (go tl)
                      end) fs)
    | VList items =>
      HL items ((fix go (l : list oval) : Forall P l :=
                   match l with
                   | [] => Forall_nil _
                   | w :: tl => Forall_cons w (oval_ind' w) (go tl)
                   end) items)
    end.
End OvalInd.

Section ElemInd.
  Variable P : elem -> Prop.
  Hypothesis HE : forall k a o rest unk slots, Forall (Forall P) slots -> P (Elem k a o rest unk slots).
  Fixpoint elem_ind' (e : elem) : P e :=
    match e with
    | Elem k a o rest unk slots =>
      HE k a o rest unk slots
         ((fix go (ss : list (list elem)) : Forall (Forall P) ss :=
             match ss with
             | [] => Forall_nil _
             | s :: tl =>
               Forall_cons s ((fix go1 (l : list elem) : Forall P l :=
                                 match l with
                                 | [] => Forall_nil _
                                 | x :: m => Forall_cons x (elem_ind' x) (go1 m)
                                 end) s) (go tl)
             end) slots)
    end.
End ElemInd.

(* ---------------------------------------------------------------- the trie is a set of prefixes *)
Lemma is_removed_empty : forall p, is_removed p trie_empty = false.
Proof. destruct p; reflexivity. Qed.

Lemma is_removed_marked : forall p ch, is_removed p (Trie true ch) = true.
Proof. destruct p; reflexivity. Qed.

Lemma find_upd_child : forall f x y ch,
  find_child y (upd_child f x ch) =
  if x =? y then Some (f (match find_child x ch with Some c => c | None => trie_empty end))
  else find_child y ch.
Proof.
  intros f x y ch. induction ch as [|[z c] tl IH]; cbn [upd_child find_child].
  - rewrite (N.eqb_sym y x). destruct (x =? y); reflexivity.
  - destruct (x =? z) eqn:Exz; cbn [find_child].
    + apply N.eqb_eq in Exz. subst z.
      rewrite (N.eqb_sym y x). destruct (x =? y); reflexivity.
    + rewrite IH. destruct (x =? y) eqn:Exy.
      * apply N.eqb_eq in Exy. subst y. rewrite Exz. reflexivity.
      * reflexivity.
Qed.

Lemma is_removed_add : forall q p t, is_removed p (add_path q t) = is_removed p t || is_prefix q p.
Proof.
  induction q as [|x r IH]; intros p t; destruct t as [rm ch]; cbn [add_path is_prefix].
  - rewrite is_removed_marked. rewrite orb_true_r. reflexivity.
  - destruct rm.
    + rewrite !is_removed_marked. reflexivity.
    + destruct p as [|y p']; cbn [is_removed].
      * reflexivity.
      * rewrite find_upd_child. destruct (x =? y) eqn:Exy.
        -- apply N.eqb_eq in Exy. subst y. rewrite IH.
           destruct (find_child x ch) as [c|]; cbn [andb].
           ++ reflexivity.
           ++ rewrite is_removed_empty. reflexivity.
        -- cbn [andb]. rewrite orb_false_r. reflexivity.
Qed.

Lemma is_removed_fold : forall qs p t,
  is_removed p (fold_left (fun t q => add_path q t) qs t) = is_removed p t || under_any qs p.
Proof.
  induction qs as [|q qs IH]; intros p t; cbn [fold_left under_any existsb].
  - rewrite orb_false_r. reflexivity.
  - rewrite IH, is_removed_add. unfold under_any. rewrite orb_assoc. reflexivity.
Qed.

Lemma trie_is_prefix_set_lemma : forall qs p, is_removed p (trie_of qs) = under_any qs p.
Proof. intros. unfold trie_of. rewrite is_removed_fold, is_removed_empty. reflexivity. Qed.

(* ---------------------------------------------------------------- projections of the walk *)
Definition res {A B C} (x : A * B * C) : A := fst (fst x).
Definition chg {A B C} (x : A * B * C) : B := snd (fst x).
Definition rem {A B C} (x : A * B * C) : C := snd x.

Lemma triple_eta : forall {A B C} (x : A * B * C), x = (res x, chg x, rem x).
Proof. intros A B C [[a b] c]. reflexivity. Qed.

Section AllSlotsEq.
  Variable f : path -> elem -> elem * bool * list path.

  Lemma strip_all_cons : forall pt x tl i,
    strip_all f pt (x :: tl) i =
    (res (f (pt ++ [i]) x) :: res (strip_all f pt tl (i + 1)),
     chg (f (pt ++ [i]) x) || chg (strip_all f pt tl (i + 1)),
     rem (f (pt ++ [i]) x) ++ rem (strip_all f pt tl (i + 1))).
  Proof.
    intros. cbn [strip_all].
    destruct (f (pt ++ [i]) x) as [[x' cx] rx].
    destruct (strip_all f pt tl (i + 1)) as [[tl' ct] rt]. reflexivity.
  Qed.

  Lemma strip_slots_cons : forall p s ss t k sc,
    strip_slots f p (s :: ss) ((t, k) :: sc) =
    (res (strip_all f (p ++ [t]) s 0) :: res (strip_slots f p ss sc),
     chg (strip_all f (p ++ [t]) s 0) || chg (strip_slots f p ss sc),
     rem (strip_all f (p ++ [t]) s 0) ++ rem (strip_slots f p ss sc)).
  Proof.
    intros. cbn [strip_slots].
    destruct (strip_all f (p ++ [t]) s 0) as [[s' c1] r1].
    destruct (strip_slots f p ss sc) as [[ss' c2] r2]. reflexivity.
  Qed.

  Lemma strip_slots_stop : forall p ss sc,
    ss = [] \/ sc = [] -> strip_slots f p ss sc = (ss, false, []).
  Proof.
    intros p ss sc [H|H]; subst.
    - reflexivity.
    - destruct ss; reflexivity.
  Qed.
End AllSlotsEq.

Section WalkEq.
  Variable so : N -> option omsg -> path -> option omsg * bool * list path.
  Variable ku : bool.

  Lemma strip_elem_eq : forall g p k a o rest unk slots,
    strip_elem so ku g p (Elem k a o rest unk slots) =
    let so' := so g o (p ++ [opts_tag k]) in
    let sl' := strip_slots (strip_elem so ku g) p slots (schema k) in
    (if chg so' || chg sl'
     then Elem k (fresh g a) (res so') rest (if ku then unk else []) (res sl')
     else Elem k a o rest unk slots,
     chg so' || chg sl', rem so' ++ rem sl').
  Proof.
    intros. cbn [strip_elem].
    destruct (so g o (p ++ [opts_tag k])) as [[o' och] orem].
    destruct (strip_slots (strip_elem so ku g) p slots (schema k)) as [[sl sch] srem].
    reflexivity.
  Qed.

  Lemma chg_strip_elem : forall g p k a o rest unk slots,
    chg (strip_elem so ku g p (Elem k a o rest unk slots)) =
    chg (so g o (p ++ [opts_tag k])) || chg (strip_slots (strip_elem so ku g) p slots (schema k)).
  Proof. intros. rewrite strip_elem_eq. reflexivity. Qed.

  Lemma rem_strip_elem : forall g p k a o rest unk slots,
    rem (strip_elem so ku g p (Elem k a o rest unk slots)) =
    rem (so g o (p ++ [opts_tag k])) ++ rem (strip_slots (strip_elem so ku g) p slots (schema k)).
  Proof. intros. rewrite strip_elem_eq. reflexivity. Qed.

  Lemma res_strip_elem : forall g p k a o rest unk slots,
    res (strip_elem so ku g p (Elem k a o rest unk slots)) =
    if chg (so g o (p ++ [opts_tag k])) || chg (strip_slots (strip_elem so ku g) p slots (schema k))
    then Elem k (fresh g a) (res (so g o (p ++ [opts_tag k]))) rest (if ku then unk else [])
              (res (strip_slots (strip_elem so ku g) p slots (schema k)))
    else Elem k a o rest unk slots.
  Proof. intros. rewrite strip_elem_eq. reflexivity. Qed.
End WalkEq.

(* ---------------------------------------------------------------- stripOptionsFromAll and the slot loop, generically *)
Ltac fa_inv H := inversion H; subst; clear H.

Section ListLemmas.
  Variables f f' : path -> elem -> elem * bool * list path.

  (* an unchanged flag means: same list, no path *)
  Lemma all_unchanged : forall l pt i,
    Forall (fun x => forall q, chg (f q x) = false -> res (f q x) = x /\ rem (f q x) = []) l ->
    chg (strip_all f pt l i) = false ->
    res (strip_all f pt l i) = l /\ rem (strip_all f pt l i) = [].
  Proof.
    induction l as [|x tl IH]; intros pt i HF Hc.
    - split; reflexivity.
    - fa_inv HF. rewrite strip_all_cons in *. unfold res, chg, rem in Hc |- *. cbn [fst snd] in *.
      apply orb_false_iff in Hc. destruct Hc as [Hc1 Hc2].
      destruct (H1 (pt ++ [i]) Hc1) as [E1 E2].
      destruct (IH pt (i + 1) H2 Hc2) as [E3 E4].
      unfold res, rem in *. rewrite E1, E2, E3, E4. split; reflexivity.
  Qed.

  Lemma slots_unchanged : forall ss sc p,
    Forall (Forall (fun x => forall q, chg (f q x) = false -> res (f q x) = x /\ rem (f q x) = [])) ss ->
    chg (strip_slots f p ss sc) = false ->
    res (strip_slots f p ss sc) = ss /\ rem (strip_slots f p ss sc) = [].
  Proof.
    induction ss as [|s ss IH]; intros sc p HF Hc.
    - split; reflexivity.
    - destruct sc as [|[t k] sc].
      + split; reflexivity.
      + fa_inv HF. rewrite strip_slots_cons in *. unfold res, chg, rem in Hc |- *. cbn [fst snd] in *.
        apply orb_false_iff in Hc. destruct Hc as [Hc1 Hc2].
        destruct (all_unchanged s (p ++ [t]) 0 H1 Hc1) as [E1 E2].
        destruct (IH sc p H2 Hc2) as [E3 E4].
        unfold res, rem in *. rewrite E1, E2, E3, E4. split; reflexivity.
  Qed.

  (* the flag does not depend on generation and path *)
  Lemma all_flag : forall l pt i pt' i',
    Forall (fun x => forall q q', chg (f q x) = chg (f' q' x)) l ->
    chg (strip_all f pt l i) = chg (strip_all f' pt' l i').
  Proof.
    induction l as [|x tl IH]; intros pt i pt' i' HF.
    - reflexivity.
    - fa_inv HF. rewrite !strip_all_cons. unfold chg at 1 4. cbn [fst snd].
      rewrite (H1 (pt ++ [i]) (pt' ++ [i'])), (IH pt (i + 1) pt' (i' + 1) H2). reflexivity.
  Qed.

  Lemma slots_flag : forall ss sc p p',
    Forall (Forall (fun x => forall q q', chg (f q x) = chg (f' q' x))) ss ->
    chg (strip_slots f p ss sc) = chg (strip_slots f' p' ss sc).
  Proof.
    induction ss as [|s ss IH]; intros sc p p' HF.
    - reflexivity.
    - destruct sc as [|[t k] sc].
      + reflexivity.
      + fa_inv HF. rewrite !strip_slots_cons. unfold chg at 1 4. cbn [fst snd].
        rewrite (all_flag s (p ++ [t]) 0 (p' ++ [t]) 0 H1), (IH sc p p' H2). reflexivity.
  Qed.

  (* a second pass over the result changes nothing *)
  Lemma all_idem : forall l pt i pt' i',
    Forall (fun x => forall q q', chg (f' q' (res (f q x))) = false) l ->
    chg (strip_all f' pt' (res (strip_all f pt l i)) i') = false.
  Proof.
    induction l as [|x tl IH]; intros pt i pt' i' HF.
    - reflexivity.
    - fa_inv HF. rewrite strip_all_cons. unfold res at 1. cbn [fst snd].
      rewrite strip_all_cons. unfold chg at 1. cbn [fst snd].
      rewrite H1, (IH pt (i + 1) pt' (i' + 1) H2). reflexivity.
  Qed.

  Lemma slots_idem : forall ss sc p p',
    Forall (Forall (fun x => forall q q', chg (f' q' (res (f q x))) = false)) ss ->
    chg (strip_slots f' p' (res (strip_slots f p ss sc)) sc) = false.
  Proof.
    induction ss as [|s ss IH]; intros sc p p' HF.
    - reflexivity.
    - destruct sc as [|[t k] sc].
      + reflexivity.
      + fa_inv HF. rewrite strip_slots_cons. unfold res at 1. cbn [fst snd].
        rewrite strip_slots_cons. unfold chg at 1. cbn [fst snd].
        rewrite (all_idem s (p ++ [t]) 0 (p' ++ [t]) 0 H1), (IH sc p p' H2). reflexivity.
  Qed.

  (* objects of the result that live below g are objects of the input *)
  Lemma all_pure : forall g o l pt i,
    Forall (fun x => forall q, In o (elem_objs (res (f q x))) -> obj_addr o < g -> In o (elem_objs x)) l ->
    In o (flat_map elem_objs (res (strip_all f pt l i))) -> obj_addr o < g -> In o (flat_map elem_objs l).
  Proof.
    induction l as [|x tl IH]; intros pt i HF HI Hlt.
    - exact HI.
    - fa_inv HF. rewrite strip_all_cons in HI. unfold res at 1 in HI. cbn [fst snd flat_map] in HI |- *.
      apply in_app_iff in HI. apply in_app_iff. destruct HI as [HI|HI].
      + left. eapply H1; eassumption.
      + right. eapply IH; eassumption.
  Qed.

  Lemma slots_pure : forall g o ss sc p,
    Forall (Forall (fun x => forall q, In o (elem_objs (res (f q x))) -> obj_addr o < g -> In o (elem_objs x))) ss ->
    In o (flat_map (flat_map elem_objs) (res (strip_slots f p ss sc))) -> obj_addr o < g ->
    In o (flat_map (flat_map elem_objs) ss).
  Proof.
    induction ss as [|s ss IH]; intros sc p HF HI Hlt.
    - exact HI.
    - destruct sc as [|[t k] sc].
      + exact HI.
      + fa_inv HF. rewrite strip_slots_cons in HI. unfold res at 1 in HI. cbn [fst snd flat_map] in HI |- *.
        apply in_app_iff in HI. apply in_app_iff. destruct HI as [HI|HI].
        * left. eapply all_pure; eassumption.
        * right. eapply IH; eassumption.
  Qed.

  (* pruning *)
  Lemma all_prune : forall ok l pt i,
    Forall (fun x => forall q, ok x = true -> prune_elem (res (f q x)) = prune_elem x) l ->
    forallb ok l = true ->
    map prune_elem (res (strip_all f pt l i)) = map prune_elem l.
  Proof.
    induction l as [|x tl IH]; intros pt i HF Hok.
    - reflexivity.
    - fa_inv HF. cbn [forallb] in Hok. apply andb_true_iff in Hok. destruct Hok as [Hx Htl].
      rewrite strip_all_cons. unfold res at 1. cbn [fst snd map].
      rewrite (H1 _ Hx), (IH _ _ H2 Htl). reflexivity.
  Qed.

  Lemma slots_prune : forall ok ss sc p,
    Forall (Forall (fun x => forall q, ok x = true -> prune_elem (res (f q x)) = prune_elem x)) ss ->
    forallb (forallb ok) ss = true ->
    map (map prune_elem) (res (strip_slots f p ss sc)) = map (map prune_elem) ss.
  Proof.
    induction ss as [|s ss IH]; intros sc p HF Hok.
    - reflexivity.
    - destruct sc as [|[t k] sc].
      + reflexivity.
      + fa_inv HF. cbn [forallb] in Hok. apply andb_true_iff in Hok. destruct Hok as [Hs Hss].
        rewrite strip_slots_cons. unfold res at 1. cbn [fst snd map].
        rewrite (all_prune ok s _ _ H1 Hs), (IH _ _ H2 Hss). reflexivity.
  Qed.

  (* which results still satisfy a predicate on options somewhere *)
  Lemma all_any : forall H ens l pt i,
    Forall (fun x => forall q, wf_elem x = true -> elem_any H (res (f q x)) = negb (ens x)) l ->
    forallb wf_elem l = true ->
    existsb (elem_any H) (res (strip_all f pt l i)) = negb (forallb ens l).
  Proof.
    induction l as [|x tl IH]; intros pt i HF Hwf.
    - reflexivity.
    - fa_inv HF. cbn [forallb] in Hwf. apply andb_true_iff in Hwf. destruct Hwf as [Hx Htl].
      rewrite strip_all_cons. unfold res at 1. cbn [fst snd existsb forallb].
      rewrite (H2 _ Hx), (IH _ _ H3 Htl), negb_andb. reflexivity.
  Qed.

  Lemma slots_any : forall H ens ss sc p,
    Forall (Forall (fun x => forall q, wf_elem x = true -> elem_any H (res (f q x)) = negb (ens x))) ss ->
    forallb (forallb wf_elem) ss = true -> length ss = length sc ->
    existsb (existsb (elem_any H)) (res (strip_slots f p ss sc)) = negb (forallb (forallb ens) ss).
  Proof.
    induction ss as [|s ss IH]; intros sc p HF Hwf Hlen.
    - reflexivity.
    - destruct sc as [|[t k] sc].
      + discriminate Hlen.
      + fa_inv HF. cbn [forallb] in Hwf. apply andb_true_iff in Hwf. destruct Hwf as [Hs Hss].
        cbn [length] in Hlen. injection Hlen as Hlen.
        rewrite strip_slots_cons. unfold res at 1. cbn [fst snd existsb forallb].
        rewrite (all_any H ens s _ _ H2 Hs), (IH _ _ H3 Hss Hlen), negb_andb. reflexivity.
  Qed.

  (* the paths *)
  Lemma all_removed : forall rp l pt i,
    Forall (fun x => forall q, rem (f q x) = rp q x) l ->
    rem (strip_all f pt l i) = removed_all rp pt l i.
  Proof.
    induction l as [|x tl IH]; intros pt i HF.
    - reflexivity.
    - fa_inv HF. rewrite strip_all_cons. unfold rem at 1. cbn [fst snd removed_all].
      rewrite H1, (IH _ _ H2). reflexivity.
  Qed.

  Lemma slots_removed : forall rp ss sc p,
    Forall (Forall (fun x => forall q, rem (f q x) = rp q x)) ss ->
    rem (strip_slots f p ss sc) = removed_slots rp p ss sc.
  Proof.
    induction ss as [|s ss IH]; intros sc p HF.
    - reflexivity.
    - destruct sc as [|[t k] sc].
      + reflexivity.
      + fa_inv HF. rewrite strip_slots_cons. unfold rem at 1. cbn [fst snd removed_slots].
        rewrite (all_removed rp s _ _ H1), (IH _ _ H2). reflexivity.
  Qed.
End ListLemmas.

Lemma Forall_Forall_all : forall {A} (P : A -> Prop) (ss : list (list A)), (forall x, P x) -> Forall (Forall P) ss.
Proof.
  intros A P ss H. apply Forall_forall. intros s _. apply Forall_forall. intros x _. apply H.
Qed.

Lemma Forall_Forall_impl : forall {A} (P Q : A -> Prop) (ss : list (list A)),
  (forall x, P x -> Q x) -> Forall (Forall P) ss -> Forall (Forall Q) ss.
Proof.
  intros A P Q ss H HF. eapply Forall_impl; [|exact HF]. intros s Hs. eapply Forall_impl; [|exact Hs]. exact H.
Qed.

(* ---------------------------------------------------------------- the walk, for any options stripper with these properties *)
Section WalkProofs.
  Variable so : N -> option omsg -> path -> option omsg * bool * list path.
  Variable ku : bool.
  Variable Gd : option omsg -> bool.      (* guard under which so preserves what is not source *)
  Variable HS : option omsg -> bool.      (* a predicate on options, e.g. has a source field *)
  Variable NS : option omsg -> bool.      (* exactly when the result of so does not satisfy HS *)
  Variable RS : path -> option omsg -> list path.   (* the paths so reports *)

  Hypothesis so_unch : forall g o p, chg (so g o p) = false -> res (so g o p) = o /\ rem (so g o p) = [].
  Hypothesis so_flag : forall g p g' p' o, chg (so g o p) = chg (so g' o p').
  Hypothesis so_idem : forall g p g' p' o, chg (so g' (res (so g o p)) p') = false.
  Hypothesis so_pure : forall g o p x, In x (opts_objs (res (so g o p))) -> obj_addr x < g -> In x (opts_objs o).
  Hypothesis so_prune : forall g o p, Gd o = true -> prune_opts (res (so g o p)) = prune_opts o.
  Hypothesis so_ns : forall g o p, HS (res (so g o p)) = negb (NS o).
  Hypothesis so_rem : forall g o p, rem (so g o p) = RS p o.

  Let se := strip_elem so ku.

  Lemma elem_unchanged : forall e g p, chg (se g p e) = false -> res (se g p e) = e /\ rem (se g p e) = [].
  Proof.
    induction e as [k a o rest unk slots IH] using elem_ind'. intros g p Hc.
    unfold se in *. rewrite res_strip_elem, rem_strip_elem. rewrite chg_strip_elem in Hc.
    rewrite Hc. split; [reflexivity|].
    apply orb_false_iff in Hc. destruct Hc as [Hc1 Hc2].
    destruct (so_unch _ _ _ Hc1) as [_ E2]. rewrite E2.
    assert (HF : Forall (Forall (fun x => forall q, chg (strip_elem so ku g q x) = false ->
                                res (strip_elem so ku g q x) = x /\ rem (strip_elem so ku g q x) = [])) slots).
    { eapply Forall_Forall_impl; [|exact IH]. intros x Hx q. apply Hx. }
    destruct (slots_unchanged _ slots (schema k) p HF Hc2) as [_ E4]. rewrite E4. reflexivity.
  Qed.

  Lemma elem_flag : forall e g p g' p', chg (se g p e) = chg (se g' p' e).
  Proof.
    induction e as [k a o rest unk slots IH] using elem_ind'. intros g p g' p'.
    unfold se in *. rewrite !chg_strip_elem.
    rewrite (so_flag g (p ++ [opts_tag k]) g' (p' ++ [opts_tag k]) o).
    rewrite (slots_flag (strip_elem so ku g) (strip_elem so ku g') slots (schema k) p p').
    - reflexivity.
    - eapply Forall_Forall_impl; [|exact IH]. intros x Hx q q'. apply Hx.
  Qed.

  (* both results are built from the stripped options and the stripped children, dirty or not *)
  Lemma elem_parts : forall g p k a o rest unk slots,
    exists a' unk',
      res (se g p (Elem k a o rest unk slots)) =
      Elem k a' (res (so g o (p ++ [opts_tag k]))) rest unk' (res (strip_slots (se g) p slots (schema k)))
      /\ (unk' = unk \/ (ku = false /\ unk' = [])).
  Proof.
    intros. unfold se. rewrite res_strip_elem.
    destruct (chg (so g o (p ++ [opts_tag k])) || chg (strip_slots (strip_elem so ku g) p slots (schema k))) eqn:D.
    - exists (fresh g a), (if ku then unk else []). split; [reflexivity|].
      destruct ku; [left; reflexivity | right; split; reflexivity].
    - apply orb_false_iff in D. destruct D as [D1 D2].
      destruct (so_unch _ _ _ D1) as [E1 _].
      assert (HF : Forall (Forall (fun x => forall q, chg (strip_elem so ku g q x) = false ->
                                  res (strip_elem so ku g q x) = x /\ rem (strip_elem so ku g q x) = [])) slots).
      { apply Forall_Forall_all. intros x q. apply (elem_unchanged x g q). }
      destruct (slots_unchanged _ slots (schema k) p HF D2) as [E3 _].
      exists a, unk. rewrite E1, E3. split; [reflexivity | left; reflexivity].
  Qed.

  Lemma elem_idem : forall e g p g' p', chg (se g' p' (res (se g p e))) = false.
  Proof.
    induction e as [k a o rest unk slots IH] using elem_ind'. intros g p g' p'.
    destruct (chg (se g p (Elem k a o rest unk slots))) eqn:D.
    - unfold se in *. rewrite res_strip_elem. rewrite chg_strip_elem in D. rewrite D.
      rewrite chg_strip_elem. rewrite so_idem.
      rewrite (slots_idem (strip_elem so ku g) (strip_elem so ku g') slots (schema k) p p').
      + reflexivity.
      + eapply Forall_Forall_impl; [|exact IH]. intros x Hx q q'. apply Hx.
    - destruct (elem_unchanged _ _ _ D) as [E _]. rewrite E.
      rewrite (elem_flag _ g' p' g p). exact D.
  Qed.

  Lemma elem_pure : forall e g p x, In x (elem_objs (res (se g p e))) -> obj_addr x < g -> In x (elem_objs e).
  Proof.
    induction e as [k a o rest unk slots IH] using elem_ind'. intros g p x HI Hlt.
    unfold se in *. rewrite res_strip_elem in HI.
    destruct (chg (so g o (p ++ [opts_tag k])) || chg (strip_slots (strip_elem so ku g) p slots (schema k))).
    - cbn [elem_objs] in HI |- *. destruct HI as [HI|HI].
      + subst x. cbn [obj_addr] in Hlt. unfold fresh in Hlt. lia.
      + right. apply in_app_iff in HI. apply in_app_iff. destruct HI as [HI|HI].
        * left. eapply so_pure; eassumption.
        * right. eapply slots_pure; [|exact HI|exact Hlt].
          eapply Forall_Forall_impl; [|exact IH]. intros y Hy q. apply Hy.
    - exact HI.
  Qed.

  Definition elem_guard := elem_all (fun o unk => Gd o && (ku || is_nil unk)).

  Lemma elem_prune : forall e g p, elem_guard e = true -> prune_elem (res (se g p e)) = prune_elem e.
  Proof.
    induction e as [k a o rest unk slots IH] using elem_ind'. intros g p Hg.
    unfold elem_guard in Hg. cbn [elem_all] in Hg. apply andb_true_iff in Hg. destruct Hg as [Hg Hch].
    apply andb_true_iff in Hg. destruct Hg as [HGd Hunk].
    destruct (elem_parts g p k a o rest unk slots) as [a' [unk' [E Hu]]]. rewrite E.
    cbn [prune_elem]. rewrite (so_prune _ _ _ HGd).
    rewrite (slots_prune (se g) elem_guard slots (schema k) p).
    - destruct Hu as [Hu|[Hk Hu]]; subst unk'; [reflexivity|].
      rewrite Hk in Hunk. cbn [orb] in Hunk. destruct unk; [reflexivity | discriminate Hunk].
    - eapply Forall_Forall_impl; [|exact IH]. intros y Hy q. apply Hy.
    - exact Hch.
  Qed.

  Lemma elem_ns : forall e g p, wf_elem e = true ->
    elem_any HS (res (se g p e)) = negb (elem_all (fun o _ => NS o) e).
  Proof.
    induction e as [k a o rest unk slots IH] using elem_ind'. intros g p Hwf.
    cbn [wf_elem] in Hwf. apply andb_true_iff in Hwf. destruct Hwf as [Hlen Hwf].
    apply Nat.eqb_eq in Hlen.
    destruct (elem_parts g p k a o rest unk slots) as [a' [unk' [E _]]]. rewrite E.
    cbn [elem_any elem_all]. rewrite so_ns.
    rewrite (slots_any (se g) HS (elem_all (fun o _ => NS o)) slots (schema k) p).
    - rewrite negb_andb. reflexivity.
    - eapply Forall_Forall_impl; [|exact IH]. intros y Hy q. apply Hy.
    - exact Hwf.
    - exact Hlen.
  Qed.

  Lemma elem_removed : forall e g p, rem (se g p e) = removed_elem RS p e.
  Proof.
    induction e as [k a o rest unk slots IH] using elem_ind'. intros g p.
    unfold se in *. rewrite rem_strip_elem. cbn [removed_elem].
    rewrite so_rem.
    rewrite (slots_removed (strip_elem so ku g) (removed_elem RS) slots (schema k) p).
    - reflexivity.
    - eapply Forall_Forall_impl; [|exact IH]. intros y Hy q. apply Hy.
  Qed.

  (* ---- the file ---- *)
  Let sf := strip_file so ku.

  Lemma file_idem : forall g g' f, sf g' (fst (sf g f)) = (fst (sf g f), false).
  Proof.
    intros g g' f. unfold sf, strip_file.
    rewrite (triple_eta (strip_elem so ku g [] (f_root f))).
    destruct (chg (strip_elem so ku g [] (f_root f))) eqn:D; cbn [fst f_root].
    - pose proof (elem_idem (f_root f) g [] g' []) as H. unfold se in H.
      destruct (elem_unchanged _ _ _ H) as [E1 E2]. unfold se in E1, E2.
      rewrite (triple_eta (strip_elem so ku g' [] _)). rewrite H. reflexivity.
    - rewrite (triple_eta (strip_elem so ku g' [] (f_root f))).
      pose proof (elem_flag (f_root f) g' [] g []) as H. unfold se in H. rewrite H, D. reflexivity.
  Qed.

  Lemma file_pure : forall g f x, In x (file_objs (fst (sf g f))) -> obj_addr x < g -> In x (file_objs f).
  Proof.
    intros g f x HI Hlt. unfold sf, strip_file in HI.
    rewrite (triple_eta (strip_elem so ku g [] (f_root f))) in HI.
    destruct (chg (strip_elem so ku g [] (f_root f))); cbn [fst] in HI; [|exact HI].
    unfold file_objs in HI |- *. cbn [f_root f_sci] in HI.
    apply in_app_iff in HI. apply in_app_iff. destruct HI as [HI|HI].
    - left. eapply elem_pure; eassumption.
    - right. destruct (f_sci f) as [[a locs]|]; cbn [strip_sci] in HI; [|exact HI].
      destruct locs as [|l locs]; [exact HI|].
      cbn [In] in HI. destruct HI as [HI|[]]. subst x. cbn [obj_addr] in Hlt. unfold fresh in Hlt. lia.
  Qed.

  Lemma file_prune : forall g f, elem_guard (f_root f) = true ->
    prune_elem (f_root (fst (sf g f))) = prune_elem (f_root f).
  Proof.
    intros g f Hg. unfold sf, strip_file.
    rewrite (triple_eta (strip_elem so ku g [] (f_root f))).
    destruct (chg (strip_elem so ku g [] (f_root f))); cbn [fst f_root]; [|reflexivity].
    apply (elem_prune _ g [] Hg).
  Qed.

  Lemma file_root : forall g f, f_root (fst (sf g f)) = res (se g [] (f_root f)).
  Proof.
    intros g f. unfold sf, strip_file, se.
    rewrite (triple_eta (strip_elem so ku g [] (f_root f))).
    destruct (chg (strip_elem so ku g [] (f_root f))) eqn:D; cbn [fst f_root]; [reflexivity|].
    symmetry. apply (elem_unchanged _ _ _ D).
  Qed.

  Lemma file_ns : forall g f, wf_elem (f_root f) = true ->
    elem_any HS (f_root (fst (sf g f))) = negb (elem_all (fun o _ => NS o) (f_root f)).
  Proof. intros g f Hwf. rewrite file_root. apply elem_ns. exact Hwf. Qed.

  (* source code info: the locations under a removed option path go, nothing else *)
  Lemma file_locations : forall g f,
    let qs := removed_elem RS [] (f_root f) in
    match f_sci f with
    | Some (a, l :: locs) =>
      if snd (sf g f)
      then f_sci (fst (sf g f)) = Some (fresh g a, filter (fun l => negb (under_any qs (fst l))) (l :: locs))
      else fst (sf g f) = f
    | other => f_sci (fst (sf g f)) = other
    end.
  Proof.
    intros g f qs. unfold sf, strip_file.
    rewrite (triple_eta (strip_elem so ku g [] (f_root f))).
    pose proof (elem_removed (f_root f) g []) as HR. unfold se in HR. rewrite HR. fold qs.
    destruct (f_sci f) as [[a [|l locs]]|] eqn:ES;
      destruct (chg (strip_elem so ku g [] (f_root f))); cbn [fst snd f_sci strip_sci]; try reflexivity;
      try (rewrite ES; reflexivity).
    f_equal. f_equal. apply filter_ext. intros l0. rewrite trie_is_prefix_set_lemma. reflexivity.
  Qed.
End WalkProofs.

(* ---------------------------------------------------------------- the pinned code: strip_opts *)
Definition srcb (f : ofld) : bool := is_source (fld_ret f).
Definition keepb (f : ofld) : bool := negb (is_source (fld_ret f)).

Lemma existsb_filter_nil : forall {A} (P : A -> bool) l, existsb P l = false <-> filter P l = [].
Proof.
  intros A P l. induction l as [|x tl IH]; cbn [existsb filter].
  - split; reflexivity.
  - destruct (P x); cbn [orb].
    + split; discriminate.
    + exact IH.
Qed.

Lemma filter_keep_all : forall fs, existsb srcb fs = false -> filter keepb fs = fs.
Proof.
  induction fs as [|f tl IH]; cbn [existsb filter]; intros H.
  - reflexivity.
  - apply orb_false_iff in H. destruct H as [H1 H2]. unfold keepb at 1. unfold srcb in H1. rewrite H1.
    cbn [negb]. rewrite (IH H2). reflexivity.
Qed.

Lemma no_src_in_keep : forall fs, existsb srcb (filter keepb fs) = false.
Proof.
  induction fs as [|f tl IH]; cbn [filter].
  - reflexivity.
  - unfold keepb at 1. destruct (is_source (fld_ret f)) eqn:E; cbn [negb existsb].
    + exact IH.
    + unfold srcb at 1. rewrite E. exact IH.
Qed.

Lemma strip_opts_some : forall g a fs unk p,
  strip_opts g (Some (a, fs, unk)) p =
  if negb (existsb srcb fs) then (Some (a, fs, unk), false, [])
  else match filter keepb fs with
       | [] => (None, true, [p])
       | _ => (Some (fresh g a, filter keepb fs, []), true, map (fun f => p ++ [fld_num f]) (filter srcb fs))
       end.
Proof. reflexivity. Qed.

Lemma so_unch_asis : forall g o p, chg (strip_opts g o p) = false ->
  res (strip_opts g o p) = o /\ rem (strip_opts g o p) = [].
Proof.
  intros g [[[a fs] unk]|] p; [|split; reflexivity].
  rewrite strip_opts_some. destruct (existsb srcb fs); cbn [negb].
  - destruct (filter keepb fs); discriminate.
  - split; reflexivity.
Qed.

Lemma so_flag_asis : forall g p g' p' o, chg (strip_opts g o p) = chg (strip_opts g' o p').
Proof.
  intros g p g' p' [[[a fs] unk]|]; [|reflexivity].
  rewrite !strip_opts_some. destruct (existsb srcb fs); cbn [negb]; [|reflexivity].
  destruct (filter keepb fs); reflexivity.
Qed.

Lemma so_idem_asis : forall g p g' p' o, chg (strip_opts g' (res (strip_opts g o p)) p') = false.
Proof.
  intros g p g' p' [[[a fs] unk]|]; [|reflexivity].
  rewrite strip_opts_some. destruct (existsb srcb fs) eqn:E; cbn [negb].
  - destruct (filter keepb fs) as [|f0 tl] eqn:EK; [reflexivity|].
    unfold res at 1. cbn [fst]. rewrite strip_opts_some.
    rewrite <- EK, no_src_in_keep. reflexivity.
  - unfold res at 1. cbn [fst]. rewrite strip_opts_some, E. reflexivity.
Qed.

Lemma flat_map_filter_incl : forall {A B} (P : A -> bool) (h : A -> list B) l x,
  In x (flat_map h (filter P l)) -> In x (flat_map h l).
Proof.
  intros A B P h l x. induction l as [|y tl IH]; cbn [filter flat_map]; intros H.
  - exact H.
  - apply in_app_iff. destruct (P y); cbn [flat_map] in H.
    + apply in_app_iff in H. destruct H as [H|H]; [left; exact H | right; apply IH; exact H].
    + right. apply IH. exact H.
Qed.

Lemma so_pure_asis : forall g o p x,
  In x (opts_objs (res (strip_opts g o p))) -> obj_addr x < g -> In x (opts_objs o).
Proof.
  intros g [[[a fs] unk]|] p x; [|intros H _; exact H].
  rewrite strip_opts_some. destruct (existsb srcb fs); cbn [negb].
  - destruct (filter keepb fs) as [|f0 tl] eqn:EK; unfold res; cbn [fst opts_objs].
    + intros [].
    + rewrite <- EK. cbn [val_objs]. intros [H|H] Hlt.
      * subst x. cbn [obj_addr] in Hlt. unfold fresh in Hlt. lia.
      * right. eapply flat_map_filter_incl. exact H.
  - intros H _. exact H.
Qed.

Lemma prune_fields_keep : forall pv fs, prune_fields pv (filter keepb fs) = prune_fields pv fs.
Proof.
  intros pv. induction fs as [|f tl IH]; cbn [filter prune_fields].
  - reflexivity.
  - unfold keepb at 1. unfold fld_ret. destruct (is_source (snd (fst f))) eqn:E; cbn [negb prune_fields].
    + exact IH.
    + rewrite E, IH. reflexivity.
Qed.

Lemma so_prune_asis : forall g o p, opts_no_unknown o = true ->
  prune_opts (res (strip_opts g o p)) = prune_opts o.
Proof.
  intros g [[[a fs] unk]|] p Hu; [|reflexivity].
  cbn [opts_no_unknown] in Hu. destruct unk; [|discriminate Hu].
  rewrite strip_opts_some. destruct (existsb srcb fs); cbn [negb]; [|reflexivity].
  destruct (filter keepb fs) as [|f0 tl] eqn:EK; unfold res; cbn [fst prune_opts].
  - rewrite <- (prune_fields_keep prune_val fs), EK. reflexivity.
  - rewrite <- EK, prune_fields_keep. destruct (prune_fields prune_val fs); reflexivity.
Qed.

Lemma has_source_keep : forall fs,
  has_source_fields (filter keepb fs) =
  negb (forallb (fun f => is_source (fld_ret f) || negb (has_source_val (fld_val f))) fs).
Proof.
  induction fs as [|f tl IH]; cbn [filter forallb].
  - reflexivity.
  - unfold keepb at 1. destruct (is_source (fld_ret f)) eqn:E; cbn [negb orb andb].
    + exact IH.
    + unfold has_source_fields in *. cbn [existsb]. rewrite E, IH. cbn [orb].
      rewrite negb_andb, negb_involutive. reflexivity.
Qed.

Lemma so_ns_asis : forall g o p, opts_has_source (res (strip_opts g o p)) = negb (opts_nested_free o).
Proof.
  intros g [[[a fs] unk]|] p; [|reflexivity].
  rewrite strip_opts_some. cbn [opts_nested_free]. rewrite <- has_source_keep.
  destruct (existsb srcb fs) eqn:E; cbn [negb].
  - destruct (filter keepb fs) as [|f0 tl] eqn:EK; unfold res; cbn [fst opts_has_source]; reflexivity.
  - unfold res; cbn [fst opts_has_source]. rewrite (filter_keep_all _ E). reflexivity.
Qed.

Lemma so_rem_asis : forall g o p, rem (strip_opts g o p) = removed_top p o.
Proof.
  intros g [[[a fs] unk]|] p; [|reflexivity].
  rewrite strip_opts_some. cbn [removed_top]. fold srcb. fold keepb.
  destruct (existsb srcb fs) eqn:E; cbn [negb].
  - destruct (filter srcb fs) as [|s0 stl] eqn:ES.
    + apply existsb_filter_nil in ES. rewrite ES in E. discriminate E.
    + destruct (filter keepb fs); reflexivity.
  - apply existsb_filter_nil in E. rewrite E. reflexivity.
Qed.

Lemma so_top_asis : forall g o p, opts_top_source (res (strip_opts g o p)) = negb true.
Proof.
  intros g [[[a fs] unk]|] p; [|reflexivity].
  rewrite strip_opts_some. fold srcb. destruct (existsb srcb fs) eqn:E; cbn [negb].
  - destruct (filter keepb fs) as [|f0 tl] eqn:EK; unfold res; cbn [fst opts_top_source]; [reflexivity|].
    rewrite <- EK. fold srcb. apply no_src_in_keep.
  - unfold res; cbn [fst opts_top_source]. fold srcb. exact E.
Qed.

Lemma elem_all_true : forall e, elem_all (fun _ _ => true) e = true.
Proof.
  induction e as [k a o rest unk slots IH] using elem_ind'. cbn [elem_all andb].
  apply forallb_forall. intros s Hs. apply forallb_forall. intros x Hx.
  rewrite Forall_forall in IH. specialize (IH s Hs). rewrite Forall_forall in IH. apply IH. exact Hx.
Qed.

(* ---- main statements about the pinned code ---- *)
Definition witness_nested : file :=
  File (Elem KFile 0 None 1 []
          [[Elem KMsg 1 (Some (2, [(50001, RUnset, VMsg 3 [(2, RSource, VScalar 7)] [])], [])) 2 [] [[];[];[];[];[];[]]];
           []; []; []]) None.

Lemma removes_refuted_lemma :
  exists g f, wf_elem (f_root f) = true /\ elem_has_source (f_root (fst (strip g f))) = true.
Proof. exists 4, witness_nested. split; vm_compute; reflexivity. Qed.

Lemma removes_partial_lemma : forall g f, wf_elem (f_root f) = true ->
  (no_source (fst (strip g f)) <-> nested_source_free (f_root f) = true).
Proof.
  intros g f Hwf. unfold no_source, elem_has_source, strip.
  rewrite (file_ns strip_opts false opts_has_source opts_nested_free so_unch_asis so_ns_asis g f Hwf).
  unfold nested_source_free. destruct (elem_all (fun o _ => opts_nested_free o) (f_root f)); cbn [negb]; split; congruence.
Qed.

Lemma removes_top_lemma : forall g f, wf_elem (f_root f) = true ->
  elem_top_source (f_root (fst (strip g f))) = false.
Proof.
  intros g f Hwf. unfold elem_top_source, strip.
  rewrite (file_ns strip_opts false opts_top_source (fun _ => true) so_unch_asis so_top_asis g f Hwf).
  rewrite elem_all_true. reflexivity.
Qed.

Definition witness_unknown : file :=
  File (Elem KFile 0 None 1 []
          [[Elem KMsg 1 (Some (2, [(50001, RUnset, VScalar 5); (50002, RSource, VScalar 6)], [9])) 2 [] [[];[];[];[];[];[]]];
           []; []; []]) None.

Lemma preserves_refuted_lemma :
  exists g f, wf_elem (f_root f) = true /\ elem_has_source (f_root (fst (strip g f))) = false /\
              prune_elem (f_root (fst (strip g f))) <> prune_elem (f_root f).
Proof. exists 3, witness_unknown. split; [|split]; vm_compute; [reflexivity|reflexivity|discriminate]. Qed.

Lemma preserves_partial_lemma : forall g f, no_unknown (f_root f) = true ->
  prune_elem (f_root (fst (strip g f))) = prune_elem (f_root f).
Proof.
  intros g f Hn. unfold strip.
  apply (file_prune strip_opts false opts_no_unknown so_unch_asis so_prune_asis g f). exact Hn.
Qed.

Lemma idempotent_lemma : forall g g' f, strip g' (fst (strip g f)) = (fst (strip g f), false).
Proof. intros. unfold strip. apply (file_idem strip_opts false so_unch_asis so_flag_asis so_idem_asis). Qed.

Lemma pure_lemma : forall g f x, In x (file_objs (fst (strip g f))) -> obj_addr x < g -> In x (file_objs f).
Proof. intros g f x. unfold strip. apply (file_pure strip_opts false so_pure_asis). Qed.

Lemma locations_lemma : forall g f,
  let qs := removed_elem removed_top [] (f_root f) in
  match f_sci f with
  | Some (a, l :: locs) =>
    if snd (strip g f)
    then f_sci (fst (strip g f)) = Some (fresh g a, filter (fun l => negb (under_any qs (fst l))) (l :: locs))
    else fst (strip g f) = f
  | other => f_sci (fst (strip g f)) = other
  end.
Proof. intros g f. unfold strip. apply (file_locations strip_opts false removed_top so_rem_asis). Qed.

(* ---------------------------------------------------------------- the proposed repair: strip_opts_fixed *)
Section CopyEq.
  Variable cp : path -> oval -> oval * list path.

  Lemma copy_fields_cons : forall p f tl,
    copy_fields cp p (f :: tl) =
    if is_source (snd (fst f))
    then (fst (copy_fields cp p tl), (p ++ [fst (fst f)]) :: snd (copy_fields cp p tl))
    else ((fst (fst f), snd (fst f), fst (cp (p ++ [fst (fst f)]) (snd f))) :: fst (copy_fields cp p tl),
          snd (cp (p ++ [fst (fst f)]) (snd f)) ++ snd (copy_fields cp p tl)).
  Proof.
    intros. cbn [copy_fields]. destruct (copy_fields cp p tl) as [tl' rm].
    destruct (is_source (snd (fst f))); [reflexivity|].
    destruct (cp (p ++ [fst (fst f)]) (snd f)) as [w' rw]. reflexivity.
  Qed.

  Lemma copy_items_cons : forall p w tl i,
    copy_items cp p (w :: tl) i =
    (fst (cp (p ++ [i]) w) :: fst (copy_items cp p tl (i + 1)),
     snd (cp (p ++ [i]) w) ++ snd (copy_items cp p tl (i + 1))).
  Proof.
    intros. cbn [copy_items]. destruct (cp (p ++ [i]) w) as [w' rw].
    destruct (copy_items cp p tl (i + 1)) as [tl' rm]. reflexivity.
  Qed.
End CopyEq.

Lemma copy_val_msg : forall g p a fs unk,
  copy_val g p (VMsg a fs unk) =
  (VMsg (fresh g a) (fst (copy_fields (copy_val g) p fs)) unk, snd (copy_fields (copy_val g) p fs)).
Proof. intros. cbn [copy_val]. destruct (copy_fields (copy_val g) p fs). reflexivity. Qed.

Lemma copy_val_list : forall g p items,
  copy_val g p (VList items) =
  (VList (fst (copy_items (copy_val g) p items 0)), snd (copy_items (copy_val g) p items 0)).
Proof. intros. cbn [copy_val]. destruct (copy_items (copy_val g) p items 0). reflexivity. Qed.

(* the copy has no source-retention field, prunes to the same value, consists of fresh objects
   only, and reports the paths of the specification *)
Definition copy_ok (g : N) (v : oval) : Prop :=
  forall p,
    has_source_val (fst (copy_val g p v)) = false /\
    prune_val (fst (copy_val g p v)) = prune_val v /\
    (forall x, In x (val_objs (fst (copy_val g p v))) -> g <= obj_addr x) /\
    snd (copy_val g p v) = removed_val p v.

Lemma has_source_fields_cons : forall f tl,
  has_source_fields (f :: tl) = (is_source (fld_ret f) || has_source_val (fld_val f)) || has_source_fields tl.
Proof. reflexivity. Qed.

Lemma copy_fields_ok : forall g fs, Forall (fun f => copy_ok g (snd f)) fs -> forall p,
  has_source_fields (fst (copy_fields (copy_val g) p fs)) = false /\
  prune_fields prune_val (fst (copy_fields (copy_val g) p fs)) = prune_fields prune_val fs /\
  (forall x, In x (flat_map (fun f => val_objs (snd f)) (fst (copy_fields (copy_val g) p fs))) -> g <= obj_addr x) /\
  snd (copy_fields (copy_val g) p fs) = removed_fields removed_val p fs /\
  length (fst (copy_fields (copy_val g) p fs)) = length (prune_fields prune_val fs).
Proof.
  intros g fs HF p. induction HF as [|f tl Hf _ IH].
  - repeat split; try reflexivity. intros x [].
  - destruct IH as [I1 [I2 [I3 [I4 I5]]]]. rewrite copy_fields_cons.
    cbn [prune_fields removed_fields]. destruct (is_source (snd (fst f))) eqn:E; cbn [fst snd].
    + repeat split; try assumption. rewrite I4. reflexivity.
    + destruct (Hf (p ++ [fst (fst f)])) as [C1 [C2 [C3 C4]]].
      repeat split.
      * rewrite has_source_fields_cons. unfold fld_ret, fld_val. cbn [fst snd].
        rewrite E, C1, I1. reflexivity.
      * cbn [prune_fields fst snd]. rewrite E, C2, I2. reflexivity.
      * intros x Hx. cbn [flat_map snd] in Hx. apply in_app_iff in Hx. destruct Hx as [Hx|Hx].
        -- apply C3. exact Hx.
        -- apply I3. exact Hx.
      * rewrite C4, I4. reflexivity.
      * cbn [length]. rewrite I5. reflexivity.
Qed.

Lemma copy_items_ok : forall g items, Forall (copy_ok g) items -> forall p i,
  existsb has_source_val (fst (copy_items (copy_val g) p items i)) = false /\
  map prune_val (fst (copy_items (copy_val g) p items i)) = map prune_val items /\
  (forall x, In x (flat_map val_objs (fst (copy_items (copy_val g) p items i))) -> g <= obj_addr x) /\
  snd (copy_items (copy_val g) p items i) = removed_items removed_val p items i.
Proof.
  intros g items HF. induction HF as [|w tl Hw _ IH]; intros p i.
  - repeat split; try reflexivity. intros x [].
  - destruct (IH p (i + 1)) as [I1 [I2 [I3 I4]]]. rewrite copy_items_cons. cbn [fst snd].
    destruct (Hw (p ++ [i])) as [C1 [C2 [C3 C4]]].
    repeat split.
    + cbn [existsb]. rewrite C1, I1. reflexivity.
    + cbn [map]. rewrite C2, I2. reflexivity.
    + intros x Hx. cbn [flat_map] in Hx. apply in_app_iff in Hx. destruct Hx as [Hx|Hx]; [apply C3|apply I3]; exact Hx.
    + cbn [removed_items]. rewrite C4, I4. reflexivity.
Qed.

Lemma copy_val_ok : forall g v, copy_ok g v.
Proof.
  intros g. induction v as [s|a fs unk IH|items IH] using oval_ind'; intros p.
  - repeat split; try reflexivity. intros x [].
  - destruct (copy_fields_ok g fs IH p) as [I1 [I2 [I3 [I4 _]]]].
    rewrite copy_val_msg. cbn [fst snd]. repeat split.
    + cbn [has_source_val]. exact I1.
    + cbn [prune_val]. rewrite I2. reflexivity.
    + intros x Hx. cbn [val_objs] in Hx. destruct Hx as [Hx|Hx].
      * subst x. cbn [obj_addr]. unfold fresh. lia.
      * apply I3. exact Hx.
    + exact I4.
  - destruct (copy_items_ok g items IH p 0) as [I1 [I2 [I3 I4]]].
    rewrite copy_val_list. cbn [fst snd]. repeat split.
    + cbn [has_source_val]. exact I1.
    + cbn [prune_val]. rewrite I2. reflexivity.
    + exact I3.
    + exact I4.
Qed.

Lemma copy_fields_all : forall g p fs,
  has_source_fields (fst (copy_fields (copy_val g) p fs)) = false /\
  prune_fields prune_val (fst (copy_fields (copy_val g) p fs)) = prune_fields prune_val fs /\
  (forall x, In x (flat_map (fun f => val_objs (snd f)) (fst (copy_fields (copy_val g) p fs))) -> g <= obj_addr x) /\
  snd (copy_fields (copy_val g) p fs) = removed_fields removed_val p fs /\
  length (fst (copy_fields (copy_val g) p fs)) = length (prune_fields prune_val fs).
Proof.
  intros g p fs. apply copy_fields_ok. apply Forall_forall. intros f _. apply copy_val_ok.
Qed.

Lemma strip_opts_fixed_some : forall g a fs unk p,
  strip_opts_fixed g (Some (a, fs, unk)) p =
  if negb (has_source_fields fs) then (Some (a, fs, unk), false, [])
  else match fst (copy_fields (copy_val g) p fs), unk with
       | [], [] => (None, true, p :: snd (copy_fields (copy_val g) p fs))
       | fs', _ => (Some (fresh g a, fs', unk), true, snd (copy_fields (copy_val g) p fs))
       end.
Proof.
  intros. unfold strip_opts_fixed. destruct (negb (has_source_fields fs)); [reflexivity|].
  rewrite copy_val_msg. destruct (fst (copy_fields (copy_val g) p fs)); destruct unk; reflexivity.
Qed.

Lemma so_unch_fixed : forall g o p, chg (strip_opts_fixed g o p) = false ->
  res (strip_opts_fixed g o p) = o /\ rem (strip_opts_fixed g o p) = [].
Proof.
  intros g [[[a fs] unk]|] p; [|split; reflexivity].
  rewrite strip_opts_fixed_some. destruct (has_source_fields fs); cbn [negb].
  - destruct (fst (copy_fields (copy_val g) p fs)); destruct unk; discriminate.
  - split; reflexivity.
Qed.

Lemma chg_fixed : forall g o p, chg (strip_opts_fixed g o p) = opts_has_source o.
Proof.
  intros g [[[a fs] unk]|] p; [|reflexivity].
  rewrite strip_opts_fixed_some. cbn [opts_has_source]. destruct (has_source_fields fs); cbn [negb].
  - destruct (fst (copy_fields (copy_val g) p fs)); destruct unk; reflexivity.
  - reflexivity.
Qed.

Lemma so_flag_fixed : forall g p g' p' o, chg (strip_opts_fixed g o p) = chg (strip_opts_fixed g' o p').
Proof. intros. rewrite !chg_fixed. reflexivity. Qed.

Lemma so_ns_fixed : forall g o p, opts_has_source (res (strip_opts_fixed g o p)) = negb true.
Proof.
  intros g [[[a fs] unk]|] p; [|reflexivity].
  rewrite strip_opts_fixed_some. destruct (has_source_fields fs) eqn:E; cbn [negb].
  - destruct (copy_fields_all g p fs) as [I1 _].
    destruct (fst (copy_fields (copy_val g) p fs)) as [|f0 tl] eqn:EF; destruct unk; unfold res; cbn [fst opts_has_source];
      try reflexivity; exact I1.
  - unfold res; cbn [fst opts_has_source]. exact E.
Qed.

Lemma so_idem_fixed : forall g p g' p' o, chg (strip_opts_fixed g' (res (strip_opts_fixed g o p)) p') = false.
Proof. intros. rewrite chg_fixed. apply so_ns_fixed. Qed.

Lemma so_pure_fixed : forall g o p x,
  In x (opts_objs (res (strip_opts_fixed g o p))) -> obj_addr x < g -> In x (opts_objs o).
Proof.
  intros g [[[a fs] unk]|] p x; [|intros H _; exact H].
  rewrite strip_opts_fixed_some. destruct (has_source_fields fs); cbn [negb].
  - destruct (copy_fields_all g p fs) as [_ [_ [I3 _]]].
    assert (HN : forall fs' unk', fs' = fst (copy_fields (copy_val g) p fs) ->
                 In x (opts_objs (Some (fresh g a, fs', unk'))) -> obj_addr x < g -> False).
    { intros fs' unk' Efs HI Hlt. cbn [opts_objs val_objs] in HI. destruct HI as [HI|HI].
      - subst x. cbn [obj_addr] in Hlt. unfold fresh in Hlt. lia.
      - subst fs'. specialize (I3 x HI). lia. }
    destruct (fst (copy_fields (copy_val g) p fs)) as [|f0 tl] eqn:EF; destruct unk as [|u0 utl]; unfold res; cbn [fst].
    + intros [].
    + intros HI Hlt. exfalso. exact (HN [] (u0 :: utl) eq_refl HI Hlt).
    + intros HI Hlt. exfalso. exact (HN (f0 :: tl) [] eq_refl HI Hlt).
    + intros HI Hlt. exfalso. exact (HN (f0 :: tl) (u0 :: utl) eq_refl HI Hlt).
  - intros H _. exact H.
Qed.

Lemma length_nil : forall {A} (l : list A), length l = O -> l = [].
Proof. intros A [|x l]; [reflexivity|discriminate]. Qed.

Lemma so_prune_fixed : forall g o p, (fun _ : option omsg => true) o = true ->
  prune_opts (res (strip_opts_fixed g o p)) = prune_opts o.
Proof.
  intros g [[[a fs] unk]|] p _; [|reflexivity].
  rewrite strip_opts_fixed_some. destruct (has_source_fields fs); cbn [negb]; [|reflexivity].
  destruct (copy_fields_all g p fs) as [_ [I2 [_ [_ I5]]]].
  destruct (fst (copy_fields (copy_val g) p fs)) as [|f0 tl] eqn:EF; destruct unk; unfold res; cbn [fst prune_opts].
  - cbn [length] in I5. symmetry in I5. apply length_nil in I5. rewrite I5. reflexivity.
  - cbn [prune_fields]. cbn [prune_fields] in I2. rewrite <- I2. reflexivity.
  - rewrite I2. reflexivity.
  - rewrite I2. reflexivity.
Qed.

Lemma so_rem_fixed : forall g o p, rem (strip_opts_fixed g o p) = removed_deep p o.
Proof.
  intros g [[[a fs] unk]|] p; [|reflexivity].
  rewrite strip_opts_fixed_some. cbn [removed_deep]. destruct (has_source_fields fs); cbn [negb]; [|reflexivity].
  destruct (copy_fields_all g p fs) as [_ [_ [_ [I4 I5]]]].
  destruct (fst (copy_fields (copy_val g) p fs)) as [|f0 tl] eqn:EF; destruct unk; unfold rem; cbn [snd].
  - cbn [length] in I5. symmetry in I5. apply length_nil in I5. rewrite I5, I4. reflexivity.
  - rewrite I4. destruct (prune_fields prune_val fs); reflexivity.
  - rewrite I4. destruct (prune_fields prune_val fs) eqn:EP; [|reflexivity].
    discriminate I5.
  - rewrite I4. destruct (prune_fields prune_val fs); reflexivity.
Qed.

(* ---- main statements about the repaired code ---- *)
Lemma fixed_removes_lemma : forall g f, wf_elem (f_root f) = true -> no_source (fst (strip_fixed g f)).
Proof.
  intros g f Hwf. unfold no_source, elem_has_source, strip_fixed.
  rewrite (file_ns strip_opts_fixed true opts_has_source (fun _ => true) so_unch_fixed so_ns_fixed g f Hwf).
  rewrite elem_all_true. reflexivity.
Qed.

Lemma fixed_preserves_lemma : forall g f, prune_elem (f_root (fst (strip_fixed g f))) = prune_elem (f_root f).
Proof.
  intros g f. unfold strip_fixed.
  apply (file_prune strip_opts_fixed true (fun _ => true) so_unch_fixed so_prune_fixed g f).
  apply elem_all_true.
Qed.

Lemma fixed_idempotent_lemma : forall g g' f, strip_fixed g' (fst (strip_fixed g f)) = (fst (strip_fixed g f), false).
Proof. intros. unfold strip_fixed. apply (file_idem strip_opts_fixed true so_unch_fixed so_flag_fixed so_idem_fixed). Qed.

Lemma fixed_pure_lemma : forall g f x, In x (file_objs (fst (strip_fixed g f))) -> obj_addr x < g -> In x (file_objs f).
Proof. intros g f x. unfold strip_fixed. apply (file_pure strip_opts_fixed true so_pure_fixed). Qed.

Lemma fixed_locations_lemma : forall g f,
  let qs := removed_elem removed_deep [] (f_root f) in
  match f_sci f with
  | Some (a, l :: locs) =>
    if snd (strip_fixed g f)
    then f_sci (fst (strip_fixed g f)) = Some (fresh g a, filter (fun l => negb (under_any qs (fst l))) (l :: locs))
    else fst (strip_fixed g f) = f
  | other => f_sci (fst (strip_fixed g f)) = other
  end.
Proof. intros g f. unfold strip_fixed. apply (file_locations strip_opts_fixed true removed_deep so_rem_fixed). Qed.
