(* Proofs about Model/UnusedImports.v: removing an import that no lookup marked changes no lookup;
   hence a warned import is removable and a needed import is never warned about; the converse
   fails when a lookup is answered through several imports and holds when none is. *)
From Coq Require Import List NArith ZArith Bool Arith Lia.
Import ListNotations.
From PV Require Import Model.Visibility Model.Resolve Model.UnusedImports Proofs.Visibility.

(* ------------------------------------------------------------------ the marking loop *)
(* the loop with marks is the loop of C18 (publicImportsOnly = false, checked = [f]) *)
Lemma top_loop_fst G fn fuel self imps :
  fst (top_loop G fn fuel self imps) = iloop G fn fuel false [self] imps.
Proof.
  induction imps as [|[p b] r IH]; cbn [top_loop iloop andb]; [reflexivity|].
  destruct (find_file G p) as [g|]; [|reflexivity].
  destruct (visit G fn fuel true [self] g); try reflexivity. exact IH.
Qed.

Lemma resolve_mark_fst_lemma G fn f :
  fst (resolve_mark G fn f) = visit G fn (S (length G)) false [] f.
Proof.
  unfold resolve_mark. rewrite visit_S. cbn [memN app].
  destruct (fn f); [reflexivity|]. apply top_loop_fst.
Qed.

(* every import of the file exists and its visit ends normally *)
Definition imports_normal (G : graph) (fn : vfile -> option N) (fuel : nat) (self : N)
           (imps : list (N * bool)) : Prop :=
  forall p b, In (p, b) imps -> exists g, find_file G p = Some g /\
     visit G fn fuel true [self] g <> VPanic /\ visit G fn fuel true [self] g <> VOutOfFuel.

Lemma imports_normal_ok G fn f : graph_ok G = true -> In f G ->
  imports_normal G fn (length G) (vf_path f) (vf_imports f).
Proof.
  intros H Hf p b Hin. apply graph_ok_gok in H.
  destruct (gok_closed G H f p b Hf Hin) as (g & Hg). exists g. split; [exact Hg|].
  pose proof (find_file_some G p g Hg) as [HgG _].
  assert (Hrem : (remaining G [vf_path f] < length G)%nat).
  { pose proof (filter_decr G [] f Hf eq_refl) as Hd. cbn [app memN negb] in Hd. unfold remaining.
    assert (E : length (filter (fun _ : vfile => true) G) = length G).
    { clear. induction G as [|x G IH]; cbn [filter length]; [reflexivity|now rewrite IH]. }
    rewrite E in Hd. exact Hd. }
  apply (visit_total G fn H (length G) true [vf_path f] g HgG Hrem).
Qed.

Lemma imports_normal_tail G fn fuel self x r :
  imports_normal G fn fuel self (x :: r) -> imports_normal G fn fuel self r.
Proof. intros H p b Hin. apply (H p b). now right. Qed.

Definition drop (i : N) (imps : list (N * bool)) : list (N * bool) :=
  filter (fun pi => negb (N.eqb (fst pi) i)) imps.

(* the heart: an import that is not the one marked can be taken out of the loop *)
Lemma top_loop_drop G fn fuel self i : forall imps,
  imports_normal G fn fuel self imps ->
  (forall b, In (i, b) imps -> b = false) ->
  snd (top_loop G fn fuel self imps) <> Some i ->
  top_loop G fn fuel self (drop i imps) = top_loop G fn fuel self imps.
Proof.
  induction imps as [|[p b] r IH]; intros Hn Hpub Hm; [reflexivity|].
  assert (Hn' := imports_normal_tail _ _ _ _ _ _ Hn).
  assert (Hpub' : forall b0, In (i, b0) r -> b0 = false) by (intros b0 H0; apply Hpub; now right).
  destruct (Hn p b (or_introl eq_refl)) as (g & Hg & N1 & N2).
  cbn [drop filter fst]. cbn [top_loop] in Hm |- *. rewrite Hg in Hm |- *.
  destruct (N.eqb p i) eqn:Epi; cbn [negb].
  - apply N.eqb_eq in Epi. subst p.
    destruct (visit G fn fuel true [self] g) eqn:Ev; try contradiction.
    + (* this import answers: it is the one marked *)
      rewrite (Hpub b (or_introl eq_refl)) in Hm. cbn [snd] in Hm. congruence.
    + apply IH; assumption.
  - cbn [top_loop]. rewrite Hg.
    destruct (visit G fn fuel true [self] g) eqn:Ev; try reflexivity.
    apply IH; assumption.
Qed.

(* fn looks at a file through its path only, so it cannot tell f from f without an import *)
Definition path_only (fn : vfile -> option N) : Prop :=
  forall a b, vf_path a = vf_path b -> fn a = fn b.

Lemma lookup_fn_path_only W m n : path_only (lookup_fn W m n).
Proof. intros a b H. unfold lookup_fn. now rewrite H. Qed.

Definition import_paths_distinct (f : vfile) : Prop := nodupN (map fst (vf_imports f)) = true.

Lemma distinct_flag l i b : nodupN (map fst l) = true -> In (i, false) l -> In (i, b) l -> b = false.
Proof.
  induction l as [|[p c] l IH]; cbn [map fst nodupN In]; [contradiction|].
  intros H H1 H2. apply andb_true_iff in H. destruct H as [Hn Hd]. apply negb_true_iff, memN_false in Hn.
  destruct H1 as [H1|H1], H2 as [H2|H2].
  - congruence.
  - injection H1 as -> ->. exfalso. apply Hn. apply in_map_iff. exists (i, b). auto.
  - injection H2 as -> ->. exfalso. apply Hn. apply in_map_iff. exists (i, false). auto.
  - now apply IH.
Qed.

Lemma resolve_mark_remove G fn f i :
  graph_ok G = true -> In f G -> path_only fn ->
  (forall b, In (i, b) (vf_imports f) -> b = false) ->
  snd (resolve_mark G fn f) <> Some i ->
  resolve_mark G fn (remove_import i f) = resolve_mark G fn f.
Proof.
  intros HG Hf Hp Hpub Hm. unfold resolve_mark in *.
  rewrite (Hp (remove_import i f) f eq_refl). destruct (fn f); [reflexivity|].
  cbn [remove_import vf_path vf_imports].
  apply (top_loop_drop G fn (length G) (vf_path f) i (vf_imports f)); try assumption.
  now apply imports_normal_ok.
Qed.

Lemma ask_remove W f i m n :
  graph_ok (w_G W) = true -> In f (w_G W) ->
  (forall b, In (i, b) (vf_imports f) -> b = false) ->
  snd (ask W f m n) <> Some i ->
  ask W (remove_import i f) m n = ask W f m n.
Proof.
  intros HG Hf Hpub Hm. destruct m; cbn [ask] in *.
  - apply resolve_mark_remove; auto using lookup_fn_path_only.
  - reflexivity.
  - apply resolve_mark_remove; auto using lookup_fn_path_only.
Qed.

Lemma marks_of_cons e tr : marks_of (e :: tr) =
  (match ev_mark e with Some p => [p] | None => [] end) ++ marks_of tr.
Proof. reflexivity. Qed.

(* ------------------------------------------------------------------ one reference *)
Lemma run_remove W f i : graph_ok (w_G W) = true -> In f (w_G W) ->
  (forall b, In (i, b) (vf_imports f) -> b = false) ->
  forall p, ~ In i (marks_of (snd (run W f p))) -> run W (remove_import i f) p = run W f p.
Proof.
  intros HG Hf Hpub. induction p as [r|m n k IH]; intros Hm; [reflexivity|].
  cbn [run snd] in Hm |- *. rewrite marks_of_cons in Hm. cbn [ev_mark] in Hm.
  assert (Ha : ask W (remove_import i f) m n = ask W f m n).
  { apply ask_remove; auto. intros E. apply Hm. apply in_or_app. left. rewrite E. now left. }
  rewrite Ha. rewrite IH; [reflexivity|]. intros Hin. apply Hm. apply in_or_app. now right.
Qed.

(* ------------------------------------------------------------------ the file *)
Lemma used_in W f refs i : In i (used W f refs) <-> exists p, In p refs /\ In i (marks_of (snd (run W f p))).
Proof. unfold used. rewrite in_flat_map. reflexivity. Qed.

Lemma warned_spec W f refs i :
  warned W f refs i <-> In (i, false) (vf_imports f) /\ ~ In i (used W f refs).
Proof.
  unfold warned, warned_list. rewrite in_map_iff. split.
  - intros ([p b] & E & Hin). cbn [fst] in E. subst p. apply filter_In in Hin. destruct Hin as [Hin Hc].
    cbn [fst snd] in Hc. apply andb_true_iff in Hc. destruct Hc as [Hu Hb].
    apply negb_true_iff in Hb. subst b. apply negb_true_iff, memN_false in Hu. auto.
  - intros [Hin Hu]. exists (i, false). split; [reflexivity|]. apply filter_In. split; [assumption|].
    cbn [fst snd]. apply memN_false in Hu. now rewrite Hu.
Qed.

Theorem resolution_independent_of_unmarked_imports_lemma W f refs i :
  graph_ok (w_G W) = true -> In f (w_G W) -> import_paths_distinct f ->
  In (i, false) (vf_imports f) -> ~ In i (used W f refs) ->
  forall p, In p refs -> run W (remove_import i f) p = run W f p.
Proof.
  intros HG Hf Hd Hin Hu p Hp. apply run_remove; auto.
  - intros b Hb. now apply (distinct_flag (vf_imports f) i b Hd Hin).
  - intros Hm. apply Hu. apply used_in. eauto.
Qed.

Lemma used_remove W f refs i :
  (forall p, In p refs -> run W (remove_import i f) p = run W f p) ->
  used W (remove_import i f) refs = used W f refs.
Proof.
  intros H. unfold used. induction refs as [|p refs IH]; [reflexivity|]. cbn [flat_map].
  rewrite (H p (or_introl eq_refl)). rewrite IH; [reflexivity|]. intros q Hq. apply H. now right.
Qed.

(* a warned import is not public, every reference resolves as before without it (same result, same
   answering file and element for every lookup, even the same marks), and the other warnings stay *)
Theorem unused_warning_sound_lemma W f refs i :
  graph_ok (w_G W) = true -> In f (w_G W) -> import_paths_distinct f ->
  warned W f refs i ->
  (forall b, In (i, b) (vf_imports f) -> b = false) /\
  removable W f refs i /\
  (forall p, In p refs -> run W (remove_import i f) p = run W f p) /\
  (forall j, j <> i -> (warned W (remove_import i f) refs j <-> warned W f refs j)).
Proof.
  intros HG Hf Hd Hw. apply warned_spec in Hw. destruct Hw as [Hin Hu].
  assert (Hsame := resolution_independent_of_unmarked_imports_lemma W f refs i HG Hf Hd Hin Hu).
  split; [intros b Hb; now apply (distinct_flag (vf_imports f) i b Hd Hin)|].
  split; [intros p Hp; now rewrite (Hsame p Hp)|]. split; [exact Hsame|].
  intros j Hj. rewrite !warned_spec. rewrite (used_remove W f refs i Hsame).
  cbn [remove_import vf_imports]. rewrite filter_In. cbn [fst].
  split; [intros [[H1 _] H2]; auto|]. intros [H1 H2]. repeat split; auto.
  apply negb_true_iff, N.eqb_neq. exact Hj.
Qed.

(* an import without which some reference resolves differently is never warned about *)
Theorem needed_never_warned_lemma W f refs i :
  graph_ok (w_G W) = true -> In f (w_G W) -> import_paths_distinct f ->
  (exists p, In p refs /\ fst (run W (remove_import i f) p) <> fst (run W f p)) ->
  ~ warned W f refs i.
Proof.
  intros HG Hf Hd (p & Hp & Hne) Hw.
  destruct (unused_warning_sound_lemma W f refs i HG Hf Hd Hw) as (_ & _ & Hsame & _).
  apply Hne. now rewrite (Hsame p Hp).
Qed.

(* ------------------------------------------------------------------ which import is marked *)
(* the marked import is the first one, in declaration order, through which the lookup is answered *)
Lemma top_loop_first G fn fuel self i : forall imps, imports_normal G fn fuel self imps ->
  (snd (top_loop G fn fuel self imps) = Some i <->
   exists l1 l2, imps = l1 ++ (i, false) :: l2 /\
                 forallb (fun pi => negb (provides G fn fuel self pi)) l1 = true /\
                 provides G fn fuel self (i, false) = true).
Proof.
  induction imps as [|[p b] r IH]; intros Hn.
  - cbn [top_loop snd]. split; [discriminate|]. intros (l1 & l2 & E & _). destruct l1; discriminate.
  - assert (Hn' := imports_normal_tail _ _ _ _ _ _ Hn).
    destruct (Hn p b (or_introl eq_refl)) as (g & Hg & N1 & N2).
    cbn [top_loop]. rewrite Hg.
    assert (Hprov : forall c, provides G fn fuel self (p, c) =
                      match visit G fn fuel true [self] g with VFound _ _ => true | _ => false end).
    { intros c. unfold provides. cbn [fst]. now rewrite Hg. }
    destruct (visit G fn fuel true [self] g) eqn:Ev; try contradiction.
    + cbn [snd]. split.
      * destruct b; [discriminate|]. intros H. injection H as ->. exists [], r. repeat split.
        rewrite Hprov. reflexivity.
      * intros (l1 & l2 & E & Hl1 & Hpi). destruct l1 as [|x l1]; cbn [app] in E.
        -- injection E as -> -> _. reflexivity.
        -- injection E as <- _. cbn [forallb] in Hl1. rewrite Hprov in Hl1. discriminate.
    + rewrite (IH Hn'). split.
      * intros (l1 & l2 & E & Hl1 & Hpi). exists ((p, b) :: l1), l2. subst r. repeat split; auto.
        cbn [forallb]. rewrite Hprov. exact Hl1.
      * intros (l1 & l2 & E & Hl1 & Hpi). destruct l1 as [|x l1]; cbn [app] in E.
        -- injection E as -> -> _. rewrite Hprov in Hpi. discriminate.
        -- injection E as <- ->. cbn [forallb] in Hl1. apply andb_true_iff in Hl1. destruct Hl1 as [_ Hl1].
           exists l1, l2. auto.
Qed.

Theorem mark_is_first_provider_lemma G fn f i : graph_ok G = true -> In f G ->
  (snd (resolve_mark G fn f) = Some i <->
   fn f = None /\
   exists l1 l2, vf_imports f = l1 ++ (i, false) :: l2 /\
                 forallb (fun pi => negb (provides G fn (length G) (vf_path f) pi)) l1 = true /\
                 provides G fn (length G) (vf_path f) (i, false) = true).
Proof.
  intros HG Hf. unfold resolve_mark. destruct (fn f) as [e|].
  - cbn [snd]. split; [discriminate|]. intros [H _]. discriminate.
  - rewrite (top_loop_first G fn (length G) (vf_path f) i (vf_imports f) (imports_normal_ok G fn f HG Hf)).
    split; [intros H; split; [reflexivity|exact H]|intros [_ H]; exact H].
Qed.

(* ------------------------------------------------------------------ the converse, guarded *)
Lemma filter_drop_comm (P : N * bool -> bool) i l : filter P (drop i l) = drop i (filter P l).
Proof.
  unfold drop. induction l as [|x l IH]; [reflexivity|]. cbn [filter].
  destruct (negb (N.eqb (fst x) i)) eqn:E1, (P x) eqn:E2; cbn [filter]; rewrite ?E1, ?E2, IH; reflexivity.
Qed.

(* a loop over imports none of which provides finds nothing *)
Lemma top_loop_none G fn fuel self : forall imps, imports_normal G fn fuel self imps ->
  filter (provides G fn fuel self) imps = [] -> top_loop G fn fuel self imps = (VNotFound, None).
Proof.
  induction imps as [|[p b] r IH]; intros Hn Hf; [reflexivity|].
  assert (Hn' := imports_normal_tail _ _ _ _ _ _ Hn).
  destruct (Hn p b (or_introl eq_refl)) as (g & Hg & N1 & N2).
  cbn [filter] in Hf. unfold provides at 1 in Hf. cbn [fst] in Hf. rewrite Hg in Hf.
  cbn [top_loop]. rewrite Hg.
  destruct (visit G fn fuel true [self] g) eqn:Ev; try contradiction; [discriminate|].
  now apply IH.
Qed.

Lemma imports_normal_drop G fn fuel self i imps :
  imports_normal G fn fuel self imps -> imports_normal G fn fuel self (drop i imps).
Proof. intros H p b Hin. apply filter_In in Hin. destruct Hin as [Hin _]. now apply (H p b). Qed.

Lemma top_loop_found_provides G fn fuel self : forall imps a e mk,
  top_loop G fn fuel self imps = (VFound a e, mk) -> filter (provides G fn fuel self) imps <> [].
Proof.
  induction imps as [|[p b] r IH]; intros a e mk H; [discriminate|].
  cbn [top_loop] in H. cbn [filter]. unfold provides at 1. cbn [fst].
  destruct (find_file G p) as [g|]; [|discriminate].
  destruct (visit G fn fuel true [self] g) eqn:Ev; try discriminate. now apply (IH a e mk).
Qed.

(* if import i is marked for a lookup that no other import can answer, the lookup fails without i *)
Lemma resolve_mark_sole G fn f i : graph_ok G = true -> In f G -> path_only fn ->
  nodupN (map fst (vf_imports f)) = true ->
  snd (resolve_mark G fn f) = Some i ->
  (length (filter (provides G fn (length G) (vf_path f)) (vf_imports f)) <= 1)%nat ->
  fst (resolve_mark G fn (remove_import i f)) = VNotFound /\
  exists a e, fst (resolve_mark G fn f) = VFound a e.
Proof.
  intros HG Hf Hp Hd Hm Hu.
  pose proof (imports_normal_ok G fn f HG Hf) as Hn.
  apply (mark_is_first_provider_lemma G fn f i HG Hf) in Hm.
  destruct Hm as (Hfn & l1 & l2 & E & Hl1 & Hpi).
  set (P := provides G fn (length G) (vf_path f)) in *.
  assert (F1 : filter P l1 = []).
  { clear -Hl1. induction l1 as [|x l1 IH]; [reflexivity|]. cbn [forallb] in Hl1.
    apply andb_true_iff in Hl1. destruct Hl1 as [H1 H2]. cbn [filter].
    apply negb_true_iff in H1. rewrite H1. now apply IH. }
  assert (F2 : filter P l2 = []).
  { rewrite E, filter_app in Hu. cbn [filter] in Hu. rewrite Hpi, F1 in Hu. cbn [app length] in Hu.
    destruct (filter P l2); [reflexivity|cbn [length] in Hu; lia]. }
  split.
  - unfold resolve_mark. rewrite (Hp (remove_import i f) f eq_refl), Hfn.
    cbn [remove_import vf_path vf_imports]. fold (drop i (vf_imports f)).
    rewrite top_loop_none; [reflexivity|now apply imports_normal_drop|].
    fold P. rewrite filter_drop_comm, E, filter_app. cbn [filter]. rewrite Hpi, F1, F2. cbn [app].
    unfold drop. cbn [filter fst]. now rewrite N.eqb_refl.
  - unfold resolve_mark. rewrite Hfn.
    destruct (top_loop G fn (length G) (vf_path f) (vf_imports f)) as [v mk] eqn:Et. cbn [fst].
    (* the loop reaches (i,false), whose visit is VFound *)
    assert (Hgen : forall l, imports_normal G fn (length G) (vf_path f) (l ++ (i, false) :: l2) ->
               filter P l = [] -> exists a e, fst (top_loop G fn (length G) (vf_path f) (l ++ (i, false) :: l2)) = VFound a e).
    { induction l as [|[p b] l IHl]; intros Hnl Fl.
      - cbn [app top_loop]. unfold P, provides in Hpi. cbn [fst] in Hpi.
        destruct (find_file G i) as [g|]; [|discriminate].
        destruct (visit G fn (length G) true [vf_path f] g); try discriminate. cbn [fst]. eauto.
      - cbn [app top_loop]. cbn [filter] in Fl. unfold P at 1, provides in Fl. cbn [fst] in Fl.
        destruct (Hnl p b (or_introl eq_refl)) as (g & Hg & N1 & N2). rewrite Hg in Fl |- *.
        destruct (visit G fn (length G) true [vf_path f] g) eqn:Ev; try contradiction; [discriminate|].
        apply IHl; [now apply (imports_normal_tail _ _ _ _ _ _ Hnl)|exact Fl]. }
    rewrite E in Hn, Et. destruct (Hgen l1 Hn F1) as (a & e & Hv). rewrite Et in Hv. cbn [fst] in Hv. eauto.
Qed.

Lemma ask_sole W f i m n : graph_ok (w_G W) = true -> In f (w_G W) ->
  nodupN (map fst (vf_imports f)) = true ->
  snd (ask W f m n) = Some i -> (length (providers W f m n) <= 1)%nat ->
  fst (ask W (remove_import i f) m n) <> fst (ask W f m n).
Proof.
  intros HG Hf Hd Hm Hu. destruct m; cbn [ask providers] in *; try discriminate.
  - destruct (resolve_mark_sole _ _ f i HG Hf (lookup_fn_path_only W QElem _) Hd Hm Hu) as (H1 & a & e & H2).
    rewrite H1, H2. discriminate.
  - destruct (resolve_mark_sole _ _ f i HG Hf (lookup_fn_path_only W QDesc _) Hd Hm Hu) as (H1 & a & e & H2).
    rewrite H1, H2. discriminate.
Qed.

Lemma option_eq_dec_N (a b : option N) : {a = b} + {a <> b}.
Proof. decide equality. apply N.eq_dec. Qed.

Lemma run_marked_changes W f i : graph_ok (w_G W) = true -> In f (w_G W) ->
  nodupN (map fst (vf_imports f)) = true -> In (i, false) (vf_imports f) ->
  forall p, unique_along W f p -> In i (marks_of (snd (run W f p))) ->
  outcome (run W (remove_import i f) p) <> outcome (run W f p).
Proof.
  intros HG Hf Hd Hin. induction p as [r|m n k IH]; intros Hu Hm; [contradiction|].
  cbn [unique_along] in Hu. destruct Hu as [Hu1 Hu2].
  cbn [run snd] in Hm. rewrite marks_of_cons in Hm. cbn [ev_mark] in Hm.
  destruct (option_eq_dec_N (snd (ask W f m n)) (Some i)) as [Em|Em].
  - (* this lookup is the one that marks i: without i it is not answered *)
    pose proof (ask_sole W f i m n HG Hf Hd Em Hu1) as Hne.
    unfold outcome. cbn [run fst snd map ev_mode ev_name ev_res]. intros E. apply Hne. congruence.
  - assert (Ha : ask W (remove_import i f) m n = ask W f m n).
    { apply ask_remove; auto. intros b Hb. now apply (distinct_flag (vf_imports f) i b Hd Hin). }
    assert (Hm' : In i (marks_of (snd (run W f (k (gres_of W m n (fst (ask W f m n)))))))).
    { apply in_app_or in Hm. destruct Hm as [Hm|Hm]; [|exact Hm].
      destruct (snd (ask W f m n)) as [q|]; [|contradiction]. destruct Hm as [->|[]]. congruence. }
    specialize (IH _ Hu2 Hm'). unfold outcome in *. cbn [run fst snd map ev_mode ev_name ev_res].
    rewrite Ha. intros E. apply IH. injection E as E1 E2. now rewrite E1, E2.
Qed.

(* under the guard the warning is exact: warned iff not public and removable *)
Theorem unused_warning_iff_removable_partial_lemma W f refs i :
  graph_ok (w_G W) = true -> In f (w_G W) -> import_paths_distinct f ->
  unique_providers W f refs ->
  (warned W f refs i <-> (In (i, false) (vf_imports f) /\ removable W f refs i)).
Proof.
  intros HG Hf Hd Hu. split.
  - intros Hw. split; [now apply warned_spec in Hw|].
    now destruct (unused_warning_sound_lemma W f refs i HG Hf Hd Hw) as (_ & Hr & _).
  - intros [Hin Hr]. apply warned_spec. split; [exact Hin|]. intros Hused.
    apply used_in in Hused. destruct Hused as (p & Hp & Hm).
    apply (run_marked_changes W f i HG Hf Hd Hin p (Hu p Hp) Hm). now apply Hr.
Qed.

(* without the guard only one direction holds; the exact reading of a warning is:
   not public and no lookup of any reference is answered first through this import *)
Theorem warned_iff_never_first_lemma W f refs i :
  warned W f refs i <->
  (In (i, false) (vf_imports f) /\
   forall p, In p refs -> forall e, In e (snd (run W f p)) -> ev_mark e <> Some i).
Proof.
  rewrite warned_spec. split; intros [Hin H]; split; try exact Hin.
  - intros p Hp e He Em. apply H. apply used_in. exists p. split; [exact Hp|].
    unfold marks_of. apply in_flat_map. exists e. split; [exact He|]. rewrite Em. now left.
  - intros Hu. apply used_in in Hu. destruct Hu as (p & Hp & Hm). unfold marks_of in Hm.
    apply in_flat_map in Hm. destruct Hm as (e & He & Hi). apply (H p Hp e He).
    destruct (ev_mark e) as [q|]; [|contradiction]. destruct Hi as [->|[]]. reflexivity.
Qed.

(* ------------------------------------------------------------------ the programs are go_resolve *)
Lemma interp_bind qa qs qd p k : interp qa qs qd (bind p k) = interp qa qs qd (k (interp qa qs qd p)).
Proof. induction p as [r|m n k' IH]; cbn [bind interp]; [reflexivity|]. apply IH. Qed.

Lemma interp_rer_elem qa qs qd a b :
  interp qa qs qd (rer_prog QElem a b) = resolve_element_relative a b qa.
Proof.
  unfold rer_prog, resolve_element_relative. cbn [interp].
  destruct (qa a) eqn:E; cbn [interp]; try reflexivity;
    (destruct (name_eqb a b); cbn [interp]; [reflexivity|]);
    (match goal with |- context [negb ?x] => destruct x end; cbn [negb interp]; try reflexivity);
    destruct (qa b); reflexivity.
Qed.

Lemma interp_rer_self qa qs qd a b :
  interp qa qs qd (rer_prog QSelf a b) = resolve_element_relative a b qs.
Proof.
  unfold rer_prog, resolve_element_relative. cbn [interp].
  destruct (qs a) eqn:E; cbn [interp]; try reflexivity;
    (destruct (name_eqb a b); cbn [interp]; [reflexivity|]);
    (match goal with |- context [negb ?x] => destruct x end; cbn [negb interp]; try reflexivity);
    destruct (qs b); reflexivity.
Qed.

Section Interp.
  Variable U : universe.
  Let qa := query_all U.
  Let qs := query_self U.
  Variable qd : name -> gres.

  Lemma interp_step prefix a b :
    interp qa qs qd (file_scope_step_prog prefix a b) = file_scope_step U prefix a b.
  Proof.
    unfold file_scope_step_prog, file_scope_step. destruct (is_nil prefix); apply interp_rer_elem.
  Qed.

  Lemma interp_fsl prefixes a b skip : forall best,
    interp qa qs qd (file_scope_loop_skip_prog prefixes a b skip best)
    = file_scope_loop_skip U prefixes a b skip best.
  Proof.
    induction prefixes as [|p r IH]; intros best; cbn [file_scope_loop_skip_prog file_scope_loop_skip interp];
      [reflexivity|].
    rewrite interp_bind, interp_step.
    destruct (file_scope_step U p a b) eqn:E; try apply IH;
      (destruct (negb skip || _); [reflexivity|apply IH]).
  Qed.

  Lemma interp_scope sc a b skip :
    interp qa qs qd (run_scope_skip_prog (f_pkg (u_self U)) sc a b skip) = run_scope_skip U sc a b skip.
  Proof.
    destruct sc as [|m|p]; cbn [run_scope_skip_prog run_scope_skip run_scope].
    - apply interp_fsl.
    - unfold message_scope. apply interp_rer_self.
    - apply interp_step.
  Qed.

  Lemma interp_rl a nm ot scopes : forall best,
    interp qa qs qd (resolve_loop_skip_prog (f_pkg (u_self U)) a nm ot scopes best)
    = resolve_loop_skip U a nm ot scopes best.
  Proof.
    induction scopes as [|sc r IH]; intros best; cbn [resolve_loop_skip_prog resolve_loop_skip interp];
      [reflexivity|].
    rewrite interp_bind, interp_scope.
    destruct (run_scope_skip U sc a nm (ot && name_eqb a nm)) eqn:E; try apply IH;
      (destruct (negb ot || _ || _); [reflexivity|apply IH]).
  Qed.

  Lemma go_resolve_prog_is_go_resolve_lemma path nm ot :
    interp qa qs qd (go_resolve_prog (f_pkg (u_self U)) path nm ot) = go_resolve U path nm ot.
  Proof.
    unfold go_resolve_prog, go_resolve, scopes_for. destruct (starts_with_dot nm); [reflexivity|].
    apply interp_rl.
  Qed.
End Interp.

(* ------------------------------------------------------------------ the witness of the refutation:
   file 0 imports 1 and 2 (neither public); both publicly import 3, which declares message p.X;
   the only reference of file 0 is a field of type p.X.  Import 1 is marked, import 2 is warned
   about, yet the file resolves identically without import 1. *)
Definition pX : name := [112; 46; 88]%N.
Definition ex_W : world :=
  mkW [mkV 0 [(1, false); (2, false)] [] [] []; mkV 1 [(3, true)] [] [] []; mkV 2 [(3, true)] [] [] []; mkV 3 [] [] [] []]%N
      [(0, mkFile [] []); (1, mkFile [] []); (2, mkFile [] []); (3, mkFile [112]%N [(pX, KMessage)])]%N.
Definition ex_f : vfile := (mkV 0 [(1, false); (2, false)] [] [] [])%N.
Definition ex_refs : list prog := [ref_prog [] (RType [] pX)].

Lemma outcome_dec (a b : gres * list (qmode * name * vres)) : {a = b} + {a <> b}.
Proof. repeat decide equality; apply N.eq_dec. Qed.

Theorem unused_warning_iff_removable_refuted_lemma :
  exists W f refs i,
    graph_ok (w_G W) = true /\ In f (w_G W) /\ import_paths_distinct f /\
    In (i, false) (vf_imports f) /\ removable W f refs i /\ ~ warned W f refs i.
Proof.
  exists ex_W, ex_f, ex_refs, 1%N. split; [vm_compute; reflexivity|]. split; [now left|].
  split; [vm_compute; reflexivity|]. split; [now left|]. split.
  - intros p [<-|[]]. vm_compute. reflexivity.
  - unfold warned. intros H. vm_compute in H. destruct H as [H|[]]. discriminate.
Qed.

Lemma unused_example :
  warned_list ex_W ex_f ex_refs = [2%N] /\ used ex_W ex_f ex_refs = [1%N] /\
  fst (run ex_W ex_f (ref_prog [] (RType [] pX))) = GDesc pX KMessage /\
  fst (run ex_W (remove_import 2 ex_f) (ref_prog [] (RType [] pX))) = GDesc pX KMessage /\
  fst (run ex_W (remove_import 1 (remove_import 2 ex_f)) (ref_prog [] (RType [] pX))) = GNil.
Proof. repeat split; vm_compute; reflexivity. Qed.
