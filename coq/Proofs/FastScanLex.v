(* Proofs about the fast scanner's lexer (Model/FastScan.v):
   B. it never runs out of fuel;
   C. on every string literal the full lexer (Model/Lexer.v) accepts, it decodes the same bytes and
      stops at the same place (string_decode_agree_lemma). *)
From Coq Require Import List NArith ZArith Bool Lia Arith.
From PV Require Import Common.Bytes Model.Utf8 Proofs.Utf8 Model.Lexer Proofs.Lexer Model.FastScan.
Import ListNotations.
Open Scope nat_scope.

(* ================================================================================================
   B. totality
   ================================================================================================ *)
Lemma fread_runes_le : forall k rest rs n, fread_runes k rest = (rs, n) -> n <= length rest /\ length rs <= k.
Proof.
  induction k as [|k IH]; intros rest rs n; cbn [fread_runes].
  - intros H. inversion H. cbn. lia.
  - destruct rest as [|b r]; [intros H; inversion H; cbn; lia|].
    destruct (decode_rune (b :: r)) as [c sz] eqn:Ed.
    destruct (fread_runes k (skipn sz (b :: r))) as [rs' n'] eqn:Er.
    intros H. inversion H; subst. apply IH in Er. rewrite skipn_length in Er.
    pose proof (decode_size (b :: r) c sz ltac:(discriminate) Ed). cbn [length] in *. lia.
Qed.

(* ---- facts that do not depend on the parser of the escape digits ---- *)
Lemma hexdigit_not_sign c : is_hexdigit c = true -> (c =? 43)%N = false /\ (c =? 45)%N = false.
Proof. intros H. split; apply N.eqb_neq; intros ->; vm_compute in H; discriminate. Qed.

Lemma hexval_lt16 c : is_hexdigit c = true -> (hexval c < 16)%N.
Proof.
  unfold is_hexdigit, is_digit, hexval. rewrite !orb_true_iff, !andb_true_iff, !N.leb_le. intros H.
  destruct (N.leb_spec c 57); [lia|]. destruct (N.leb_spec c 70); lia.
Qed.

Lemma octdigit_hex c : is_octdigit c = true -> is_hexdigit c = true /\ (hexval c < 8)%N.
Proof.
  unfold is_octdigit, is_hexdigit, is_digit, hexval. rewrite andb_true_iff, !N.leb_le. intros [A B]. split.
  - apply orb_true_iff. left. apply orb_true_iff. left. apply andb_true_iff. rewrite !N.leb_le. lia.
  - destruct (N.leb_spec c 57); lia.
Qed.

(* ParseInt on a non-empty run of digits of the base below 2^31: the value, no error *)
Lemma parse_int_digits base ds :
  ds <> [] -> forallb (fun d => is_hexdigit d && (hexval d <? base)%N) ds = true ->
  (digits_val base ds < 2147483648)%N ->
  parse_int_32 base ds = Some (Z.of_N (digits_val base ds)).
Proof.
  intros Hne Hall Hlt. destruct ds as [|c r]; [congruence|].
  assert (Hc : is_hexdigit c = true).
  { cbn [forallb] in Hall. apply andb_true_iff in Hall. destruct Hall as [Hc _].
    apply andb_true_iff in Hc. tauto. }
  unfold parse_int_32. destruct (hexdigit_not_sign c Hc) as [-> ->].
  rewrite Hall. cbn [length Nat.ltb Nat.leb andb negb].
  destruct (N.leb_spec 4294967296 (digits_val base (c :: r))); [lia|].
  destruct (N.leb_spec 2147483648 (digits_val base (c :: r))); [lia|]. reflexivity.
Qed.

Lemma parse_uint_inv rs i : parse_uint16_32 rs = Some i ->
  rs <> [] /\ forallb is_hexdigit rs = true /\ i = digits_val 16 rs.
Proof.
  unfold parse_uint16_32.
  destruct (Nat.ltb 0 (length rs) && forallb is_hexdigit rs && (digits_val 16 rs <? 4294967296)%N) eqn:E;
    [|discriminate].
  intros H. inversion H. rewrite !andb_true_iff in E. destruct E as [[E1 E2] E3].
  split; [destruct rs; [cbn in E1; discriminate|discriminate]|]. split; [exact E2|reflexivity].
Qed.

Lemma hex_all16 rs : forallb is_hexdigit rs = true ->
  forallb (fun d => is_hexdigit d && (hexval d <? 16)%N) rs = true.
Proof.
  induction rs as [|c r IH]; cbn [forallb]; [reflexivity|]. rewrite !andb_true_iff. intros [A B].
  split; [split; [exact A|apply N.ltb_lt, hexval_lt16, A]|auto].
Qed.

Lemma oct_all8 ds : forallb is_octdigit ds = true ->
  forallb (fun d => is_hexdigit d && (hexval d <? 8)%N) ds = true.
Proof.
  induction ds as [|c r IH]; cbn [forallb]; [reflexivity|]. rewrite !andb_true_iff. intros [A B].
  destruct (octdigit_hex c A) as [H1 H2]. split; [split; [exact H1|apply N.ltb_lt, H2]|auto].
Qed.

(* where strconv.ParseUint (full lexer) succeeds below 2^31, strconv.ParseInt (fast lexer) gives the same *)
Lemma parse_uint_int rs i : parse_uint16_32 rs = Some i -> (i < 2147483648)%N ->
  parse_int_32 16 rs = Some (Z.of_N i).
Proof.
  intros H Hlt. apply parse_uint_inv in H. destruct H as (Hne & Hall & ->).
  apply parse_int_digits; [exact Hne|apply hex_all16, Hall|exact Hlt].
Qed.

Lemma parse_uint_small rs i : parse_uint16_32 rs = Some i -> length rs <= 4 -> (i < 65536)%N.
Proof.
  intros H Hl. apply parse_uint_inv in H. destruct H as (Hne & Hall & ->).
  destruct rs as [|a [|b [|c [|d [|? ?]]]]]; cbn [length] in Hl; try lia; try congruence;
    cbn [forallb] in Hall; rewrite ?andb_true_iff in Hall;
    repeat match goal with H : _ /\ _ |- _ => destruct H end;
    repeat match goal with H : is_hexdigit ?x = true |- _ => apply hexval_lt16 in H end;
    unfold digits_val; cbn [fold_left]; lia.
Qed.

Lemma byte_of_z_N i : byte_of_z (Z.of_N i) = (i mod 256)%N.
Proof.
  unfold byte_of_z. change 256%Z with (Z.of_N 256). rewrite <- N2Z.inj_mod by lia. apply N2Z.id.
Qed.

Lemma enc_rune_z_N i : enc_rune_z (Z.of_N i) = encode_rune i.
Proof.
  unfold enc_rune_z. destruct (Z.ltb_spec (Z.of_N i) 0); [lia|]. rewrite N2Z.id. reflexivity.
Qed.

(* a unicode escape the full lexer read completely: the fast lexer reads the same runes *)
Lemma read_uni_full : forall k q rest rs n, read_uni k q rest = Some (rs, n, true) ->
  fread_runes k rest = (rs, n) /\ length rs = k.
Proof.
  induction k as [|k IH]; intros q rest rs n; cbn [read_uni fread_runes].
  - intros H. inversion H. split; reflexivity.
  - destruct rest as [|b r]; [discriminate|].
    destruct (decode_rune (b :: r)) as [c sz] eqn:Ed.
    destruct ((c =? q)%N || (c =? 92)%N); [discriminate|].
    destruct (read_uni k q (skipn sz (b :: r))) as [[[rs' n'] full']|] eqn:Er; [|discriminate].
    intros H. inversion H; subst. apply IH in Er. destruct Er as [-> <-]. split; reflexivity.
Qed.

Lemma oct_emit_ok ds r : ds <> [] -> forallb is_octdigit ds = true -> (digits_val 8 ds <= 255)%N ->
  oct_emit ds r = FCont [digits_val 8 ds] r.
Proof.
  intros Hne Hall Hle. unfold oct_emit.
  rewrite (parse_int_digits 8 ds Hne (oct_all8 ds Hall)) by lia.
  replace (255 <? Z.of_N (digits_val 8 ds))%Z with false by (symmetry; apply Z.ltb_ge; lia).
  rewrite byte_of_z_N, N.mod_small by lia. reflexivity.
Qed.

Lemma octval1 e : is_octdigit e = true -> (digits_val 8 [e] <= 255)%N.
Proof. intros H. apply octdigit_hex in H. destruct H as [_ H]. unfold digits_val. cbn [fold_left]. lia. Qed.

Lemma octval2 e c2 : is_octdigit e = true -> is_octdigit c2 = true -> (digits_val 8 [e; c2] <= 255)%N.
Proof.
  intros H1 H2. apply octdigit_hex in H1, H2. destruct H1 as [_ H1]. destruct H2 as [_ H2].
  unfold digits_val. cbn [fold_left]. lia.
Qed.

Lemma decode_ascii_inv rest c sz : decode_rune rest = (c, sz) -> rest <> [] -> (c < 128)%N ->
  sz = 1 /\ exists t, rest = c :: t.
Proof.
  intros Ed Hne Hc. destruct rest as [|b t]; [congruence|].
  destruct (N.lt_ge_cases b 128) as [Hb|Hb].
  - rewrite (decode_rune_ascii b t Hb) in Ed. inversion Ed; subst. split; [reflexivity|eauto].
  - pose proof (decode_rune_high b t Hb) as H. rewrite Ed in H. cbn in H. lia.
Qed.

Lemma is_punct_ascii c : is_punct c = true -> (c < 128)%N.
Proof. unfold is_punct. rewrite !orb_true_iff, !N.eqb_eq. lia. Qed.

Lemma classify_kind t k : classify_number t = Some k -> (exists v, k = TInt v) \/ k = TFloat.
Proof.
  unfold classify_number.
  repeat match goal with
         | |- context [if ?b then _ else _] => destruct b
         | |- context [match ?l with [] => _ | _ :: _ => _ end] => destruct l
         end; intros H; inversion H; eauto.
Qed.

(* the line comment: the fast lexer also swallows the newline that ends it *)
Lemma line_comment_agree r2 : forall n, scan_line_comment r2 = COk n ->
  skip_line r2 = skipn n r2 \/ skipn n r2 = 10%N :: skip_line r2.
Proof.
  induction r2 as [|c r IH]; intros n; cbn [scan_line_comment skip_line].
  - intros H. inversion H. left. reflexivity.
  - destruct (c =? 10)%N eqn:E10.
    + intros H. inversion H. apply N.eqb_eq in E10. subst c. right. reflexivity.
    + destruct (c =? 0)%N; [discriminate|].
      destruct (scan_line_comment r) as [m| |]; try discriminate.
      intros H. inversion H. cbn [skipn]. apply IH. reflexivity.
Qed.

Lemma block_comment_agree r2 : forall n, scan_block_comment r2 = COk n -> skip_block r2 = skipn n r2.
Proof.
  induction r2 as [|c r IH]; intros n; cbn [scan_block_comment skip_block]; [discriminate|].
  destruct (c =? 0)%N; [discriminate|].
  destruct (c =? 42)%N.
  - destruct r as [|d r']; [discriminate|].
    destruct (d =? 47)%N; [intros H; inversion H; reflexivity|].
    destruct (scan_block_comment (d :: r')) as [m| |]; try discriminate.
    intros H. inversion H. cbn [skipn]. apply IH. reflexivity.
  - destruct (scan_block_comment r) as [m| |]; try discriminate.
    intros H. inversion H. cbn [skipn]. apply IH. reflexivity.
Qed.

Lemma skipn_succ (d : list N) pos c r : skipn pos d = c :: r -> skipn (S pos) d = r.
Proof.
  intros H. replace (S pos) with (pos + 1) by lia. rewrite <- skipn_skipn_N, H. reflexivity.
Qed.

Lemma sstate0_ok hi : st_ok hi sstate0.
Proof. split; cbn; [discriminate|intros z []]. Qed.

Lemma skip_line_le r : length (skip_line r) <= length r.
Proof. induction r as [|c r IH]; cbn; [lia|]. destruct (c =? 10)%N; cbn; lia. Qed.

Lemma skip_block_le r : length (skip_block r) <= length r.
Proof.
  induction r as [|c r IH]; cbn [skip_block length]; [lia|].
  destruct (c =? 42)%N; [|lia].
  destruct r as [|d r']; [cbn; lia|]. destruct (d =? 47)%N; cbn [length] in *; lia.
Qed.

Lemma oct_emit_rest ds r : exists ch, oct_emit ds r = FCont ch r.
Proof.
  unfold oct_emit. destruct (parse_int_32 8 ds) as [i|]; [destruct (255 <? i)%Z|]; eexists; reflexivity.
Qed.

Section WithHexParser.
(* the parser applied to the digits of hex and unicode escapes (Model/FastScan.v): totality holds
   for any such parser, agreement with the full lexer for any that agrees with the full lexer's
   ParseUint below 2^31 (hypothesis Hph further down) *)
Variable ph : list N -> option Z.

(* one iteration of readStringLiteral's loop stops, or continues with strictly less input *)
Definition fstep_ok (rest : list N) (r : fstep) : Prop :=
  match r with
  | FStop _ r' => length r' <= length rest
  | FCont _ r' => length r' < length rest
  end.

Lemma uni_emit_rest k e long r2 : exists ch n, uni_emit ph k e long r2 = FCont ch (skipn n r2).
Proof.
  unfold uni_emit. destruct (fread_runes k r2) as [rs n].
  destruct (ph _) as [i|]; [destruct (long && _)|]; eexists _, n; reflexivity.
Qed.

Ltac fin := cbn [fstep_ok length]; rewrite ?skipn_length; lia.

Lemma fstr_step_ok q rest : fstep_ok rest (fstr_step ph q rest).
Proof.
  unfold fstr_step. destruct rest as [|b0 r0] eqn:Erest; [cbn; lia|].
  rewrite <- Erest in *. assert (Hne : rest <> []) by (rewrite Erest; discriminate).
  destruct (decode_rune rest) as [c sz] eqn:Ed.
  pose proof (decode_size rest c sz Hne Ed) as Hsz.
  destruct (c =? q)%N; [fin|].
  destruct (negb (c =? 92)%N); [fin|].
  destruct (skipn sz rest) as [|b1 r1] eqn:Er1; [fin|].
  rewrite <- Er1 in *. assert (Hne1 : skipn sz rest <> []) by (rewrite Er1; discriminate).
  destruct (decode_rune (skipn sz rest)) as [e esz] eqn:Ed1.
  pose proof (decode_size _ e esz Hne1 Ed1) as Hesz. rewrite skipn_length in Hesz.
  destruct ((e =? 120)%N || (e =? 88)%N).
  { destruct (skipn esz (skipn sz rest)) as [|b2 r2] eqn:Er2; [fin|].
    rewrite <- Er2 in *. assert (Hne2 : skipn esz (skipn sz rest) <> []) by (rewrite Er2; discriminate).
    destruct (decode_rune (skipn esz (skipn sz rest))) as [c1 sz1] eqn:Ed2.
    pose proof (decode_size _ c1 sz1 Hne2 Ed2) as Hsz1. rewrite !skipn_length in Hsz1.
    destruct (skipn sz1 (skipn esz (skipn sz rest))) as [|b3 r3] eqn:Er3; [fin|].
    rewrite <- Er3 in *.
    destruct (decode_rune (skipn sz1 (skipn esz (skipn sz rest)))) as [c2 sz2] eqn:Ed3.
    destruct (is_hexdigit c2); cbv beta iota; destruct (ph _); fin. }
  destruct (is_octdigit e).
  { destruct (skipn esz (skipn sz rest)) as [|b2 r2] eqn:Er2; [fin|].
    rewrite <- Er2 in *. assert (Hne2 : skipn esz (skipn sz rest) <> []) by (rewrite Er2; discriminate).
    destruct (decode_rune (skipn esz (skipn sz rest))) as [c2 sz2] eqn:Ed2.
    pose proof (decode_size _ c2 sz2 Hne2 Ed2) as Hsz2. rewrite !skipn_length in Hsz2.
    destruct (negb (is_octdigit c2)).
    { destruct (oct_emit_rest [e] (skipn esz (skipn sz rest))) as [ch ->]. fin. }
    destruct (skipn sz2 (skipn esz (skipn sz rest))) as [|b3 r3] eqn:Er3; [fin|].
    rewrite <- Er3 in *.
    destruct (decode_rune (skipn sz2 (skipn esz (skipn sz rest)))) as [c3 sz3] eqn:Ed3.
    destruct (negb (is_octdigit c3)).
    - destruct (oct_emit_rest [e; c2] (skipn sz2 (skipn esz (skipn sz rest)))) as [ch ->]. fin.
    - destruct (oct_emit_rest [e; c2; c3] (skipn sz3 (skipn sz2 (skipn esz (skipn sz rest))))) as [ch ->]. fin. }
  destruct (e =? 117)%N.
  { destruct (uni_emit_rest 4 117%N false (skipn esz (skipn sz rest))) as (ch & n & ->). fin. }
  destruct (e =? 85)%N.
  { destruct (uni_emit_rest 8 85%N true (skipn esz (skipn sz rest))) as (ch & n & ->). fin. }
  destruct (simple_esc e); fin.
Qed.

Lemma fstring_total q : forall fuel rest, length rest < fuel ->
  exists b r, fstring ph fuel q rest = Some (b, r) /\ length r <= length rest.
Proof.
  induction fuel as [|fuel IH]; intros rest Hf; [lia|]. cbn [fstring].
  pose proof (fstr_step_ok q rest) as Hs. destruct (fstr_step ph q rest) as [ch r|ch r]; cbn [fstep_ok] in Hs.
  - exists ch, r. split; [reflexivity|exact Hs].
  - destruct (IH r ltac:(lia)) as (b & r' & -> & Hl). exists (ch ++ b), r'. split; [reflexivity|lia].
Qed.

Theorem fast_string_total_lemma : forall q rest, fast_decode ph q rest <> None.
Proof.
  intros q rest. unfold fast_decode.
  destruct (fstring_total q (S (length rest)) rest ltac:(lia)) as (b & r & -> & _). discriminate.
Qed.

(* one call of Lex on input that does not start with white space consumes at least one byte *)
Definition fdres_ok (rest : list N) (r : fdres) : Prop :=
  match r with
  | FTok _ r' | FSkip r' => length r' < length rest
  | FFuel => False
  end.

Lemma fdispatch_ok rest : rest <> [] -> fdres_ok rest (fdispatch ph rest).
Proof.
  intros Hne. unfold fdispatch.
  destruct (decode_rune rest) as [c sz] eqn:Ed.
  pose proof (decode_size rest c sz Hne Ed) as Hsz.
  assert (Hl1 : length (skipn sz rest) = length rest - sz) by apply skipn_length.
  destruct (c =? 46)%N.
  { destruct (skipn sz rest) as [|d r2] eqn:Er; [cbn in *; lia|].
    destruct (is_digit d); cbn [fdres_ok]; [rewrite skipn_length; lia|cbn [length] in *; lia]. }
  destruct (is_ident_start c); [cbn [fdres_ok]; rewrite skipn_length; lia|].
  destruct (is_digit c); [cbn [fdres_ok]; rewrite skipn_length; lia|].
  destruct ((c =? 39)%N || (c =? 34)%N).
  { destruct (fstring_total c (S (length (skipn sz rest))) (skipn sz rest) ltac:(lia)) as (b & r & -> & Hl).
    cbn [fdres_ok]. lia. }
  destruct (c =? 47)%N.
  { destruct (skipn sz rest) as [|d r2] eqn:Er; [cbn in *; lia|]. cbn [length] in Hl1.
    destruct (d =? 47)%N; [pose proof (skip_line_le r2); cbn [fdres_ok]; lia|].
    destruct (d =? 42)%N; [pose proof (skip_block_le r2); cbn [fdres_ok]; lia|].
    cbn [fdres_ok length]. lia. }
  cbn [fdres_ok]. lia.
Qed.

Lemma ftokens_total : forall fuel rest, length rest < fuel -> ftokens ph fuel rest <> None.
Proof.
  induction fuel as [|fuel IH]; intros rest Hf; [lia|]. cbn [ftokens].
  destruct rest as [|c r]; [discriminate|].
  destruct (is_ws c); [apply IH; cbn [length] in Hf; lia|].
  pose proof (fdispatch_ok (c :: r) ltac:(discriminate)) as Hd.
  destruct (fdispatch ph (c :: r)) as [t r'|r'|]; cbn [fdres_ok] in Hd; [| |contradiction].
  - specialize (IH r' ltac:(lia)). destruct (ftokens ph fuel r'); [discriminate|congruence].
  - apply IH. lia.
Qed.

Theorem fast_lex_total_lemma : forall data, fast_lex ph data <> None.
Proof. intros data. unfold fast_lex. apply ftokens_total. lia. Qed.

Theorem fast_scan_total_lemma : forall data, fast_scan ph data <> None.
Proof.
  intros data. unfold fast_scan. pose proof (fast_lex_total_lemma data) as H.
  destruct (fast_lex ph data); [discriminate|congruence].
Qed.

(* with enough fuel the result of ftokens does not depend on the fuel *)
Lemma ftokens_fuel : forall fuel fuel' rest, length rest < fuel -> length rest < fuel' ->
  ftokens ph fuel rest = ftokens ph fuel' rest.
Proof.
  induction fuel as [|fuel IH]; intros fuel' rest Hf Hf'; [lia|].
  destruct fuel' as [|fuel']; [lia|]. cbn [ftokens].
  destruct rest as [|c r]; [reflexivity|].
  destruct (is_ws c); [apply IH; cbn [length] in *; lia|].
  pose proof (fdispatch_ok (c :: r) ltac:(discriminate)) as Hd.
  destruct (fdispatch ph (c :: r)) as [t r'|r'|]; cbn [fdres_ok] in Hd; [| |contradiction].
  - rewrite (IH fuel' r') by lia. reflexivity.
  - apply IH; lia.
Qed.

(* ================================================================================================
   C. string literals: the fast lexer against the full lexer
   ================================================================================================ *)

Lemma uni_emit_ok k e long r2 rs n i :
  fread_runes k r2 = (rs, n) -> length rs = k -> ph rs = Some (Z.of_N i) ->
  (long = true -> (i <= 1114111)%N) ->
  uni_emit ph k e long r2 = FCont (encode_rune i) (skipn n r2).
Proof.
  intros Hfr Hl Hp Hlong. unfold uni_emit. rewrite Hfr, Hl, Nat.sub_diag, Nat.ltb_irrefl.
  cbn [repeat]. rewrite app_nil_r, Hp. cbn [app]. rewrite enc_rune_z_N.
  destruct long; cbn [andb]; [|reflexivity].
  specialize (Hlong eq_refl).
  replace (1114111 <? Z.of_N i)%Z with false by (symmetry; apply Z.ltb_ge; lia).
  replace (Z.of_N i <? 0)%Z with false by (symmetry; apply Z.ltb_ge; lia).
  reflexivity.
Qed.

Hypothesis Hph : forall rs i, parse_uint16_32 rs = Some i -> (i < 2147483648)%N -> ph rs = Some (Z.of_N i).

(* one iteration: if the full lexer stops with the closing quote, so does the fast lexer, at the
   same place; if it continues it either has noted an error, or it has appended bytes and then the
   fast lexer appends the same bytes and continues at the same place *)
Definition step_agree_rel (q : N) (pos : nat) (rest : list N) (st : sstate) (r : sstep) : Prop :=
  match r with
  | SCont pos' rest' st' =>
    (exists z, st' = report st z) \/
    (exists bs, st' = emit st bs /\ fstr_step ph q rest = FCont bs rest')
  | SStop (SDone endpos st') =>
    st' = st /\ exists k, endpos = pos + k /\ fstr_step ph q rest = FStop [] (skipn k rest)
  | SStop _ => True
  end.

Ltac rep := left; eexists; reflexivity.
Ltac emi := right; eexists; split; [reflexivity|].

Lemma string_step_agree q pos rest st : step_agree_rel q pos rest st (string_step q pos rest st).
Proof.
  unfold step_agree_rel, string_step, fstr_step.
  destruct rest as [|b0 r0] eqn:Erest; [exact I|].
  rewrite <- Erest in *.
  destruct (decode_rune rest) as [c sz] eqn:Ed.
  destruct (c =? 10)%N; [exact I|].
  destruct (c =? q)%N; [split; [reflexivity|exists sz; split; reflexivity]|].
  destruct (c =? 0)%N; [rep|].
  destruct (negb (c =? 92)%N); [emi; reflexivity|].
  destruct (skipn sz rest) as [|b1 r1] eqn:Er1; [exact I|].
  rewrite <- Er1 in *.
  destruct (decode_rune (skipn sz rest)) as [e esz] eqn:Ed1.
  destruct ((e =? 120)%N || (e =? 88)%N).
  { destruct (skipn esz (skipn sz rest)) as [|b2 r2] eqn:Er2; [exact I|].
    rewrite <- Er2 in *.
    destruct (decode_rune (skipn esz (skipn sz rest))) as [c1 sz1] eqn:Ed2.
    destruct ((c1 =? q)%N || (c1 =? 92)%N); [rep|].
    destruct (skipn sz1 (skipn esz (skipn sz rest))) as [|b3 r3] eqn:Er3; [exact I|].
    rewrite <- Er3 in *.
    destruct (decode_rune (skipn sz1 (skipn esz (skipn sz rest)))) as [c2 sz2] eqn:Ed3.
    destruct (is_hexdigit c2); cbv beta iota.
    - destruct (parse_uint16_32 [c1; c2]) as [i|] eqn:Ep; [|rep]. emi.
      pose proof (parse_uint_small _ _ Ep ltac:(cbn; lia)) as Hi.
      rewrite (Hph _ _ Ep) by lia. rewrite byte_of_z_N. reflexivity.
    - destruct (parse_uint16_32 [c1]) as [i|] eqn:Ep; [|rep]. emi.
      pose proof (parse_uint_small _ _ Ep ltac:(cbn; lia)) as Hi.
      rewrite (Hph _ _ Ep) by lia. rewrite byte_of_z_N. reflexivity. }
  destruct (is_octdigit e) eqn:Eo.
  { destruct (skipn esz (skipn sz rest)) as [|b2 r2] eqn:Er2; [exact I|].
    rewrite <- Er2 in *.
    destruct (decode_rune (skipn esz (skipn sz rest))) as [c2 sz2] eqn:Ed2.
    destruct (is_octdigit c2) eqn:Eo2; cbn [negb].
    2:{ emi. apply oct_emit_ok; [discriminate|cbn [forallb]; rewrite Eo; reflexivity|apply octval1, Eo]. }
    destruct (skipn sz2 (skipn esz (skipn sz rest))) as [|b3 r3] eqn:Er3; [exact I|].
    rewrite <- Er3 in *.
    destruct (decode_rune (skipn sz2 (skipn esz (skipn sz rest)))) as [c3 sz3] eqn:Ed3.
    destruct (is_octdigit c3) eqn:Eo3; cbn [negb].
    2:{ emi. apply oct_emit_ok; [discriminate|cbn [forallb]; rewrite Eo, Eo2; reflexivity|apply octval2; assumption]. }
    destruct (255 <? digits_val 8 [e; c2; c3])%N eqn:E255; [rep|]. emi.
    apply oct_emit_ok; [discriminate|cbn [forallb]; rewrite Eo, Eo2, Eo3; reflexivity|apply N.ltb_ge, E255]. }
  destruct (e =? 117)%N.
  { destruct (read_uni 4 q (skipn esz (skipn sz rest))) as [[[rs n] full]|] eqn:Eu; [|exact I].
    destruct full; cbn [negb]; [|rep].
    destruct (parse_uint16_32 rs) as [i|] eqn:Ep; [|rep]. emi.
    destruct (read_uni_full _ _ _ _ _ Eu) as [Hfr Hl].
    pose proof (parse_uint_small _ _ Ep ltac:(lia)) as Hi.
    apply uni_emit_ok with (rs := rs); [exact Hfr|exact Hl|apply Hph; [exact Ep|lia]|discriminate]. }
  destruct (e =? 85)%N.
  { destruct (read_uni 8 q (skipn esz (skipn sz rest))) as [[[rs n] full]|] eqn:Eu; [|exact I].
    destruct full; cbn [negb]; [|rep].
    destruct (parse_uint16_32 rs) as [i|] eqn:Ep; [|rep].
    destruct (1114111 <? i)%N eqn:Emax; [rep|]. emi. apply N.ltb_ge in Emax.
    destruct (read_uni_full _ _ _ _ _ Eu) as [Hfr Hl].
    apply uni_emit_ok with (rs := rs); [exact Hfr|exact Hl|apply Hph; [exact Ep|lia]|intros _; exact Emax]. }
  destruct (simple_esc e); [emi; reflexivity|rep].
Qed.

Lemma scan_string_agree q : forall fuel pos rest st endpos stf,
  st_ok (pos + length rest) st ->
  scan_string fuel q pos rest st = SDone endpos stf -> s_pend stf = None ->
  s_pend st = None /\
  exists suffix k, s_buf stf = s_buf st ++ suffix /\ endpos = pos + k /\ k <= length rest /\
    forall fuel', length rest < fuel' -> fstring ph fuel' q rest = Some (suffix, skipn k rest).
Proof.
  induction fuel as [|fuel IH]; intros pos rest st endpos stf Hst Hs Hp; [discriminate|].
  cbn [scan_string] in Hs.
  pose proof (string_step_ok q pos rest st Hst) as Hok.
  pose proof (string_step_agree q pos rest st) as Hag.
  destruct (string_step q pos rest st) as [r|pos' rest' st'].
  - subst r. cbn [step_ok step_agree_rel] in Hok, Hag.
    destruct Hag as [-> (k & -> & Hf)]. destruct Hok as (k0 & Hk0 & Hk0e & _).
    split; [exact Hp|]. exists [], k. rewrite app_nil_r.
    split; [reflexivity|]. split; [reflexivity|]. split; [lia|].
    intros fuel' Hf'. destruct fuel' as [|fuel']; [lia|]. cbn [fstring]. rewrite Hf. reflexivity.
  - cbn [step_ok] in Hok. destruct Hok as (k & Hk & -> & -> & Hst').
    assert (Hhi : pos + k + length (skipn k rest) = pos + length rest) by (rewrite skipn_length; lia).
    specialize (IH (pos + k) (skipn k rest) st' endpos stf ltac:(rewrite Hhi; exact Hst') Hs Hp).
    destruct IH as (Hp' & suf & k2 & Hbuf & -> & Hk2 & Hfs).
    cbn [step_agree_rel] in Hag. destruct Hag as [(z & ->)|(bs & -> & Hf)].
    + cbn in Hp'. discriminate.
    + cbn in Hp', Hbuf. split; [exact Hp'|]. exists (bs ++ suf), (k + k2). rewrite app_assoc.
      rewrite skipn_length in Hk2.
      split; [exact Hbuf|]. split; [lia|]. split; [lia|].
      intros fuel' Hf'. destruct fuel' as [|fuel']; [lia|]. cbn [fstring]. rewrite Hf.
      rewrite Hfs by (rewrite skipn_length; lia). rewrite skipn_skipn_N. reflexivity.
Qed.

(* C25 (2): every string literal the full lexer accepts is decoded to the same bytes by the fast
   lexer, which also stops right after the same closing quote *)
Theorem string_decode_agree_lemma : forall q rest bs n,
  full_decode q rest = Some (bs, n) -> fast_decode ph q rest = Some (bs, skipn n rest).
Proof.
  intros q rest bs n H. unfold full_decode in H. unfold fast_decode.
  destruct (scan_string (S (length rest)) q 1 rest sstate0) as [endpos st| | |] eqn:Es; try discriminate.
  destruct (s_pend st) eqn:Ep; [discriminate|]. inversion H; subst.
  destruct (scan_string_agree q _ _ _ _ _ _ (sstate0_ok _) Es Ep) as (_ & suf & k & Hbuf & -> & Hk & Hf).
  cbn in Hbuf. rewrite Hbuf. replace (1 + k - 1) with k by lia. apply Hf. lia.
Qed.

(* ================================================================================================
   D. the whole token stream: the fast lexer against the full lexer
   ================================================================================================ *)

(* one item of the full lexer: the fast lexer produces the corresponding token (or skips the
   comment) and continues at the same place, or one newline further after a line comment *)
Lemma dispatch_agree pos rest it : rest <> [] -> dispatch pos rest = DItem it ->
  exists r', (r' = skipn (i_len it) rest \/ skipn (i_len it) rest = 10%N :: r') /\
    fdispatch ph rest = match ftok_local rest it with Some t => FTok t r' | None => FSkip r' end.
Proof.
  intros Hne. unfold dispatch, fdispatch.
  destruct (decode_rune rest) as [c sz] eqn:Ed.
  assert (Hasc : (c < 128)%N -> sz = 1 /\ exists t, rest = c :: t) by (apply decode_ascii_inv; assumption).
  destruct (c =? 46)%N eqn:E46.
  { apply N.eqb_eq in E46. destruct (Hasc ltac:(lia)) as [-> [t ->]]. cbn [skipn].
    destruct t as [|d r2].
    - intros H. inversion H. cbn. eexists. split; [left; reflexivity|reflexivity].
    - destruct (is_digit d).
      + destruct (float_syntax_ok _); [|discriminate]. intros H. inversion H. cbn.
        eexists. split; [left; reflexivity|reflexivity].
      + intros H. inversion H. cbn. eexists. split; [left; reflexivity|reflexivity]. }
  destruct (is_ident_start c).
  { intros H. inversion H. cbn. eexists. split; [left; reflexivity|reflexivity]. }
  destruct (is_digit c).
  { destruct (classify_number _) as [k|] eqn:Ek; [|discriminate]. intros H. inversion H.
    destruct (classify_kind _ _ Ek) as [[v ->]| ->]; cbn; eexists; (split; [left; reflexivity|reflexivity]). }
  destruct ((c =? 39)%N || (c =? 34)%N) eqn:Eq.
  { assert (Hc : (c < 128)%N) by (rewrite orb_true_iff, !N.eqb_eq in Eq; lia).
    destruct (Hasc Hc) as [-> [t ->]]. cbn [skipn].
    fold sstate0.
    destruct (scan_string (S (length t)) c (pos + 1) t sstate0) as [endpos st| | |] eqn:Es; try discriminate.
    destruct (s_pend st) eqn:Ep; [discriminate|]. intros H. inversion H.
    destruct (scan_string_agree c _ _ _ _ _ _ (sstate0_ok _) Es Ep) as (_ & suf & k & Hbuf & -> & Hk & Hf).
    cbn in Hbuf. rewrite Hbuf, Hf by lia. cbn.
    replace (pos + 1 + k - pos) with (S k) by lia. cbn [skipn].
    eexists. split; [left; reflexivity|reflexivity]. }
  destruct (c =? 47)%N eqn:E47.
  { apply N.eqb_eq in E47. destruct (Hasc ltac:(lia)) as [-> [t ->]]. cbn [skipn].
    destruct t as [|d r2].
    - intros H. inversion H. cbn. eexists. split; [left; reflexivity|reflexivity].
    - destruct (d =? 47)%N.
      + destruct (scan_line_comment r2) as [n| |] eqn:Ec; try discriminate.
        intros H. inversion H. cbn. exists (skip_line r2). split; [|reflexivity].
        destruct (line_comment_agree r2 n Ec) as [E|E]; [left|right]; exact E.
      + destruct (d =? 42)%N.
        * destruct (scan_block_comment r2) as [n| |] eqn:Ec; try discriminate.
          intros H. inversion H. cbn. exists (skip_block r2). split; [|reflexivity].
          left. apply block_comment_agree. exact Ec.
        * intros H. inversion H. cbn. eexists. split; [left; reflexivity|reflexivity]. }
  destruct ((c <? 32)%N || (c =? 127)%N); [discriminate|].
  destruct (is_punct c) eqn:Ep; cbn [negb]; [|discriminate].
  destruct (Hasc (is_punct_ascii c Ep)) as [-> [t ->]].
  intros H. inversion H. cbn. eexists. split; [left; reflexivity|reflexivity].
Qed.

Lemma ftokens_after r' s : (r' = s \/ s = 10%N :: r') ->
  forall f f', length s < f -> length r' < f' -> ftokens ph f s = ftokens ph f' r'.
Proof.
  intros [->| ->] f f' Hf Hf'.
  - apply ftokens_fuel; assumption.
  - destruct f as [|f]; [lia|]. cbn [ftokens]. change (is_ws 10) with true. cbv iota.
    apply ftokens_fuel; [cbn [length] in Hf; lia|assumption].
Qed.

Lemma lex_loop_agree d : forall fuel pos rest acc items,
  rest = skipn pos d -> lex_loop fuel pos rest acc = LDone items ->
  exists new, items = rev acc ++ new /\
    forall fuel', length rest < fuel' -> ftokens ph fuel' rest = Some (ftoks_of_items d new).
Proof.
  induction fuel as [|fuel IH]; intros pos rest acc items Hrest Hl; [discriminate|].
  cbn [lex_loop] in Hl. destruct rest as [|c r].
  - inversion Hl. exists [mk (IToken TEof) pos 0]. split; [reflexivity|].
    intros fuel' Hf. destruct fuel'; [cbn in Hf; lia|]. reflexivity.
  - destruct (is_ws c) eqn:Ews.
    + destruct (IH (S pos) r acc items (eq_sym (skipn_succ d pos c r (eq_sym Hrest))) Hl) as (new & -> & Hf).
      exists new. split; [reflexivity|]. intros fuel' Hf'. destruct fuel' as [|fuel']; [lia|].
      cbn [ftokens]. rewrite Ews. apply Hf. cbn [length] in Hf'. lia.
    + destruct (dispatch pos (c :: r)) as [it|es] eqn:Ed; [|discriminate].
      pose proof (dispatch_ok pos (c :: r) ltac:(discriminate)) as Hok. rewrite Ed in Hok.
      destruct Hok as [Hoff Hlen].
      destruct (dispatch_agree pos (c :: r) it ltac:(discriminate) Ed) as (r' & Hr' & Hfd).
      assert (Hrest' : skipn (i_len it) (c :: r) = skipn (pos + i_len it) d)
        by (rewrite Hrest; apply skipn_skipn_N).
      destruct (IH (pos + i_len it) (skipn (i_len it) (c :: r)) (it :: acc) items Hrest' Hl) as (new & -> & Hf).
      exists (it :: new). split; [cbn [rev]; rewrite <- app_assoc; reflexivity|].
      intros fuel' Hf'. destruct fuel' as [|fuel']; [lia|]. cbn [ftokens]. rewrite Ews, Hfd.
      assert (Hls : length (skipn (i_len it) (c :: r)) < length (c :: r)) by (rewrite skipn_length; lia).
      assert (Hlr : length r' <= length (skipn (i_len it) (c :: r))).
      { destruct Hr' as [->|E]; [lia|]. rewrite E. cbn [length]. lia. }
      assert (Hnext : ftokens ph fuel' r' = Some (ftoks_of_items d new)).
      { rewrite <- (Hf (S (length (skipn (i_len it) (c :: r)))) ltac:(lia)). symmetry.
        apply ftokens_after; [destruct Hr' as [->|E]; [left; reflexivity|right; exact E]|lia|lia]. }
      unfold ftoks_of_items. cbn [flat_map]. unfold ftok_of_item at 1.
      rewrite Hoff, <- Hrest.
      destruct (ftok_local (c :: r) it) as [t|]; rewrite Hnext; reflexivity.
Qed.

(* C25: on every input the full lexer accepts, the fast lexer returns the same tokens: same raw
   text of names and numbers, same decoded value of every string literal, same symbols *)
Theorem fast_lex_agree_lemma : forall data items, lex data = LDone items ->
  fast_lex ph data = Some (ftoks_of_items (strip_bom data) items).
Proof.
  intros data items H. unfold lex in H. unfold fast_lex.
  destruct (lex_loop_agree (strip_bom data) _ 0 (strip_bom data) [] items eq_refl H) as (new & -> & Hf).
  apply Hf. lia.
Qed.

End WithHexParser.

(* ---- the two parsers the model is instantiated with ---- *)
Lemma hex_signed_ok : forall rs i, parse_uint16_32 rs = Some i -> (i < 2147483648)%N ->
  hex_signed rs = Some (Z.of_N i).
Proof. exact parse_uint_int. Qed.

Lemma hex_unsigned_ok : forall rs i, parse_uint16_32 rs = Some i -> (i < 2147483648)%N ->
  hex_unsigned rs = Some (Z.of_N i).
Proof. intros rs i H _. unfold hex_unsigned. rewrite H. reflexivity. Qed.
