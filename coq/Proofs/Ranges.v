(* C04 - proofs for Model/Ranges.v: the linker's Has (linear scan in declaration order) and the runtime's Has
   (binary search in a copy sorted by start) both decide membership in one of the ranges, for every valid list
   of ranges in ANY declaration order and every number; so they agree. *)
From Coq Require Import List ZArith Bool Lia Sorting.Permutation Sorting.Sorted PeanoNat.
From PV Require Import Model.Ranges.
Import ListNotations.
Open Scope Z_scope.

(* ------------------------------------------------------------------ the linker's scan *)
Lemma lk_in_iff : forall incl r n, lk_in incl r n = true <-> in_range incl r n.
Proof.
  intros incl [s e] n. unfold lk_in, in_range, r_start, r_last. cbn [fst snd].
  destruct incl; rewrite andb_true_iff; rewrite Z.leb_le.
  - rewrite Z.geb_le. lia.
  - rewrite Z.gtb_lt. lia.
Qed.

Lemma lk_has_iff : forall incl rs n, lk_has incl rs n = true <-> has_spec incl rs n.
Proof.
  intros incl rs n. induction rs as [| r rest IH]; cbn [lk_has].
  - split; [discriminate | intros [r [[] _]]].
  - destruct (lk_in incl r n) eqn:E.
    + split; [intros _ | reflexivity]. exists r. split; [left; reflexivity | apply lk_in_iff; exact E].
    + rewrite IH. split.
      * intros [x [Hx Hn]]. exists x. split; [right; exact Hx | exact Hn].
      * intros [x [[Hx | Hx] Hn]].
        -- subst x. apply lk_in_iff in Hn. rewrite Hn in E. discriminate.
        -- exists x. split; assumption.
Qed.

(* ------------------------------------------------------------------ the sorted copy *)
Definition by_start (a b : range) : Prop := r_start a <= r_start b.

Lemma insert_perm : forall r l, Permutation (insert_by_start r l) (r :: l).
Proof.
  intros r l. induction l as [| x rest IH]; cbn [insert_by_start].
  - apply Permutation_refl.
  - destruct (r_start r <=? r_start x).
    + apply Permutation_refl.
    + eapply Permutation_trans; [apply perm_skip; exact IH | apply perm_swap].
Qed.

Lemma sort_perm : forall l, Permutation (sort_by_start l) l.
Proof.
  induction l as [| x rest IH]; cbn [sort_by_start].
  - apply Permutation_refl.
  - eapply Permutation_trans; [apply insert_perm | apply perm_skip; exact IH].
Qed.

Lemma insert_sorted : forall r l, StronglySorted by_start l -> StronglySorted by_start (insert_by_start r l).
Proof.
  intros r l H. induction H as [| x rest Hs IH Hall]; cbn [insert_by_start].
  - constructor; constructor.
  - destruct (r_start r <=? r_start x) eqn:E.
    + apply Z.leb_le in E. constructor.
      * constructor; assumption.
      * constructor; [exact E |].
        eapply Forall_impl; [| exact Hall]. intros y Hy. unfold by_start in *. lia.
    + apply Z.leb_gt in E. constructor; [exact IH |].
      eapply Permutation_Forall; [apply Permutation_sym; apply insert_perm |].
      constructor; [unfold by_start; lia | exact Hall].
Qed.

Lemma sort_sorted : forall l, StronglySorted by_start (sort_by_start l).
Proof.
  induction l as [| x rest IH]; cbn [sort_by_start]; [constructor | apply insert_sorted; exact IH].
Qed.

Lemma sorted_split : forall l1 r l2, StronglySorted by_start (l1 ++ r :: l2) ->
  StronglySorted by_start l1 /\ StronglySorted by_start l2 /\
  Forall (fun x => by_start x r) l1 /\ Forall (by_start r) l2.
Proof.
  induction l1 as [| a l1 IH]; intros r l2 H; cbn [app] in H.
  - inversion H as [| x l Hs Hall]; subst. repeat split; [constructor | exact Hs | constructor | exact Hall].
  - inversion H as [| x l Hs Hall]; subst. destruct (IH _ _ Hs) as [S1 [S2 [F1 F2]]].
    repeat split; try assumption.
    + constructor; [exact S1 |]. apply Forall_app in Hall. tauto.
    + constructor; [| exact F1]. apply Forall_app in Hall. destruct Hall as [_ Hr]. inversion Hr; assumption.
Qed.

(* ------------------------------------------------------------------ slicing around the middle element *)
Lemma firstn_length_app : forall {A} (l1 l2 : list A), firstn (length l1) (l1 ++ l2) = l1.
Proof. induction l1 as [| a l1 IH]; intros l2; cbn; [destruct l2; reflexivity | rewrite IH; reflexivity]. Qed.

Lemma skipn_S_length_app : forall {A} (l1 : list A) r l2, skipn (S (length l1)) (l1 ++ r :: l2) = l2.
Proof. induction l1 as [| a l1 IH]; intros r l2; cbn [length app skipn]; [reflexivity | apply IH]. Qed.

(* ------------------------------------------------------------------ the binary search *)
Definition pairwise (incl : bool) (ls : list range) : Prop :=
  forall a b, In a ls -> In b ls -> a = b \/ disjoint incl a b.

Lemma rt_search_step : forall incl k ls n, ls <> [] ->
  rt_search incl (S k) ls n =
  match nth_error ls (Nat.div2 (length ls)) with
  | None => None
  | Some r => if n <? r_start r then rt_search incl k (firstn (Nat.div2 (length ls)) ls) n
              else if n >? r_last incl r then rt_search incl k (skipn (S (Nat.div2 (length ls))) ls) n
              else Some true
  end.
Proof. intros incl k ls n H. destruct ls; [congruence | reflexivity]. Qed.

Lemma rt_search_correct : forall incl fuel ls n,
  (length ls <= fuel)%nat -> StronglySorted by_start ls -> Forall (nonempty incl) ls -> pairwise incl ls ->
  exists b, rt_search incl fuel ls n = Some b /\ (b = true <-> has_spec incl ls n).
Proof.
  intros incl fuel. induction fuel as [| k IH]; intros ls n Hlen Hs Hne Hpw.
  - destruct ls as [| x rest]; [| cbn in Hlen; lia].
    exists false. split; [reflexivity |]. split; [discriminate | intros [r [[] _]]].
  - destruct ls as [| x0 rest0] eqn:Els.
    + exists false. split; [reflexivity |]. split; [discriminate | intros [r [[] _]]].
    + rewrite (rt_search_step incl k (x0 :: rest0) n) by discriminate. rewrite <- Els in *.
      assert (Hpos : (0 < length ls)%nat) by (rewrite Els; cbn [length]; lia).
      pose proof (Nat.lt_div2 _ Hpos) as Hi.
      set (i := Nat.div2 (length ls)) in *.
      destruct (nth_error ls i) as [r |] eqn:En; [| apply nth_error_None in En; lia].
      destruct (nth_error_split _ _ En) as [l1 [l2 [Hsplit Hl1]]].
      assert (Hf : firstn i ls = l1) by (rewrite Hsplit, <- Hl1; apply firstn_length_app).
      assert (Hk : skipn (S i) ls = l2) by (rewrite Hsplit, <- Hl1; apply skipn_S_length_app).
      rewrite Hf, Hk.
      assert (Hlen2 : length ls = (length l1 + S (length l2))%nat) by (rewrite Hsplit, app_length; reflexivity).
      rewrite Hsplit in Hs. destruct (sorted_split _ _ _ Hs) as [S1 [S2 [F1 F2]]].
      assert (Hne1 : Forall (nonempty incl) l1 /\ nonempty incl r /\ Forall (nonempty incl) l2).
      { rewrite Hsplit in Hne. apply Forall_app in Hne. destruct Hne as [A B]. inversion B; subst. tauto. }
      destruct Hne1 as [Hne1 [Hner Hne2]].
      assert (Hin1 : forall x, In x l1 -> In x ls) by (intros y Hy; rewrite Hsplit; apply in_or_app; left; exact Hy).
      assert (Hin2 : forall x, In x l2 -> In x ls) by (intros y Hy; rewrite Hsplit; apply in_or_app; right; right; exact Hy).
      assert (Hinr : In r ls) by (rewrite Hsplit; apply in_or_app; right; left; reflexivity).
      destruct (n <? r_start r) eqn:E1.
      * apply Z.ltb_lt in E1.
        destruct (IH l1 n) as [b [Hb Hiff]]; [lia | exact S1 | exact Hne1 | intros a c Ha Hc; apply Hpw; auto |].
        exists b. split; [exact Hb |]. rewrite Hiff. split.
        -- intros [y [Hy Hn]]. exists y. split; [apply Hin1; exact Hy | exact Hn].
        -- intros [y [Hy Hn]]. rewrite Hsplit in Hy. apply in_app_or in Hy. destruct Hy as [Hy | [Hy | Hy]].
           ++ exists y. split; assumption.
           ++ subst y. unfold in_range in Hn. lia.
           ++ rewrite Forall_forall in F2. specialize (F2 _ Hy). unfold by_start, in_range in *. lia.
      * apply Z.ltb_ge in E1. destruct (n >? r_last incl r) eqn:E2.
        -- apply Z.gtb_lt in E2.
           destruct (IH l2 n) as [b [Hb Hiff]]; [lia | exact S2 | exact Hne2 | intros a c Ha Hc; apply Hpw; auto |].
           exists b. split; [exact Hb |]. rewrite Hiff. split.
           ++ intros [y [Hy Hn]]. exists y. split; [apply Hin2; exact Hy | exact Hn].
           ++ intros [y [Hy Hn]]. rewrite Hsplit in Hy. apply in_app_or in Hy. destruct Hy as [Hy | [Hy | Hy]].
              ** exfalso. rewrite Forall_forall in F1. pose proof (F1 _ Hy) as Hle.
                 destruct (Hpw y r (Hin1 _ Hy) Hinr) as [Heq | [Hd | Hd]];
                   unfold by_start, in_range, nonempty in *; [subst y |  |]; lia.
              ** subst y. unfold in_range in Hn. lia.
              ** exists y. split; assumption.
        -- assert (E2' : n <= r_last incl r) by (destruct (Z.gtb_spec n (r_last incl r)); [discriminate | lia]).
           exists true. split; [reflexivity |]. split; [intros _ | reflexivity].
           exists r. split; [exact Hinr | unfold in_range; lia].
Qed.

(* ------------------------------------------------------------------ agreement *)
Lemma has_spec_perm : forall incl l l' n, Permutation l l' -> has_spec incl l n -> has_spec incl l' n.
Proof. intros incl l l' n P [r [Hr Hn]]. exists r. split; [eapply Permutation_in; eassumption | exact Hn]. Qed.

Lemma ranges_has_eq_runtime_lemma : forall incl rs n,
  ranges_valid incl rs -> rt_has incl rs n = Some (lk_has incl rs n).
Proof.
  intros incl rs n [Hne Hpw]. unfold rt_has.
  pose proof (sort_perm rs) as P.
  destruct (rt_search_correct incl (length rs) (sort_by_start rs) n) as [b [Hb Hiff]].
  - rewrite (Permutation_length P). apply le_n.
  - apply sort_sorted.
  - eapply Permutation_Forall; [apply Permutation_sym; exact P | exact Hne].
  - intros a c Ha Hc. apply Hpw; eapply Permutation_in; eassumption.
  - rewrite Hb. f_equal.
    assert (H : b = true <-> lk_has incl rs n = true).
    { rewrite Hiff, lk_has_iff. split; apply has_spec_perm; [exact P | apply Permutation_sym; exact P]. }
    destruct b, (lk_has incl rs n); try reflexivity; destruct H as [H1 H2];
      [specialize (H1 eq_refl) | specialize (H2 eq_refl)]; discriminate.
Qed.

(* both are the declarative membership *)
Lemma ranges_has_is_membership_lemma : forall incl rs n,
  ranges_valid incl rs ->
  (lk_has incl rs n = true <-> has_spec incl rs n) /\ (rt_has incl rs n = Some true <-> has_spec incl rs n).
Proof.
  intros incl rs n V. split; [apply lk_has_iff |].
  rewrite (ranges_has_eq_runtime_lemma incl rs n V). rewrite <- lk_has_iff.
  split; [intros H; injection H as H; exact H | intros H; rewrite H; reflexivity].
Qed.

(* the boolean guard used by the correspondence implies the guard of the theorems *)
Lemma ranges_valid_b_sound : forall incl rs, ranges_valid_b incl rs = true -> ranges_valid incl rs.
Proof.
  intros incl rs H. unfold ranges_valid_b in H. apply andb_true_iff in H. destruct H as [H1 H2].
  rewrite forallb_forall in H1, H2. split.
  - apply Forall_forall. intros r Hr. specialize (H1 _ Hr). unfold nonempty_b in H1. unfold nonempty. lia.
  - intros a b Ha Hb. specialize (H2 _ Ha). rewrite forallb_forall in H2. specialize (H2 _ Hb).
    apply orb_true_iff in H2. destruct H2 as [H2 | H2].
    + left. unfold range_eqb in H2. apply andb_true_iff in H2. destruct H2 as [A B].
      apply Z.eqb_eq in A, B. destruct a, b; cbn in *; subst; reflexivity.
    + right. unfold disjoint_b in H2. unfold disjoint. lia.
Qed.
