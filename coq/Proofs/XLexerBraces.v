(* Proofs about Model/XLexer.v, part G: fuseBraces accounts for every bracket it was given: each one
   ends up in a fused pair, or its span is a snippet of an unmatched-delimiter error. *)
From Coq Require Import List NArith ZArith Bool Lia.
From PV Require Import Model.XLexer Model.XLexerTables Proofs.XLexerStep.
Import ListNotations.

Section Braces.
Variable C : cfg.

Definition is_unmatched_error (d : diag) : Prop := d_class d = DUnmatched /\ d_level d = L_Error.

Definition reported (ds : list diag) (b : brace) : Prop :=
  exists d, In d ds /\ is_unmatched_error d /\ In (b_sp b) (d_spans d).
Definition fusedp (fz : list (nat * nat)) (b : brace) : Prop :=
  exists p, In p fz /\ (fst p = b_id b \/ snd p = b_id b).
Definition acc (opens : list brace) (fz : list (nat * nat)) (ds : list diag) (b : brace) : Prop :=
  In b opens \/ fusedp fz b \/ reported ds b.

(* what is on the stack of opens is an opening bracket *)
Definition open_ok (b : brace) : Prop := N.eqb (b_kw b) (kw_left C (b_kw b)) = true.

Lemma unmatched_is kw sp extra : is_unmatched_error (unmatched C kw sp extra).
Proof. split; reflexivity. Qed.

Lemma unmatched_has_sp kw sp extra : In sp (d_spans (unmatched C kw sp extra)).
Proof. unfold unmatched, unmatched_spans. cbn [d_spans mkd]. destruct (N.eqb kw (kw_left C kw)); now left. Qed.

Lemma unmatched_has_extra b x extra : open_ok b -> In x extra -> In x (d_spans (unmatched C (b_kw b) (b_sp b) extra)).
Proof. intros Ho Hx. unfold unmatched, unmatched_spans. cbn [d_spans mkd]. rewrite Ho. now right. Qed.

Lemma acc_open o fz ds b : In b o -> acc o fz ds b.
Proof. now left. Qed.
Lemma acc_fused o fz ds b p : In p fz -> (fst p = b_id b \/ snd p = b_id b) -> acc o fz ds b.
Proof. intros H1 H2. right. left. exists p. auto. Qed.
Lemma acc_reported o fz ds b d : In d ds -> is_unmatched_error d -> In (b_sp b) (d_spans d) -> acc o fz ds b.
Proof. intros H1 H2 H3. right. right. exists d. auto. Qed.

Lemma acc_mono o fz ds o' fz' ds' b :
  acc o fz ds b -> (forall x, In x o -> acc o' fz' ds' x) -> incl fz fz' -> incl ds ds' -> acc o' fz' ds' b.
Proof.
  intros [H|[(p & Hp & He)|(d & Hd & Hu & Hs)]] Ho Hf Hd'.
  - now apply Ho.
  - eapply acc_fused; eauto.
  - eapply acc_reported; eauto.
Qed.

Local Hint Resolve in_eq in_cons incl_refl incl_tl unmatched_is unmatched_has_sp : core.

Lemma fuse_loop_acc_n : forall n bs opens fz ds o' fz' ds',
  length bs <= n -> Forall open_ok opens -> fuse_loop C bs opens fz ds = (o', fz', ds') ->
  Forall open_ok o' /\ forall b, In b bs \/ acc opens fz ds b -> acc o' fz' ds' b.
Proof.
  induction n as [|n IH]; intros bs opens fz ds o' fz' ds' Hn Hop.
  { destruct bs; [|cbn in Hn; lia]. cbn. intros E; inversion E; subst. split; [exact Hop|]. intros b [[]|H]; exact H. }
  destruct bs as [|t2 rest]; cbn [fuse_loop].
  { intros E; inversion E; subst. split; [exact Hop|]. intros b [[]|H]; exact H. }
  cbn [length] in Hn.
  (* a tactic for the recursive calls: apply IH, then map the premise *)
  Ltac rec_call IH Hn :=
    let E := fresh "E" in let A := fresh "A" in let B := fresh "B" in
    intros E; apply IH in E; [destruct E as [A B]; split; [exact A|]; intros b Hb; apply B; clear B| cbn [length] in *; lia | ].
  destruct (N.eqb (b_kw t2) (kw_left C (b_kw t2))) eqn:Eopen.
  { (* an opening bracket goes onto the stack *)
    rec_call IH Hn.
    - destruct Hb as [[<-|Hb]|Hb]; [right; apply acc_open; auto|left; exact Hb|].
      right. eapply acc_mono; eauto. intros x Hx. apply acc_open. auto.
    - constructor; [exact Eopen|exact Hop]. }
  destruct opens as [|t1 opens1].
  { (* a closing bracket with nothing open *)
    rec_call IH Hn.
    - destruct Hb as [[<-|Hb]|Hb]; [right; eapply acc_reported; eauto|left; exact Hb|].
      right. eapply acc_mono; eauto. intros x [].
    - exact Hop. }
  assert (Ht1 : open_ok t1) by (inversion Hop; auto).
  assert (Hop1 : Forall open_ok opens1) by (inversion Hop; auto).
  destruct (N.eqb (b_kw t1) (kw_left C (b_kw t2))).
  { (* the common case: the brackets match *)
    rec_call IH Hn.
    - destruct Hb as [[<-|Hb]|Hb]; [right; eapply acc_fused; [apply in_eq|now right]|left; exact Hb|].
      right. eapply acc_mono; eauto. intros x [<-|Hx]; [eapply acc_fused; [apply in_eq|now left]|apply acc_open; exact Hx].
    - exact Hop1. }
  (* the heuristics *)
  assert (Orphan : forall rest0 o'0 fz'0 ds'0,
            length rest0 <= n ->
            (forall b, In b rest -> In b rest0 \/ acc (t1 :: opens1) fz (unmatched C (b_kw t2) (b_sp t2) [] :: ds) b) ->
            fuse_loop C rest0 (t1 :: opens1) fz (unmatched C (b_kw t2) (b_sp t2) [] :: ds) = (o'0, fz'0, ds'0) ->
            Forall open_ok o'0 /\ forall b, In b (t2 :: rest) \/ acc (t1 :: opens1) fz ds b -> acc o'0 fz'0 ds'0 b).
  { intros rest0 o0 fz0 ds0 Hl Hmap E. apply IH in E; [|exact Hl|exact Hop].
    destruct E as [A B]. split; [exact A|]. intros b Hb. apply B.
    destruct Hb as [[<-|Hb]|Hb]; [right; eapply acc_reported; eauto|now apply Hmap|].
    right. eapply acc_mono; eauto. intros x Hx. now apply acc_open. }
  assert (Left1 : forall t0 opens2, opens1 = t0 :: opens2 -> forall o'0 fz'0 ds'0,
            fuse_loop C rest opens2 ((b_id t0, b_id t2) :: fz) (unmatched C (b_kw t1) (b_sp t1) [] :: ds) = (o'0, fz'0, ds'0) ->
            Forall open_ok o'0 /\ forall b, In b (t2 :: rest) \/ acc (t1 :: opens1) fz ds b -> acc o'0 fz'0 ds'0 b).
  { intros t0 opens2 -> o0 fz0 ds0 E. apply IH in E; [|lia|inversion Hop1; auto].
    destruct E as [A B]. split; [exact A|]. intros b Hb. apply B.
    destruct Hb as [[<-|Hb]|Hb]; [right; eapply acc_fused; [apply in_eq|now right]|left; exact Hb|].
    right. eapply acc_mono; eauto.
    intros x [<-|[<-|Hx]]; [eapply acc_reported; eauto|eapply acc_fused; [apply in_eq|now left]|now apply acc_open]. }
  destruct opens1 as [|t0 opens2].
  - destruct rest as [|t3 rest'].
    + apply Orphan; [cbn; lia|intros b []].
    + destruct (negb (N.eqb (b_kw t3) (kw_left C (b_kw t3))) && N.eqb (b_kw t1) (kw_left C (b_kw t3))).
      * (* right match: t1 is fused with t3, t2 is reported *)
        intros E. apply IH in E; [|cbn [length] in Hn; lia|exact Hop1].
        destruct E as [A B]. split; [exact A|]. intros b Hb. apply B.
        destruct Hb as [[<-|[<-|Hb]]|Hb].
        -- right. eapply acc_reported; [apply in_eq|auto|]. apply unmatched_has_extra; [exact Ht1|now left].
        -- right. eapply acc_fused; [apply in_eq|now right].
        -- left. exact Hb.
        -- right. eapply acc_mono; eauto. intros x [<-|[]]. eapply acc_fused; [apply in_eq|now left].
      * apply Orphan; [cbn [length] in *; lia|]. intros b Hb. now left.
  - destruct rest as [|t3 rest'].
    + destruct (N.eqb (b_kw t0) (kw_left C (b_kw t2))).
      * now apply (Left1 t0 opens2).
      * apply Orphan; [cbn; lia|intros b []].
    + destruct (N.eqb (b_kw t0) (kw_left C (b_kw t2))) eqn:El;
        destruct (negb (N.eqb (b_kw t3) (kw_left C (b_kw t3))) && N.eqb (b_kw t1) (kw_left C (b_kw t3))) eqn:Er;
        cbn [andb].
      * (* both: t0 fused with t2, t1 reported with t2 and t3 as further snippets, t3 skipped *)
        intros E. apply IH in E; [|cbn [length] in Hn; lia|inversion Hop1; auto].
        destruct E as [A B]. split; [exact A|]. intros b Hb. apply B.
        destruct Hb as [[<-|[<-|Hb]]|Hb].
        -- right. eapply acc_fused; [apply in_eq|now right].
        -- right. eapply acc_reported; [apply in_eq|auto|]. apply unmatched_has_extra; [exact Ht1|right; now left].
        -- left. exact Hb.
        -- right. eapply acc_mono; eauto.
           intros x [<-|[<-|Hx]]; [eapply acc_reported; eauto|eapply acc_fused; [apply in_eq|now left]|now apply acc_open].
      * now apply (Left1 t0 opens2).
      * (* right match *)
        intros E. apply IH in E; [|cbn [length] in Hn; lia|exact Hop1].
        destruct E as [A B]. split; [exact A|]. intros b Hb. apply B.
        destruct Hb as [[<-|[<-|Hb]]|Hb].
        -- right. eapply acc_reported; [apply in_eq|auto|]. apply unmatched_has_extra; [exact Ht1|now left].
        -- right. eapply acc_fused; [apply in_eq|now right].
        -- left. exact Hb.
        -- right. eapply acc_mono; eauto.
           intros x [<-|Hx]; [eapply acc_fused; [apply in_eq|now left]|apply acc_open; exact Hx].
      * apply Orphan; [cbn [length] in *; lia|]. intros b Hb. now left.
Qed.

Lemma flush_diags_incl tl st : incl (diags st) (diags (flush tl st)).
Proof. unfold flush. destruct (0 <? bad st)%Z; cbn [add_diag diags raw_push]; [apply incl_tl|]; apply incl_refl. Qed.

Lemma push0_diags_incl tl st : incl (diags st) (diags (apply_act tl (APush 0 K_Unrec 0 None false []) st)).
Proof. cbn [apply_act fold_left raw_push diags]. apply flush_diags_incl. Qed.

Lemma close_opens_mono tl opens : forall st fz st' fz', close_opens tl opens st fz = (st', fz') ->
  incl fz fz' /\ incl (diags st) (diags st') /\ forall o, In o opens -> fusedp fz' o.
Proof.
  induction opens as [|o r IH]; intros st fz st' fz'; cbn [close_opens].
  - intros E; inversion E; subst. split; [apply incl_refl|]. split; [apply incl_refl|]. intros o [].
  - intros E. apply IH in E. destruct E as (A & B & C0). split; [|split].
    + intros x Hx. apply A. now right.
    + eapply incl_tran; [apply push0_diags_incl|exact B].
    + intros x [Ex|Hx]; [subst x|now apply C0]. eexists. split; [apply A; apply in_eq|]. now left.
Qed.

Lemma fold_unmatched_diags l : forall st,
  incl (diags st) (diags (fold_left (fun s0 o => add_diag (unmatched C (b_kw o) (b_sp o) []) s0) l st))
  /\ forall o, In o l -> reported (diags (fold_left (fun s0 o => add_diag (unmatched C (b_kw o) (b_sp o) []) s0) l st)) o.
Proof.
  induction l as [|o r IH]; intros st; cbn [fold_left].
  - split; [apply incl_refl|intros o []].
  - destruct (IH (add_diag (unmatched C (b_kw o) (b_sp o) []) st)) as [A B]. split.
    + intros x Hx. apply A. cbn [add_diag diags]. now right.
    + intros x [Ex|Hx]; [subst x|now apply B]. exists (unmatched C (b_kw o) (b_sp o) []).
      split; [apply A; cbn [add_diag diags]; now left|]. split; [apply unmatched_is|apply unmatched_has_sp].
Qed.

(* fuseBraces accounts for every bracket remembered in l.braces *)
Theorem fuse_braces_accounts tl st st' fz : fuse_braces C tl st = (st', fz) ->
  forall b, In b (braces st) -> fusedp fz b \/ reported (diags st') b.
Proof.
  unfold fuse_braces.
  destruct (fuse_loop C (rev (braces st)) [] [] []) as [[opens fz0] ds] eqn:El.
  destruct (fuse_loop_acc_n (length (rev (braces st))) _ _ _ _ _ _ _ (le_n _) (Forall_nil _) El) as [_ Hacc].
  set (st1 := {| toks := toks st; diags := ds ++ diags st; braces := braces st; bad := bad st; ovf := ovf st |}).
  destruct (fold_unmatched_diags (rev opens) st1) as [F1 F2].
  set (st2 := fold_left (fun s0 o => add_diag (unmatched C (b_kw o) (b_sp o) []) s0) (rev opens) st1) in *.
  intros E b Hb. destruct (close_opens_mono tl opens st2 fz0 st' fz E) as (C1 & C2 & C3).
  destruct (Hacc b (or_introl (proj1 (in_rev _ _) Hb))) as [Ho|[(p & Hp & He)|(d & Hd & Hu & Hs)]].
  - left. now apply C3.
  - left. exists p. split; [now apply C1|exact He].
  - right. exists d. split; [|split; assumption]. apply C2. apply F1. unfold st1. cbn [diags]. apply in_or_app. now left.
Qed.

End Braces.

(* part G2: WHICH brackets fuseBraces fuses: an opening bracket with a closing bracket of the same kind *)
Section Pairs.
Variable C : cfg.

(* o is an opening bracket and c is the closing bracket of the same kind *)
Definition closes (o c : brace) : Prop :=
  open_ok C o /\ N.eqb (b_kw c) (kw_left C (b_kw c)) = false /\ N.eqb (b_kw o) (kw_left C (b_kw c)) = true.
Definition pair_matched (all : list brace) (p : nat * nat) : Prop :=
  exists o c, In o all /\ In c all /\ closes o c /\ p = (b_id o, b_id c).

Lemma pm_cons all o c fz : In o all -> In c all -> open_ok C o ->
  N.eqb (b_kw c) (kw_left C (b_kw c)) = false -> N.eqb (b_kw o) (kw_left C (b_kw c)) = true ->
  Forall (pair_matched all) fz -> Forall (pair_matched all) ((b_id o, b_id c) :: fz).
Proof. intros. constructor; [exists o, c; repeat split; auto|auto]. Qed.

Ltac side :=
  try assumption; try (cbn [length] in *; lia);
  try (let x := fresh "x" in let Hx := fresh "Hx" in intros x [<-|Hx]; auto; fail);
  try (constructor; auto; fail); try (apply pm_cons; auto; fail); eauto.

Lemma fuse_loop_pairs_n all : forall n bs opens fz ds o' fz' ds',
  length bs <= n ->
  fuse_loop C bs opens fz ds = (o', fz', ds') ->
  incl bs all -> incl opens all -> Forall (open_ok C) opens -> Forall (pair_matched all) fz ->
  incl o' all /\ Forall (open_ok C) o' /\ Forall (pair_matched all) fz'.
Proof.
  induction n as [|n IH]; intros bs opens fz ds o' fz' ds' Hn E Hbs Hin Hop Hfz.
  { destruct bs; [|cbn in Hn; lia]. cbn in E. inversion E; subst. auto. }
  destruct bs as [|t2 rest]; cbn [fuse_loop] in E.
  { inversion E; subst. auto. }
  cbn [length] in Hn.
  assert (Ht2 : In t2 all) by (apply Hbs; now left).
  assert (Hrest : incl rest all) by (intros x Hx; apply Hbs; now right).
  destruct (N.eqb (b_kw t2) (kw_left C (b_kw t2))) eqn:Eopen.
  { eapply IH in E; [exact E|side..]. }
  destruct opens as [|t1 opens1].
  { eapply IH in E; [exact E|side..]. }
  assert (Ht1 : open_ok C t1) by (inversion Hop; auto).
  assert (Hop1 : Forall (open_ok C) opens1) by (inversion Hop; auto).
  assert (Hi1 : In t1 all) by (apply Hin; now left).
  assert (Hin1 : incl opens1 all) by (intros x Hx; apply Hin; now right).
  destruct (N.eqb (b_kw t1) (kw_left C (b_kw t2))) eqn:E1.
  { eapply IH in E; [exact E|side..]. }
  assert (RM : forall t3, In t3 all ->
            negb (N.eqb (b_kw t3) (kw_left C (b_kw t3))) && N.eqb (b_kw t1) (kw_left C (b_kw t3)) = true ->
            Forall (pair_matched all) ((b_id t1, b_id t3) :: fz)).
  { intros t3 H3 Hr. apply andb_true_iff in Hr. destruct Hr as [Ha Hb]. apply negb_true_iff in Ha. apply pm_cons; auto. }
  destruct opens1 as [|t0 opens2].
  - destruct rest as [|t3 rest'].
    + eapply IH in E; [exact E|side..].
    + assert (H3 : In t3 all) by (apply Hrest; now left).
      assert (Hr' : incl rest' all) by (intros x Hx; apply Hrest; now right).
      destruct (negb (N.eqb (b_kw t3) (kw_left C (b_kw t3))) && N.eqb (b_kw t1) (kw_left C (b_kw t3))) eqn:Er.
      * eapply IH in E; [exact E|side..].
      * eapply IH in E; [exact E|side..].
  - assert (Ht0 : open_ok C t0) by (inversion Hop1; auto).
    assert (Hop2 : Forall (open_ok C) opens2) by (inversion Hop1; auto).
    assert (Hi0 : In t0 all) by (apply Hin1; now left).
    assert (Hin2 : incl opens2 all) by (intros x Hx; apply Hin1; now right).
    assert (LM : N.eqb (b_kw t0) (kw_left C (b_kw t2)) = true -> Forall (pair_matched all) ((b_id t0, b_id t2) :: fz)).
    { intros Hl. apply pm_cons; auto. }
    destruct rest as [|t3 rest'].
    + destruct (N.eqb (b_kw t0) (kw_left C (b_kw t2))) eqn:El.
      * eapply IH in E; [exact E|side..].
      * eapply IH in E; [exact E|side..].
    + assert (H3 : In t3 all) by (apply Hrest; now left).
      assert (Hr' : incl rest' all) by (intros x Hx; apply Hrest; now right).
      destruct (N.eqb (b_kw t0) (kw_left C (b_kw t2))) eqn:El;
        destruct (negb (N.eqb (b_kw t3) (kw_left C (b_kw t3))) && N.eqb (b_kw t1) (kw_left C (b_kw t3))) eqn:Er;
        cbn [andb] in E.
      * eapply IH in E; [exact E|side..].
      * eapply IH in E; [exact E|side..].
      * eapply IH in E; [exact E|side..].
      * eapply IH in E; [exact E|side..].
Qed.

Lemma close_opens_pairs tl opens : forall st fz st' fz', close_opens tl opens st fz = (st', fz') ->
  forall p, In p fz' -> In p fz \/ exists o, In o opens /\ fst p = b_id o.
Proof.
  induction opens as [|o r IH]; intros st fz st' fz'; cbn [close_opens].
  - intros E; inversion E; subst. auto.
  - intros E p Hp. destruct (IH _ _ _ _ E p Hp) as [[<-|H]|(x & Hx & Ex)].
    + right. exists o. split; [now left|reflexivity].
    + now left.
    + right. exists x. split; [now right|exact Ex].
Qed.

(* every pair fuseBraces fuses joins an opening bracket with a closing bracket of the same kind, both among the
   brackets the main loop remembered; or it joins an opening bracket that was never closed with a token fuseBraces
   appends for it, and then an unmatched-delimiter error mentions that opening bracket *)
Theorem fuse_braces_pairs tl st st' fz : fuse_braces C tl st = (st', fz) ->
  forall p, In p fz ->
    pair_matched (braces st) p
    \/ exists o, In o (braces st) /\ open_ok C o /\ fst p = b_id o /\ reported (diags st') o.
Proof.
  unfold fuse_braces.
  destruct (fuse_loop C (rev (braces st)) [] [] []) as [[opens fz0] ds] eqn:El.
  assert (Hrev : incl (rev (braces st)) (braces st)) by (intros x Hx; now apply in_rev).
  destruct (fuse_loop_pairs_n (braces st) (length (rev (braces st))) _ _ _ _ _ _ _ (le_n _) El Hrev
              (fun x (H : In x []) => match H with end) (Forall_nil _) (Forall_nil _)) as (Ho & Hok & Hfz).
  set (st1 := {| toks := toks st; diags := ds ++ diags st; braces := braces st; bad := bad st; ovf := ovf st |}).
  destruct (fold_unmatched_diags C (rev opens) st1) as [F1 F2].
  set (st2 := fold_left (fun s0 o => add_diag (unmatched C (b_kw o) (b_sp o) []) s0) (rev opens) st1) in *.
  intros E p Hp. destruct (close_opens_mono tl opens st2 fz0 st' fz E) as (C1 & C2 & C3).
  destruct (close_opens_pairs tl opens _ _ _ _ E p Hp) as [H|(o & Hoo & Eo)].
  - left. rewrite Forall_forall in Hfz. now apply Hfz.
  - right. exists o. split; [now apply Ho|]. split; [rewrite Forall_forall in Hok; now apply Hok|]. split; [exact Eo|].
    destruct (F2 o (proj1 (in_rev _ _) Hoo)) as (d & Hd & Hu & Hs). exists d. split; [now apply C2|]. split; assumption.
Qed.
End Pairs.

(* non-vacuity of the bracket theorems: an opener, a stray closer of another kind, the same opener again.  Neither
   opener is fused with the other one: each gets an empty token at the end, and all three are reported. *)
Example xlex_brackets_example :
  xlex parser_cfg repaired [40; 93; 40]%N
  = XDone [ {| o_kind := 6; o_start := 0; o_end := 1; o_kw := 131; o_off := 4 |};
            {| o_kind := 6; o_start := 1; o_end := 2; o_kw := 119; o_off := 0 |};
            {| o_kind := 6; o_start := 2; o_end := 3; o_kw := 131; o_off := 1 |};
            {| o_kind := 0; o_start := 3; o_end := 3; o_kw := 0; o_off := -1 |};
            {| o_kind := 0; o_start := 3; o_end := 3; o_kw := 0; o_off := -4 |} ]
          [ {| d_level := 2; d_class := DUnmatched; d_spans := [(1, 2)] |};
            {| d_level := 2; d_class := DUnmatched; d_spans := [(0, 1)] |};
            {| d_level := 2; d_class := DUnmatched; d_spans := [(2, 3)] |} ].
Proof. vm_compute. reflexivity. Qed.
