(* Proofs about the model of experimental/source/file.go (Model/SourceFile.v). *)
From Coq Require Import List NArith ZArith Bool Lia ZifyBool ZifyN ZifyNat Arith.
From PV Require Import Model.Utf8 Model.Lines Model.SourceFile Proofs.Utf8 Proofs.Lines.
Import ListNotations.
Open Scope nat_scope.

(* ---- File.lines(): the loop computes 0 followed by the offset after every newline; the fuel suffices ---- *)
Lemma index_nl_none s : index_nl s = None -> forall pos, nl_after_from pos s = [].
Proof.
  induction s as [|c s IH]; intros H pos; [reflexivity|]. cbn [index_nl nl_after_from] in *.
  destruct (is_nl c); [discriminate|]. destruct (index_nl s); [discriminate|]. now apply IH.
Qed.

Lemma index_nl_some s : forall i, index_nl s = Some i -> forall pos,
  i < length s /\ nl_after_from pos s = (pos + i + 1) :: nl_after_from (pos + i + 1) (skipn (i + 1) s).
Proof.
  induction s as [|c s IH]; intros i H pos; [discriminate|]. cbn [index_nl nl_after_from length] in *.
  destruct (is_nl c).
  - injection H as <-. split; [lia|]. cbn [Nat.add skipn]. now rewrite !Nat.add_0_r, Nat.add_1_r.
  - destruct (index_nl s) as [j|]; [|discriminate]. injection H as <-.
    destruct (IH j eq_refl (S pos)) as [Hj ->]. split; [lia|].
    replace (S j + 1) with (S (j + 1)) by lia. cbn [skipn].
    replace (S pos + j + 1) with (pos + S j + 1) by lia. reflexivity.
Qed.

Lemma lines_loop_spec : forall fuel text next, length text < fuel ->
  lines_loop fuel text next = Some (next :: nl_after_from next text).
Proof.
  induction fuel as [|fuel IH]; intros text next Hf; [lia|].
  cbn [lines_loop]. destruct (index_nl text) as [i|] eqn:E.
  - destruct (index_nl_some text i E next) as [Hi ->].
    rewrite IH by (rewrite skipn_length; lia). cbn [option_map]. now rewrite Nat.add_assoc.
  - now rewrite (index_nl_none text E).
Qed.

Theorem lines_spec_lemma : forall text, lines text = Some (0 :: nl_after text).
Proof. intros text. unfold lines. apply lines_loop_spec. lia. Qed.

(* ---- the binary search on the table ---- *)
Lemma bsearch_from_skip l1 : forall l2 x i, (forall y, In y l1 -> y < x) ->
  bsearch_from (l1 ++ l2) x i = bsearch_from l2 x (i + length l1).
Proof.
  induction l1 as [|y l1 IH]; intros l2 x i H.
  - cbn [app length]. now rewrite Nat.add_0_r.
  - cbn [app bsearch_from length]. assert (y < x) as Hy by (apply H; now left).
    replace (x <=? y) with false by lia. rewrite IH by (intros z Hz; apply H; now right). f_equal. lia.
Qed.

Lemma bsearch_from_above l x i : (forall y, In y l -> x < y) ->
  bsearch_from l x i = (i, false).
Proof.
  destruct l as [|y l]; intros H; [reflexivity|]. cbn [bsearch_from].
  assert (x < y) as Hy by (apply H; now left).
  replace (x <=? y) with true by lia. replace (x =? y) with false by lia. reflexivity.
Qed.

(* the table around an offset: entries below the line start, the line start, entries above the offset *)
Lemma line_index_decomp L1 st L2 off : (forall y, In y L1 -> y < st) -> st <= off -> (forall y, In y L2 -> off < y) ->
  line_index (L1 ++ st :: L2) off = Some (length L1).
Proof.
  intros H1 Hst H2. unfold line_index, bsearch.
  rewrite bsearch_from_skip by (intros y Hy; specialize (H1 y Hy); lia). cbn [Nat.add bsearch_from].
  destruct (Nat.eq_dec off st) as [->|Hne].
  - replace (st <=? st) with true by lia. replace (st =? st) with true by lia. reflexivity.
  - replace (off <=? st) with false by lia.
    rewrite bsearch_from_above by assumption. reflexivity.
Qed.

Lemma nth_error_mid {T} (L1 : list T) x L2 : nth_error (L1 ++ x :: L2) (length L1) = Some x.
Proof. rewrite nth_error_app2 by lia. now rewrite Nat.sub_diag. Qed.

Lemma nth_error_mid_next {T} (L1 : list T) x L2 : nth_error (L1 ++ x :: L2) (S (length L1)) = nth_error L2 0.
Proof. rewrite nth_error_app2 by lia. now replace (S (length L1) - length L1) with 1 by lia. Qed.

(* ---- location on a decomposed text ---- *)
Definition col_of (u : unit_) (P : list N) : Z :=
  match u with
  | URunes => Z.of_nat (length (range P))
  | UBytes => Z.of_nat (length P)
  | UUTF16 => sum_utf16 (range P)
  end.

Lemma location_decomp A P R u : line_prefix A -> no_nl P ->
  location (A ++ P ++ R) (length A + length P) u = Some (count_nl A + 1, (col_of u P + 1)%Z).
Proof.
  intros HA HP. unfold location. rewrite lines_spec_lemma.
  destruct (lines_decomp A P R HA HP) as (L1 & -> & HL1 & Hlen).
  rewrite line_index_decomp; [|assumption|lia|intros y Hy; apply nl_after_from_bounds in Hy; lia].
  rewrite nth_error_mid.
  rewrite !app_length.
  replace (length A + (length P + length R) <? length A + length P) with false by lia.
  replace (length A + length P <? length A) with false by lia. cbn [orb].
  rewrite slice_mid, Hlen. destruct u; reflexivity.
Qed.

(* ---- inverseLocation on a decomposed text ---- *)
Definition inv_offset (u : unit_) (chunk : list N) (column : Z) : Z :=
  match u with
  | URunes => let '(offset, column) := runes_loop (range chunk) 0%Z column in (offset + column)%Z
  | UBytes => (column - 1)%Z
  | UUTF16 => let '(offset, column) := utf16_loop (range chunk) 0%Z column in
              if (0 <? column)%Z then (offset + column)%Z else offset
  end.

Definition inv_offset_fixed (u : unit_) (chunk : list N) (column : Z) : Z :=
  match u with
  | URunes => let '(offset, column) := runes_loop_fixed (range chunk) (Z.of_nat (length chunk) - 1)%Z column in (offset + column)%Z
  | UBytes => (column - 1)%Z
  | UUTF16 => let '(offset, column) := utf16_loop_fixed (range chunk) (Z.of_nat (length chunk) - 1)%Z column in
              if (0 <? column)%Z then (offset + column)%Z else offset
  end.

(* the rest of the line of the inverse direction: up to and including the next newline, or up to the end *)
Definition line_rest (R : list N) : list N :=
  match index_nl R with
  | None => R
  | Some i => firstn (i + 1) R
  end.

Lemma line_rest_prefix R : exists R2, R = line_rest R ++ R2.
Proof.
  unfold line_rest. destruct (index_nl R) as [i|]; [|exists []; now rewrite app_nil_r].
  exists (skipn (i + 1) R). symmetry. apply firstn_skipn.
Qed.

Lemma line_rest_nil R : line_rest R = [] <-> R = [].
Proof.
  unfold line_rest. destruct (index_nl R) as [i|] eqn:E; [|reflexivity].
  destruct R as [|c R]; [discriminate|]. replace (i + 1) with (S i) by lia. cbn [firstn]. split; discriminate.
Qed.

Lemma line_offsets_decomp A P R : line_prefix A -> no_nl P ->
  line_offsets (A ++ P ++ R) (0 :: nl_after (A ++ P ++ R)) (count_nl A + 1)
  = Some (length A, length A + length P + length (line_rest R)).
Proof.
  intros HA HP. destruct (lines_decomp A P R HA HP) as (L1 & -> & HL1 & Hlen).
  unfold line_offsets. rewrite <- Hlen. replace (length L1 + 1) with (S (length L1)) by lia.
  rewrite nth_error_mid, nth_error_mid_next. rewrite app_length. cbn [length].
  unfold line_rest. destruct (index_nl R) as [i|] eqn:E.
  - destruct (index_nl_some R i E (length A + length P)) as [Hi ->]. cbn [length nth_error].
    replace (length L1 + S (S (length (nl_after_from (length A + length P + i + 1) (skipn (i + 1) R)))) =? S (length L1)) with false by lia.
    rewrite firstn_length. do 2 f_equal. lia.
  - rewrite (index_nl_none R E). cbn [length].
    replace (length L1 + 1 =? S (length L1)) with true by lia. rewrite !app_length. do 2 f_equal. lia.
Qed.

Lemma slice_line A P R : slice (A ++ P ++ R) (length A) (length A + length P + length (line_rest R)) = P ++ line_rest R.
Proof.
  destruct (line_rest_prefix R) as (R2 & HR). rewrite HR at 1.
  replace (A ++ P ++ line_rest R ++ R2) with (A ++ (P ++ line_rest R) ++ R2) by now rewrite <- !app_assoc.
  apply slice_mid_to. rewrite app_length. lia.
Qed.

Lemma inverse_location_decomp A P R u column : line_prefix A -> no_nl P ->
  inverse_location (A ++ P ++ R) (count_nl A + 1) column u
  = Some (Z.of_nat (length A) + inv_offset u (P ++ line_rest R) column)%Z.
Proof.
  intros HA HP. unfold inverse_location. rewrite lines_spec_lemma, line_offsets_decomp by assumption.
  assert (length (line_rest R) <= length R) as Hl.
  { destruct (line_rest_prefix R) as (R2 & HR). rewrite HR at 2. rewrite app_length. lia. }
  rewrite !app_length.
  replace (length A + length P + length (line_rest R) <? length A) with false by lia.
  replace (length A + (length P + length R) <? length A + length P + length (line_rest R)) with false by lia.
  cbn [orb]. rewrite slice_line. destruct u; reflexivity.
Qed.

Lemma inverse_location_fixed_decomp A P R u column : line_prefix A -> no_nl P ->
  inverse_location_fixed (A ++ P ++ R) (count_nl A + 1) column u
  = Some (Z.of_nat (length A) + inv_offset_fixed u (P ++ line_rest R) column)%Z.
Proof.
  intros HA HP. unfold inverse_location_fixed. rewrite lines_spec_lemma, line_offsets_decomp by assumption.
  assert (length (line_rest R) <= length R) as Hl.
  { destruct (line_rest_prefix R) as (R2 & HR). rewrite HR at 2. rewrite app_length. lia. }
  rewrite !app_length.
  replace (length A + length P + length (line_rest R) <? length A) with false by lia.
  replace (length A + (length P + length R) <? length A + length P + length (line_rest R)) with false by lia.
  cbn [orb]. rewrite slice_line. destruct u; reflexivity.
Qed.

(* ---- the loops of inverseLocation ---- *)
Definition last_idx (rs : list (nat * N)) (o : Z) : Z :=
  match rev rs with
  | [] => o
  | (i, _) :: _ => Z.of_nat i
  end.

Lemma last_idx_cons i r rest o : last_idx ((i, r) :: rest) o = last_idx rest (Z.of_nat i).
Proof. unfold last_idx. cbn [rev]. destruct (rev rest) as [|[j ?] l]; reflexivity. Qed.

Lemma runes_loop_app rsP : forall rsR o,
  runes_loop (rsP ++ rsR) o (Z.of_nat (length rsP) + 1)%Z =
  match rsR with
  | (i, _) :: _ => (Z.of_nat i, 0%Z)
  | [] => (last_idx rsP o, 1%Z)
  end.
Proof.
  induction rsP as [|[i r] rest IH]; intros rsR o.
  - cbn [app length runes_loop]. destruct rsR as [|[i r] ?]; reflexivity.
  - cbn [app length runes_loop].
    replace (Z.of_nat (S (length rest)) + 1 - 1)%Z with (Z.of_nat (length rest) + 1)%Z by lia.
    replace (Z.of_nat (length rest) + 1 <=? 0)%Z with false by lia.
    rewrite IH, last_idx_cons. reflexivity.
Qed.

Lemma runes_loop_fixed_app rsP : forall rsR o,
  runes_loop_fixed (rsP ++ rsR) o (Z.of_nat (length rsP) + 1)%Z =
  match rsR with
  | (i, _) :: _ => (Z.of_nat i, 0%Z)
  | [] => (o, 1%Z)
  end.
Proof.
  induction rsP as [|[i r] rest IH]; intros rsR o.
  - cbn [app length runes_loop_fixed]. destruct rsR as [|[i r] ?]; reflexivity.
  - cbn [app length runes_loop_fixed].
    replace (Z.of_nat (S (length rest)) + 1 - 1)%Z with (Z.of_nat (length rest) + 1)%Z by lia.
    replace (Z.of_nat (length rest) + 1 <=? 0)%Z with false by lia.
    apply IH.
Qed.

Lemma fold_utf16_acc rs : forall a,
  fold_left (fun a p => (a + utf16_rune_len (snd p))%Z) rs a = (a + sum_utf16 rs)%Z.
Proof.
  unfold sum_utf16. induction rs as [|p rs IH]; intros a; [cbn; lia|].
  cbn [fold_left]. rewrite IH, (IH (0 + _)%Z). lia.
Qed.

Lemma sum_utf16_cons p rs : sum_utf16 (p :: rs) = (utf16_rune_len (snd p) + sum_utf16 rs)%Z.
Proof. unfold sum_utf16 at 1. cbn [fold_left]. rewrite fold_utf16_acc. lia. Qed.

Lemma sum_utf16_nonneg rs : Forall (fun p => (1 <= utf16_rune_len (snd p))%Z) rs -> (Z.of_nat (length rs) <= sum_utf16 rs)%Z.
Proof.
  induction 1 as [|p rs Hp Hrs IH]; [cbn; lia|]. rewrite sum_utf16_cons. cbn [length]. lia.
Qed.

Lemma utf16_loop_app rsP : forall rsR o,
  Forall (fun p => (1 <= utf16_rune_len (snd p))%Z) rsP ->
  Forall (fun p => (1 <= utf16_rune_len (snd p))%Z) rsR ->
  utf16_loop (rsP ++ rsR) o (sum_utf16 rsP + 1)%Z =
  match rsR with
  | (i, r) :: _ => (Z.of_nat i, (1 - utf16_rune_len r)%Z)
  | [] => (last_idx rsP o, 1%Z)
  end.
Proof.
  induction rsP as [|[i r] rest IH]; intros rsR o HP HR.
  - cbn [app utf16_loop]. destruct rsR as [|[i r] ?]; [reflexivity|].
    cbn [utf16_loop]. inversion HR as [|? ? Hr _]; subst. cbn [snd] in Hr.
    change (sum_utf16 []) with 0%Z.
    replace (0 + 1 - utf16_rune_len r <=? 0)%Z with true by lia. f_equal.
  - inversion HP as [|? ? Hr HP']; subst. cbn [snd] in Hr.
    cbn [app utf16_loop]. rewrite sum_utf16_cons. cbn [snd].
    pose proof (sum_utf16_nonneg rest HP').
    replace (utf16_rune_len r + sum_utf16 rest + 1 - utf16_rune_len r)%Z with (sum_utf16 rest + 1)%Z by lia.
    replace (sum_utf16 rest + 1 <=? 0)%Z with false by lia.
    rewrite IH, last_idx_cons by assumption. reflexivity.
Qed.

Lemma utf16_loop_fixed_app rsP : forall rsR o,
  Forall (fun p => (1 <= utf16_rune_len (snd p))%Z) rsP ->
  Forall (fun p => (1 <= utf16_rune_len (snd p))%Z) rsR ->
  utf16_loop_fixed (rsP ++ rsR) o (sum_utf16 rsP + 1)%Z =
  match rsR with
  | (i, r) :: _ => (Z.of_nat i, (1 - utf16_rune_len r)%Z)
  | [] => (o, 1%Z)
  end.
Proof.
  induction rsP as [|[i r] rest IH]; intros rsR o HP HR.
  - cbn [app utf16_loop_fixed]. destruct rsR as [|[i r] ?]; [reflexivity|].
    cbn [utf16_loop_fixed]. inversion HR as [|? ? Hr _]; subst. cbn [snd] in Hr.
    change (sum_utf16 []) with 0%Z.
    replace (0 + 1 - utf16_rune_len r <=? 0)%Z with true by lia. f_equal.
  - inversion HP as [|? ? Hr HP']; subst. cbn [snd] in Hr.
    cbn [app utf16_loop_fixed]. rewrite sum_utf16_cons. cbn [snd].
    pose proof (sum_utf16_nonneg rest HP').
    replace (utf16_rune_len r + sum_utf16 rest + 1 - utf16_rune_len r)%Z with (sum_utf16 rest + 1)%Z by lia.
    replace (sum_utf16 rest + 1 <=? 0)%Z with false by lia.
    now apply IH.
Qed.

(* ---- one line: chunk = P ++ Rl, the offset is at the end of P ---- *)
Lemma range_split P Rl : boundary (P ++ Rl) (length P) ->
  range (P ++ Rl) = range P ++ range_from Rl 0 (length P).
Proof. intros H. unfold range. now rewrite (range_app_boundary (length P) P Rl 0 eq_refl H). Qed.

Lemma inv_offset_roundtrip u P Rl : boundary (P ++ Rl) (length P) -> Rl <> [] \/ u = UBytes ->
  inv_offset u (P ++ Rl) (col_of u P + 1)%Z = Z.of_nat (length P).
Proof.
  intros Hb Hg. destruct u; cbn [inv_offset col_of]; try lia.
  - destruct Hg as [Hne|?]; [|discriminate].
    rewrite range_split by assumption.
    pose proof (range_from_utf16_pos Rl 0 (length P)) as HF.
    destruct (range_from_head Rl (length P) Hne) as (r & rest & E). rewrite E in *.
    rewrite utf16_loop_app; [|apply range_from_utf16_pos|assumption].
    inversion HF as [|? ? Hr _]; subst. cbn [snd] in Hr.
    replace (0 <? 1 - utf16_rune_len r)%Z with false by lia. reflexivity.
  - destruct Hg as [Hne|?]; [|discriminate].
    rewrite range_split by assumption.
    destruct (range_from_head Rl (length P) Hne) as (r & rest & ->).
    rewrite runes_loop_app. lia.
Qed.

Lemma inv_offset_fixed_roundtrip u P Rl : boundary (P ++ Rl) (length P) ->
  inv_offset_fixed u (P ++ Rl) (col_of u P + 1)%Z = Z.of_nat (length P).
Proof.
  intros Hb. destruct u; cbn [inv_offset_fixed col_of]; try lia.
  - rewrite range_split by assumption.
    pose proof (range_from_utf16_pos Rl 0 (length P)) as HF.
    destruct Rl as [|c Rl'].
    + cbn [range_from]. rewrite utf16_loop_fixed_app; [|apply range_from_utf16_pos|constructor].
      rewrite app_nil_r. replace (0 <? 1)%Z with true by lia. lia.
    + destruct (range_from_head (c :: Rl') (length P) ltac:(discriminate)) as (r & rest & E). rewrite E in *.
      rewrite utf16_loop_fixed_app; [|apply range_from_utf16_pos|assumption].
      inversion HF as [|? ? Hr _]; subst. cbn [snd] in Hr.
      replace (0 <? 1 - utf16_rune_len r)%Z with false by lia. reflexivity.
  - rewrite range_split by assumption.
    destruct Rl as [|c Rl'].
    + cbn [range_from]. rewrite runes_loop_fixed_app, app_nil_r. lia.
    + destruct (range_from_head (c :: Rl') (length P) ltac:(discriminate)) as (r & rest & ->).
      rewrite runes_loop_fixed_app. lia.
Qed.

(* at the end of the line (nothing follows the offset) the pinned loops stop on the last rune and add the
   remaining column to its index *)
Lemma inv_offset_eof u P : u <> UBytes ->
  inv_offset u P (col_of u P + 1)%Z = (last_idx (range P) 0 + 1)%Z.
Proof.
  intros Hu. destruct u; cbn [inv_offset col_of]; try congruence.
  - pose proof (utf16_loop_app (range P) [] 0%Z (range_from_utf16_pos P 0 0) (Forall_nil _)) as H.
    rewrite app_nil_r in H. rewrite H. reflexivity.
  - pose proof (runes_loop_app (range P) [] 0%Z) as H. rewrite app_nil_r in H. rewrite H. reflexivity.
Qed.

Lemma last_idx_width P : last_rune_width P = 1 <-> (last_idx (range P) 0 + 1)%Z = Z.of_nat (length P).
Proof.
  unfold last_rune_width, last_idx. destruct (rev (range P)) as [|[i r] l] eqn:E.
  - split; [discriminate|]. intros H. assert (length P = 1) as HP by lia.
    destruct P as [|c [|? ?]]; try discriminate.
    unfold range in E. cbn [range_from] in E. destruct (decode_rune [c]). cbn [rev app] in E. discriminate.
  - lia.
Qed.

Lemma col_of_zero u P : col_of u P = 0%Z -> P = [].
Proof.
  destruct P as [|c t]; [reflexivity|]. intros H. exfalso.
  destruct (range_from_head (c :: t) 0 ltac:(discriminate)) as (r & rest & E).
  pose proof (range_from_utf16_pos (c :: t) 0 0) as HF.
  destruct u; cbn [col_of] in H; unfold range in *; rewrite E in *.
  - cbn [length] in H. lia.
  - apply sum_utf16_nonneg in HF. cbn [length] in HF. lia.
  - cbn [length] in H. lia.
Qed.

(* ---- from the text and a boundary offset to the one-line situation ---- *)
Lemma boundary_line_prefix A X : line_prefix A -> boundary (A ++ X) (length A).
Proof.
  intros [->|(A' & ->)]; [constructor|].
  rewrite <- app_assoc. cbn [app]. rewrite app_length. cbn [length].
  apply (boundary_after_ascii (length A') A' 10%N X eq_refl); [reflexivity|].
  apply (boundary_before_ascii (length (A' ++ 10%N :: X))); [reflexivity|rewrite app_length; cbn [length]; lia|].
  rewrite app_nth2 by lia. rewrite Nat.sub_diag. reflexivity.
Qed.

Lemma roundtrip_setup text off : boundary text off ->
  exists A P R, text = A ++ P ++ R /\ off = length A + length P /\ line_prefix A /\ no_nl P /\
                boundary (P ++ line_rest R) (length P).
Proof.
  intros Hb. pose proof (boundary_le _ _ Hb) as Hle.
  destruct (text_decomp text off Hle) as (A & P & R & -> & -> & HA & HP).
  exists A, P, R. repeat split; try assumption.
  pose proof (boundary_split A (P ++ R) (length P) (boundary_line_prefix A (P ++ R) HA) Hb) as H.
  destruct (line_rest_prefix R) as (R2 & HR). rewrite HR, app_assoc in H.
  pose proof (boundary_firstn _ _ H (length (P ++ line_rest R)) ltac:(rewrite app_length; lia)) as H'.
  now rewrite firstn_app, Nat.sub_diag, firstn_all, firstn_O, app_nil_r in H'.
Qed.

Lemma count_nl_line_prefix_zero A : line_prefix A -> count_nl A = 0 -> A = [].
Proof.
  intros [->|(A' & ->)] H; [reflexivity|]. rewrite count_nl_app in H. cbn in H. lia.
Qed.

Lemma count_nl_prefix A P R : no_nl P ->
  count_nl (firstn (length A + length P) (A ++ P ++ R)) = count_nl A.
Proof.
  intros HP. rewrite app_assoc, <- app_length, firstn_app, Nat.sub_diag, firstn_all, firstn_O, app_nil_r.
  rewrite count_nl_app, (count_nl_no_nl P HP). lia.
Qed.

(* ---- line numbers ---- *)
Theorem location_in_range_lemma : forall text off u, off <= length text ->
  exists l c, file_location text off u = Some (l, c).
Proof.
  intros text off u H. unfold file_location. destruct (off =? 0); [eauto|].
  destruct (text_decomp text off H) as (A & P & R & -> & -> & HA & HP).
  rewrite location_decomp by assumption. eauto.
Qed.

Theorem line_number_spec_lemma : forall text off u l c,
  file_location text off u = Some (l, c) -> l = 1 + count_nl (firstn off text).
Proof.
  intros text off u l c H. unfold file_location in H. destruct (off =? 0) eqn:E0.
  - apply Nat.eqb_eq in E0. subst off. injection H as <- <-. reflexivity.
  - destruct (Nat.le_gt_cases off (length text)) as [Hle|Hgt].
    + destruct (text_decomp text off Hle) as (A & P & R & -> & -> & HA & HP).
      rewrite location_decomp in H by assumption. injection H as <- <-.
      rewrite count_nl_prefix by assumption. lia.
    + exfalso. unfold location in H. rewrite lines_spec_lemma in H.
      destruct (line_index _ off); [|discriminate]. destruct (nth_error _ n); [|discriminate].
      replace (length text <? off) with true in H by lia. discriminate.
Qed.

(* ---- the round trip through the exported functions ---- *)
Lemma not_first_position A P u : line_prefix A -> length A + length P <> 0 ->
  (count_nl A + 1 =? 1) && (col_of u P + 1 =? 1)%Z = false.
Proof.
  intros HA Hne. apply andb_false_iff.
  destruct (count_nl A + 1 =? 1) eqn:E1; [right|now left].
  assert (A = []) as -> by (apply count_nl_line_prefix_zero; [assumption|lia]).
  destruct (col_of u P + 1 =? 1)%Z eqn:E2; [|reflexivity]. exfalso.
  assert (P = []) as -> by (apply (col_of_zero u); lia). cbn in Hne. lia.
Qed.

Theorem roundtrip_partial_lemma : forall text off u l c,
  boundary text off -> roundtrip_guard text off u ->
  file_location text off u = Some (l, c) ->
  file_inverse_location text l c u = Some (Z.of_nat off).
Proof.
  intros text off u l c Hb Hg Hloc. unfold file_location in Hloc.
  destruct (off =? 0) eqn:E0.
  { apply Nat.eqb_eq in E0. subst off. injection Hloc as <- <-. reflexivity. }
  apply Nat.eqb_neq in E0.
  destruct (roundtrip_setup text off Hb) as (A & P & R & -> & -> & HA & HP & HbP).
  rewrite location_decomp in Hloc by assumption. injection Hloc as <- <-.
  unfold file_inverse_location. rewrite not_first_position by assumption.
  rewrite inverse_location_decomp by assumption. f_equal.
  destruct (list_eq_dec N.eq_dec R []) as [->|HR].
  - (* the offset is the end of the text *)
    change (line_rest []) with (@nil N) in *. rewrite app_nil_r in *.
    destruct u.
    + rewrite <- (app_nil_r P) at 1. rewrite inv_offset_roundtrip; [lia|now rewrite app_nil_r|now right].
    + rewrite inv_offset_eof by discriminate.
      destruct Hg as [?|[Hlt|[?|Hw]]]; [discriminate|rewrite !app_length in Hlt; cbn in Hlt; lia|lia|].
      unfold last_line in Hw. rewrite app_length in Hw.
      rewrite <- (app_nil_r (A ++ P)) in Hw at 1 2. rewrite <- app_assoc in Hw.
      rewrite (line_start_decomp A P [] HA HP) in Hw.
      rewrite app_nil_r, skipn_app, Nat.sub_diag, skipn_all in Hw. cbn [app skipn] in Hw.
      apply last_idx_width in Hw. lia.
    + rewrite inv_offset_eof by discriminate.
      destruct Hg as [?|[Hlt|[?|Hw]]]; [discriminate|rewrite !app_length in Hlt; cbn in Hlt; lia|lia|].
      unfold last_line in Hw. rewrite app_length in Hw.
      rewrite <- (app_nil_r (A ++ P)) in Hw at 1 2. rewrite <- app_assoc in Hw.
      rewrite (line_start_decomp A P [] HA HP) in Hw.
      rewrite app_nil_r, skipn_app, Nat.sub_diag, skipn_all in Hw. cbn [app skipn] in Hw.
      apply last_idx_width in Hw. lia.
  - rewrite inv_offset_roundtrip; [lia|assumption|left; now rewrite line_rest_nil].
Qed.

(* outside of the guard the pinned code never inverts: the guard is exact *)
Theorem roundtrip_fails_outside_guard_lemma : forall text off u l c,
  boundary text off -> ~ roundtrip_guard text off u ->
  file_location text off u = Some (l, c) ->
  file_inverse_location text l c u <> Some (Z.of_nat off).
Proof.
  intros text off u l c Hb Hg Hloc. unfold file_location in Hloc.
  unfold roundtrip_guard in Hg.
  assert (Hu : u <> UBytes) by tauto. assert (E0 : off <> 0) by tauto.
  assert (Hoff : ~ off < length text) by tauto. assert (Hw : last_rune_width (last_line text) <> 1) by tauto.
  replace (off =? 0) with false in Hloc by lia.
  pose proof (boundary_le _ _ Hb) as Hle. assert (off = length text) as Hoff' by lia.
  destruct (roundtrip_setup text off Hb) as (A & P & R & -> & -> & HA & HP & HbP).
  assert (R = []) as ->.
  { rewrite !app_length in Hoff'. destruct R; [reflexivity|cbn in Hoff'; lia]. }
  rewrite location_decomp in Hloc by assumption. injection Hloc as <- <-.
  unfold file_inverse_location. rewrite not_first_position by assumption.
  rewrite inverse_location_decomp by assumption.
  change (line_rest []) with (@nil N) in *. rewrite app_nil_r in *.
  rewrite inv_offset_eof by assumption.
  unfold last_line in Hw. rewrite app_length in Hw.
  rewrite <- (app_nil_r (A ++ P)) in Hw at 1 2. rewrite <- app_assoc in Hw.
  rewrite (line_start_decomp A P [] HA HP) in Hw.
  rewrite app_nil_r, skipn_app, Nat.sub_diag, skipn_all in Hw. cbn [app skipn] in Hw.
  rewrite last_idx_width in Hw. intros H. injection H as H. lia.
Qed.

(* the repaired inverseLocation inverts File.Location at every character boundary, in every unit *)
Theorem fixed_roundtrip_lemma : forall text off u l c,
  boundary text off ->
  file_location text off u = Some (l, c) ->
  file_inverse_location_fixed text l c u = Some (Z.of_nat off).
Proof.
  intros text off u l c Hb Hloc. unfold file_location in Hloc.
  destruct (off =? 0) eqn:E0.
  { apply Nat.eqb_eq in E0. subst off. injection Hloc as <- <-. reflexivity. }
  apply Nat.eqb_neq in E0.
  destruct (roundtrip_setup text off Hb) as (A & P & R & -> & -> & HA & HP & HbP).
  rewrite location_decomp in Hloc by assumption. injection Hloc as <- <-.
  unfold file_inverse_location_fixed. rewrite not_first_position by assumption.
  rewrite inverse_location_fixed_decomp by assumption. f_equal.
  rewrite inv_offset_fixed_roundtrip by assumption. lia.
Qed.

(* ---- the pinned code does not invert at the end of the text after a multi-byte character or on an
   empty last line (rune and UTF-16 columns) ---- *)
Lemma boundary_e_acute : boundary [195; 169]%N 2.
Proof. exact (boundary_step [195; 169]%N 0 ltac:(discriminate) (boundary_0 _)). Qed.

Lemma boundary_lf : boundary [10]%N 1.
Proof. exact (boundary_step [10]%N 0 ltac:(discriminate) (boundary_0 _)). Qed.

Theorem roundtrip_refuted_lemma :
  exists text off u l c,
    boundary text off /\ file_location text off u = Some (l, c) /\
    file_inverse_location text l c u <> Some (Z.of_nat off).
Proof.
  exists [195; 169]%N, 2, URunes, 1, 2%Z. split; [exact boundary_e_acute|].
  split; [vm_compute; reflexivity|vm_compute; discriminate].
Qed.

(* the individual witnesses, as computed by the model of the pinned code *)
Lemma refuted_witnesses :
  file_location [195; 169]%N 2 URunes = Some (1, 2%Z) /\ file_inverse_location [195; 169]%N 1 2%Z URunes = Some 1%Z /\
  file_location [195; 169]%N 2 UUTF16 = Some (1, 2%Z) /\ file_inverse_location [195; 169]%N 1 2%Z UUTF16 = Some 1%Z /\
  file_location [10]%N 1 URunes = Some (2, 1%Z) /\ file_inverse_location [10]%N 2 1%Z URunes = Some 2%Z /\
  file_location [10]%N 1 UUTF16 = Some (2, 1%Z) /\ file_inverse_location [10]%N 2 1%Z UUTF16 = Some 2%Z /\
  file_inverse_location_fixed [195; 169]%N 1 2%Z URunes = Some 2%Z /\
  file_inverse_location_fixed [10]%N 2 1%Z UUTF16 = Some 1%Z.
Proof. vm_compute. repeat split. Qed.

(* non-vacuity of the partial theorem: a boundary offset inside the guard, in the middle of a text with a
   two-byte character and a newline *)
Example roundtrip_example :
  boundary [97; 195; 169; 10; 98]%N 3 /\ roundtrip_guard [97; 195; 169; 10; 98]%N 3 URunes /\
  file_location [97; 195; 169; 10; 98]%N 3 URunes = Some (1, 3%Z) /\
  file_inverse_location [97; 195; 169; 10; 98]%N 1 3%Z URunes = Some 3%Z.
Proof.
  split; [|split; [right; left; cbn; lia|split; vm_compute; reflexivity]].
  exact (boundary_step [97; 195; 169; 10; 98]%N 2 ltac:(discriminate)
           (boundary_step [195; 169; 10; 98]%N 0 ltac:(discriminate) (boundary_0 _))).
Qed.

(* a corollary of the round trip: in one unit, two character boundaries never get the same (line, column) *)
Theorem location_injective_lemma : forall text u off1 off2 lc,
  boundary text off1 -> boundary text off2 ->
  file_location text off1 u = Some lc -> file_location text off2 u = Some lc -> off1 = off2.
Proof.
  intros text u off1 off2 [l c] B1 B2 H1 H2.
  pose proof (fixed_roundtrip_lemma text off1 u l c B1 H1) as R1.
  pose proof (fixed_roundtrip_lemma text off2 u l c B2 H2) as R2.
  rewrite R1 in R2. injection R2 as R. apply Nat2Z.inj. exact R.
Qed.
