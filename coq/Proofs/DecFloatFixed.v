(* C39 - proofs about the model of the REPAIRED Decimal.Float64 (Model/DecFloatFixed.v): the full
   theorems. Every branch performs exactly one rounding of the exact value (or none), and the exact
   flag is true only when the result is the value. Reuses the lemmas of Proofs/DecFloat.v. *)
From Coq Require Import ZArith NArith List Bool Reals Lia Lra.
From Flocq Require Import Core.Core IEEE754.BinarySingleNaN.
From PV Require Import Model.DecFloatTables Model.DecFloat Model.DecFloatFixed Proofs.DecFloat.
Import ListNotations.
Open Scope R_scope.

(* binary_normalize of a non-negative integer mantissa and any exponent *)
Lemma normalize_correct : forall z e, (0 <= z)%Z ->
  correctly_rounded false (IZR z * bpow radix2 e) (binary_normalize prec emax Hprec Hmax NE z e false).
Proof.
  intros z e Hz. unfold correctly_rounded.
  generalize (binary_normalize_correct prec emax Hprec Hmax NE z e false).
  cbv zeta. replace (F2R {| Fnum := z; Fexp := e |}) with (IZR z * bpow radix2 e) by reflexivity.
  change (round radix2 fx (round_mode NE)) with rnd.
  assert (P : 0 <= IZR z * bpow radix2 e).
  { apply Rmult_le_pos. now apply (IZR_le 0). apply bpow_ge_0. }
  destruct (Rlt_bool (Rabs (rnd (IZR z * bpow radix2 e))) (bpow radix2 emax)).
  - intros (H1 & H2 & H3). repeat split; auto. rewrite H3.
    destruct (Rcompare_spec (IZR z * bpow radix2 e) 0) as [H|H|H]; auto. lra.
  - intros H. apply B2SF_inf in H. rewrite H. f_equal. now apply Rlt_bool_false.
Qed.

Lemma ref_parse_float2_correct : parse_float2_correct ref_parse_float2.
Proof.
  intros bin m e. unfold ref_parse_float2. destruct bin.
  - apply normalize_correct. lia.
  - apply ref_parse_float_correct.
Qed.

(* a finite correctly rounded result is the rounding *)
Lemma correctly_rounded_B2R : forall neg x f, correctly_rounded neg x f -> is_finite f = true -> B2R f = rnd x.
Proof.
  intros neg x f. unfold correctly_rounded.
  destruct (Rlt_bool (Rabs (rnd x)) (bpow radix2 emax)).
  - tauto.
  - intros ->. discriminate.
Qed.

(* w = oddpart w * 2^(ctz w) *)
Lemma pos_odd_ctz : forall p, Z.pos p = (Z.pos (pos_odd p) * 2 ^ pos_ctz p)%Z /\ (0 <= pos_ctz p)%Z.
Proof.
  induction p as [p IH|p IH|]; cbn [pos_odd pos_ctz].
  - split; lia.
  - destruct IH as (IH1 & IH2). split; [|lia].
    rewrite Z.pow_add_r by lia. rewrite Pos2Z.inj_xO, IH1. ring.
  - split; lia.
Qed.

Lemma oddpart_ctz : forall w : N, (w <> 0)%N ->
  Z.of_N w = (Z.of_N (oddpart w) * 2 ^ ctz w)%Z /\ (0 <= ctz w)%Z /\ (1 <= Z.of_N (oddpart w) <= Z.of_N w)%Z.
Proof.
  intros [|p] H; [congruence|]. cbn [oddpart ctz Z.of_N].
  destruct (pos_odd_ctz p) as (H1 & H2). repeat split; auto; try lia.
  assert (1 <= 2 ^ pos_ctz p)%Z by (apply (Z.pow_le_mono_r 2 0); lia). nia.
Qed.

Lemma entry_is_trunc : forall f v, entry_is f v = true -> trunc_f64 f = v.
Proof.
  intros f v. destruct f as [s|s| |s m e B]; cbn [entry_is trunc_f64]; try discriminate.
  destruct s; try discriminate.
  destruct (Z.leb_spec 0 e) as [He|He]; intros H; apply Z.eqb_eq in H.
  - exact H.
  - rewrite H. apply Z.div_mul. apply Z.pow_nonzero; lia.
Qed.

Lemma pow5s_trunc : forall k, (0 <= k <= 22)%Z -> trunc_f64 (tab pow5s k) = (5 ^ k)%Z.
Proof.
  intros k Hk. apply entry_is_trunc.
  generalize clinger_tables_ok_true. unfold clinger_tables_ok. rewrite !andb_true_iff.
  intros ((H & _) & _). rewrite forallb_forall in H.
  specialize (H (Z.to_nat k)). rewrite Z2Nat.id in H by lia. apply H. apply in_seq. lia.
Qed.

(* exactPow10 is sound: when it answers true, w * 10^e is a binary64 value *)
Lemma exact_pow10_sound : forall w e, (w <> 0)%N -> (Z.of_N w <= 2 ^ 53)%Z -> (-22 <= e <= 22)%Z ->
  exact_pow10 w e = true -> generic_format radix2 fx (IZR (Z.of_N w) * bpow radix10 e).
Proof.
  intros w e W0 W53 He. unfold exact_pow10, max_mant64.
  destruct (Z.ltb_spec e 0) as [Hneg|Hpos].
  - replace (Z.max e (- e)) with (- e)%Z by lia. set (k := (- e)%Z).
    rewrite pow5s_trunc by (unfold k; lia). intros H. apply Z.eqb_eq in H.
    destruct (pow5_bounds k) as (Pa & Pb); [unfold k; lia|].
    apply Z.mod_divide in H; [|lia]. destruct H as (q & Hq).
    assert (Q : (0 <= q <= 2 ^ 53)%Z) by nia.
    replace e with (- k)%Z by (unfold k; lia). rewrite bpow10_neg by (unfold k; lia).
    replace (IZR (Z.of_N w) * (/ IZR (5 ^ k) * bpow radix2 (- k))) with (IZR q * bpow radix2 (- k)).
    + apply generic_int_scaled; unfold k; lia.
    + rewrite Hq, mult_IZR. assert (N5 : IZR (5 ^ k) <> 0) by (apply IZR_neq; lia).
      generalize (bpow radix2 (- k)) (IZR (5 ^ k)) N5 (IZR q). intros b a Na c. field. exact Na.
  - replace (Z.max e (- e)) with e by lia.
    rewrite pow5s_trunc by lia. intros H. apply Z.leb_le in H.
    change (Z.of_N (2 ^ 53)) with (2 ^ 53)%Z in H.
    destruct (oddpart_ctz w W0) as (D & T & O).
    rewrite bpow10_pos by lia.
    replace (IZR (Z.of_N w) * (IZR (5 ^ e) * bpow radix2 e))
      with (IZR (Z.of_N (oddpart w) * 5 ^ e) * bpow radix2 (ctz w + e)).
    + apply generic_int_scaled; [|lia].
      assert (0 <= 5 ^ e)%Z by (apply Z.pow_nonneg; lia). rewrite Z.abs_eq by nia. exact H.
    + rewrite D. rewrite !mult_IZR, bpow_plus, IZR_2pow by lia. ring.
Qed.

(* the base-2 test is sound: no bit is shifted out below 2^-1074 *)
Lemma exact_base2_sound : forall w e, (w <> 0)%N -> (Z.of_N w <= 2 ^ 53)%Z -> (-1074 <= e + ctz w)%Z ->
  generic_format radix2 fx (IZR (Z.of_N w) * bpow radix2 e).
Proof.
  intros w e W0 W53 H. destruct (oddpart_ctz w W0) as (D & T & O).
  replace (IZR (Z.of_N w) * bpow radix2 e) with (IZR (Z.of_N (oddpart w)) * bpow radix2 (ctz w + e)).
  - apply generic_int_scaled; lia.
  - rewrite D. rewrite mult_IZR, bpow_plus, IZR_2pow by lia. ring.
Qed.

Section Fixed.
Variable pf : bool -> positive -> Z -> f64.
Hypothesis pf_ok : parse_float2_correct pf.

Lemma slow_fixed_correct : forall d, (d_mant d <> 0)%N -> correctly_rounded false (abs_value d) (slow_fixed pf d).
Proof.
  intros d Hw. unfold slow_fixed, abs_value, d_radix. rewrite <- (N_pos_of _ Hw).
  generalize (pf_ok (d_bin d) (pos_of (Z.of_N (d_mant d))) (d_e d)). destruct (d_bin d); auto.
Qed.

(* the switch of the repaired Float64, before the sign is applied: correctly rounded, and exact sound *)
Lemma float64_abs_fixed_correct : forall d v ex, float64_abs_fixed pf d = (v, ex) ->
  correctly_rounded false (abs_value d) v /\ (ex = true -> is_finite v = true -> B2R v = abs_value d).
Proof.
  intros d v ex. unfold float64_abs_fixed, max_mant64, max_exact_pow5, min_subnormal_exp64.
  change (- (22))%Z with (-22)%Z.
  destruct (N.eqb_spec (d_mant d) 0) as [W0|W0].
  { intros A. inversion A; subst. unfold abs_value. rewrite W0. simpl IZR. rewrite Rmult_0_l.
    split. apply correctly_rounded_zero. reflexivity. }
  assert (Wpos : (1 <= Z.of_N (d_mant d))%Z) by lia.
  destruct (N.ltb_spec (d_mant d) (2 ^ 64)) as [W64|W64].
  2:{ intros A. inversion A; subst. split. now apply slow_fixed_correct. discriminate. }
  destruct (Z.eqb_spec (d_e d) 0) as [E0|E0].
  { intros A. inversion A; subst. unfold abs_value. rewrite E0. simpl bpow. rewrite Rmult_1_r. split.
    - apply of_Z_correct. lia.
    - intros L _. apply N.leb_le in L.
      assert (Z.of_N (d_mant d) <= 2 ^ 53)%Z by (change (2 ^ 53)%Z with (Z.of_N (2 ^ 53)); lia).
      destruct (of_Z_exact (Z.of_N (d_mant d))) as (_ & R & _); [lia|]. exact R. }
  destruct (N.leb_spec (d_mant d) (2 ^ 53)) as [W53|W53]; cbn [andb].
  2:{ intros A. inversion A; subst. split. now apply slow_fixed_correct. discriminate. }
  assert (W53' : (Z.of_N (d_mant d) <= 2 ^ 53)%Z) by (change (2 ^ 53)%Z with (Z.of_N (2 ^ 53)); lia).
  destruct (d_bin d) eqn:B; cbn [orb].
  - (* base 2: one Ldexp *)
    intros A. inversion A; subst; clear A.
    assert (C : correctly_rounded false (abs_value d) (f_ldexp (of_uint64 (d_mant d)) (d_e d))).
    { unfold abs_value, d_radix. rewrite B. apply ldexp_of_small_mant. lia. }
    split; [exact C|]. intros L F. apply Z.leb_le in L.
    rewrite (correctly_rounded_B2R _ _ _ C F). apply rnd_generic.
    unfold abs_value, d_radix. rewrite B. now apply exact_base2_sound.
  - destruct (andb (-22 <=? d_e d)%Z (d_e d <=? 22)%Z) eqn:G.
    + (* base 10, Clinger *)
      apply andb_true_iff in G. destruct G as (G1 & G2). apply Z.leb_le in G1. apply Z.leb_le in G2.
      intros A. inversion A; subst; clear A.
      destruct (fast10_correct (Z.of_N (d_mant d)) (d_e d)) as (K0 & K1 & K2 & K3); [lia|lia|exact E0|].
      assert (X : abs_value d = IZR (Z.of_N (d_mant d)) * bpow radix10 (d_e d)).
      { unfold abs_value, d_radix. now rewrite B. }
      split.
      * rewrite X. apply correctly_rounded_intro; auto.
      * intros L _. unfold of_uint64. rewrite K2, <- X. apply rnd_generic. rewrite X.
        apply exact_pow10_sound; auto; lia.
    + intros A. inversion A; subst. split. now apply slow_fixed_correct. discriminate.
Qed.

Theorem float64_correctly_rounded_lemma : forall d,
  correctly_rounded (d_neg d) (value d) (fst (float64_fixed pf d)).
Proof.
  intros d. unfold float64_fixed. destruct (float64_abs_fixed pf d) as (v, ex) eqn:A. cbn [fst].
  apply sign_wrap. now destruct (float64_abs_fixed_correct d v ex A).
Qed.

Theorem exact_flag_sound_lemma : forall d,
  snd (float64_fixed pf d) = true -> B2R (fst (float64_fixed pf d)) = value d.
Proof.
  intros d. unfold float64_fixed. destruct (float64_abs_fixed pf d) as (v, ex) eqn:A. cbn [fst snd].
  intros E. apply andb_true_iff in E. destruct E as (E1 & E2).
  destruct (float64_abs_fixed_correct d v ex A) as (_ & K). specialize (K E1 E2).
  unfold value. destruct (d_neg d); auto. unfold f_neg. rewrite B2R_Bopp, K. reflexivity.
Qed.

End Fixed.
