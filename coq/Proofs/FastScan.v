(* C25, the parts put together.  Proofs/FastScanDecls.v: the token loop of Scan on lists of
   well-formed declarations.  Proofs/FastScanLex.v: totality of the fast lexer, agreement with the
   full lexer on string literals and on whole token streams.  Here: the end-to-end corollary and a
   worked example (non-vacuity). *)
From Coq Require Import List NArith ZArith Bool Lia Arith.
From PV Require Import Common.Bytes Model.Utf8 Model.Lexer Model.FastScan.
From PV Require Export Proofs.FastScanDecls Proofs.FastScanLex.
Import ListNotations.
Open Scope N_scope.

(* if the full lexer accepts the bytes and its tokens, seen as the scanner sees them, are a list of
   well-formed declarations, then fastscan.Scan returns the package and the imports of those
   declarations (the import paths being the values the FULL lexer decoded), and no error *)
Theorem fast_scan_accepted_lemma : forall ph,
  (forall rs i, parse_uint16_32 rs = Some i -> (i < 2147483648)%N -> ph rs = Some (Z.of_N i)) ->
  forall data items ds,
  lex data = LDone items ->
  ftoks_of_items (strip_bom data) items = tokens_of ds ->
  wf_decls ds ->
  fast_scan ph data = Some {| r_pkg := package_of ds; r_imports := imports_of ds; r_errs := [] |}.
Proof.
  intros ph Hph data items ds Hlex Htoks Hwf. unfold fast_scan.
  rewrite (fast_lex_agree_lemma ph Hph _ _ Hlex), Htoks. cbn [option_map].
  rewrite scan_tokens_of_decls_lemma by exact Hwf. reflexivity.
Qed.

(* ---- a worked example ----
   import public <dq>a\x41<dq> 'b';package x.y;message M{option(o)={import:1};}import <dq>z<dq>;  *)
Definition ex_data : list N :=
  [105; 109; 112; 111; 114; 116; 32; 112; 117; 98; 108; 105; 99; 32; 34; 97; 92; 120; 52; 49; 34; 32; 39; 98;
   39; 59; 112; 97; 99; 107; 97; 103; 101; 32; 120; 46; 121; 59; 109; 101; 115; 115; 97; 103; 101; 32; 77; 123;
   111; 112; 116; 105; 111; 110; 40; 111; 41; 61; 123; 105; 109; 112; 111; 114; 116; 58; 49; 125; 59; 125; 105;
   109; 112; 111; 114; 116; 32; 34; 122; 34; 59].

Definition ex_body : list ftok :=
  [tk_ident kw_option; tk_sym 40; tk_ident [111]; tk_sym 41; tk_sym 61; tk_sym 123; tk_ident kw_import;
   tk_sym 58; mkt t_number [49]; tk_sym 125; tk_sym 59].

Definition ex_decls : list decl :=
  [DImport MPublic [[97; 65]; [98]];
   DPackage [[120]; [121]];
   DOther ([tk_ident [109; 101; 115; 115; 97; 103; 101]; tk_ident [77]] ++ tk_sym 123 :: ex_body ++ [tk_sym 125]);
   DImport MNone [[122]]].

Lemma plain_ident s : plain_tok (tk_ident s).
Proof. split; [discriminate|split; reflexivity]. Qed.
Lemma plain_sym c : c <> 0 -> is_open c = false -> is_close c = false -> plain_tok (tk_sym c).
Proof. intros A B C. split; [exact A|split; assumption]. Qed.

Lemma ex_body_balanced : balanced ex_body.
Proof.
  unfold ex_body.
  apply bal_plain; [apply plain_ident|].
  apply (bal_group (tk_sym 40) [tk_ident [111]] (tk_sym 41)); [reflexivity|reflexivity| |].
  { apply bal_plain; [apply plain_ident|constructor]. }
  apply bal_plain; [apply plain_sym; [discriminate|reflexivity|reflexivity]|].
  apply (bal_group (tk_sym 123) [tk_ident kw_import; tk_sym 58; mkt t_number [49]] (tk_sym 125));
    [reflexivity|reflexivity| |].
  { apply bal_plain; [apply plain_ident|].
    apply bal_plain; [apply plain_sym; [discriminate|reflexivity|reflexivity]|].
    apply bal_plain; [split; [discriminate|split; reflexivity]|constructor]. }
  apply bal_plain; [apply plain_sym; [discriminate|reflexivity|reflexivity]|constructor].
Qed.

Lemma ex_wf : wf_decls ex_decls.
Proof.
  unfold ex_decls. repeat constructor; try discriminate.
  exists [tk_ident [109; 101; 115; 115; 97; 103; 101]; tk_ident [77]], (tk_sym 123 :: ex_body ++ [tk_sym 125]).
  split; [reflexivity|]. split.
  - apply u_plain; [apply plain_ident|discriminate|].
    apply u_plain; [apply plain_ident|discriminate|constructor].
  - split; [apply e_block; [reflexivity|reflexivity|apply ex_body_balanced]|].
    cbn. unfold is_kw_start. cbn. intros (_ & [H|H]); discriminate H.
Qed.

Example fastscan_example :
  wf_decls ex_decls /\
  (exists items, lex ex_data = LDone items /\ ftoks_of_items (strip_bom ex_data) items = tokens_of ex_decls) /\
  fast_scan hex_signed ex_data =
    Some {| r_pkg := [120; 46; 121];
            r_imports := [ {| im_path := [97; 65; 98]; im_public := true; im_weak := false; im_option := false |};
                           {| im_path := [122]; im_public := false; im_weak := false; im_option := false |} ];
            r_errs := [] |} /\
  package_of ex_decls = [120; 46; 121] /\
  full_decode 34 [97; 92; 120; 52; 49; 34; 32] = Some ([97; 65], 6%nat).
Proof.
  split; [exact ex_wf|]. split.
  - eexists. split; [vm_compute; reflexivity|vm_compute; reflexivity].
  - split; [vm_compute; reflexivity|]. split; vm_compute; reflexivity.
Qed.

(* where the two lexers differ (outside the property: the full lexer rejects the literal):
   the literal  \x+5  is an error for the full lexer, the byte 5 for the scanner as it is (ParseInt
   accepts the sign), and the raw escape for the scanner after the optional hardening patch *)
Example signed_escape_example :
  full_decode 34 [92; 120; 43; 53; 34] = None /\
  fast_decode hex_signed 34 [92; 120; 43; 53; 34] = Some ([5], []) /\
  fast_decode hex_unsigned 34 [92; 120; 43; 53; 34] = Some ([92; 120; 43; 53], []).
Proof. repeat split; vm_compute; reflexivity. Qed.
