(* C01, whole descriptor: validateBasic (walk over messages, fields, nested messages, enums,
   extensions) reports nothing iff every element is valid in the declarative sense of
   Model/ValiditySpec.v.  Composition of Proofs/Validate.v over arbitrarily nested descriptors. *)
From Coq Require Import List NArith ZArith Bool Lia.
From PV Require Import Model.MiniProto Model.Lower Model.Validate Model.ValiditySpec.
From PV Require Import Proofs.Validate.
Import ListNotations.
Open Scope Z_scope.

(* induction over nested messages *)
Section DmsgInd.
Variable P : dmsg -> Prop.
Hypothesis H : forall nm fields nested enums exts oneofs extr rsvr rsvn me ms,
  Forall P nested -> P (DMsg nm fields nested enums exts oneofs extr rsvr rsvn me ms).
Fixpoint dmsg_ind2 (m : dmsg) : P m :=
  match m with
  | DMsg nm fields nested enums exts oneofs extr rsvr rsvn me ms =>
    H nm fields nested enums exts oneofs extr rsvr rsvn me ms
      ((fix go (l : list dmsg) : Forall P l :=
          match l with [] => Forall_nil P | x :: r => Forall_cons x (dmsg_ind2 x) (go r) end) nested)
  end.
End DmsgInd.

(* what the construction of the descriptor guarantees once it has reported no error: ranges are
   non-empty intervals, names are non-empty (the lexer yields no empty identifier) *)
Definition enum_wf (e : denum) : Prop := Forall wf_cl (de_rsv e) /\ Forall (fun p => fst p <> []) (de_values e).

Fixpoint msg_wf (m : dmsg) : Prop :=
  match m with
  | DMsg _ fields nested enums _ _ extr rsvr _ _ _ =>
    Forall wf_ho rsvr /\ Forall wf_ho extr /\ Forall (fun f => df_name f <> []) fields /\ Forall enum_wf enums /\
    (fix go (l : list dmsg) : Prop := match l with [] => True | x :: r => msg_wf x /\ go r end) nested
  end.

Definition field_valid (syn : syntax) (fd : dfield) : Prop :=
  field_rules_ok syn (is_some (df_label fd)) (is_label (df_label fd) DRequired) (is_label (df_label fd) DOptional)
                 (is_some (df_oneof fd)) (ext_nonempty fd) (is_group (df_type fd)) (has_default_opt fd).

Definition enum_valid (syn : syntax) (e : denum) : Prop :=
  enum_desc_ok true false syn (alias_of (de_alias e)) (de_values e) (de_rsv e) (de_rsvn e).

Fixpoint msg_valid (syn : syntax) (m : dmsg) : Prop :=
  match m with
  | DMsg _ fields nested enums exts _ extr rsvr rsvn _ _ =>
    msg_desc_ok true syn rsvr extr rsvn (names_nums fields) /\
    Forall (field_valid syn) fields /\
    (fix go (l : list dmsg) : Prop := match l with [] => True | x :: r => msg_valid syn x /\ go r end) nested /\
    Forall (enum_valid syn) enums /\
    Forall (field_valid syn) exts
  end.

Lemma flat_map_nil_forall {A B} (f : A -> list B) (P : A -> Prop) l :
  (forall x, In x l -> (f x = [] <-> P x)) -> (flat_map f l = [] <-> Forall P l).
Proof.
  intros H. rewrite flat_map_nil, Forall_forall. split; intros Hx x Hin; apply (H x Hin); now apply Hx.
Qed.

Theorem walk_msg_iff_lemma : forall syn m, msg_wf m -> (walk_msg syn m = [] <-> msg_valid syn m).
Proof.
  intros syn m. induction m as [nm fields nested enums exts oneofs extr rsvr rsvn me ms IH] using dmsg_ind2.
  intros Hwf. cbn [msg_wf] in Hwf. destruct Hwf as (Hr & Hx & Hn & He & Hnested).
  cbn [walk_msg msg_valid]. rewrite !app_nil_iff.
  rewrite (validate_message_iff_lemma syn (DMsg nm fields nested enums exts oneofs extr rsvr rsvn me ms) Hr Hx Hn).
  cbn [dm_rsvr dm_extr dm_rsvn dm_fields].
  rewrite (flat_map_nil_forall (validate_field syn) (field_valid syn) fields) by (intros; apply validate_field_iff_lemma).
  rewrite (flat_map_nil_forall (validate_field syn) (field_valid syn) exts) by (intros; apply validate_field_iff_lemma).
  rewrite (flat_map_nil_forall (validate_enum syn) (enum_valid syn) enums).
  2:{ intros e Hin. rewrite Forall_forall in He. destruct (He e Hin) as [H1 H2]. now apply validate_enum_iff_lemma. }
  assert (Hnest : flat_map (walk_msg syn) nested = [] <->
                  (fix go (l : list dmsg) : Prop := match l with [] => True | x :: r => msg_valid syn x /\ go r end) nested).
  { clear -IH Hnested. induction nested as [|x r IHr]; cbn [flat_map]; [tauto|].
    inversion IH as [|? ? Hx Hrest]; subst. destruct Hnested as [Hwx Hwr].
    rewrite app_nil_iff, (Hx Hwx), (IHr Hrest Hwr). tauto. }
  rewrite Hnest. tauto.
Qed.

Definition file_wf (d : dfile) : Prop := Forall msg_wf (dfl_msgs d) /\ Forall enum_wf (dfl_enums d).

Definition file_valid (d : dfile) : Prop :=
  NoDup (dfl_deps d) /\ Forall (msg_valid (dfl_syntax d)) (dfl_msgs d) /\
  Forall (enum_valid (dfl_syntax d)) (dfl_enums d) /\ Forall (field_valid (dfl_syntax d)) (dfl_exts d).

Lemma dup_import_nil : forall deps seen,
  dup_import seen deps = [] <-> NoDup deps /\ forall d, In d deps -> ~ In d seen.
Proof.
  induction deps as [|d r IH]; intros seen; cbn [dup_import].
  - split; [intros _; split; [constructor|intros d []]|reflexivity].
  - destruct (mem_name d seen) eqn:E.
    + split; [discriminate|]. intros [_ H]. exfalso. apply (H d); [now left|]. now apply Proofs.LowerNames.mem_name_In.
    + rewrite IH. apply Proofs.LowerNames.mem_name_false in E. split.
      * intros [Hnd Hall]. split.
        -- constructor; [|assumption]. intros Hin. apply (Hall d Hin). now left.
        -- intros x [<-|Hx]; [assumption|]. intros Hin. apply (Hall x Hx). now right.
      * intros [Hnd Hall]. inversion Hnd as [|? ? Hnotin Hnd']; subst. split; [assumption|].
        intros x Hx [<-|Hin]; [contradiction|]. apply (Hall x); [now right|assumption].
Qed.

(* validate_sound_complete at the level of validateBasic: the whole file *)
Theorem validate_basic_iff_lemma : forall d, file_wf d -> (validate_basic d = [] <-> file_valid d).
Proof.
  intros d [Hm He]. unfold validate_basic, file_valid. rewrite !app_nil_iff, dup_import_nil.
  rewrite (flat_map_nil_forall (walk_msg (dfl_syntax d)) (msg_valid (dfl_syntax d)) (dfl_msgs d)).
  2:{ intros m Hin. rewrite Forall_forall in Hm. now apply walk_msg_iff_lemma, Hm. }
  rewrite (flat_map_nil_forall (validate_enum (dfl_syntax d)) (enum_valid (dfl_syntax d)) (dfl_enums d)).
  2:{ intros e Hin. rewrite Forall_forall in He. destruct (He e Hin) as [H1 H2]. now apply validate_enum_iff_lemma. }
  rewrite (flat_map_nil_forall (validate_field (dfl_syntax d)) (field_valid (dfl_syntax d)) (dfl_exts d)) by (intros; apply validate_field_iff_lemma).
  split; [intros ([H1 _] & H2 & H3 & H4); tauto|intros (H1 & H2 & H3 & H4)]. repeat split; try assumption. intros x _ [].
Qed.

(* non-vacuity witnesses used by Props/C01.v *)
Lemma c01_example :
  Forall wf_ho [(5, 10); (1, 6)] /\
  overlap_errs Z.ltb (sort_rngs [(5, 10); (1, 6)]) EMsgReservedOverlap = [EMsgReservedOverlap] /\
  overlap_errs Z.ltb (sort_rngs [(5, 10); (1, 5)]) EMsgReservedOverlap = [] /\
  in_sorted_ranges Z.gtb (sort_rngs [(5, 10); (1, 5)]) 9 = Some true /\
  in_sorted_ranges Z.gtb (sort_rngs [(5, 10); (1, 5)]) 10 = Some false /\
  check_tag 19000 field_max = Some ETag19000 /\ check_tag 536870911 field_max = None.
Proof.
  split; [repeat constructor; unfold wf_ho; cbn; reflexivity|]. repeat split; vm_compute; reflexivity.
Qed.
