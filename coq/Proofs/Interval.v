(* Proofs about the model of interval.Intersect (Model/Interval.v).

   Layers:
     go_insert c   (heap of backing arrays, the model the check ties to the implementation)
       ~ p_insert c   on plain value lists, when no append writes in place   (section Heap)
       = p_insert repaired, when no gap test sees adjacent entries           (section Guard)
     p_insert repaired keeps the invariant [Inv] : the entries form a chain (sorted, disjoint,
       non-empty) and looking a point up gives the naive answer               (sections Tree .. Main)
*)
From Coq Require Import List ZArith Bool Lia Sorting.Sorted.
From PV Require Import Model.Interval.
Import ListNotations.
Open Scope Z_scope.

(* ------------------------------------------------------------------ Tree: the sorted map *)
Section Tree.
  Context {V : Type}.
  Notation E := (entry V).

  Definition ksorted (t : list E) : Prop := StronglySorted (fun x y => eE x < eE y) t.

  Lemma ksorted_cons_inv x t : ksorted (x :: t) -> ksorted t /\ Forall (fun y => eE x < eE y) t.
  Proof. intros H. inversion H; subst. split; assumption. Qed.

  Lemma tset_In_1 (t : list E) e x : In x (tset t e) -> x = e \/ In x t.
  Proof.
    induction t as [|y r IH]; cbn [tset]; intros H.
    - destruct H as [H|[]]. left. symmetry. exact H.
    - destruct (eE e <? eE y).
      + destruct H as [H|H]; [left; symmetry; exact H|right; exact H].
      + destruct (eE e =? eE y).
        * destruct H as [H|H]; [left; symmetry; exact H|right; right; exact H].
        * destruct H as [H|H]; [right; left; exact H|].
          destruct (IH H) as [H1|H1]; [left; exact H1|right; right; exact H1].
  Qed.

  Lemma tset_In_e (t : list E) e : In e (tset t e).
  Proof.
    induction t as [|y r IH]; cbn [tset]; [left; reflexivity|].
    destruct (eE e <? eE y); [left; reflexivity|].
    destruct (eE e =? eE y); [left; reflexivity|right; exact IH].
  Qed.

  Lemma tset_In_2 (t : list E) e x : In x t -> eE x <> eE e -> In x (tset t e).
  Proof.
    induction t as [|y r IH]; cbn [tset]; intros H Hk; [destruct H|].
    destruct (eE e <? eE y); [right; exact H|].
    destruct (Z.eqb_spec (eE e) (eE y)) as [Heq|Hne].
    - destruct H as [H|H]; [subst y; lia|right; exact H].
    - destruct H as [H|H]; [left; exact H|right; apply IH; assumption].
  Qed.

  Lemma tset_ksorted (t : list E) e : ksorted t -> ksorted (tset t e).
  Proof.
    unfold ksorted. induction t as [|y r IH]; cbn [tset]; intros H.
    - constructor; constructor.
    - inversion H as [|? ? Hr Hall]; subst.
      destruct (Z.ltb_spec (eE e) (eE y)) as [Hlt|Hge].
      + constructor; [exact H|]. constructor; [exact Hlt|].
        rewrite Forall_forall in *. intros z Hz. specialize (Hall z Hz). lia.
      + destruct (Z.eqb_spec (eE e) (eE y)) as [Heq|Hne].
        * constructor; [exact Hr|]. rewrite Forall_forall in *. intros z Hz. specialize (Hall z Hz). lia.
        * constructor; [apply IH; exact Hr|].
          rewrite Forall_forall in *. intros z Hz. apply tset_In_1 in Hz. destruct Hz as [Hz|Hz].
          -- subst z. lia.
          -- apply Hall. exact Hz.
  Qed.

  Lemma ksorted_key_inj (t : list E) x y : ksorted t -> In x t -> In y t -> eE x = eE y -> x = y.
  Proof.
    unfold ksorted. induction t as [|z r IH]; intros H Hx Hy Hk; [destruct Hx|].
    inversion H as [|? ? Hr Hall]; subst. rewrite Forall_forall in Hall.
    destruct Hx as [Hx|Hx]; destruct Hy as [Hy|Hy]; subst.
    - reflexivity.
    - specialize (Hall y Hy). lia.
    - specialize (Hall x Hx). lia.
    - apply IH; assumption.
  Qed.

  Lemma ksorted_ext (l1 : list E) : forall l2, ksorted l1 -> ksorted l2 -> (forall x, In x l1 <-> In x l2) -> l1 = l2.
  Proof.
    unfold ksorted. induction l1 as [|a r1 IH]; intros l2 H1 H2 Hext.
    - destruct l2 as [|b r2]; [reflexivity|]. exfalso. apply (Hext b). left. reflexivity.
    - destruct l2 as [|b r2]; [exfalso; apply (Hext a); left; reflexivity|].
      inversion H1 as [|? ? Hr1 Hall1]; subst. inversion H2 as [|? ? Hr2 Hall2]; subst.
      rewrite Forall_forall in Hall1, Hall2.
      assert (Hab : a = b).
      { destruct (proj1 (Hext a) (or_introl eq_refl)) as [Ha|Ha]; [symmetry; exact Ha|].
        destruct (proj2 (Hext b) (or_introl eq_refl)) as [Hb|Hb]; [exact Hb|].
        specialize (Hall1 b Hb). specialize (Hall2 a Ha). lia. }
      subst b. f_equal. apply IH; [assumption|assumption|].
      intros x. split; intros Hx.
      + destruct (proj1 (Hext x) (or_intror Hx)) as [Hxa|Hxr]; [|exact Hxr].
        subst x. specialize (Hall1 a Hx). lia.
      + destruct (proj2 (Hext x) (or_intror Hx)) as [Hxa|Hxr]; [|exact Hxr].
        subst x. specialize (Hall2 a Hx). lia.
  Qed.

  Lemma fold_tset_ksorted (pend : list E) : forall base, ksorted base -> ksorted (fold_left tset pend base).
  Proof. induction pend as [|e r IH]; intros base H; cbn [fold_left]; [exact H|]. apply IH, tset_ksorted, H. Qed.

  (* the Sets of pending entries give the key-sorted list L, whatever the order, as soon as L is
     key-sorted and has the same elements *)
  Lemma fold_tset_eq (pend : list E) : forall base L,
    ksorted base -> ksorted L -> (forall x, In x L <-> In x base \/ In x pend) ->
    fold_left tset pend base = L.
  Proof.
    induction pend as [|e r IH]; intros base L Hb HL Hext; cbn [fold_left].
    - apply ksorted_ext; [exact Hb|exact HL|]. intros x. rewrite Hext. cbn [In]. tauto.
    - apply IH; [apply tset_ksorted; exact Hb|exact HL|].
      intros x. rewrite Hext. cbn [In]. split.
      + intros [Hx|[Hx|Hx]].
        * destruct (Z.eq_dec (eE x) (eE e)) as [Hk|Hk].
          -- left. assert (x = e).
             { apply (ksorted_key_inj L); [exact HL| | |exact Hk]; apply Hext; [left; exact Hx|right; left; reflexivity]. }
             subst x. apply tset_In_e.
          -- left. apply tset_In_2; assumption.
        * subst x. left. apply tset_In_e.
        * right. exact Hx.
      + intros [Hx|Hx].
        * apply tset_In_1 in Hx. destruct Hx as [Hx|Hx]; [right; left; symmetry; exact Hx|left; exact Hx].
        * right. right. exact Hx.
  Qed.

  Lemma seek_split_app (t : list E) k : fst (seek_split t k) ++ snd (seek_split t k) = t.
  Proof.
    induction t as [|x r IH]; cbn [seek_split]; [reflexivity|].
    destruct (eE x <? k); [|reflexivity].
    destruct (seek_split r k) as [b a]. cbn [fst snd app] in *. rewrite IH. reflexivity.
  Qed.

  Lemma seek_split_before (t : list E) k : Forall (fun x => eE x < k) (fst (seek_split t k)).
  Proof.
    induction t as [|x r IH]; cbn [seek_split]; [constructor|].
    destruct (Z.ltb_spec (eE x) k) as [Hlt|Hge]; [|constructor].
    destruct (seek_split r k) as [b a]. cbn [fst] in *. constructor; assumption.
  Qed.

  Lemma seek_split_head (t : list E) k x r : snd (seek_split t k) = x :: r -> k <= eE x.
  Proof.
    induction t as [|y t' IH]; cbn [seek_split]; [discriminate|].
    destruct (Z.ltb_spec (eE y) k) as [Hlt|Hge].
    - destruct (seek_split t' k) as [b a]. cbn [snd] in *. exact IH.
    - cbn [snd]. intros H. injection H as H1 H2. subst. exact Hge.
  Qed.
End Tree.

(* generic facts about the loop, for every cfg and every store *)
Section LoopFacts.
  Variables (St VS : Type).
  Variable mk1 : St -> nat -> St * VS.
  Variable app : bool -> St -> VS -> nat -> St * VS.
  Variable spare : VS -> bool.

  Lemma istep_tree_key c st e a b v prev : eE (so_tree (istep St VS mk1 app spare c st e a b v prev)) = eE e.
  Proof.
    unfold istep.
    repeat match goal with
           | |- context [let '(_, _) := ?x in _] => destruct x
           | |- context [if ?x then _ else _] => destruct x
           | |- context [match ?x with Some _ => _ | None => _ end] => destruct x
           end; reflexivity.
  Qed.

  (* the conditions of one loop iteration only depend on the interval ends *)
  Definition c_se {V} (e : entry V) (b : Z) : bool := contains e b && (b <? eE e).
  Definition c_curE {V} (e : entry V) (b : Z) : Z := if c_se e b then b else eE e.
  Definition c_ss {V} (e : entry V) (a b : Z) : bool := (eS e <=? a) && (a <=? c_curE e b) && (eS e <? a).
  Definition c_curS {V} (e : entry V) (a b : Z) : Z := if c_ss e a b then a else eS e.
  Definition c_gap {V W} (c : cfg) (e : entry V) (a b : Z) (prev : option (entry W)) : bool :=
    match prev with
    | Some p => if fix_gap c then eE p + 1 <? c_curS e a b else eE p <? c_curS e a b
    | None => false
    end.

  Lemma istep_nf c st e a b v prev :
    istep St VS mk1 app spare c st e a b v prev =
    let '(st1, lead) :=
      match prev with
      | None => if a <? eS e then let '(s1, x) := mk1 st v in (s1, [mkE a (eS e - 1) x]) else (st, [])
      | Some _ => (st, [])
      end in
    let '(st2, nv) := if c_se e b then app true st1 (eV e) v else (st1, eV e) in
    let '(st3, nv2) := app (fix_clip c) st2 (eV e) v in
    let '(st4, gap) :=
      match prev with
      | Some p => if c_gap c e a b prev then let '(s4, x) := mk1 st3 v in (s4, [mkE (eE p + 1) (c_curS e a b - 1) x]) else (st3, [])
      | None => (st3, [])
      end in
    {| so_tree := if c_se e b then mkE (b + 1) (eE e) (eV e) else mkE (c_curS e a b) (c_curE e b) nv2;
       so_pend := lead ++ (if c_se e b then [mkE (c_curS e a b) (c_curE e b) nv2] else [])
                       ++ (if c_ss e a b then [mkE (eS e) (a - 1) (eV e)] else []) ++ gap;
       so_cur := mkE (c_curS e a b) (c_curE e b) nv2;
       so_st := st4;
       so_hz := spare (eV e) || match prev with Some p => eE p + 1 =? c_curS e a b | None => false end |}.
  Proof.
    unfold istep, c_gap, c_curS, c_ss, c_curE. fold (c_se e b). unfold contains.
    destruct prev as [p|].
    - destruct (c_se e b).
      + destruct (app true st (eV e) v) as [st2 nv]. cbn [eS eE eV].
        destruct ((eS e <=? a) && (a <=? b) && (eS e <? a)); cbn [eS eE eV];
          destruct (app (fix_clip c) st2 (eV e) v) as [st3 nv2]; cbn [eS eE eV];
          destruct (fix_gap c); match goal with |- context [?x <? ?y] => destruct (x <? y) end;
          try destruct (mk1 st3 v); reflexivity.
      + unfold contains. destruct ((eS e <=? a) && (a <=? eE e) && (eS e <? a)); cbn [eS eE eV];
          destruct (app (fix_clip c) st (eV e) v) as [st3 nv2]; cbn [eS eE eV];
          destruct (fix_gap c); match goal with |- context [?x <? ?y] => destruct (x <? y) end;
          try destruct (mk1 st3 v); reflexivity.
    - destruct (a <? eS e); [destruct (mk1 st v) as [s1 x]|].
      all: destruct (c_se e b).
      all: try (match goal with |- context [app true ?s ?o ?w] => destruct (app true s o w) as [st2 nv] end).
      all: unfold contains; cbn [eS eE eV].
      all: match goal with |- context [?x && ?y && ?z] => destruct (x && y && z) end; cbn [eS eE eV].
      all: match goal with |- context [app (fix_clip ?cc) ?s ?o ?w] => destruct (app (fix_clip cc) s o w) as [st3 nv2] end.
      all: cbn [eS eE eV]; reflexivity.
  Qed.

  Lemma istep_hz c st e a b v prev :
    so_hz (istep St VS mk1 app spare c st e a b v prev) =
    spare (eV e) || match prev with Some p => eE p + 1 =? c_curS e a b | None => false end.
  Proof.
    rewrite istep_nf.
    repeat match goal with
           | |- context [let '(_, _) := ?x in _] => destruct x
           end; reflexivity.
  Qed.

  Lemma iloop_keys c : forall es st a b v prev r' pd pv st' hz,
    iloop St VS mk1 app spare c st es a b v prev = (r', pd, pv, st', hz) -> map eE r' = map eE es.
  Proof.
    induction es as [|e r IH]; intros st a b v prev r' pd pv st' hz H; cbn [iloop] in H.
    - injection H as <- _ _ _ _. reflexivity.
    - destruct (b <? eS e).
      + injection H as <- _ _ _ _. reflexivity.
      + destruct (iloop St VS mk1 app spare c (so_st (istep St VS mk1 app spare c st e a b v prev)) r a b v
                        (Some (so_cur (istep St VS mk1 app spare c st e a b v prev)))) as [[[[r2 pd2] pv2] st2] hz2] eqn:Hrec.
        injection H as <- _ _ _ _. cbn [map]. rewrite istep_tree_key. f_equal. eapply IH. exact Hrec.
  Qed.

  Lemma iloop_prev_some c : forall es st a b v p r' pd pv st' hz,
    iloop St VS mk1 app spare c st es a b v (Some p) = (r', pd, pv, st', hz) -> pv <> None.
  Proof.
    induction es as [|e r IH]; intros st a b v p r' pd pv st' hz H; cbn [iloop] in H.
    - injection H as _ _ <- _ _. discriminate.
    - destruct (b <? eS e).
      + injection H as _ _ <- _ _. discriminate.
      + destruct (iloop St VS mk1 app spare c (so_st (istep St VS mk1 app spare c st e a b v (Some p))) r a b v
                        (Some (so_cur (istep St VS mk1 app spare c st e a b v (Some p))))) as [[[[r2 pd2] pv2] st2] hz2] eqn:Hrec.
        injection H as _ _ <- _ _. eapply IH. exact Hrec.
  Qed.

  (* the loop found nothing (prev stays nil) exactly when the first candidate lies beyond b *)
  Lemma iloop_prev_none c es st a b v r' pd pv st' hz :
    iloop St VS mk1 app spare c st es a b v None = (r', pd, pv, st', hz) ->
    (pv = None <-> match es with [] => True | e :: _ => b < eS e end).
  Proof.
    intros H. destruct es as [|e r]; cbn [iloop] in H.
    - injection H as _ _ <- _ _. tauto.
    - destruct (Z.ltb_spec b (eS e)) as [Hlt|Hge].
      + injection H as _ _ <- _ _. tauto.
      + destruct (iloop St VS mk1 app spare c (so_st (istep St VS mk1 app spare c st e a b v None)) r a b v
                        (Some (so_cur (istep St VS mk1 app spare c st e a b v None)))) as [[[[r2 pd2] pv2] st2] hz2] eqn:Hrec.
        injection H as _ _ <- _ _. apply iloop_prev_some in Hrec. split; [intros; contradiction|lia].
  Qed.
End LoopFacts.

(* ------------------------------------------------------------------ the instance on plain lists *)
Notation PE := (entry (list nat)).
Definition pmk1 (_ : unit) (v : nat) : unit * list nat := (tt, [v]).
Definition papp (_ : bool) (_ : unit) (l : list nat) (v : nat) : unit * list nat := (tt, l ++ [v]).
Definition pspare (_ : list nat) : bool := false.
Definition pstep := istep unit (list nat) pmk1 papp pspare.
Definition ploop := iloop unit (list nat) pmk1 papp pspare.
Definition pinsert := iinsert unit (list nat) pmk1 papp pspare.
Definition prun := irun unit (list nat) pmk1 papp pspare.

(* sorted, pairwise disjoint, non-empty intervals, non-empty value lists; lo bounds the first Start *)
Fixpoint chain_from (lo : Z) (t : list PE) : Prop :=
  match t with
  | [] => True
  | e :: r => lo <= eS e /\ eS e <= eE e /\ eV e <> [] /\ chain_from (eE e + 1) r
  end.

(* the values Get returns *)
Definition lk (t : list PE) (p : Z) : list nat :=
  match snd (seek_split t p) with
  | [] => []
  | e :: _ => if p <? eS e then [] else eV e
  end.

Lemma lk_cons e r q : lk (e :: r) q = if eE e <? q then lk r q else if q <? eS e then [] else eV e.
Proof.
  unfold lk. cbn [seek_split]. destruct (eE e <? q); [|reflexivity].
  destruct (seek_split r q) as [b a]. reflexivity.
Qed.

Lemma chain_from_weaken lo lo' t : lo' <= lo -> chain_from lo t -> chain_from lo' t.
Proof. destruct t as [|e r]; cbn [chain_from]; [trivial|]. intros H [H1 H2]. split; [lia|exact H2]. Qed.

Lemma chain_from_lk_below lo t q : chain_from lo t -> q < lo -> lk t q = [].
Proof.
  destruct t as [|e r]; [reflexivity|]. cbn [chain_from]. intros [H1 [H2 _]] Hq. rewrite lk_cons.
  destruct (Z.ltb_spec (eE e) q); [lia|]. destruct (Z.ltb_spec q (eS e)); [reflexivity|lia].
Qed.

Definition next_a (a : Z) (prev : option PE) : Z := match prev with None => a | Some p => eE p + 1 end.

Definition pieces (e : PE) (a b : Z) (v : nat) (prev : option PE) : list PE :=
  let na := next_a a prev in
  (if na <? eS e then [mkE na (eS e - 1) [v]] else []) ++
  (if eS e <? na then [mkE (eS e) (na - 1) (eV e)] else []) ++
  [mkE (Z.max (eS e) na) (Z.min (eE e) b) (eV e ++ [v])] ++
  (if b <? eE e then [mkE (b + 1) (eE e) (eV e)] else []).

Definition prev_ok (e : PE) (a : Z) (prev : option PE) : Prop :=
  match prev with None => True | Some p => a <= eE p /\ eE p + 1 <= eS e end.

Ltac zcmp :=
  repeat (match goal with
          | |- context [?x <? ?y] => destruct (Z.ltb_spec x y)
          | |- context [?x <=? ?y] => destruct (Z.leb_spec x y)
          | |- context [?x =? ?y] => destruct (Z.eqb_spec x y)
          end; cbn [andb orb negb fst snd app eS eE eV]).

Ltac zminmax :=
  repeat match goal with
         | |- context [Z.max ?x ?y] => first [rewrite (Z.max_l x y) by lia | rewrite (Z.max_r x y) by lia]
         | |- context [Z.min ?x ?y] => first [rewrite (Z.min_l x y) by lia | rewrite (Z.min_r x y) by lia]
         end.

Lemma pstep_shape e a b v prev :
  a <= b -> eS e <= eE e -> eS e <= b -> next_a a prev <= eE e -> prev_ok e a prev ->
  let o := pstep repaired tt e a b v prev in
  so_cur o = mkE (Z.max (eS e) (next_a a prev)) (Z.min (eE e) b) (eV e ++ [v])
  /\ forall x, (so_tree o = x \/ In x (so_pend o)) <-> In x (pieces e a b v prev).
Proof.
  intros Hab Hse Hsb Hna Hp. unfold pstep. rewrite istep_nf.
  unfold pieces, pmk1, papp, prev_ok, next_a, c_gap, c_curS, c_ss, c_curE, c_se, contains in *.
  destruct prev as [p|]; cbn [repaired fix_gap fix_clip].
  - destruct Hp as [Hp1 Hp2]. zcmp; cbn [andb orb negb eS eE eV] in *; try lia.
    all: cbn [so_cur so_tree so_pend In app]; zminmax; (split; [reflexivity|intros x; tauto]).
  - zcmp; cbn [andb orb negb eS eE eV] in *; try lia.
    all: cbn [so_cur so_tree so_pend In app]; zminmax; (split; [reflexivity|intros x; tauto]).
Qed.

(* what Insert leaves behind the last intersecting entry *)
Definition trailing (a b : Z) (v : nat) (prev : option PE) : list PE :=
  if next_a a prev <=? b then [mkE (next_a a prev) b [v]] else [].

(* the entries from Seek(start) on after the insertion, in sorted order *)
Fixpoint xloop (es : list PE) (a b : Z) (v : nat) (prev : option PE) : list PE :=
  match es with
  | [] => trailing a b v prev
  | e :: r => if b <? eS e then trailing a b v prev ++ e :: r
              else pieces e a b v prev ++ xloop r a b v (Some (so_cur (pstep repaired tt e a b v prev)))
  end.

Definition pre (es : list PE) (a : Z) (prev : option PE) : Prop :=
  a <= next_a a prev /\
  match es with [] => True | e :: _ => next_a a prev <= eE e /\ prev_ok e a prev end.

Lemma pre_next e r a b v prev :
  a <= b -> chain_from (eS e) (e :: r) -> eS e <= b -> pre (e :: r) a prev ->
  pre r a (Some (so_cur (pstep repaired tt e a b v prev)))
  /\ next_a a (Some (so_cur (pstep repaired tt e a b v prev))) = Z.min (eE e) b + 1.
Proof.
  intros Hab Hc Hsb [Hn [Hna Hp]]. cbn [chain_from] in Hc. destruct Hc as [_ [Hse [_ Hr]]].
  destruct (pstep_shape e a b v prev Hab Hse Hsb Hna Hp) as [Hcur _]. cbn zeta in Hcur. rewrite Hcur.
  unfold pre, next_a. cbn [eE]. split; [|reflexivity]. split; [unfold next_a in *; lia|].
  destruct r as [|e2 r2]; [exact I|]. cbn [chain_from] in Hr. destruct Hr as [H1 [H2 _]].
  unfold prev_ok. cbn [eE]. unfold next_a in *. lia.
Qed.

Lemma xloop_elems a b v : a <= b -> forall es prev lo rest' pend prev' hz,
  chain_from lo es -> pre es a prev ->
  ploop repaired tt es a b v prev = (rest', pend, prev', tt, hz) ->
  forall x, In x (xloop es a b v prev) <-> In x rest' \/ In x pend \/ In x (trailing a b v prev').
Proof.
  intros Hab. induction es as [|e r IH]; intros prev lo rest' pend prev' hz Hc Hpre Hl x.
  - cbn [ploop iloop] in Hl. injection Hl as <- <- <- _. cbn [xloop In]. tauto.
  - unfold ploop in Hl. cbn [iloop] in Hl. cbn [xloop].
    destruct (Z.ltb_spec b (eS e)) as [Hlt|Hge].
    + injection Hl as <- <- <- _. rewrite in_app_iff. cbn [In]. tauto.
    + fold (pstep repaired tt e a b v prev) in Hl.
      assert (Hc' : chain_from (eS e) (e :: r)).
      { cbn [chain_from] in *. destruct Hc as [_ Hc]. split; [lia|exact Hc]. }
      destruct (pre_next e r a b v prev Hab Hc' Hge Hpre) as [Hpre' _].
      destruct Hpre as [Hn [Hna Hp]]. cbn [chain_from] in Hc. destruct Hc as [_ [Hse [_ Hr]]].
      destruct (pstep_shape e a b v prev Hab Hse Hge Hna Hp) as [_ Hel]. cbn zeta in Hel.
      set (o := pstep repaired tt e a b v prev) in *.
      assert (Hst : so_st o = tt) by (destruct (so_st o); reflexivity). rewrite Hst in Hl.
      fold ploop in Hl.
      destruct (ploop repaired tt r a b v (Some (so_cur o))) as [[[[r' pd] pv] st'] hz'] eqn:Hrec.
      destruct st'. injection Hl as <- <- <- _.
      rewrite in_app_iff. rewrite <- Hel. rewrite (IH _ _ _ _ _ _ Hr Hpre' Hrec x).
      cbn [In]. rewrite in_app_iff. tauto.
Qed.

Lemma xloop_done a b v es prev lo :
  b < next_a a prev -> next_a a prev <= lo -> chain_from lo es -> xloop es a b v prev = es.
Proof.
  intros Hb Hlo Hc. destruct es as [|e r]; cbn [xloop]; unfold trailing.
  - destruct (Z.leb_spec (next_a a prev) b); [lia|reflexivity].
  - cbn [chain_from] in Hc. destruct Hc as [H1 _].
    destruct (Z.ltb_spec b (eS e)); [|lia]. destruct (Z.leb_spec (next_a a prev) b); [lia|reflexivity].
Qed.

Definition extra (a b : Z) (v : nat) (prev : option PE) (q : Z) : list nat :=
  if (next_a a prev <=? q) && (q <=? b) then [v] else [].

(* the sorted result is again a chain, and every point sees its old values plus v when it lies in
   the part of [a,b] that is still to be covered *)
Lemma xloop_spec a b v : a <= b -> forall es prev lo,
  chain_from lo es -> lo <= next_a a prev -> pre es a prev ->
  chain_from lo (xloop es a b v prev)
  /\ forall q, lk (xloop es a b v prev) q = lk es q ++ extra a b v prev q.
Proof.
  intros Hab. induction es as [|e r IH]; intros prev lo Hc Hlo Hpre.
  - cbn [xloop]. unfold trailing, extra. destruct Hpre as [Hn _].
    destruct (Z.leb_spec (next_a a prev) b) as [Hle|Hgt].
    + split.
      * cbn [chain_from eS eE eV]. repeat split; try lia. discriminate.
      * intros q. rewrite lk_cons. cbn [eS eE eV]. unfold lk. cbn [seek_split snd app]. zcmp; try lia; reflexivity.
    + split; [exact I|]. intros q. unfold lk. cbn [seek_split snd app]. zcmp; try lia; reflexivity.
  - cbn [xloop]. destruct (Z.ltb_spec b (eS e)) as [Hlt|Hge].
    + (* the loop stops in front of e *)
      unfold trailing, extra. destruct Hpre as [Hn [Hna Hp]].
      cbn [chain_from] in Hc. destruct Hc as [Hlo' [Hse [Hv Hr]]].
      destruct (Z.leb_spec (next_a a prev) b) as [Hle|Hgt]; cbn [app].
      * split.
        -- cbn [chain_from eS eE eV]. repeat split; try lia; try assumption. discriminate.
        -- intros q. rewrite !lk_cons. cbn [eS eE eV]. zcmp; try lia; try reflexivity; rewrite ?app_nil_r; reflexivity.
      * split; [cbn [chain_from]; repeat split; assumption|].
        intros q. rewrite !lk_cons. zcmp; try lia; rewrite ?app_nil_r; reflexivity.
    + (* e intersects [a,b] *)
      assert (Hc' : chain_from (eS e) (e :: r)).
      { cbn [chain_from] in *. destruct Hc as [_ Hc]. split; [lia|exact Hc]. }
      destruct (pre_next e r a b v prev Hab Hc' Hge Hpre) as [Hpre' Hna'].
      destruct Hpre as [Hn [Hna Hp]]. cbn [chain_from] in Hc. destruct Hc as [Hlo' [Hse [Hv Hr]]].
      set (prev' := Some (so_cur (pstep repaired tt e a b v prev))) in *.
      assert (Hp2 : eS e < next_a a prev -> prev = None).
      { intros Hs. destruct prev as [p|]; [|reflexivity]. unfold prev_ok, next_a in *. lia. }
      assert (Hnb : next_a a prev <= b).
      { destruct prev as [p|]; unfold prev_ok, next_a in *; lia. }
      destruct (Z.ltb_spec b (eE e)) as [Hbe|Hbe].
      * (* split at end: nothing after e intersects *)
        rewrite (xloop_done a b v r prev' (eE e + 1)); [|lia|lia|exact Hr].
        unfold pieces, extra. split.
        -- zcmp; try lia; cbn [chain_from eS eE eV app]; zminmax; repeat split; try lia; try assumption;
             try discriminate; try (intros Habs; apply app_eq_nil in Habs; destruct Habs; discriminate).
        -- intros q. zcmp; try lia; cbn [app]; rewrite !lk_cons; cbn [eS eE eV]; zminmax; zcmp; try lia;
             rewrite ?app_nil_r; try reflexivity.
      * (* e ends inside [a,b]: continue behind it *)
        destruct (IH prev' (eE e + 1) Hr ltac:(lia) Hpre') as [IHc IHl].
        unfold pieces, extra. split.
        -- zcmp; try lia; cbn [chain_from eS eE eV app]; zminmax; repeat split; try lia; try assumption;
             try discriminate; try (intros Habs; apply app_eq_nil in Habs; destruct Habs; discriminate).
        -- intros q. unfold extra in IHl. rewrite Hna' in IHl.
           zcmp; try lia; cbn [app]; rewrite !lk_cons; cbn [eS eE eV]; zminmax; rewrite ?IHl; zcmp; try lia;
             rewrite ?app_nil_r; try reflexivity.
Qed.

(* ------------------------------------------------------------------ the invariant of the repaired Insert *)
Definition Inv (t : list PE) (ops : list (Z * Z * nat)) : Prop :=
  (exists lo, chain_from lo t) /\ (forall q, lk t q = naive ops q) /\ Forall valid_op ops.

Lemma naive_app ops1 ops2 q : naive (ops1 ++ ops2) q = naive ops1 q ++ naive ops2 q.
Proof. unfold naive. apply flat_map_app. Qed.

Lemma chain_ksorted lo t : chain_from lo t -> ksorted t /\ Forall (fun x => lo <= eE x) t.
Proof.
  revert lo. induction t as [|e r IH]; intros lo Hc; [split; constructor|].
  cbn [chain_from] in Hc. destruct Hc as [H1 [H2 [_ Hr]]]. destruct (IH _ Hr) as [Hs Hall].
  split.
  - constructor; [exact Hs|]. rewrite Forall_forall in *. intros x Hx. specialize (Hall x Hx). lia.
  - constructor; [lia|]. rewrite Forall_forall in *. intros x Hx. specialize (Hall x Hx). lia.
Qed.

Lemma ksorted_keys {V} (l1 l2 : list (entry V)) : map eE l1 = map eE l2 -> ksorted l1 -> ksorted l2.
Proof.
  unfold ksorted. revert l2. induction l1 as [|a r IH]; intros l2 Hm Hs; destruct l2 as [|b r2]; try discriminate; [constructor|].
  cbn [map] in Hm. injection Hm as Hk Hm. inversion Hs as [|? ? Hr Hall]; subst.
  constructor; [apply IH; assumption|].
  rewrite Forall_forall in *. intros y Hy.
  assert (Hin : In (eE y) (map eE r)) by (rewrite Hm; apply in_map; exact Hy).
  apply in_map_iff in Hin. destruct Hin as [z [Hz1 Hz2]]. specialize (Hall z Hz2). lia.
Qed.

Lemma chain_split l1 : forall lo l2 k, lo <= k -> chain_from lo (l1 ++ l2) -> Forall (fun x : PE => eE x < k) l1 ->
  exists lo2, lo2 <= k /\ chain_from lo2 l2 /\ forall X, chain_from lo2 X -> chain_from lo (l1 ++ X).
Proof.
  induction l1 as [|e r IH]; intros lo l2 k Hlo Hc Hall.
  - exists lo. cbn [app] in *. split; [exact Hlo|]. split; [exact Hc|]. intros X HX. exact HX.
  - cbn [app chain_from] in Hc. destruct Hc as [H1 [H2 [H3 Hr]]]. inversion Hall as [|? ? He Hall']; subst.
    destruct (IH (eE e + 1) l2 k ltac:(lia) Hr Hall') as [lo2 [Hl [Hc2 Hx]]].
    exists lo2. split; [exact Hl|]. split; [exact Hc2|]. intros X HX. cbn [app chain_from].
    split; [exact H1|]. split; [exact H2|]. split; [exact H3|]. apply Hx, HX.
Qed.

Lemma lk_ctx (l1 l2 X : list PE) (f : Z -> list nat) k :
  Forall (fun x => eE x < k) l1 -> (forall q, lk X q = lk l2 q ++ f q) -> (forall q, q < k -> f q = []) ->
  forall q, lk (l1 ++ X) q = lk (l1 ++ l2) q ++ f q.
Proof.
  intros Hall HX Hf q. induction l1 as [|e r IH]; cbn [app]; [apply HX|].
  inversion Hall as [|? ? He Hall']; subst. rewrite !lk_cons.
  destruct (Z.ltb_spec (eE e) q) as [Hlt|Hge]; [apply IH, Hall'|].
  rewrite (Hf q) by lia. rewrite app_nil_r. reflexivity.
Qed.

Lemma lk_skip (l1 l2 : list PE) k q : Forall (fun x => eE x < k) l1 -> k <= q -> lk (l1 ++ l2) q = lk l2 q.
Proof.
  intros Hall Hq. induction l1 as [|e r IH]; cbn [app]; [reflexivity|].
  inversion Hall as [|? ? He Hall']; subst. rewrite lk_cons. destruct (Z.ltb_spec (eE e) q); [apply IH, Hall'|lia].
Qed.


Lemma naive_cons a' b' v' r q :
  naive ((a', b', v') :: r) q = (if (a' <=? q) && (q <=? b') then [v'] else []) ++ naive r q.
Proof. reflexivity. Qed.

Lemma naive_disjoint ops a b : a <= b -> Forall valid_op ops ->
  ((forall q, a <= q <= b -> naive ops q = []) <-> forallb (disjoint_b a b) ops = true).
Proof.
  intros Hab Hv. induction ops as [|[[a' b'] v'] r IH].
  - cbn. split; [reflexivity|intros; reflexivity].
  - inversion Hv as [|? ? Hop Hv']; subst. cbn [valid_op] in Hop. specialize (IH Hv').
    cbn [forallb disjoint_b]. rewrite andb_true_iff. rewrite <- IH. split.
    + intros H. split.
      * destruct (Z.ltb_spec b' a) as [H1|H1]; [reflexivity|]. destruct (Z.ltb_spec b a') as [H2|H2]; [reflexivity|].
        exfalso. specialize (H (Z.max a a') ltac:(lia)). rewrite naive_cons in H.
        destruct (Z.leb_spec a' (Z.max a a')); [|lia]. destruct (Z.leb_spec (Z.max a a') b'); [|lia].
        cbn [andb app] in H. discriminate.
      * intros q Hq. specialize (H q Hq). rewrite naive_cons in H. apply app_eq_nil in H. apply H.
    + intros [H1 H2] q Hq. rewrite naive_cons, (H2 q Hq), app_nil_r.
      apply orb_true_iff in H1. destruct (Z.leb_spec a' q); [|reflexivity]. destruct (Z.leb_spec q b'); [|reflexivity].
      destruct H1 as [H1|H1]; apply Z.ltb_lt in H1; lia.
Qed.

Lemma rest_flag lo2 before rest a b :
  a <= b -> Forall (fun x : PE => eE x < a) before -> chain_from lo2 rest ->
  match rest with [] => True | e :: _ => a <= eE e end ->
  (match rest with [] => True | e :: _ => b < eS e end <-> forall q, a <= q <= b -> lk (before ++ rest) q = []).
Proof.
  intros Hab Hbef Hc Hhd. split.
  - intros H q Hq. rewrite (lk_skip before rest a q Hbef) by lia.
    destruct rest as [|e r]; [reflexivity|]. rewrite lk_cons. cbn [chain_from] in Hc.
    destruct (Z.ltb_spec (eE e) q); [lia|]. destruct (Z.ltb_spec q (eS e)); [reflexivity|lia].
  - intros H. destruct rest as [|e r]; [exact I|]. cbn [chain_from] in Hc. destruct Hc as [_ [Hse [Hv _]]].
    destruct (Z.ltb_spec b (eS e)) as [|Hge]; [assumption|]. exfalso.
    specialize (H (Z.max a (eS e)) ltac:(lia)). rewrite (lk_skip before (e :: r) a) in H by (try assumption; lia).
    rewrite lk_cons in H. destruct (Z.ltb_spec (eE e) (Z.max a (eS e))); [lia|].
    destruct (Z.ltb_spec (Z.max a (eS e)) (eS e)); [lia|]. contradiction.
Qed.

(* one Insert of the repaired code *)
Lemma pinsert_repaired t ops a b v :
  Inv t ops -> a <= b ->
  exists t' hz, pinsert repaired t tt a b v = IOk t' tt (forallb (disjoint_b a b) ops) hz
                /\ Inv t' (ops ++ [(a, b, v)]).
Proof.
  intros [[lo Hc] [Hlk Hval]] Hab. unfold pinsert, iinsert.
  destruct (Z.ltb_spec b a) as [|_]; [lia|].
  pose proof (seek_split_app t a) as Happ. pose proof (seek_split_before t a) as Hbef.
  pose proof (seek_split_head t a) as Hhead.
  destruct (seek_split t a) as [before rest]. cbn [fst snd] in *.
  assert (Hc0 : chain_from (Z.min lo a) (before ++ rest)).
  { rewrite Happ. eapply chain_from_weaken; [|exact Hc]. lia. }
  destruct (chain_split before (Z.min lo a) rest a ltac:(lia) Hc0 Hbef) as [lo2 [Hlo2 [Hc2 Hctx]]].
  assert (Hhd : match rest with [] => True | e :: _ => a <= eE e end).
  { destruct rest as [|e r]; [exact I|]. eapply Hhead. reflexivity. }
  assert (Hpre : pre rest a None).
  { split; [cbn [next_a]; lia|]. destruct rest as [|e r]; [exact I|]. split; [exact Hhd|exact I]. }
  destruct (xloop_spec a b v Hab rest None lo2 Hc2 Hlo2 Hpre) as [HcX HlkX].
  fold (ploop repaired tt rest a b v None).
  destruct (ploop repaired tt rest a b v None) as [[[[rest' pend] prev] st'] hz] eqn:Hloop. destruct st'.
  pose proof (xloop_elems a b v Hab rest None lo2 rest' pend prev hz Hc2 Hpre Hloop) as Hel.
  pose proof Hloop as Hkeys. unfold ploop in Hkeys. apply iloop_keys in Hkeys.
  pose proof Hloop as Hnone. unfold ploop in Hnone. apply iloop_prev_none in Hnone.
  set (L := before ++ xloop rest a b v None).
  assert (HL : chain_from (Z.min lo a) L) by (apply Hctx, HcX).
  assert (Hbase : ksorted (before ++ rest')).
  { apply (ksorted_keys (before ++ rest)); [rewrite !map_app, Hkeys; reflexivity|].
    rewrite Happ. eapply chain_ksorted. exact Hc. }
  assert (Hfold : fold_left tset (pend ++ trailing a b v prev) (before ++ rest') = L).
  { apply fold_tset_eq; [exact Hbase|apply (chain_ksorted _ _ HL)|].
    intros x. unfold L. rewrite !in_app_iff. rewrite Hel. tauto. }
  assert (HInv : Inv L (ops ++ [(a, b, v)])).
  { split; [exists (Z.min lo a); exact HL|]. split.
    - intros q. unfold L.
      rewrite (lk_ctx before rest (xloop rest a b v None) (extra a b v None) a Hbef HlkX).
      + rewrite Happ, Hlk, naive_app. unfold extra, naive. cbn [flat_map next_a]. rewrite app_nil_r. reflexivity.
      + intros q' Hq'. unfold extra. cbn [next_a]. destruct (Z.leb_spec a q'); [lia|reflexivity].
    - apply Forall_app. split; [exact Hval|]. constructor; [exact Hab|constructor]. }
  assert (Hflag : prev = None <-> forallb (disjoint_b a b) ops = true).
  { rewrite Hnone. rewrite (rest_flag lo2 before rest a b Hab Hbef Hc2 Hhd). rewrite Happ.
    rewrite <- (naive_disjoint ops a b Hab Hval). split; intros H q Hq; [rewrite <- Hlk|rewrite Hlk]; apply H, Hq. }
  destruct prev as [p|].
  - assert (Hd : forallb (disjoint_b a b) ops = false).
    { destruct (forallb (disjoint_b a b) ops); [|reflexivity]. destruct Hflag as [_ Hf]. discriminate (Hf eq_refl). }
    rewrite Hd. unfold trailing in Hfold. cbn [next_a] in Hfold. cbn [pmk1].
    destruct (Z.ltb_spec (eE p) b); destruct (Z.leb_spec (eE p + 1) b); try lia.
    + rewrite Hfold. exists L, hz. split; [reflexivity|exact HInv].
    + rewrite app_nil_r in Hfold. rewrite Hfold. exists L, hz. split; [reflexivity|exact HInv].
  - rewrite (proj1 Hflag eq_refl). unfold trailing in Hfold. cbn [next_a] in Hfold. cbn [pmk1].
    destruct (Z.leb_spec a b); [|lia]. rewrite fold_left_app in Hfold. cbn [fold_left] in Hfold.
    rewrite Hfold. exists L, hz. split; [reflexivity|exact HInv].
Qed.

(* ------------------------------------------------------------------ Heap: the Go slices *)
Definition swf (h : heap) (s : slice) : Prop :=
  (sarr s < length h)%nat /\ (slen s <= length (nth (sarr s) h []))%nat.
Definition hext (h h' : heap) : Prop := exists x, h' = h ++ x.
(* h' extends h, s is a well-formed slice of h' and reads l *)
Definition alloc (h h' : heap) (s : slice) (l : list nat) : Prop := hext h h' /\ swf h' s /\ sread h' s = l.

Lemma hext_refl h : hext h h. Proof. exists []. symmetry. apply app_nil_r. Qed.
Lemma hext_trans h1 h2 h3 : hext h1 h2 -> hext h2 h3 -> hext h1 h3.
Proof. intros [x ->] [y ->]. exists (x ++ y). symmetry. apply app_assoc. Qed.

Lemma swf_ext h h' s : hext h h' -> swf h s -> swf h' s /\ sread h' s = sread h s.
Proof.
  intros [x ->] [H1 H2]. unfold swf, sread. rewrite app_length, app_nth1 by exact H1.
  split; [split; [lia|exact H2]|reflexivity].
Qed.

Lemma hsingle_ok h v h' s : hsingle h v = (h', s) -> alloc h h' s [v].
Proof.
  unfold hsingle. intros H. injection H as <- <-. unfold alloc, swf, sread. cbn [sarr slen].
  rewrite app_length, app_nth2, Nat.sub_diag by lia. cbn [length nth firstn].
  split; [exists [[v]]; reflexivity|]. split; [split; lia|reflexivity].
Qed.

Lemma happend_ok clip h s v h' s' :
  swf h s -> clip = true \/ hspare s = false -> happend clip h s v = (h', s') -> alloc h h' s' (sread h s ++ [v]).
Proof.
  intros [H1 H2] Hsafe. unfold happend.
  assert (Hno : Nat.ltb (slen s) (if clip then slen s else scap s) = false).
  { destruct Hsafe as [->|Hs]; [apply Nat.ltb_irrefl|]. destruct clip; [apply Nat.ltb_irrefl|exact Hs]. }
  rewrite Hno. intros H. injection H as <- <-. unfold alloc, swf, sread. cbn [sarr slen].
  rewrite app_length, app_nth2, Nat.sub_diag by lia. cbn [length nth].
  assert (Hlen : length (firstn (slen s) (nth (sarr s) h [])) = slen s) by (apply firstn_length_le; exact H2).
  split; [eexists; reflexivity|]. split.
  - split; [lia|]. rewrite app_length. cbn [length]. fold (sread h s). unfold sread. rewrite Hlen. lia.
  - replace (S (slen s)) with (length (firstn (slen s) (nth (sarr s) h []) ++ [v])) by (rewrite app_length, Hlen; cbn; lia).
    change (v :: repeat 0%nat ?n) with ([v] ++ repeat 0%nat n).
    rewrite app_assoc. rewrite firstn_app, firstn_all, Nat.sub_diag. cbn [firstn]. rewrite app_nil_r. reflexivity.
Qed.


Definition absE (h : heap) (e : entry slice) : PE := mkE (eS e) (eE e) (sread h (eV e)).
Definition wfE (h : heap) (e : entry slice) : Prop := swf h (eV e).
Definition gstep := istep heap slice hsingle happend hspare.
Definition gloop := iloop heap slice hsingle happend hspare.

Lemma absE_ext h h' e : hext h h' -> wfE h e -> wfE h' e /\ absE h' e = absE h e.
Proof.
  intros Hx Hw. destruct (swf_ext h h' (eV e) Hx Hw) as [H1 H2]. split; [exact H1|].
  unfold absE. rewrite H2. reflexivity.
Qed.

Ltac push_ext :=
  repeat match goal with
         | X : hext ?h1 ?h2, W : swf ?h1 ?s |- _ =>
           lazymatch goal with
           | _ : swf h2 s |- _ => fail
           | _ => destruct (swf_ext h1 h2 s X W) as [? ?]
           end
         end.

Ltac alloc_single :=
  match goal with
  | |- context [hsingle ?h ?v] =>
    let h' := fresh "hs" in let s := fresh "ss" in let E := fresh "Es" in
    destruct (hsingle h v) as [h' s] eqn:E; apply hsingle_ok in E; destruct E as [? [? ?]]
  end.

Ltac alloc_app Hsafe :=
  match goal with
  | |- context [happend ?c ?h ?s ?v] =>
    let h' := fresh "ha" in let s' := fresh "sa" in let E := fresh "Ea" in
    destruct (happend c h s v) as [h' s'] eqn:E;
    apply happend_ok in E; [destruct E as [? [? ?]]|push_ext; assumption|first [left; reflexivity|exact Hsafe]]
  end.

Ltac sread_rw := repeat match goal with H : sread ?h ?s = _ |- context [sread ?h ?s] => rewrite H end.
Ltac hext_solve := repeat (first [eassumption | apply hext_refl | eapply hext_trans; [eassumption|]]).

Lemma gstep_sim c h e a b v prev :
  wfE h e -> fix_clip c = true \/ hspare (eV e) = false ->
  let o := gstep c h e a b v prev in
  let po := pstep c tt (absE h e) a b v (option_map (absE h) prev) in
  hext h (so_st o) /\ wfE (so_st o) (so_tree o) /\ Forall (wfE (so_st o)) (so_pend o) /\ wfE (so_st o) (so_cur o)
  /\ absE (so_st o) (so_tree o) = so_tree po /\ map (absE (so_st o)) (so_pend o) = so_pend po
  /\ absE (so_st o) (so_cur o) = so_cur po
  /\ so_hz o = hspare (eV e) || so_hz po.
Proof.
  intros Hw Hsafe. unfold gstep, pstep. rewrite !istep_nf.
  unfold pmk1, papp, pspare, wfE in *.
  change (c_se (absE h e) b) with (c_se e b). change (c_ss (absE h e) a b) with (c_ss e a b).
  change (c_curS (absE h e) a b) with (c_curS e a b). change (c_curE (absE h e) b) with (c_curE e b).
  change (eS (absE h e)) with (eS e). change (eE (absE h e)) with (eE e).
  change (eV (absE h e)) with (sread h (eV e)).
  destruct prev as [p|]; cbn [option_map].
  - change (c_gap c (absE h e) a b (Some (absE h p))) with (c_gap c e a b (Some p)).
    destruct (c_se e b); destruct (c_ss e a b); destruct (c_gap c e a b (Some p));
      repeat (first [alloc_single | alloc_app Hsafe]); push_ext;
      cbn [so_st so_tree so_pend so_cur so_hz app map eS eE eV absE orb];
      (split; [hext_solve|]); unfold absE; cbn [eS eE eV]; sread_rw;
      repeat match goal with |- _ /\ _ => split end; try assumption; try reflexivity;
      repeat (first [apply Forall_nil | apply Forall_cons; [cbn [eV]; assumption|]]).
  - destruct (a <? eS e); destruct (c_se e b); destruct (c_ss e a b);
      repeat (first [alloc_single | alloc_app Hsafe]); push_ext;
      cbn [so_st so_tree so_pend so_cur so_hz app map eS eE eV absE orb c_gap];
      (split; [hext_solve|]); unfold absE; cbn [eS eE eV]; sread_rw;
      repeat match goal with |- _ /\ _ => split end; try assumption; try reflexivity;
      repeat (first [apply Forall_nil | apply Forall_cons; [cbn [eV]; assumption|]]).
Qed.

Lemma map_absE_ext h h' l : hext h h' -> Forall (wfE h) l -> Forall (wfE h') l /\ map (absE h') l = map (absE h) l.
Proof.
  intros Hx Hall. induction Hall as [|e r He Hr IH]; [split; [constructor|reflexivity]|].
  destruct IH as [IH1 IH2]. destruct (absE_ext h h' e Hx He) as [H1 H2].
  split; [constructor; assumption|]. cbn [map]. rewrite H2, IH2. reflexivity.
Qed.

Definition wfO (h : heap) (o : option (entry slice)) : Prop := match o with Some p => wfE h p | None => True end.

Lemma optmap_absE_ext h h' o : hext h h' -> wfO h o -> wfO h' o /\ option_map (absE h') o = option_map (absE h) o.
Proof.
  intros Hx Hw. destruct o as [p|]; [|split; [exact I|reflexivity]].
  destruct (absE_ext h h' p Hx Hw) as [H1 H2]. split; [exact H1|]. cbn [option_map]. rewrite H2. reflexivity.
Qed.

Lemma gloop_sim c a b v : forall es h prev r' pd pv h' hz,
  Forall (wfE h) es -> wfO h prev ->
  gloop c h es a b v prev = (r', pd, pv, h', hz) ->
  fix_clip c = true \/ hz = false ->
  exists phz,
    ploop c tt (map (absE h) es) a b v (option_map (absE h) prev)
    = (map (absE h') r', map (absE h') pd, option_map (absE h') pv, tt, phz)
    /\ hext h h' /\ Forall (wfE h') r' /\ Forall (wfE h') pd /\ wfO h' pv /\ (hz = false -> phz = false).
Proof.
  induction es as [|e r IH]; intros h prev r' pd pv h' hz Hall Hprev Hl Hsafe.
  - unfold gloop in Hl. cbn [iloop] in Hl. injection Hl as <- <- <- <- <-.
    exists false. cbn [map ploop iloop]. repeat split; try constructor; try assumption; try apply hext_refl.
  - unfold gloop in Hl. cbn [iloop] in Hl. unfold ploop. cbn [map iloop].
    change (eS (absE h e)) with (eS e).
    inversion Hall as [|? ? He Hr]; subst.
    destruct (b <? eS e).
    + injection Hl as <- <- <- <- <-. exists false. cbn [map].
      repeat split; try constructor; try assumption; try apply hext_refl.
    + fold (gstep c h e a b v prev) in Hl. fold (pstep c tt (absE h e) a b v (option_map (absE h) prev)).
      fold gloop in Hl. fold ploop.
      set (o := gstep c h e a b v prev) in *.
      set (po := pstep c tt (absE h e) a b v (option_map (absE h) prev)).
      destruct (gloop c (so_st o) r a b v (Some (so_cur o))) as [[[[r2 pd2] pv2] h2] hz2] eqn:Hrec.
      injection Hl as <- <- <- <- <-.
      assert (Hsafe1 : fix_clip c = true \/ hspare (eV e) = false).
      { destruct Hsafe as [Hs|Hs]; [left; exact Hs|right]. apply orb_false_iff in Hs. destruct Hs as [Hs _].
        unfold o, gstep in Hs. rewrite istep_hz in Hs. apply orb_false_iff in Hs. apply Hs. }
      assert (Hsafe2 : fix_clip c = true \/ hz2 = false).
      { destruct Hsafe as [Hs|Hs]; [left; exact Hs|right]. apply orb_false_iff in Hs. apply Hs. }
      destruct (gstep_sim c h e a b v prev He Hsafe1) as [X1 [Wt [Wp [Wc [At [Ap [Ac Ahz]]]]]]].
      fold o in X1, Wt, Wp, Wc, At, Ap, Ac, Ahz. fold po in At, Ap, Ac, Ahz.
      destruct (map_absE_ext h (so_st o) r X1 Hr) as [Hr1 Hm1].
      destruct (IH (so_st o) (Some (so_cur o)) r2 pd2 pv2 h2 hz2 Hr1 Wc Hrec Hsafe2)
        as [phz [Hp [X2 [Wr2 [Wpd2 [Wpv2 Hhz2]]]]]].
      assert (Hst : so_st po = tt) by (destruct (so_st po); reflexivity). rewrite Hst.
      cbn [option_map] in Hp. rewrite Hm1, Ac in Hp. rewrite Hp.
      destruct (absE_ext (so_st o) h2 (so_tree o) X2 Wt) as [Wt2 At2].
      destruct (map_absE_ext (so_st o) h2 (so_pend o) X2 Wp) as [Wp2 Ap2].
      exists (so_hz po || phz). split; [|split; [|split; [|split; [|split]]]].
      * cbn [map]. rewrite map_app, At2, Ap2, At, Ap. reflexivity.
      * eapply hext_trans; eassumption.
      * constructor; assumption.
      * apply Forall_app. split; assumption.
      * exact Wpv2.
      * intros Hz. apply orb_false_iff in Hz. destruct Hz as [Hz1 Hz2]. rewrite (Hhz2 Hz2).
        rewrite Ahz in Hz1. apply orb_false_iff in Hz1. destruct Hz1 as [_ Hz1]. rewrite Hz1. reflexivity.
Qed.

Lemma seek_split_map {V W} (f : entry V -> entry W) (Hf : forall e, eE (f e) = eE e) t k :
  seek_split (map f t) k = (map f (fst (seek_split t k)), map f (snd (seek_split t k))).
Proof.
  induction t as [|x r IH]; cbn [map seek_split]; [reflexivity|]. rewrite Hf.
  destruct (eE x <? k); [|reflexivity]. rewrite IH. destruct (seek_split r k) as [b0 a0]. reflexivity.
Qed.

Lemma tset_map {V W} (f : entry V -> entry W) (Hf : forall e, eE (f e) = eE e) t e :
  tset (map f t) (f e) = map f (tset t e).
Proof.
  induction t as [|x r IH]; cbn [map tset]; [reflexivity|]. rewrite !Hf.
  destruct (eE e <? eE x); [reflexivity|]. destruct (eE e =? eE x); [reflexivity|]. rewrite IH. reflexivity.
Qed.

Lemma fold_tset_map {V W} (f : entry V -> entry W) (Hf : forall e, eE (f e) = eE e) pend : forall t,
  fold_left tset (map f pend) (map f t) = map f (fold_left tset pend t).
Proof.
  induction pend as [|e r IH]; intros t; cbn [map fold_left]; [reflexivity|]. rewrite tset_map by exact Hf. apply IH.
Qed.

Lemma tset_Forall {V} (P : entry V -> Prop) t e : Forall P t -> P e -> Forall P (tset t e).
Proof.
  intros Ht He. rewrite Forall_forall in *. intros x Hx. apply tset_In_1 in Hx. destruct Hx as [->|Hx]; [exact He|apply Ht, Hx].
Qed.

Lemma fold_tset_Forall {V} (P : entry V -> Prop) pend : forall t, Forall P t -> Forall P pend -> Forall P (fold_left tset pend t).
Proof.
  induction pend as [|e r IH]; intros t Ht Hp; cbn [fold_left]; [exact Ht|].
  inversion Hp; subst. apply IH; [apply tset_Forall; assumption|assumption].
Qed.

Lemma absE_key h e : eE (absE h e) = eE e. Proof. reflexivity. Qed.

Lemma ginsert_sim c t h a b v t' h' d hz :
  Forall (wfE h) t -> go_insert c t h a b v = IOk t' h' d hz -> fix_clip c = true \/ hz = false ->
  exists phz, pinsert c (map (absE h) t) tt a b v = IOk (map (absE h') t') tt d phz
              /\ hext h h' /\ Forall (wfE h') t' /\ (hz = false -> phz = false).
Proof.
  intros Hall Hins Hsafe. unfold go_insert, iinsert in Hins. unfold pinsert, iinsert.
  destruct (b <? a); [discriminate|].
  rewrite (seek_split_map (absE h) (absE_key h)).
  pose proof (seek_split_app t a) as Happ.
  destruct (seek_split t a) as [bef rest]. cbn [fst snd] in *.
  assert (Hbr : Forall (wfE h) bef /\ Forall (wfE h) rest) by (apply Forall_app; rewrite Happ; exact Hall).
  destruct Hbr as [Hbef Hrest].
  fold (gloop c h rest a b v None) in Hins. fold (ploop c tt (map (absE h) rest) a b v None).
  destruct (gloop c h rest a b v None) as [[[[r' pd] pv] h1] hz1] eqn:Hl.
  assert (Hz1 : hz = hz1).
  { destruct pv as [p|]; [destruct (eE p <? b); [destruct (hsingle h1 v)|]|destruct (hsingle h1 v)]; injection Hins; intros; congruence. }
  subst hz1.
  destruct (gloop_sim c a b v rest h None r' pd pv h1 hz Hrest I Hl Hsafe) as [phz [Hp [X1 [Wr [Wpd [Wpv Hhz]]]]]].
  cbn [option_map] in Hp. rewrite Hp.
  destruct (map_absE_ext h h1 bef X1 Hbef) as [Wbef Abef].
  destruct pv as [p|]; cbn [option_map].
  - change (eE (absE h1 p)) with (eE p). unfold pmk1.
    destruct (eE p <? b).
    + destruct (hsingle h1 v) as [h2 s] eqn:Es. apply hsingle_ok in Es. destruct Es as [X2 [Ws Rs]].
      injection Hins as <- <- <-.
      destruct (map_absE_ext h1 h2 bef X2 Wbef) as [Wbef2 Abef2].
      destruct (map_absE_ext h1 h2 r' X2 Wr) as [Wr2 Ar2].
      destruct (map_absE_ext h1 h2 pd X2 Wpd) as [Wpd2 Apd2].
      exists phz. split; [|split; [eapply hext_trans; eassumption|split; [|exact Hhz]]].
      * rewrite <- Abef, <- Abef2, <- Ar2, <- Apd2.
        replace (map (absE h2) pd ++ [{| eS := eE p + 1; eE := b; eV := [v] |}])
          with (map (absE h2) (pd ++ [mkE (eE p + 1) b s])) by (rewrite map_app; cbn [map]; unfold absE at 2; cbn [eS eE eV]; rewrite Rs; reflexivity).
        rewrite <- map_app. rewrite (fold_tset_map (absE h2) (absE_key h2)). reflexivity.
      * apply fold_tset_Forall; [apply Forall_app; split; assumption|].
        apply Forall_app. split; [assumption|]. constructor; [exact Ws|constructor].
    + injection Hins as <- <- <-.
      exists phz. split; [|split; [exact X1|split; [|exact Hhz]]].
      * rewrite <- Abef. rewrite <- map_app. rewrite (fold_tset_map (absE h1) (absE_key h1)). reflexivity.
      * apply fold_tset_Forall; [apply Forall_app; split; assumption|assumption].
  - unfold pmk1. destruct (hsingle h1 v) as [h2 s] eqn:Es. apply hsingle_ok in Es. destruct Es as [X2 [Ws Rs]].
    injection Hins as <- <- <-.
    destruct (map_absE_ext h1 h2 bef X2 Wbef) as [Wbef2 Abef2].
    destruct (map_absE_ext h1 h2 r' X2 Wr) as [Wr2 Ar2].
    destruct (map_absE_ext h1 h2 pd X2 Wpd) as [Wpd2 Apd2].
    exists phz. split; [|split; [eapply hext_trans; eassumption|split; [|exact Hhz]]].
    * rewrite <- Abef, <- Abef2, <- Ar2, <- Apd2. rewrite <- map_app.
      rewrite (fold_tset_map (absE h2) (absE_key h2)).
      replace {| eS := a; eE := b; eV := [v] |} with (absE h2 (mkE a b s)) by (unfold absE; cbn [eS eE eV]; rewrite Rs; reflexivity).
      rewrite (tset_map (absE h2) (absE_key h2)). reflexivity.
    * apply tset_Forall; [|exact Ws]. apply fold_tset_Forall; [apply Forall_app; split; assumption|assumption].
Qed.

(* ------------------------------------------------------------------ Guard: when the code as it is takes the repaired steps *)
Lemma pstep_guard c e a b v prev :
  fix_gap c = true \/ so_hz (pstep c tt e a b v prev) = false ->
  pstep c tt e a b v prev = pstep repaired tt e a b v prev.
Proof.
  intros Hg. unfold pstep in *. rewrite istep_hz in Hg. rewrite !istep_nf. unfold papp, pmk1, pspare in *.
  cbn [orb] in Hg.
  assert (Hgap : c_gap c e a b prev = c_gap repaired e a b prev).
  { unfold c_gap. destruct prev as [p|]; [|reflexivity]. cbn [repaired fix_gap].
    destruct (fix_gap c); [reflexivity|]. destruct Hg as [Hg|Hg]; [discriminate|].
    apply Z.eqb_neq in Hg. destruct (Z.ltb_spec (eE p) (c_curS e a b)); destruct (Z.ltb_spec (eE p + 1) (c_curS e a b)); try reflexivity; lia. }
  rewrite Hgap. reflexivity.
Qed.

Lemma ploop_guard c a b v : forall es prev r' pd pv hz,
  ploop c tt es a b v prev = (r', pd, pv, tt, hz) -> fix_gap c = true \/ hz = false ->
  exists hz', ploop repaired tt es a b v prev = (r', pd, pv, tt, hz').
Proof.
  induction es as [|e r IH]; intros prev r' pd pv hz Hl Hg; unfold ploop in *; cbn [iloop] in *.
  - injection Hl as <- <- <- <-. exists false. reflexivity.
  - destruct (b <? eS e).
    + injection Hl as <- <- <- <-. exists false. reflexivity.
    + fold (pstep c tt e a b v prev) in Hl. fold (pstep repaired tt e a b v prev). fold ploop in *.
      assert (Hst : forall o : istep_out unit (list nat), so_st o = tt) by (intros o; destruct (so_st o); reflexivity).
      rewrite Hst in *.
      destruct (ploop c tt r a b v (Some (so_cur (pstep c tt e a b v prev)))) as [[[[r2 pd2] pv2] st2] hz2] eqn:Hrec.
      destruct st2. injection Hl as <- <- <- <-.
      assert (Hg1 : fix_gap c = true \/ so_hz (pstep c tt e a b v prev) = false).
      { destruct Hg as [Hg|Hg]; [left; exact Hg|right]. apply orb_false_iff in Hg. apply Hg. }
      assert (Hg2 : fix_gap c = true \/ hz2 = false).
      { destruct Hg as [Hg|Hg]; [left; exact Hg|right]. apply orb_false_iff in Hg. apply Hg. }
      rewrite <- (pstep_guard c e a b v prev Hg1). rewrite ?Hst.
      destruct (IH _ _ _ _ _ Hrec Hg2) as [hz' Hr']. rewrite Hr'.
      eexists. reflexivity.
Qed.

Lemma pinsert_guard c t a b v t' d hz :
  pinsert c t tt a b v = IOk t' tt d hz -> fix_gap c = true \/ hz = false ->
  exists hz', pinsert repaired t tt a b v = IOk t' tt d hz'.
Proof.
  unfold pinsert, iinsert. intros Hi Hg. destruct (b <? a); [discriminate|].
  destruct (seek_split t a) as [bef rest].
  fold (ploop c tt rest a b v None) in Hi. fold (ploop repaired tt rest a b v None).
  destruct (ploop c tt rest a b v None) as [[[[r' pd] pv] st1] hz1] eqn:Hl. destruct st1.
  assert (Hz : hz = hz1).
  { destruct pv as [p|]; [destruct (eE p <? b)|]; cbn [pmk1] in Hi; injection Hi; intros; congruence. }
  subst hz1. destruct (ploop_guard c a b v rest None r' pd pv hz Hl Hg) as [hz' Hl']. rewrite Hl'.
  destruct pv as [p|]; [destruct (eE p <? b)|]; cbn [pmk1] in *; injection Hi as <- <-; eexists; reflexivity.
Qed.

(* ------------------------------------------------------------------ whole histories *)
Definition grun := irun heap slice hsingle happend hspare.

Lemma grun_hz_mono c : forall ops t h flags hz0 t' h' flags' hz,
  grun c t h ops flags hz0 = Some (t', h', flags', hz) -> hz = false -> hz0 = false.
Proof.
  induction ops as [|[[a b] v] r IH]; intros t h flags hz0 t' h' flags' hz Hr Hz; unfold grun in *; cbn [irun] in Hr.
  - injection Hr as _ _ _ <-. exact Hz.
  - destruct (iinsert heap slice hsingle happend hspare c t h a b v) as [|t1 h1 d1 hz1]; [discriminate|].
    specialize (IH _ _ _ _ _ _ _ _ Hr Hz). apply orb_false_iff in IH. apply IH.
Qed.

Lemma lk_abs t h q : values_of (go_get t h q) = lk (map (absE h) t) q.
Proof.
  unfold go_get, iget_gen, lk, values_of. rewrite (seek_split_map (absE h) (absE_key h)). cbn [snd].
  destruct (snd (seek_split t q)) as [|e r]; [reflexivity|]. cbn [map]. change (eS (absE h e)) with (eS e).
  destruct (q <? eS e); reflexivity.
Qed.

Lemma chain_sorted_disjoint lo (t : list PE) : chain_from lo t -> sorted_disjoint (map (fun e => (eS e, eE e)) t).
Proof.
  revert lo. induction t as [|e r IH]; intros lo Hc; [exact I|]. cbn [chain_from] in Hc. destruct Hc as [_ [H2 [_ Hr]]].
  cbn [map sorted_disjoint]. split; [exact H2|]. split; [|eapply IH; exact Hr].
  destruct r as [|e2 r2]; [exact I|]. cbn [map]. cbn [chain_from] in Hr. lia.
Qed.

Lemma ranges_abs t h : ranges (go_entries t h) = map (fun e : PE => (eS e, eE e)) (map (absE h) t).
Proof. unfold ranges, go_entries. rewrite !map_map. apply map_ext. intros e. reflexivity. Qed.

(* the state reached by a history satisfies the three parts of the property, provided every place
   where the configuration c differs from the repaired code was either repaired (flag of c) or not
   exercised (ghost flag hz of the run) *)
Lemma grun_inv c : forall ops1 t h flags hz0 ops0 t' h' flags' hz,
  Forall (wfE h) t -> Inv (map (absE h) t) ops0 ->
  grun c t h ops1 flags hz0 = Some (t', h', flags', hz) ->
  fix_clip c = true \/ hz = false -> fix_gap c = true \/ hz = false ->
  Forall (wfE h') t' /\ Inv (map (absE h') t') (ops0 ++ ops1) /\ flags' = flags ++ naive_flags ops0 ops1.
Proof.
  induction ops1 as [|[[a b] v] r IH]; intros t h flags hz0 ops0 t' h' flags' hz Hw HI Hr Hc Hg.
  - unfold grun in Hr. cbn [irun] in Hr. injection Hr as <- <- <- _. cbn [naive_flags]. rewrite !app_nil_r. split; [exact Hw|split; [exact HI|reflexivity]].
  - unfold grun in Hr. cbn [irun] in Hr. fold (go_insert c t h a b v) in Hr.
    destruct (go_insert c t h a b v) as [|t1 h1 d1 hz1] eqn:Hins; [discriminate|]. fold grun in Hr.
    assert (Hz1 : hz = false -> hz1 = false).
    { intros Hz. pose proof (grun_hz_mono _ _ _ _ _ _ _ _ _ _ Hr Hz) as H0. apply orb_false_iff in H0. apply H0. }
    assert (Hc1 : fix_clip c = true \/ hz1 = false) by (destruct Hc as [Hc|Hc]; [left; exact Hc|right; exact (Hz1 Hc)]).
    destruct (ginsert_sim c t h a b v t1 h1 d1 hz1 Hw Hins Hc1) as [phz [Hp [X1 [W1 Hphz]]]].
    assert (Hg1 : fix_gap c = true \/ phz = false) by (destruct Hg as [Hg|Hg]; [left; exact Hg|right; exact (Hphz (Hz1 Hg))]).
    destruct (pinsert_guard c _ a b v _ d1 phz Hp Hg1) as [hz' Hrep].
    assert (Hab : a <= b).
    { unfold go_insert, iinsert in Hins. destruct (Z.ltb_spec b a); [discriminate|assumption]. }
    destruct (pinsert_repaired _ ops0 a b v HI Hab) as [t2 [hz2 [Hrep2 HI2]]].
    rewrite Hrep in Hrep2. injection Hrep2 as <- Hd _.
    destruct (IH t1 h1 (flags ++ [d1]) (hz0 || hz1) (ops0 ++ [(a, b, v)]) t' h' flags' hz W1 HI2 Hr Hc Hg) as [W' [HI' Hf']].
    rewrite <- app_assoc in HI', Hf'. cbn [app] in HI'. split; [exact W'|]. split; [exact HI'|].
    rewrite Hf'. cbn [naive_flags app]. rewrite Hd. reflexivity.
Qed.

Lemma Inv_empty : Inv [] [].
Proof. split; [exists 0; exact I|]. split; [intros q; reflexivity|constructor]. Qed.

Lemma grun_total c : forall ops t h flags hz0, Forall valid_op ops -> grun c t h ops flags hz0 <> None.
Proof.
  induction ops as [|[[a b] v] r IH]; intros t h flags hz0 Hv; unfold grun; cbn [irun]; [discriminate|].
  inversion Hv as [|? ? Hop Hv']; subst. cbn [valid_op] in Hop.
  destruct (iinsert heap slice hsingle happend hspare c t h a b v) as [|t1 h1 d1 hz1] eqn:Hins.
  - exfalso. unfold iinsert in Hins. destruct (Z.ltb_spec b a); [lia|].
    destruct (seek_split t a) as [bef rest].
    destruct (iloop heap slice hsingle happend hspare c h rest a b v None) as [[[[r' pd] pv] h1] hz1].
    destruct pv as [p|]; [destruct (eE p <? b); [destruct (hsingle h1 v)|]|destruct (hsingle h1 v)]; discriminate.
  - apply IH. exact Hv'.
Qed.

(* ------------------------------------------------------------------ the theorems *)
Definition intersect_ok (ops : list (Z * Z * nat)) (t : list (entry slice)) (h : heap) (flags : list bool) : Prop :=
  sorted_disjoint (ranges (go_entries t h))
  /\ (forall q, values_of (go_get t h q) = naive ops q)
  /\ flags = naive_flags [] ops.

Lemma intersect_guarded_lemma c ops t h flags hz :
  go_run c ops = Some (t, h, flags, hz) ->
  fix_clip c = true \/ hz = false -> fix_gap c = true \/ hz = false ->
  intersect_ok ops t h flags.
Proof.
  intros Hr Hc Hg. unfold go_run in Hr. fold grun in Hr.
  destruct (grun_inv c ops [] [] [] false [] t h flags hz (Forall_nil _) Inv_empty Hr Hc Hg) as [_ [[[lo Hch] [Hlk _]] Hf]].
  cbn [app] in *. split; [|split].
  - rewrite ranges_abs. eapply chain_sorted_disjoint. exact Hch.
  - intros q. rewrite lk_abs. apply Hlk.
  - exact Hf.
Qed.

(* the code as it is: the property holds for every history in which no Insert evaluates the gap
   test on adjacent entries and no Insert appends to a slice with spare capacity *)
Lemma intersect_partial_lemma : forall ops t h flags,
  go_run asis ops = Some (t, h, flags, false) -> intersect_ok ops t h flags.
Proof. intros ops t h flags Hr. eapply intersect_guarded_lemma; [exact Hr|right; reflexivity|right; reflexivity]. Qed.

(* the repaired code: every history of valid insertions *)
Lemma intersect_repaired_lemma : forall ops, Forall valid_op ops ->
  exists t h flags hz, go_run repaired ops = Some (t, h, flags, hz) /\ intersect_ok ops t h flags.
Proof.
  intros ops Hv. destruct (go_run repaired ops) as [[[[t h] flags] hz]|] eqn:Hr.
  - exists t, h, flags, hz. split; [reflexivity|]. eapply intersect_guarded_lemma; [exact Hr|left; reflexivity|left; reflexivity].
  - exfalso. unfold go_run in Hr. fold grun in Hr. exact (grun_total repaired ops [] [] [] false Hv Hr).
Qed.

Lemma go_run_panics_iff c : forall ops, go_run c ops = None <-> ~ Forall valid_op ops.
Proof.
  intros ops. split.
  - intros Hr Hv. unfold go_run in Hr. fold grun in Hr. exact (grun_total c ops [] [] [] false Hv Hr).
  - intros Hn. destruct (go_run c ops) as [[[[t h] fl] hz]|] eqn:Hr; [|reflexivity]. exfalso. apply Hn.
    unfold go_run in Hr. fold grun in Hr. clear Hn. revert Hr. generalize (@nil (entry slice)) (@nil (list nat)) (@nil bool) false.
    induction ops as [|[[a b] v] r IH]; intros t0 h0 f0 z0 Hr; [constructor|].
    unfold grun in Hr. cbn [irun] in Hr.
    destruct (iinsert heap slice hsingle happend hspare c t0 h0 a b v) as [|t1 h1 d1 hz1] eqn:Hins; [discriminate|].
    constructor; [|eapply IH; exact Hr]. cbn [valid_op]. unfold iinsert in Hins. destruct (Z.ltb_spec b a); [discriminate|assumption].
Qed.

(* ------------------------------------------------------------------ the code as it is: refutations *)
Definition w_gap : list (Z * Z * nat) := [(0, 0, 1%nat); (1, 1, 2%nat); (0, 1, 3%nat)].
Definition w_alias : list (Z * Z * nat) := [(0, 1, 1%nat); (0, 1, 2%nat); (0, 1, 3%nat); (1, 1, 4%nat); (0, 0, 5%nat)].

Lemma entries_sorted_disjoint_refuted_lemma :
  exists ops t h flags hz, Forall valid_op ops /\ go_run asis ops = Some (t, h, flags, hz)
                           /\ ~ sorted_disjoint (ranges (go_entries t h)).
Proof.
  exists w_gap. eexists. eexists. eexists. eexists. split; [|split].
  - repeat constructor; cbn; lia.
  - vm_compute. reflexivity.
  - vm_compute. intros [H _]. apply H. reflexivity.
Qed.

Lemma get_eq_naive_refuted_lemma :
  exists ops t h flags hz q, Forall valid_op ops /\ go_run asis ops = Some (t, h, flags, hz)
                             /\ values_of (go_get t h q) <> naive ops q.
Proof.
  exists w_gap. eexists. eexists. eexists. eexists. exists 0. split; [|split].
  - repeat constructor; cbn; lia.
  - vm_compute. reflexivity.
  - vm_compute. discriminate.
Qed.

(* the second defect: entries stay sorted and disjoint, but a later append overwrites a value of
   another entry through the shared backing array *)
Lemma get_eq_naive_aliasing_refuted_lemma :
  exists ops t h flags hz q, Forall valid_op ops /\ go_run asis ops = Some (t, h, flags, hz)
                             /\ sorted_disjoint (ranges (go_entries t h))
                             /\ values_of (go_get t h q) <> naive ops q.
Proof.
  exists w_alias. eexists. eexists. eexists. eexists. exists 1. split; [|split; [|split]].
  - repeat constructor; cbn; lia.
  - vm_compute. reflexivity.
  - vm_compute. repeat split; discriminate.
  - vm_compute. discriminate.
Qed.

Lemma insert_disjoint_flag_refuted_lemma :
  exists ops t h flags hz, Forall valid_op ops /\ go_run asis ops = Some (t, h, flags, hz)
                           /\ flags <> naive_flags [] ops.
Proof.
  exists (w_gap ++ [(0, 0, 4%nat)]). eexists. eexists. eexists. eexists. split; [|split].
  - repeat constructor; cbn; lia.
  - vm_compute. reflexivity.
  - vm_compute. discriminate.
Qed.

Lemma intersect_examples :
  (exists t h, go_run asis [(0, 9, 1%nat); (30, 39, 2%nat); (5, 34, 3%nat)]
               = Some (t, h, [true; true; false], false)
               /\ go_entries t h = [(0, 4, [1]%nat, 1%nat); (5, 9, [1; 3]%nat, 2%nat); (10, 29, [3]%nat, 1%nat); (30, 34, [2; 3]%nat, 2%nat); (35, 39, [2]%nat, 1%nat)])
  /\ (exists t h fl, go_run asis w_gap = Some (t, h, fl, true))
  /\ (exists t h fl, go_run asis w_alias = Some (t, h, fl, true)).
Proof.
  split; [|split].
  - eexists. eexists. split; vm_compute; reflexivity.
  - eexists. eexists. eexists. vm_compute. reflexivity.
  - eexists. eexists. eexists. vm_compute. reflexivity.
Qed.

(* the three parts of the property for the repaired code, separately *)
Lemma entries_sorted_disjoint_repaired_lemma : forall ops t h flags hz,
  go_run repaired ops = Some (t, h, flags, hz) -> sorted_disjoint (ranges (go_entries t h)).
Proof. intros ops t h flags hz Hr. eapply intersect_guarded_lemma; [exact Hr|left; reflexivity|left; reflexivity]. Qed.

Lemma get_eq_naive_repaired_lemma : forall ops t h flags hz,
  go_run repaired ops = Some (t, h, flags, hz) -> forall q, values_of (go_get t h q) = naive ops q.
Proof. intros ops t h flags hz Hr. eapply intersect_guarded_lemma; [exact Hr|left; reflexivity|left; reflexivity]. Qed.

Lemma insert_disjoint_flag_repaired_lemma : forall ops t h flags hz,
  go_run repaired ops = Some (t, h, flags, hz) -> flags = naive_flags [] ops.
Proof. intros ops t h flags hz Hr. eapply intersect_guarded_lemma; [exact Hr|left; reflexivity|left; reflexivity]. Qed.
