(* Facts about the UTF-8 model (Model/Utf8.v): sizes, prefix stability of DecodeRune, decoded runes are
   scalar values, the range loop at boundaries, boundaries next to ASCII bytes. *)
From Coq Require Import List NArith ZArith Bool Lia ZifyBool ZifyN ZifyNat Arith Sorted.
From PV Require Import Model.Utf8.
Import ListNotations.
Open Scope N_scope.

Lemma first_byte_cases b :
  (first_byte b = FAscii /\ b < 128) \/
  (first_byte b = FInvalid /\ 128 <= b) \/
  (exists sz lo hi, first_byte b = FLead sz lo hi /\ (sz = 2 \/ sz = 3 \/ sz = 4)%nat /\ 128 <= lo /\ hi <= 191 /\ 194 <= b).
Proof.
  unfold first_byte.
  repeat match goal with
  | |- context [if ?c then _ else _] => let E := fresh "E" in destruct c eqn:E
  end;
  try (left; split; [reflexivity|lia]);
  try (right; left; split; [reflexivity|lia]);
  right; right; do 3 eexists; (split; [reflexivity|]); lia.
Qed.

Lemma rune_size_pos s : s <> [] -> (1 <= rune_size s)%nat.
Proof.
  intros H. destruct s as [|p0 t]; [congruence|]. unfold rune_size, decode_rune.
  destruct (first_byte p0); cbn [snd]; try lia.
  repeat match goal with |- context [if ?c then _ else _] => destruct c end; cbn [snd]; lia.
Qed.

Lemma rune_size_le s : (rune_size s <= length s)%nat.
Proof.
  destruct s as [|p0 t]; [cbn; lia|]. unfold rune_size, decode_rune.
  destruct (first_byte_cases p0) as [[-> _]|[[-> _]|(sz & lo & hi & -> & Hsz & _)]]; cbn [snd length]; try lia.
  destruct (Nat.ltb (S (length t)) sz) eqn:E; [cbn; lia|]. apply Nat.ltb_ge in E.
  destruct Hsz as [-> | [-> | ->]]; cbn [Nat.leb];
  repeat match goal with |- context [if ?c then _ else _] => destruct c end; cbn [snd]; lia.
Qed.

Lemma decode_rune_prefix s k : (rune_size s <= k)%nat -> decode_rune (firstn k s) = decode_rune s.
Proof.
  intros H. destruct s as [|p0 t]; [now rewrite firstn_nil|].
  destruct k as [|k]; [pose proof (rune_size_pos (p0 :: t)); assert (p0 :: t <> []) by discriminate; lia|].
  unfold rune_size in H. cbn [firstn]. unfold decode_rune in *.
  destruct (first_byte_cases p0) as [[E _]|[[E _]|(sz & lo & hi & E & Hsz & _)]]; rewrite E in *; try reflexivity.
  destruct Hsz as [-> | [-> | ->]];
  destruct t as [|b1 [|b2 [|b3 t]]]; destruct k as [|[|[|k]]];
  cbn [firstn length nth Nat.ltb Nat.leb] in *; try reflexivity; revert H;
  repeat match goal with
         | |- context [if ?c then _ else _] => destruct c eqn:?
         end; cbn [snd]; intros H; try reflexivity; lia.
Qed.

Lemma decode_rune_ascii c t : c < 128 -> decode_rune (c :: t) = (c, 1%nat).
Proof.
  intros H. unfold decode_rune.
  destruct (first_byte_cases c) as [[E _]|[[_ ?]|(sz & lo & hi & _ & _ & _ & _ & ?)]]; [now rewrite E|lia|lia].
Qed.

(* every byte of a multi-byte rune is 0x80 or above: an ASCII byte (a newline, say) is always a rune of its own *)
Lemma multibyte_high s i : (2 <= rune_size s)%nat -> (i < rune_size s)%nat -> 128 <= nth i s 0.
Proof.
  destruct s as [|p0 t]; [cbn; lia|]. unfold rune_size, decode_rune.
  destruct (first_byte_cases p0) as [[E _]|[[E _]|(sz & lo & hi & E & Hsz & Hlo & Hhi & Hp0)]]; rewrite E; cbn [snd]; try lia.
  destruct Hsz as [-> | [-> | ->]];
  destruct t as [|b1 [|b2 [|b3 t]]]; cbn [length nth Nat.ltb Nat.leb]; cbn [snd]; try lia;
  repeat match goal with
         | |- context [if ?c then _ else _] => destruct c eqn:?
         end; cbn [snd]; try lia; intros _ Hi;
  destruct i as [|[|[|[|i]]]]; cbn [nth]; lia.
Qed.

Ltac modfacts x d :=
  let q := fresh "q" in let m := fresh "m" in
  pose proof (N.div_mod' x d); pose proof (N.mod_lt x d ltac:(discriminate));
  set (q := x / d) in *; set (m := x mod d) in *; clearbody q m.

(* a decoded rune is a Unicode scalar value: never a surrogate, never above U+10FFFF *)
Lemma decode_rune_scalar s :
  fst (decode_rune s) < 55296 \/ (57344 <= fst (decode_rune s) /\ fst (decode_rune s) <= 1114111).
Proof.
  assert (rune_error = 65533) as Hre by reflexivity.
  destruct s as [|p0 t]; [cbn [decode_rune fst]; lia|]. unfold decode_rune.
  destruct (first_byte_cases p0) as [[E H]|[[E _]|(sz & lo & hi & E & Hsz & Hlo & Hhi & Hp0)]]; rewrite E; cbn [fst]; try lia.
  unfold first_byte in E.
  repeat match type of E with
         | (if ?c then _ else _) = _ => destruct c eqn:?
         end; try discriminate; injection E as <- <- <-;
  cbn [Nat.leb];
  repeat match goal with
         | |- context [if ?c then (rune_error, _) else _] => destruct c eqn:?
         end; cbn [fst]; try lia.
  all: set (b1 := nth 1 (p0 :: t) 0) in *; set (b2 := nth 2 (p0 :: t) 0) in *; set (b3 := nth 3 (p0 :: t) 0) in *.
  all: clearbody b1 b2 b3.
  all: try modfacts b3 64; try modfacts b2 64; try modfacts b1 64.
  all: try modfacts p0 32; try modfacts p0 16; try modfacts p0 8.
  all: lia.
Qed.

Lemma utf16_rune_len_decode s : (1 <= utf16_rune_len (fst (decode_rune s)))%Z.
Proof.
  unfold utf16_rune_len. pose proof (decode_rune_scalar s) as H.
  set (r := fst (decode_rune s)) in *. clearbody r.
  repeat match goal with |- context [if ?c then _ else _] => destruct c eqn:? end; lia.
Qed.

(* ---- the range loop ---- *)
Lemma range_from_skip s : forall skip pos,
  range_from s skip pos = range_from (skipn skip s) 0 (pos + skip).
Proof.
  induction s as [|c t IH]; intros skip pos.
  - destruct skip; reflexivity.
  - destruct skip as [|k].
    + cbn [skipn]. now rewrite Nat.add_0_r.
    + cbn [range_from skipn]. rewrite IH. f_equal. lia.
Qed.

Lemma range_from_unfold s pos : s <> [] ->
  range_from s 0 pos = (pos, fst (decode_rune s)) :: range_from (skipn (rune_size s) s) 0 (pos + rune_size s).
Proof.
  intros Hs. destruct s as [|c t]; [congruence|].
  pose proof (rune_size_pos (c :: t) Hs) as Hp. unfold rune_size in *.
  cbn [range_from]. destruct (decode_rune (c :: t)) as [r sz]. cbn [fst snd] in *.
  rewrite range_from_skip. destruct sz as [|sz]; [lia|].
  cbn [skipn]. replace (S sz - 1)%nat with sz by lia. f_equal. f_equal. lia.
Qed.

Lemma range_from_nil skip pos : range_from [] skip pos = [].
Proof. reflexivity. Qed.

Lemma nth_skipn_N (l : list N) : forall n i d, nth i (skipn n l) d = nth (n + i) l d.
Proof.
  induction l as [|x l IH]; intros n i d.
  - rewrite skipn_nil. destruct i, n; reflexivity.
  - destruct n; [reflexivity|]. cbn [skipn Nat.add nth]. apply IH.
Qed.

(* ---- boundaries ---- *)
Lemma boundary_le s k : boundary s k -> (k <= length s)%nat.
Proof.
  induction 1 as [|s k Hs Hb IH]; [lia|].
  rewrite skipn_length in IH. pose proof (rune_size_le s). lia.
Qed.

Lemma boundary_inv s k : boundary s k -> k <> 0%nat ->
  s <> [] /\ (rune_size s <= k)%nat /\ boundary (skipn (rune_size s) s) (k - rune_size s).
Proof.
  intros H Hk. inversion H as [|s' k' Hs Hb]; subst; [congruence|].
  split; [assumption|]. split; [lia|]. replace (rune_size s + k' - rune_size s)%nat with k' by lia. assumption.
Qed.

(* at a boundary the range loop over the whole string is the loop over the prefix followed by
   the loop over the rest: the prefix decodes the same with or without what follows *)
Lemma range_app_boundary : forall n a b pos, length a = n ->
  boundary (a ++ b) (length a) ->
  range_from (a ++ b) 0 pos = range_from a 0 pos ++ range_from b 0 (pos + length a).
Proof.
  induction n as [n IH] using lt_wf_ind. intros a b pos Hn Hb.
  destruct a as [|c t].
  - cbn [app length range_from]. now rewrite Nat.add_0_r.
  - destruct (boundary_inv _ _ Hb ltac:(cbn; lia)) as (Hne & Hsz & Hb').
    assert (Hpre : decode_rune (c :: t) = decode_rune ((c :: t) ++ b)).
    { rewrite <- (decode_rune_prefix ((c :: t) ++ b) (length (c :: t)) Hsz).
      now rewrite firstn_app, Nat.sub_diag, firstn_all, firstn_O, app_nil_r. }
    assert (Hrs : rune_size (c :: t) = rune_size ((c :: t) ++ b)) by (unfold rune_size; now rewrite Hpre).
    rewrite (range_from_unfold ((c :: t) ++ b)) by assumption.
    rewrite (range_from_unfold (c :: t)) by discriminate.
    rewrite <- Hpre, <- Hrs in *.
    set (sz := rune_size (c :: t)) in *.
    assert (1 <= sz)%nat by (apply rune_size_pos; discriminate).
    rewrite skipn_app in *. replace (sz - length (c :: t))%nat with 0%nat in * by lia.
    change (skipn 0 b) with b in *.
    rewrite (IH (length (skipn sz (c :: t)))); try reflexivity.
    + rewrite <- app_comm_cons. f_equal. f_equal. f_equal. rewrite skipn_length. cbn [length] in *. lia.
    + rewrite skipn_length. cbn [length] in *. lia.
    + rewrite skipn_length. exact Hb'.
Qed.

Lemma boundary_app a b k : boundary (a ++ b) (length a) -> boundary b k -> boundary (a ++ b) (length a + k).
Proof.
  remember (length a) as n eqn:Hn. revert a b k Hn.
  induction n as [n IH] using lt_wf_ind. intros a b k Hn Hab Hb.
  destruct a as [|c t]; [cbn in *; subst; exact Hb|].
  subst n. destruct (boundary_inv _ _ Hab ltac:(cbn; lia)) as (Hne & Hsz & Hb').
  set (sz := rune_size ((c :: t) ++ b)) in *.
  assert (1 <= sz)%nat by (apply rune_size_pos; assumption).
  replace (length (c :: t) + k)%nat with (sz + (length (skipn sz (c :: t)) + k))%nat
    by (rewrite skipn_length; lia).
  apply boundary_step; [assumption|]. fold sz.
  rewrite skipn_app in *. replace (sz - length (c :: t))%nat with 0%nat in * by lia. cbn [skipn] in *.
  apply (IH (length (skipn sz (c :: t)))); try reflexivity.
  - rewrite skipn_length. cbn [length] in *. lia.
  - rewrite skipn_length. exact Hb'.
  - exact Hb.
Qed.

(* splitting: a boundary of the whole string beyond a boundary prefix is a boundary of the rest *)
Lemma boundary_split a b k : boundary (a ++ b) (length a) -> boundary (a ++ b) (length a + k) -> boundary b k.
Proof.
  remember (length a) as n eqn:Hn. revert a b k Hn.
  induction n as [n IH] using lt_wf_ind. intros a b k Hn Hab Hk.
  destruct a as [|c t]; [cbn in *; subst; exact Hk|].
  subst n. destruct (boundary_inv _ _ Hab ltac:(cbn; lia)) as (Hne & Hsz & Hb').
  destruct (boundary_inv _ _ Hk ltac:(cbn; lia)) as (_ & _ & Hk').
  set (sz := rune_size ((c :: t) ++ b)) in *.
  assert (1 <= sz)%nat by (apply rune_size_pos; assumption).
  rewrite skipn_app in *. replace (sz - length (c :: t))%nat with 0%nat in * by lia. cbn [skipn] in *.
  apply (IH (length (skipn sz (c :: t))) ltac:(rewrite skipn_length; cbn [length] in *; lia) (skipn sz (c :: t)) b k eq_refl).
  - rewrite skipn_length. exact Hb'.
  - rewrite skipn_length. replace (length (c :: t) - sz + k)%nat with (length (c :: t) + k - sz)%nat by lia. exact Hk'.
Qed.

(* the position after an ASCII byte (a newline, say) is always a boundary *)
Lemma boundary_after_ascii : forall n a c b, length a = n -> c < 128 -> boundary (a ++ c :: b) (length a) ->
  boundary (a ++ c :: b) (length a + 1).
Proof.
  intros n a c b _ Hc Ha. apply boundary_app; [assumption|].
  replace 1%nat with (rune_size (c :: b) + 0)%nat by (unfold rune_size; rewrite decode_rune_ascii by assumption; reflexivity).
  apply boundary_step; [discriminate|constructor].
Qed.

Lemma boundary_before_ascii : forall n s i, length s = n -> (i < length s)%nat -> nth i s 0 < 128 -> boundary s i.
Proof.
  induction n as [n IH] using lt_wf_ind. intros s i Hn Hi Hc.
  destruct i as [|i]; [constructor|].
  assert (Hs : s <> []) by (destruct s; cbn in *; [lia|discriminate]).
  pose proof (rune_size_pos s Hs) as Hp. pose proof (rune_size_le s) as Hle.
  assert (rune_size s <= S i)%nat as Hsz.
  { destruct (Nat.le_gt_cases (rune_size s) (S i)) as [?|Hgt]; [assumption|].
    pose proof (multibyte_high s (S i) ltac:(lia) Hgt). lia. }
  replace (S i) with (rune_size s + (S i - rune_size s))%nat by lia.
  apply boundary_step; [assumption|].
  apply (IH (length (skipn (rune_size s) s))); try reflexivity.
  - rewrite skipn_length. lia.
  - rewrite skipn_length. lia.
  - rewrite nth_skipn_N. replace (rune_size s + (S i - rune_size s))%nat with (S i) by lia. assumption.
Qed.

Lemma boundary_firstn s k : boundary s k -> forall n, (k <= n)%nat -> boundary (firstn n s) k.
Proof.
  induction 1 as [|s k Hs Hb IH]; intros n Hn; [constructor|].
  assert (1 <= rune_size s)%nat by now apply rune_size_pos.
  assert (Hd : decode_rune (firstn n s) = decode_rune s) by (apply decode_rune_prefix; lia).
  assert (Hr : rune_size (firstn n s) = rune_size s) by (unfold rune_size; now rewrite Hd).
  rewrite <- Hr. apply boundary_step.
  - destruct s; [congruence|]. destruct n; [lia|]. discriminate.
  - rewrite Hr, skipn_firstn_comm. apply IH. lia.
Qed.

Lemma boundary_full s : boundary s (length s).
Proof.
  remember (length s) as n eqn:Hn. revert s Hn.
  induction n as [n IH] using lt_wf_ind. intros s Hn.
  destruct s as [|c t]; [subst; constructor|].
  assert (Hs : c :: t <> []) by discriminate.
  pose proof (rune_size_pos _ Hs). pose proof (rune_size_le (c :: t)).
  replace n with (rune_size (c :: t) + (n - rune_size (c :: t)))%nat by lia.
  apply boundary_step; [assumption|].
  apply (IH (n - rune_size (c :: t))%nat); [lia|]. rewrite skipn_length. lia.
Qed.

(* every iteration of the range loop yields a decoded rune: its UTF-16 length is 1 or 2 *)
Lemma range_from_utf16_pos s : forall skip pos,
  Forall (fun p => (1 <= utf16_rune_len (snd p))%Z) (range_from s skip pos).
Proof.
  induction s as [|c t IH]; intros skip pos; [constructor|].
  cbn [range_from]. destruct skip as [|k]; [|apply IH].
  pose proof (utf16_rune_len_decode (c :: t)) as H.
  destruct (decode_rune (c :: t)) as [r sz]. constructor; [exact H|apply IH].
Qed.

Lemma range_from_head s pos : s <> [] -> exists r rest, range_from s 0 pos = (pos, r) :: rest.
Proof. intros H. rewrite range_from_unfold by assumption. eauto. Qed.

(* a rune that starts with a non-ASCII byte is not an ASCII character *)
Lemma decode_rune_high c t : 128 <= c -> 128 <= fst (decode_rune (c :: t)).
Proof.
  intros Hc. assert (rune_error = 65533) as Hre by reflexivity. unfold decode_rune.
  destruct (first_byte_cases c) as [[E H]|[[E _]|(sz & lo & hi & E & Hsz & Hlo & Hhi & Hp0)]]; rewrite E; cbn [fst]; try lia.
  unfold first_byte in E.
  repeat match type of E with
         | (if ?c then _ else _) = _ => destruct c eqn:?
         end; try discriminate; injection E as <- <- <-;
  cbn [Nat.leb];
  repeat match goal with
         | |- context [if ?c then (rune_error, _) else _] => destruct c eqn:?
         end; cbn [fst]; try lia.
  all: set (b1 := nth 1 (c :: t) 0) in *; set (b2 := nth 2 (c :: t) 0) in *; set (b3 := nth 3 (c :: t) 0) in *.
  all: clearbody b1 b2 b3.
  all: try modfacts b3 64; try modfacts b2 64; try modfacts b1 64.
  all: try modfacts c 32; try modfacts c 16; try modfacts c 8.
  all: lia.
Qed.

(* the trailing bytes of a multi-byte rune are continuation bytes, the first one is a lead byte *)
Lemma multibyte_cont s i : (2 <= rune_size s)%nat -> (1 <= i < rune_size s)%nat -> 128 <= nth i s 0 <= 191.
Proof.
  destruct s as [|p0 t]; [cbn; lia|]. unfold rune_size, decode_rune.
  destruct (first_byte_cases p0) as [[E _]|[[E _]|(sz & lo & hi & E & Hsz & Hlo & Hhi & Hp0)]]; rewrite E; cbn [snd]; try lia.
  destruct Hsz as [-> | [-> | ->]];
  destruct t as [|b1 [|b2 [|b3 t]]]; cbn [length nth Nat.ltb Nat.leb]; cbn [snd]; try lia;
  repeat match goal with
         | |- context [if ?c then _ else _] => destruct c eqn:?
         end; cbn [snd]; try lia; intros _ Hi;
  destruct i as [|[|[|[|i]]]]; cbn [nth]; lia.
Qed.

Lemma multibyte_lead s : (2 <= rune_size s)%nat -> 194 <= nth 0 s 0.
Proof.
  destruct s as [|p0 t]; [cbn; lia|]. unfold rune_size, decode_rune.
  destruct (first_byte_cases p0) as [[E _]|[[E _]|(sz & lo & hi & E & Hsz & Hlo & Hhi & Hp0)]]; rewrite E; cbn [snd nth]; lia.
Qed.

(* the byte indices yielded by the range loop increase *)
Lemma range_from_idx s : forall skip pos,
  StronglySorted (fun a b : nat * N => (fst a < fst b)%nat) (range_from s skip pos) /\
  Forall (fun p : nat * N => (pos <= fst p)%nat) (range_from s skip pos).
Proof.
  induction s as [|c t IH]; intros skip pos; [split; constructor|].
  cbn [range_from]. destruct skip as [|k].
  - destruct (decode_rune (c :: t)) as [r sz]. destruct (IH (sz - 1)%nat (S pos)) as [Hs Hf]. split.
    + constructor; [assumption|]. eapply Forall_impl; [|exact Hf]. cbn. intros; lia.
    + constructor; [cbn; lia|]. eapply Forall_impl; [|exact Hf]. cbn. intros; lia.
  - destruct (IH k (S pos)) as [Hs Hf]. split; [assumption|].
    eapply Forall_impl; [|exact Hf]. cbn. intros; lia.
Qed.
