(* Proofs about the interning table model (Model/Intern.v): an invariant of all reachable
   states under every schedule and any number of threads, the bijection theorems that
   follow from it, Query, deadlock freedom and termination under weak fairness. *)
From Coq Require Import List NArith ZArith Bool Arith Lia.
From PV Require Import Common.Bytes Common.Corr Model.Char6 Model.Intern Proofs.Char6.
Import ListNotations.
Open Scope Z_scope.

(* ------------------------------------------------------------------ lists of threads *)
Lemma nth_error_upd {A} (l : list A) : forall t x t' y,
  nth_error (upd_nth t x l) t' = Some y ->
  (t' = t /\ y = x) \/ (t' <> t /\ nth_error l t' = Some y).
Proof.
  induction l as [|a r IH]; intros t x t' y H.
  - destruct t; cbn [upd_nth] in H; destruct t'; discriminate.
  - destruct t as [|t]; destruct t' as [|t']; cbn [upd_nth nth_error] in *.
    + left. split; [reflexivity|]. now inversion H.
    + right. split; [discriminate|exact H].
    + right. split; [discriminate|exact H].
    + destruct (IH t x t' y H) as [[-> ->]|[Hne Hn]]; [left; split; reflexivity|right; split; [lia|exact Hn]].
Qed.

Lemma nth_error_upd_same {A} (l : list A) : forall t x y,
  nth_error l t = Some y -> nth_error (upd_nth t x l) t = Some x.
Proof.
  induction l as [|a r IH]; intros t x y H; destruct t; cbn [upd_nth nth_error] in *; try discriminate.
  - reflexivity.
  - eapply IH; exact H.
Qed.

Lemma nth_error_upd_other {A} (l : list A) : forall t x t',
  t' <> t -> nth_error (upd_nth t x l) t' = nth_error l t'.
Proof.
  induction l as [|a r IH]; intros t x t' Hne; destruct t; destruct t'; cbn [upd_nth nth_error]; try reflexivity; try lia.
  apply IH. lia.
Qed.

Lemma upd_nth_length {A} (l : list A) : forall t x, length (upd_nth t x l) = length l.
Proof. induction l as [|a r IH]; intros t x; destruct t; cbn [upd_nth length]; try reflexivity. now rewrite IH. Qed.

Lemma nth_error_app_some {A} (l : list A) t i x : nth_error l i = Some x -> nth_error (l ++ t) i = Some x.
Proof.
  intros H. rewrite nth_error_app1; [exact H|]. apply nth_error_Some. congruence.
Qed.

(* ------------------------------------------------------------------ leaders *)
Definition is_leader (p : pc_t) (s : str) : bool :=
  match p with
  | PAppend x | PStore x _ | PPoison x => if str_eq_dec x s then true else false
  | _ => false
  end.

Definition b2n (b : bool) : nat := if b then 1%nat else 0%nat.

Fixpoint nleaders (l : list thread) (s : str) : nat :=
  match l with
  | [] => 0%nat
  | th :: r => (b2n (is_leader (pc th) s) + nleaders r s)%nat
  end.

Lemma nleaders_upd l : forall t th th' s, nth_error l t = Some th ->
  (nleaders (upd_nth t th' l) s + b2n (is_leader (pc th) s) =
   nleaders l s + b2n (is_leader (pc th') s))%nat.
Proof.
  induction l as [|a r IH]; intros t th th' s H; destruct t; cbn [nth_error] in H; try discriminate.
  - inversion H; subst. cbn [upd_nth nleaders]. lia.
  - cbn [upd_nth nleaders]. specialize (IH t th th' s H). lia.
Qed.

Lemma nleaders_ge1 l : forall t th s, nth_error l t = Some th -> is_leader (pc th) s = true ->
  (1 <= nleaders l s)%nat.
Proof.
  induction l as [|a r IH]; intros t th s H HL; destruct t; cbn [nth_error] in H; try discriminate.
  - inversion H; subst. cbn [nleaders]. rewrite HL. cbn [b2n]. lia.
  - cbn [nleaders]. specialize (IH t th s H HL). lia.
Qed.

Lemma nleaders_ge2 l : forall t1 t2 th1 th2 s, t1 <> t2 ->
  nth_error l t1 = Some th1 -> nth_error l t2 = Some th2 ->
  is_leader (pc th1) s = true -> is_leader (pc th2) s = true -> (2 <= nleaders l s)%nat.
Proof.
  induction l as [|a r IH]; intros t1 t2 th1 th2 s Hne H1 H2 L1 L2;
    destruct t1; destruct t2; cbn [nth_error] in *; try discriminate; try lia.
  - inversion H1; subst. cbn [nleaders]. rewrite L1. pose proof (nleaders_ge1 r t2 th2 s H2 L2). cbn [b2n]. lia.
  - inversion H2; subst. cbn [nleaders]. rewrite L2. pose proof (nleaders_ge1 r t1 th1 s H1 L1). cbn [b2n]. lia.
  - cbn [nleaders]. assert (Hn : t1 <> t2) by lia. specialize (IH t1 t2 th1 th2 s Hn H1 H2 L1 L2). lia.
Qed.

Lemma nleaders_exists l : forall s, (1 <= nleaders l s)%nat ->
  exists t th, nth_error l t = Some th /\ is_leader (pc th) s = true.
Proof.
  induction l as [|a r IH]; intros s H; cbn [nleaders] in H; [lia|].
  destruct (is_leader (pc a) s) eqn:E.
  - exists O, a. split; [reflexivity|exact E].
  - cbn [b2n] in H. destruct (IH s ltac:(lia)) as (t & th & Hn & HL). exists (S t), th. split; assumption.
Qed.

Lemma is_leader_true p s : is_leader p s = true ->
  p = PAppend s \/ (exists i, p = PStore s i) \/ p = PPoison s.
Proof.
  destruct p; cbn [is_leader]; try discriminate; destruct (str_eq_dec s0 s); try discriminate; subst; intros _.
  - now left.
  - right; left; now eexists.
  - right; now right.
Qed.

Lemma is_leader_refl_append s : is_leader (PAppend s) s = true.
Proof. cbn. destruct (str_eq_dec s s); congruence. Qed.
Lemma is_leader_refl_store s i : is_leader (PStore s i) s = true.
Proof. cbn. destruct (str_eq_dec s s); congruence. Qed.
Lemma is_leader_refl_poison s : is_leader (PPoison s) s = true.
Proof. cbn. destruct (str_eq_dec s s); congruence. Qed.

(* ------------------------------------------------------------------ the invariant *)
Definition slow_str (p : pc_t) : option str :=
  match p with
  | PQuery2 s | PLos s | PLoadVal s | PSpin s | PAppend s | PStore s _ | PPoison s => Some s
  | _ => None
  end.

Definition waiting (p : pc_t) : option str :=
  match p with PLoadVal s | PSpin s => Some s | _ => None end.

Definition log_full (lg : list str) : Prop := log_limit <= Z.of_nat (length lg).

(* what must hold of one thread, given the shared state *)
Record th_ok (ix : index_t) (lg : list str) (th : thread) : Prop := {
  ok_store : forall s i, pc th = PStore s i -> 0 <= i /\ nth_error lg (Z.to_nat i) = Some s;
  ok_slow : forall s, slow_str (pc th) = Some s -> encode s = None;
  ok_res : forall s id, In (s, id) (res th) ->
             encode s = Some id \/ (encode s = None /\ ix s = Done id);
  ok_wait : forall s, waiting (pc th) = Some s -> ix s <> Absent;
  ok_full : pc th = Panicked \/ (exists s, pc th = PPoison s) -> log_full lg
}.

Record Inv (st : state) : Prop := {
  inv_cnt : forall s, nleaders (threads st) s = match index st s with Pending => 1%nat | _ => 0%nat end;
  inv_len : Z.of_nat (length (log st)) <= log_limit;
  inv_done : forall s id, index st s = Done id ->
               1 <= id /\ nth_error (log st) (Z.to_nat (id - 1)) = Some s;
  inv_owner : forall i s, nth_error (log st) i = Some s ->
               index st s = Done (Z.of_nat i + 1) \/
               exists t th, nth_error (threads st) t = Some th /\ pc th = PStore s (Z.of_nat i);
  inv_hist : forall s id, index st s = Done id ->
               exists t th, nth_error (threads st) t = Some th /\ In (s, id) (res th);
  inv_poison : forall s, index st s = Poisoned -> log_full (log st);
  inv_th : forall t th, nth_error (threads st) t = Some th -> th_ok (index st) (log st) th
}.

(* how a slot may change in one step *)
Definition slot_adv (a b : slot) : Prop :=
  a = b \/ (a = Absent /\ b = Pending) \/ (a = Pending /\ exists id, b = Done id) \/
  (a = Pending /\ b = Poisoned).

Definition adv (ix : index_t) (lg : list str) (ix' : index_t) (lg' : list str) : Prop :=
  (forall k, slot_adv (ix k) (ix' k)) /\ exists suf, lg' = lg ++ suf.

Lemma th_ok_adv ix lg ix' lg' th : adv ix lg ix' lg' -> th_ok ix lg th -> th_ok ix' lg' th.
Proof.
  intros [Hs [suf ->]] [H1 H2 H3 H4 H5]. constructor.
  - intros s i Hp. destruct (H1 s i Hp) as [Hi Hn]. split; [exact Hi|now apply nth_error_app_some].
  - exact H2.
  - intros s id Hin. destruct (H3 s id Hin) as [E|[E D]]; [now left|right]. split; [exact E|].
    destruct (Hs s) as [Eq|[[A _]|[[A _]|[A _]]]]; congruence.
  - intros s Hw. specialize (H4 s Hw). intros Habs.
    destruct (Hs s) as [Eq|[[_ B]|[[_ [id B]]|[_ B]]]]; congruence.
  - intros Hp. specialize (H5 Hp). unfold log_full in *. rewrite app_length. lia.
Qed.

Lemma idx_set_same ix s v : idx_set ix s v s = v.
Proof. unfold idx_set. destruct (str_eq_dec s s); congruence. Qed.
Lemma idx_set_other ix s v k : k <> s -> idx_set ix s v k = ix k.
Proof. unfold idx_set. intros H. destruct (str_eq_dec s k); congruence. Qed.

Lemma adv_refl ix lg : adv ix lg ix lg.
Proof. split; [intros k; now left|exists []; now rewrite app_nil_r]. Qed.

Lemma adv_set ix lg s v : slot_adv (ix s) v -> adv ix lg (idx_set ix s v) lg.
Proof.
  intros H. split; [|exists []; now rewrite app_nil_r].
  intros k. destruct (str_eq_dec k s) as [->|Hne]; [rewrite idx_set_same; exact H|].
  rewrite idx_set_other by exact Hne. now left.
Qed.

Lemma adv_app ix lg s : adv ix lg ix (lg ++ [s]).
Proof. split; [intros k; now left|now exists [s]]. Qed.

(* fields of th_return / th_goto *)
Lemma pc_return th s id : pc (th_return th s id) = Idle \/ exists s', pc (th_return th s id) = PQuery s'.
Proof. unfold th_return. destruct (todo th); cbn [pc]; [now left|right; now eexists]. Qed.
Lemma res_return th s id : res (th_return th s id) = res th ++ [(s, id)].
Proof. unfold th_return. destruct (todo th); reflexivity. Qed.
Lemma leader_return th s id x : is_leader (pc (th_return th s id)) x = false.
Proof. destruct (pc_return th s id) as [->|[s' ->]]; reflexivity. Qed.

Lemma th_ok_return ix lg th s id :
  th_ok ix lg th -> (encode s = Some id \/ (encode s = None /\ ix s = Done id)) ->
  th_ok ix lg (th_return th s id).
Proof.
  intros [H1 H2 H3 H4 H5] Hnew.
  constructor; try (destruct (pc_return th s id) as [E|[s' E]]; rewrite E; intros; try discriminate;
                    match goal with H : _ \/ _ |- _ => destruct H as [H|[? H]]; discriminate end).
  intros s0 id0. rewrite res_return. intros Hin. apply in_app_or in Hin.
  destruct Hin as [Hin|[Hin|[]]]; [now apply H3|]. inversion Hin; subst. exact Hnew.
Qed.

Ltac th_step_cases H :=
  unfold th_step in H;
  match type of H with context [pc ?th] => destruct (pc th) eqn:Epc end;
  try discriminate;
  repeat match type of H with
  | context [match encode ?s with _ => _ end] => destruct (encode s) eqn:Eenc
  | context [match ?ix ?s with Absent => _ | _ => _ end] => destruct (ix s) eqn:Eix
  | context [if ?b then _ else _] => destruct b eqn:Efull
  end;
  inversion H; subst; clear H.

(* one step of thread t *)
Lemma step_inv st t st' : Inv st -> step st t = Some st' ->
  exists th ix lg th',
    nth_error (threads st) t = Some th /\
    th_step (index st) (log st) th = Some (ix, lg, th') /\
    st' = {| index := ix; log := lg; threads := upd_nth t th' (threads st) |}.
Proof.
  intros _ H. unfold step in H. destruct (nth_error (threads st) t) as [th|] eqn:E; [|discriminate].
  destruct (th_step (index st) (log st) th) as [[[ix lg] th']|] eqn:E2; [|discriminate].
  inversion H. exists th, ix, lg, th'. split; [reflexivity|]. split; [exact E2|reflexivity].
Qed.

Lemma leader_pending st t th s : Inv st -> nth_error (threads st) t = Some th ->
  is_leader (pc th) s = true -> index st s = Pending.
Proof.
  intros HI Hn HL. pose proof (nleaders_ge1 _ _ _ _ Hn HL) as H1.
  rewrite (inv_cnt st HI s) in H1. destruct (index st s); try lia. reflexivity.
Qed.

Lemma wrap32_store st t th s i : Inv st -> nth_error (threads st) t = Some th -> pc th = PStore s i ->
  wrap32 (i + 1) = i + 1 /\ 0 <= i /\ nth_error (log st) (Z.to_nat i) = Some s.
Proof.
  intros HI Hn Hp. destruct (ok_store _ _ _ (inv_th st HI t th Hn) s i Hp) as [Hi Hnth].
  assert (HL : (Z.to_nat i < length (log st))%nat) by (apply nth_error_Some; congruence).
  pose proof (inv_len st HI) as Hlen. unfold log_limit in Hlen.
  split; [|split; assumption]. apply wrap32_id. unfold int32. lia.
Qed.

(* the shared state only advances *)
Lemma step_adv st t th ix lg th' : Inv st -> nth_error (threads st) t = Some th ->
  th_step (index st) (log st) th = Some (ix, lg, th') -> adv (index st) (log st) ix lg.
Proof.
  intros HI Hn H. th_step_cases H; try apply adv_refl; try apply adv_app.
  - apply adv_set. rewrite Eix. right; left. split; reflexivity.
  - apply adv_set. rewrite (leader_pending st t th s HI Hn) by (rewrite Epc; apply is_leader_refl_store).
    right; right; left. split; [reflexivity|now eexists].
  - apply adv_set. rewrite (leader_pending st t th s HI Hn) by (rewrite Epc; apply is_leader_refl_poison).
    right; right; right. split; reflexivity.
Qed.

Ltac goto_field :=
  first
  [ assumption
  | (intros; discriminate)
  | (let E := fresh "E" in intros ? E; inversion E; subst;
     first [ assumption | congruence
           | match goal with H : forall s, slow_str _ = Some s -> encode s = None |- _ => apply H; reflexivity end
           | match goal with H : forall s, waiting _ = Some s -> _ <> Absent |- _ => apply H; reflexivity end ])
  | (let E := fresh "E" in intros [E|[? E]]; discriminate)
  | idtac ].

(* the stepping thread is fine afterwards *)
Lemma step_th_ok st t th ix lg th' : Inv st -> nth_error (threads st) t = Some th ->
  th_step (index st) (log st) th = Some (ix, lg, th') -> th_ok ix lg th'.
Proof.
  intros HI Hn H. pose proof (inv_th st HI t th Hn) as Hok.
  pose proof (step_adv st t th ix lg th' HI Hn H) as Hadv.
  pose proof (th_ok_adv _ _ _ _ _ Hadv Hok) as Hok'.
  assert (Hslow : forall s, slow_str (pc th) = Some s -> encode s = None) by (apply (ok_slow _ _ _ Hok)).
  pose proof Hok' as Hk. destruct Hok' as [H1 H2 H3 H4 H5].
  th_step_cases H;
    first [ apply th_ok_return; [exact Hk|]
          | constructor; cbn [th_goto pc res]; goto_field ].
  - now left.
  - right. split; [apply Hslow; reflexivity|exact Eix].
  - intros _. apply (inv_poison st HI s Eix).
  - right. split; [apply Hslow; reflexivity|exact Eix].
  - intros _. unfold log_full. apply Z.leb_le. exact Efull.
  - intros s0 i E. inversion E; subst. split; [lia|]. rewrite Nat2Z.id.
    rewrite nth_error_app2 by lia. now rewrite Nat.sub_diag.
  - right. split; [apply Hslow; reflexivity|apply idx_set_same].
  - intros _. apply (ok_full _ _ _ (inv_th st HI t th Hn)). right. exists s. exact Epc.
Qed.

(* ------------------------------------------------------------------ preservation, field by field *)
Lemma res_mono ix lg th ix' lg' th' x : th_step ix lg th = Some (ix', lg', th') ->
  In x (res th) -> In x (res th').
Proof.
  intros H Hin. th_step_cases H; cbn [th_goto res]; try assumption;
    rewrite res_return; apply in_or_app; now left.
Qed.

Lemma step_cnt st t th ix lg th' : Inv st -> nth_error (threads st) t = Some th ->
  th_step (index st) (log st) th = Some (ix, lg, th') ->
  forall s0, nleaders (upd_nth t th' (threads st)) s0 = match ix s0 with Pending => 1%nat | _ => 0%nat end.
Proof.
  intros HI Hn H s0.
  pose proof (nleaders_upd _ t th th' s0 Hn) as Hc.
  pose proof (inv_cnt st HI s0) as Hc0.
  pose proof (leader_pending st t th) as HLP. specialize (HLP s0 HI Hn).
  th_step_cases H; cbn [th_goto pc] in Hc; try rewrite leader_return in Hc;
    cbn [is_leader b2n] in Hc, HLP; try (rewrite <- Hc0; lia).
  - (* LoadOrStore wins *)
    destruct (str_eq_dec s s0) as [->|Hne].
    + rewrite idx_set_same. rewrite Eix in Hc0. cbn [b2n] in Hc. lia.
    + rewrite idx_set_other by congruence. cbn [b2n] in Hc. rewrite <- Hc0. lia.
  - (* Store *)
    destruct (str_eq_dec s s0) as [->|Hne].
    + rewrite idx_set_same. rewrite (HLP eq_refl) in Hc0. cbn [b2n] in Hc. lia.
    + rewrite idx_set_other by congruence. cbn [b2n] in Hc. rewrite <- Hc0. lia.
  - (* poison *)
    destruct (str_eq_dec s s0) as [->|Hne].
    + rewrite idx_set_same. rewrite (HLP eq_refl) in Hc0. cbn [b2n] in Hc. lia.
    + rewrite idx_set_other by congruence. cbn [b2n] in Hc. rewrite <- Hc0. lia.
Qed.

Lemma step_len st t th ix lg th' : Inv st -> nth_error (threads st) t = Some th ->
  th_step (index st) (log st) th = Some (ix, lg, th') -> Z.of_nat (length lg) <= log_limit.
Proof.
  intros HI Hn H. pose proof (inv_len st HI) as HL.
  th_step_cases H; try exact HL.
  apply Z.leb_gt in Efull. rewrite app_length. cbn [length]. lia.
Qed.

Lemma step_done st t th ix lg th' : Inv st -> nth_error (threads st) t = Some th ->
  th_step (index st) (log st) th = Some (ix, lg, th') ->
  forall s0 id, ix s0 = Done id -> 1 <= id /\ nth_error lg (Z.to_nat (id - 1)) = Some s0.
Proof.
  intros HI Hn H s0 id HD.
  pose proof (inv_done st HI s0 id) as Hold.
  pose proof (wrap32_store st t th) as HW.
  th_step_cases H; try (now apply Hold).
  - destruct (str_eq_dec s s0) as [->|Hne]; [rewrite idx_set_same in HD; discriminate|].
    rewrite idx_set_other in HD by congruence. now apply Hold.
  - destruct (Hold HD) as [H1 H2]. split; [exact H1|now apply nth_error_app_some].
  - destruct (HW s i HI Hn eq_refl) as (Ew & Hi & Hnth).
    destruct (str_eq_dec s s0) as [->|Hne].
    + rewrite idx_set_same in HD. inversion HD; subst id. rewrite Ew. split; [lia|].
      replace (i + 1 - 1) with i by lia. exact Hnth.
    + rewrite idx_set_other in HD by congruence. now apply Hold.
  - destruct (str_eq_dec s s0) as [->|Hne]; [rewrite idx_set_same in HD; discriminate|].
    rewrite idx_set_other in HD by congruence. now apply Hold.
Qed.

Lemma step_hist st t th ix lg th' : Inv st -> nth_error (threads st) t = Some th ->
  th_step (index st) (log st) th = Some (ix, lg, th') ->
  forall s0 id, ix s0 = Done id ->
  exists t1 th1, nth_error (upd_nth t th' (threads st)) t1 = Some th1 /\ In (s0, id) (res th1).
Proof.
  intros HI Hn H s0 id HD.
  assert (Hold : index st s0 = Done id ->
          exists t1 th1, nth_error (upd_nth t th' (threads st)) t1 = Some th1 /\ In (s0, id) (res th1)).
  { intros HD0. destruct (inv_hist st HI s0 id HD0) as (t1 & th1 & Hn1 & Hin).
    destruct (Nat.eq_dec t1 t) as [->|Hne].
    - exists t, th'. split; [eapply nth_error_upd_same; exact Hn|].
      rewrite Hn in Hn1. inversion Hn1; subst th1. eapply res_mono; eassumption.
    - exists t1, th1. split; [now rewrite nth_error_upd_other|exact Hin]. }
  pose proof H as H0.
  th_step_cases H; try (now apply Hold).
  - destruct (str_eq_dec s s0) as [->|Hne]; [rewrite idx_set_same in HD; discriminate|].
    rewrite idx_set_other in HD by congruence. now apply Hold.
  - destruct (str_eq_dec s s0) as [->|Hne].
    + rewrite idx_set_same in HD. inversion HD; subst id.
      exists t, (th_return th s0 (wrap32 (i + 1))). split; [eapply nth_error_upd_same; exact Hn|].
      rewrite res_return. apply in_or_app. right. now left.
    + rewrite idx_set_other in HD by congruence. now apply Hold.
  - destruct (str_eq_dec s s0) as [->|Hne]; [rewrite idx_set_same in HD; discriminate|].
    rewrite idx_set_other in HD by congruence. now apply Hold.
Qed.

Lemma step_poison st t th ix lg th' : Inv st -> nth_error (threads st) t = Some th ->
  th_step (index st) (log st) th = Some (ix, lg, th') ->
  forall s0, ix s0 = Poisoned -> log_full lg.
Proof.
  intros HI Hn H s0 HP.
  pose proof (inv_poison st HI s0) as Hold.
  pose proof (ok_full _ _ _ (inv_th st HI t th Hn)) as Hfull.
  th_step_cases H; try (now apply Hold).
  - destruct (str_eq_dec s s0) as [->|Hne]; [rewrite idx_set_same in HP; discriminate|].
    rewrite idx_set_other in HP by congruence. now apply Hold.
  - specialize (Hold HP). unfold log_full in *. rewrite app_length. lia.
  - destruct (str_eq_dec s s0) as [->|Hne]; [rewrite idx_set_same in HP; discriminate|].
    rewrite idx_set_other in HP by congruence. now apply Hold.
  - apply Hfull. right. now exists s.
Qed.

Lemma step_owner st t th ix lg th' : Inv st -> nth_error (threads st) t = Some th ->
  th_step (index st) (log st) th = Some (ix, lg, th') ->
  forall i s0, nth_error lg i = Some s0 ->
    ix s0 = Done (Z.of_nat i + 1) \/
    exists t1 th1, nth_error (upd_nth t th' (threads st)) t1 = Some th1 /\ pc th1 = PStore s0 (Z.of_nat i).
Proof.
  intros HI Hn H i s0 Hnth.
  (* a witness thread other than t survives *)
  assert (Hother : forall t1 th1, t1 <> t -> nth_error (threads st) t1 = Some th1 ->
            pc th1 = PStore s0 (Z.of_nat i) ->
            exists t1 th1, nth_error (upd_nth t th' (threads st)) t1 = Some th1 /\ pc th1 = PStore s0 (Z.of_nat i)).
  { intros t1 th1 Hne Hn1 Hp. exists t1, th1. split; [now rewrite nth_error_upd_other|exact Hp]. }
  (* when t is not at a Store, the old witness is still good provided the Done slot is kept *)
  assert (Hold : (forall j, pc th <> PStore s0 j) -> nth_error (log st) i = Some s0 ->
            (index st s0 = Done (Z.of_nat i + 1) -> ix s0 = Done (Z.of_nat i + 1)) ->
            ix s0 = Done (Z.of_nat i + 1) \/
            exists t1 th1, nth_error (upd_nth t th' (threads st)) t1 = Some th1 /\ pc th1 = PStore s0 (Z.of_nat i)).
  { intros Hnp Hn0 Hkeep. destruct (inv_owner st HI i s0 Hn0) as [HD|(t1 & th1 & Hn1 & Hp)]; [left; now apply Hkeep|right].
    destruct (Nat.eq_dec t1 t) as [->|Hne]; [|now apply (Hother t1 th1)].
    rewrite Hn in Hn1. inversion Hn1; subst th1. exfalso. now apply (Hnp (Z.of_nat i)). }
  pose proof (leader_pending st t th) as HLP.
  pose proof (wrap32_store st t th) as HW.
  th_step_cases H; try (apply Hold; [intros j; congruence|exact Hnth|tauto]).
  - (* LoadOrStore wins: s was Absent *)
    apply Hold; [intros j; congruence|exact Hnth|]. intros HD.
    destruct (str_eq_dec s s0) as [->|Hne]; [congruence|]. now rewrite idx_set_other by congruence.
  - (* Append *)
    destruct (Nat.lt_ge_cases i (length (log st))) as [Hlt|Hge].
    + rewrite nth_error_app1 in Hnth by exact Hlt. apply Hold; [intros j; congruence|exact Hnth|tauto].
    + rewrite nth_error_app2 in Hnth by exact Hge.
      destruct (i - length (log st))%nat as [|k] eqn:Ek; cbn [nth_error] in Hnth; [|destruct k; discriminate].
      inversion Hnth; subst s0. right. exists t, (th_goto th (PStore s (Z.of_nat (length (log st))))).
      split; [eapply nth_error_upd_same; exact Hn|]. cbn [th_goto pc]. f_equal. lia.
  - (* Store by t *)
    destruct (HW s i0 HI Hn eq_refl) as (Ew & Hi & Hnth0).
    specialize (HLP s HI Hn (is_leader_refl_store s i0)).
    destruct (inv_owner st HI i s0 Hnth) as [HD|(t1 & th1 & Hn1 & Hp)].
    + left. destruct (str_eq_dec s s0) as [->|Hne]; [congruence|]. now rewrite idx_set_other by congruence.
    + destruct (Nat.eq_dec t1 t) as [->|Hne]; [|right; now apply (Hother t1 th1)].
      rewrite Hn in Hn1. inversion Hn1; subst th1. rewrite Epc in Hp. inversion Hp; subst.
      left. rewrite idx_set_same, Ew. reflexivity.
  - (* poison *)
    specialize (HLP s HI Hn (is_leader_refl_poison s)).
    apply Hold; [intros j; congruence|exact Hnth|]. intros HD.
    destruct (str_eq_dec s s0) as [->|Hne]; [congruence|]. now rewrite idx_set_other by congruence.
Qed.

Lemma step_preserves st t st' : Inv st -> step st t = Some st' -> Inv st'.
Proof.
  intros HI H. destruct (step_inv st t st' HI H) as (th & ix & lg & th' & Hn & Hs & ->).
  constructor; cbn [index log threads].
  - eapply step_cnt; eassumption.
  - eapply step_len; eassumption.
  - eapply step_done; eassumption.
  - eapply step_owner; eassumption.
  - eapply step_hist; eassumption.
  - eapply step_poison; eassumption.
  - intros t1 th1 Hn1. destruct (nth_error_upd _ _ _ _ _ Hn1) as [[-> ->]|[Hne Hn0]].
    + eapply step_th_ok; eassumption.
    + apply (th_ok_adv (index st) (log st)); [apply (step_adv st t th ix lg th' HI Hn Hs)|]. now apply (inv_th st HI t1).
Qed.

Lemma nleaders_start progs s : nleaders (map th_start progs) s = 0%nat.
Proof.
  induction progs as [|p r IH]; [reflexivity|]. cbn [map nleaders]. rewrite IH.
  destruct p; reflexivity.
Qed.

Lemma init_inv progs : Inv (init progs).
Proof.
  constructor; cbn [init index log threads].
  - intros s. apply nleaders_start.
  - cbn. unfold log_limit. lia.
  - intros s id H. discriminate.
  - intros i s H. destruct i; discriminate.
  - intros s id H. discriminate.
  - intros s H. discriminate.
  - intros t th Hn. apply nth_error_In in Hn. apply in_map_iff in Hn. destruct Hn as (p & <- & _).
    destruct p as [|s r]; constructor; cbn [th_start pc res]; try (intros; discriminate); try (intros ? ? []).
    + intros [E|[s E]]; discriminate.
    + intros [E|[s0 E]]; discriminate.
Qed.

Lemma step_or_stutter_inv st t : Inv st -> Inv (step_or_stutter st t).
Proof.
  intros HI. unfold step_or_stutter. destruct (step st t) as [st'|] eqn:E; [|exact HI].
  eapply step_preserves; eassumption.
Qed.

Lemma run_inv sched : forall st, Inv st -> Inv (run sched st).
Proof.
  induction sched as [|t r IH]; intros st HI; [exact HI|]. cbn [run fold_left].
  apply IH. now apply step_or_stutter_inv.
Qed.

Lemma reachable_inv progs sched : Inv (run sched (init progs)).
Proof. apply run_inv, init_inv. Qed.

(* ------------------------------------------------------------------ consequences of the invariant *)
Lemma inv_equal_strings st : Inv st -> forall t1 th1 t2 th2 s id1 id2,
  nth_error (threads st) t1 = Some th1 -> nth_error (threads st) t2 = Some th2 ->
  In (s, id1) (res th1) -> In (s, id2) (res th2) -> id1 = id2.
Proof.
  intros HI t1 th1 t2 th2 s id1 id2 H1 H2 I1 I2.
  destruct (ok_res _ _ _ (inv_th st HI t1 th1 H1) s id1 I1) as [E1|[E1 D1]];
  destruct (ok_res _ _ _ (inv_th st HI t2 th2 H2) s id2 I2) as [E2|[E2 D2]]; congruence.
Qed.

Lemma inv_classes st : Inv st -> forall t th s id,
  nth_error (threads st) t = Some th -> In (s, id) (res th) ->
  (s = [] /\ id = 0) \/ (s <> [] /\ encode s = Some id /\ -1073741824 <= id <= -2) \/
  (encode s = None /\ 1 <= id <= Z.of_nat (length (log st)) /\ index st s = Done id).
Proof.
  intros HI t th s id Hn Hin.
  destruct (ok_res _ _ _ (inv_th st HI t th Hn) s id Hin) as [E|[E D]].
  - destruct (char6_image_lemma s id E) as [[-> ->]|[Hne Hb]]; [now left|right; left; tauto].
  - right; right. destruct (inv_done st HI s id D) as [H1 H2].
    assert (HL : (Z.to_nat (id - 1) < length (log st))%nat) by (apply nth_error_Some; congruence).
    split; [exact E|]. split; [lia|exact D].
Qed.

Lemma inv_distinct_strings st : Inv st -> forall t1 th1 t2 th2 s1 s2 id,
  nth_error (threads st) t1 = Some th1 -> nth_error (threads st) t2 = Some th2 ->
  In (s1, id) (res th1) -> In (s2, id) (res th2) -> s1 = s2.
Proof.
  intros HI t1 th1 t2 th2 s1 s2 id H1 H2 I1 I2.
  destruct (inv_classes st HI t1 th1 s1 id H1 I1) as [[-> E1]|[(N1 & E1 & B1)|(E1 & B1 & D1)]];
  destruct (inv_classes st HI t2 th2 s2 id H2 I2) as [[-> E2]|[(N2 & E2 & B2)|(E2 & B2 & D2)]];
    try reflexivity; try lia.
  - eapply char6_injective_lemma; eassumption.
  - destruct (inv_done st HI s1 id D1) as [_ Hn1]. destruct (inv_done st HI s2 id D2) as [_ Hn2]. congruence.
Qed.

Lemma inv_value st : Inv st -> forall t th s id,
  nth_error (threads st) t = Some th -> In (s, id) (res th) -> value (log st) id = Some s.
Proof.
  intros HI t th s id Hn Hin. unfold value.
  destruct (inv_classes st HI t th s id Hn Hin) as [[-> ->]|[(N & E & B)|(E & B & D)]].
  - reflexivity.
  - replace (id <=? 0) with true by (symmetry; apply Z.leb_le; lia). f_equal. now apply char6_roundtrip_lemma.
  - replace (id <=? 0) with false by (symmetry; apply Z.leb_gt; lia). apply (inv_done st HI s id D).
Qed.

Lemma inv_nodup st : Inv st -> NoDup (log st).
Proof.
  intros HI. apply NoDup_nth_error. intros i j Hi Heq.
  destruct (nth_error (log st) i) as [s|] eqn:Ei; [|apply nth_error_None in Ei; lia].
  symmetry in Heq.
  destruct (inv_owner st HI i s Ei) as [Di|(t1 & th1 & Hn1 & Hp1)];
  destruct (inv_owner st HI j s Heq) as [Dj|(t2 & th2 & Hn2 & Hp2)].
  - rewrite Di in Dj. inversion Dj. lia.
  - assert (HL : is_leader (pc th2) s = true) by (rewrite Hp2; apply is_leader_refl_store).
    rewrite (leader_pending st t2 th2 s HI Hn2 HL) in Di. discriminate.
  - assert (HL : is_leader (pc th1) s = true) by (rewrite Hp1; apply is_leader_refl_store).
    rewrite (leader_pending st t1 th1 s HI Hn1 HL) in Dj. discriminate.
  - assert (HL1 : is_leader (pc th1) s = true) by (rewrite Hp1; apply is_leader_refl_store).
    assert (HL2 : is_leader (pc th2) s = true) by (rewrite Hp2; apply is_leader_refl_store).
    destruct (Nat.eq_dec t1 t2) as [->|Hne].
    + rewrite Hn1 in Hn2. inversion Hn2; subst th2. rewrite Hp1 in Hp2. inversion Hp2. lia.
    + pose proof (nleaders_ge2 _ _ _ _ _ s Hne Hn1 Hn2 HL1 HL2) as H2.
      rewrite (inv_cnt st HI s) in H2. destruct (index st s); lia.
Qed.

Lemma inv_no_panic st : Inv st -> forall t th,
  nth_error (threads st) t = Some th -> pc th = Panicked -> log_full (log st).
Proof. intros HI t th Hn Hp. apply (ok_full _ _ _ (inv_th st HI t th Hn)). now left. Qed.

(* Query *)
Lemma query_present_iff_lemma : forall ix s,
  snd (query ix s) = true <-> (inline_domain s \/ exists id, ix s = Done id).
Proof.
  intros ix s. unfold query. rewrite <- char6_encodable_iff_lemma.
  destruct (encode s) as [id|] eqn:E; cbn [snd].
  - split; [intros _; left; discriminate|reflexivity].
  - destruct (ix s) as [| |id|] eqn:Ei; cbn [snd]; split; try discriminate; try (intros [H|[id' H]]; congruence).
    intros _. right. now exists id.
Qed.

Lemma query_id_lemma : forall ix s id,
  query ix s = (id, true) <-> (encode s = Some id \/ (encode s = None /\ ix s = Done id)).
Proof.
  intros ix s id. unfold query. destruct (encode s) as [id'|] eqn:E.
  - split; [intros H; inversion H; now left|intros [H|[H _]]; [now inversion H|discriminate]].
  - destruct (ix s) as [| |id'|] eqn:Ei; split; try discriminate;
      try (intros [H|[_ H]]; discriminate).
    + intros H; inversion H; right; split; reflexivity.
    + intros [H|[_ H]]; [discriminate|now inversion H].
Qed.

Lemma inv_query_history st : Inv st -> forall s,
  snd (query (index st) s) = true <->
  (inline_domain s \/ exists t th id, nth_error (threads st) t = Some th /\ In (s, id) (res th)).
Proof.
  intros HI s. rewrite query_present_iff_lemma. split.
  - intros [H|[id H]]; [now left|right].
    destruct (inv_hist st HI s id H) as (t & th & Hn & Hin). now exists t, th, id.
  - intros [H|(t & th & id & Hn & Hin)]; [now left|].
    destruct (ok_res _ _ _ (inv_th st HI t th Hn) s id Hin) as [E|[E D]].
    + left. apply char6_encodable_iff_lemma. congruence.
    + right. now exists id.
Qed.

(* ------------------------------------------------------------------ deadlock freedom *)
Lemma th_step_enabled ix lg th : th_final th = false -> th_step ix lg th <> None.
Proof.
  unfold th_final, th_step. destruct (pc th); try discriminate; intros _;
    repeat match goal with
    | |- context [match encode ?s with _ => _ end] => destruct (encode s)
    | |- context [match ix ?s with _ => _ end] => destruct (ix s)
    | |- context [if ?b then _ else _] => destruct b
    end; discriminate.
Qed.

Lemma final_false_exists st : final st = false ->
  exists t th, nth_error (threads st) t = Some th /\ th_final th = false.
Proof.
  unfold final. intros H.
  assert (Hex : exists th, In th (threads st) /\ th_final th = false).
  { induction (threads st) as [|a r IH]; cbn [forallb] in H; [discriminate|].
    destruct (th_final a) eqn:E.
    - destruct (IH H) as (th & Hin & Hf). exists th. split; [now right|exact Hf].
    - exists a. split; [now left|exact E]. }
  destruct Hex as (th & Hin & Hf). apply In_nth_error in Hin. destruct Hin as [t Hn]. now exists t, th.
Qed.

Lemma nonfinal_steps st t th : nth_error (threads st) t = Some th -> th_final th = false ->
  exists st', step st t = Some st'.
Proof.
  intros Hn Hf. unfold step. rewrite Hn.
  destruct (th_step (index st) (log st) th) as [[[ix lg] th']|] eqn:E; [now eexists|].
  exfalso. now apply (th_step_enabled (index st) (log st) th Hf).
Qed.

Lemma deadlock_free_lemma : forall st, final st = true \/ exists t st', step st t = Some st'.
Proof.
  intros st. destruct (final st) eqn:E; [now left|right].
  destruct (final_false_exists st E) as (t & th & Hn & Hf).
  destruct (nonfinal_steps st t th Hn Hf) as [st' Hs]. now exists t, st'.
Qed.

(* ------------------------------------------------------------------ termination under weak fairness *)
(* A measure that no step increases and that every step decreases, except a turn of the
   Gosched loop (LoadOrStore -> Load -> Gosched) of a thread whose key is still pending;
   in that case the key has a leader whose every step decreases the measure. *)
Definition pc_weight (ix : index_t) (p : pc_t) : nat :=
  match p with
  | Idle | Panicked => 0
  | PQuery _ => 12
  | PQuery2 _ => 11
  | PLos s => match ix s with Absent | Pending => 10 | _ => 8 end
  | PLoadVal s => match ix s with Done _ => 7 | _ => 10 end
  | PSpin s => match ix s with Done _ | Poisoned => 9 | _ => 10 end
  | PAppend _ => 6
  | PStore _ _ => 5
  | PPoison _ => 5
  end%nat.

Definition th_weight (ix : index_t) (th : thread) : nat :=
  (13 * length (todo th) + pc_weight ix (pc th))%nat.

Fixpoint weight_list (ix : index_t) (l : list thread) : nat :=
  match l with
  | [] => 0%nat
  | th :: r => (th_weight ix th + weight_list ix r)%nat
  end.

Definition weight (st : state) : nat := weight_list (index st) (threads st).

Definition spinning (ix : index_t) (th : thread) : Prop :=
  exists s, (pc th = PLos s \/ pc th = PLoadVal s \/ pc th = PSpin s) /\ ix s = Pending.

Lemma pc_weight_adv ix ix' p : (forall k, slot_adv (ix k) (ix' k)) ->
  (pc_weight ix' p <= pc_weight ix p)%nat.
Proof.
  intros Hs. destruct p; cbn [pc_weight]; try lia;
    specialize (Hs s); destruct (ix s) eqn:E1; destruct (ix' s) eqn:E2; try lia;
    exfalso; destruct Hs as [Eq|[[A B]|[[A [? B]]|[A B]]]]; congruence.
Qed.

Lemma th_weight_adv ix ix' th : (forall k, slot_adv (ix k) (ix' k)) ->
  (th_weight ix' th <= th_weight ix th)%nat.
Proof. intros Hs. unfold th_weight. pose proof (pc_weight_adv ix ix' (pc th) Hs). lia. Qed.

Lemma weight_list_upd ix ix' l : forall t th th' d, nth_error l t = Some th ->
  (forall x, th_weight ix' x <= th_weight ix x)%nat ->
  (th_weight ix' th' + d <= th_weight ix th)%nat ->
  (weight_list ix' (upd_nth t th' l) + d <= weight_list ix l)%nat.
Proof.
  induction l as [|a r IH]; intros t th th' d Hn Hall Hd; destruct t; cbn [nth_error] in Hn; try discriminate.
  - inversion Hn; subst. cbn [upd_nth weight_list].
    assert (Hr : (weight_list ix' r <= weight_list ix r)%nat).
    { clear - Hall. induction r as [|b q IHq]; cbn [weight_list]; [lia|]. specialize (Hall b). lia. }
    lia.
  - cbn [upd_nth weight_list]. specialize (IH t th th' d Hn Hall Hd). specialize (Hall a). lia.
Qed.

Lemma return_weight ix th s id : (th_weight ix (th_return th s id) <= 13 * length (todo th))%nat.
Proof. unfold th_return, th_weight. destruct (todo th); cbn [todo pc length pc_weight]; lia. Qed.

Lemma return_nonfinal_or_done th s id :
  th_final (th_return th s id) = true -> todo th = [].
Proof. unfold th_return. destruct (todo th); cbn; [reflexivity|discriminate]. Qed.

(* the stepping thread *)
Lemma step_th_weight st t th ix lg th' : Inv st -> nth_error (threads st) t = Some th ->
  th_step (index st) (log st) th = Some (ix, lg, th') ->
  (th_weight ix th' + 1 <= th_weight (index st) th)%nat \/
  (th_weight ix th' <= th_weight (index st) th /\ spinning (index st) th /\ th_final th' = false)%nat.
Proof.
  intros HI Hn H.
  pose proof (ok_wait _ _ _ (inv_th st HI t th Hn)) as Hw.
  unfold th_weight at 2 4. unfold spinning.
  th_step_cases H;
    try (left; match goal with |- context [th_return ?th ?s ?id] =>
                 pose proof (return_weight (index st) th s id);
                 try pose proof (return_weight (idx_set (index st) s (Done id)) th s id) end;
         cbn [pc_weight]; try rewrite Eix; lia);
    unfold th_weight; cbn [th_goto todo pc pc_weight]; try rewrite Eix;
    try (left; lia).
  - (* LoadOrStore, key pending *)
    right. split; [lia|]. split; [|reflexivity]. exists s. split; [now left|exact Eix].
  - (* Load, key absent: impossible *)
    exfalso. apply (Hw s eq_refl). exact Eix.
  - (* Load, key pending *)
    right. split; [lia|]. split; [|reflexivity]. exists s. split; [right; now left|exact Eix].
  - (* Gosched *)
    destruct (index st s) eqn:Eix; try (left; lia).
    + exfalso. now apply (Hw s eq_refl).
    + right. split; [lia|]. split; [|reflexivity]. exists s. split; [right; now right|exact Eix].
Qed.

Lemma step_weight st t st' : Inv st -> step st t = Some st' ->
  (weight st' + 1 <= weight st)%nat \/
  ((weight st' <= weight st)%nat /\
   exists th th', nth_error (threads st) t = Some th /\ spinning (index st) th /\
                  nth_error (threads st') t = Some th' /\ th_final th' = false).
Proof.
  intros HI H. destruct (step_inv st t st' HI H) as (th & ix & lg & th' & Hn & Hs & ->).
  destruct (step_adv st t th ix lg th' HI Hn Hs) as [Hadv _].
  pose proof (fun x => th_weight_adv (index st) ix x Hadv) as Hall.
  unfold weight. cbn [index threads].
  destruct (step_th_weight st t th ix lg th' HI Hn Hs) as [Hd|(Hd & Hspin & Hf)].
  - left. apply (weight_list_upd (index st) ix (threads st) t th th' 1 Hn Hall Hd).
  - right. split.
    + pose proof (weight_list_upd (index st) ix (threads st) t th th' 0 Hn Hall ltac:(lia)). lia.
    + exists th, th'. split; [exact Hn|]. split; [exact Hspin|]. split; [|exact Hf].
      eapply nth_error_upd_same; exact Hn.
Qed.

Lemma step_weight_le st t : Inv st -> (weight (step_or_stutter st t) <= weight st)%nat.
Proof.
  intros HI. unfold step_or_stutter. destruct (step st t) as [st'|] eqn:E; [|lia].
  destruct (step_weight st t st' HI E) as [H|[H _]]; lia.
Qed.

Lemma step_other_thread st t st' u : step st t = Some st' -> u <> t ->
  nth_error (threads st') u = nth_error (threads st) u.
Proof.
  intros H Hne. unfold step in H. destruct (nth_error (threads st) t) as [th|]; [|discriminate].
  destruct (th_step (index st) (log st) th) as [[[ix lg] th']|]; [|discriminate].
  inversion H. cbn [threads]. now apply nth_error_upd_other.
Qed.

Lemma step_threads_length st t st' : step st t = Some st' -> length (threads st') = length (threads st).
Proof.
  intros H. unfold step in H. destruct (nth_error (threads st) t) as [th|]; [|discriminate].
  destruct (th_step (index st) (log st) th) as [[[ix lg] th']|]; [|discriminate].
  inversion H. cbn [threads]. apply upd_nth_length.
Qed.

Section Fair.
  Variable progs : list (list str).
  Variable sched : nat -> nat.
  (* weak fairness: every thread is scheduled again and again (a thread that still has a
     step to take is always enabled in this system, so this is weak fairness) *)
  Hypothesis fair : forall t, (t < length progs)%nat -> forall k, exists m, (k <= m)%nat /\ sched m = t.

  Let S (k : nat) : state := run_inf sched k (init progs).

  Lemma S_succ k : S (Datatypes.S k) = step_or_stutter (S k) (sched k).
  Proof. reflexivity. Qed.

  Lemma S_inv k : Inv (S k).
  Proof.
    induction k as [|k IH]; [apply init_inv|]. rewrite S_succ. now apply step_or_stutter_inv.
  Qed.

  Lemma S_length k : length (threads (S k)) = length progs.
  Proof.
    induction k as [|k IH]; [cbn; apply map_length|]. rewrite S_succ. unfold step_or_stutter.
    destruct (step (S k) (sched k)) as [st'|] eqn:E; [|exact IH].
    rewrite (step_threads_length _ _ _ E). exact IH.
  Qed.

  Lemma S_weight_mono k d : (weight (S (k + d)) <= weight (S k))%nat.
  Proof.
    induction d as [|d IH]; [rewrite Nat.add_0_r; lia|].
    rewrite Nat.add_succ_r, S_succ. pose proof (step_weight_le (S (k + d)) (sched (k + d)) (S_inv _)). lia.
  Qed.

  Lemma leader_not_spinning ix th s : is_leader (pc th) s = true -> ~ spinning ix th.
  Proof.
    intros HL (s' & [E|[E|E]] & _); rewrite E in HL; discriminate.
  Qed.

  (* a leader keeps its place until it moves, and its move decreases the measure *)
  Lemma leader_stable k u thu s : nth_error (threads (S k)) u = Some thu ->
    is_leader (pc thu) s = true ->
    forall d, (weight (S (k + d)) + 1 <= weight (S k))%nat \/ nth_error (threads (S (k + d))) u = Some thu.
  Proof.
    intros Hn HL d. induction d as [|d IH]; [right; now rewrite Nat.add_0_r|].
    assert (Estep : S (k + Datatypes.S d) = step_or_stutter (S (k + d)) (sched (k + d)))
      by (rewrite Nat.add_succ_r; apply S_succ).
    pose proof (step_weight_le (S (k + d)) (sched (k + d)) (S_inv _)) as Hm1.
    pose proof (S_weight_mono k d) as Hm0.
    rewrite Estep. unfold step_or_stutter in *.
    destruct IH as [IH|IH]; [left; lia|].
    destruct (step (S (k + d)) (sched (k + d))) as [st'|] eqn:E; [|right; exact IH].
    destruct (Nat.eq_dec u (sched (k + d))) as [Heq|Hne].
    - left. destruct (step_weight _ _ _ (S_inv _) E) as [Hd|[_ (th & th' & Hn2 & Hsp & _)]].
      + lia.
      + exfalso. rewrite <- Heq, IH in Hn2. inversion Hn2; subst th.
        now apply (leader_not_spinning _ _ _ HL Hsp).
    - right. rewrite (step_other_thread _ _ _ u E Hne). exact IH.
  Qed.

  (* a thread that is not finished stays unfinished unless the measure drops *)
  Lemma nonfinal_stable k t th : nth_error (threads (S k)) t = Some th -> th_final th = false ->
    forall d, (weight (S (k + d)) + 1 <= weight (S k))%nat \/
              exists th2, nth_error (threads (S (k + d))) t = Some th2 /\ th_final th2 = false.
  Proof.
    intros Hn Hf d. induction d as [|d IH]; [right; rewrite Nat.add_0_r; now exists th|].
    assert (Estep : S (k + Datatypes.S d) = step_or_stutter (S (k + d)) (sched (k + d)))
      by (rewrite Nat.add_succ_r; apply S_succ).
    pose proof (step_weight_le (S (k + d)) (sched (k + d)) (S_inv _)) as Hm1.
    pose proof (S_weight_mono k d) as Hm0.
    rewrite Estep. unfold step_or_stutter in *.
    destruct IH as [IH|(th2 & Hn2 & Hf2)]; [left; lia|].
    destruct (step (S (k + d)) (sched (k + d))) as [st'|] eqn:E; [|right; now exists th2].
    destruct (Nat.eq_dec t (sched (k + d))) as [Heq|Hne].
    - destruct (step_weight _ _ _ (S_inv _) E) as [Hd|[_ (th0 & th' & _ & _ & Hn' & Hf')]].
      + left. lia.
      + right. exists th'. rewrite Heq. split; assumption.
    - right. exists th2. rewrite (step_other_thread _ _ _ t E Hne). split; assumption.
  Qed.

  Lemma terminates_below : forall w k, (weight (S k) < w)%nat -> exists n, final (S n) = true.
  Proof.
    induction w as [|w IHw]; intros k Hk; [lia|].
    destruct (final (S k)) eqn:Efin; [now exists k|].
    destruct (final_false_exists _ Efin) as (t & th & Hn & Hf).
    assert (Ht : (t < length progs)%nat).
    { rewrite <- (S_length k). apply nth_error_Some. congruence. }
    destruct (fair t Ht k) as (m & Hkm & Hsm).
    replace m with (k + (m - k))%nat in * by lia. set (d := (m - k)%nat) in *.
    pose proof (S_weight_mono k d) as Hmono.
    destruct (nonfinal_stable k t th Hn Hf d) as [Hdrop|(th2 & Hn2 & Hf2)].
    { apply (IHw (k + d)%nat). lia. }
    destruct (nonfinal_steps _ _ _ Hn2 Hf2) as [st' Hst].
    assert (Hnext : S (Datatypes.S (k + d)) = st').
    { rewrite S_succ, Hsm. unfold step_or_stutter. now rewrite Hst. }
    destruct (step_weight _ _ _ (S_inv _) Hst) as [Hd|[Hle (th0 & th' & Hn0 & Hsp & _)]].
    { apply (IHw (Datatypes.S (k + d))). rewrite Hnext. lia. }
    (* t is turning in the Gosched loop: its key is pending, so the key has a leader *)
    destruct Hsp as (s & _ & Hpend).
    pose proof (inv_cnt _ (S_inv (k + d)) s) as Hcnt. rewrite Hpend in Hcnt.
    destruct (nleaders_exists (threads (S (k + d))) s ltac:(rewrite Hcnt; lia)) as (u & thu & Hnu & HLu).
    assert (Hu : (u < length progs)%nat).
    { rewrite <- (S_length (k + d)). apply nth_error_Some. congruence. }
    destruct (fair u Hu (k + d)%nat) as (m2 & Hkm2 & Hsm2).
    replace m2 with ((k + d) + (m2 - (k + d)))%nat in * by lia. set (d2 := (m2 - (k + d))%nat) in *.
    pose proof (S_weight_mono (k + d) d2) as Hmono2.
    destruct (leader_stable (k + d) u thu s Hnu HLu d2) as [Hdrop|Hsame].
    { apply (IHw (k + d + d2)%nat). lia. }
    assert (Hfu : th_final thu = false).
    { apply is_leader_true in HLu. unfold th_final. destruct HLu as [E|[[i E]|E]]; now rewrite E. }
    destruct (nonfinal_steps _ _ _ Hsame Hfu) as [st2 Hst2].
    assert (Hnext2 : S (Datatypes.S (k + d + d2)) = st2).
    { rewrite S_succ, Hsm2. unfold step_or_stutter. now rewrite Hst2. }
    destruct (step_weight _ _ _ (S_inv _) Hst2) as [Hd|[_ (th3 & th3' & Hn3 & Hsp3 & _)]].
    - apply (IHw (Datatypes.S (k + d + d2))). rewrite Hnext2. lia.
    - exfalso. rewrite Hsame in Hn3. inversion Hn3; subst th3.
      now apply (leader_not_spinning _ _ _ HLu Hsp3).
  Qed.

  Lemma terminates_fair_section : exists n, final (run_inf sched n (init progs)) = true.
  Proof. apply (terminates_below (Datatypes.S (weight (S 0))) 0). lia. Qed.
End Fair.

Lemma terminates_weak_fairness_lemma : forall (progs : list (list str)) (sched : nat -> nat),
  (forall t, (t < length progs)%nat -> forall k, exists m, (k <= m)%nat /\ sched m = t) ->
  exists n, final (run_inf sched n (init progs)) = true.
Proof. exact terminates_fair_section. Qed.

(* ------------------------------------------------------------------ byte-slice entry points *)
(* A history through InternBytes / QueryBytes with the caller overwriting its buffers between
   calls answers exactly like the string history on the contents at call time: the table keeps
   values, so no later write reaches a key or a log entry. *)
Lemma bytes_snapshot_lemma : forall ops hp ix lg,
  run_bops hp ix lg ops = run_ops ix lg (resolve_bops hp ops).
Proof.
  induction ops as [|o r IH]; intros hp ix lg; [reflexivity|].
  destruct o as [o|b|b|b s].
  - cbn [run_bops resolve_bops run_ops]. destruct o as [s|s|id].
    + destruct (intern_seq ix lg s) as [[ix1 lg1] ob]. rewrite IH. reflexivity.
    + destruct (query ix s) as [id ok]. rewrite IH. reflexivity.
    + rewrite IH. reflexivity.
  - cbn [run_bops resolve_bops run_ops].
    destruct (intern_seq ix lg (hp b)) as [[ix1 lg1] ob]. rewrite IH. reflexivity.
  - cbn [run_bops resolve_bops run_ops].
    destruct (query ix (hp b)) as [id ok]. rewrite IH. reflexivity.
  - cbn [run_bops resolve_bops]. apply IH.
Qed.

(* in particular a write AFTER a call changes no later answer: the two histories below differ
   only in what the caller does to buffer b after InternBytes(b) returned *)
Lemma bytes_write_after_call_lemma : forall hp ix lg b s ops,
  (forall o, In o ops -> match o with BOp _ => True | _ => False end) ->
  run_bops hp ix lg (BInternBytes b :: BWrite b s :: ops) = run_bops hp ix lg (BInternBytes b :: ops).
Proof.
  intros hp ix lg b s ops Hops. rewrite !bytes_snapshot_lemma.
  cbn [resolve_bops]. f_equal. f_equal.
  revert hp. induction ops as [|o r IH]; intros hp; [reflexivity|].
  destruct o as [o|b2|b2|b2 s2]; try (exfalso; exact (Hops _ (or_introl eq_refl))).
  cbn [resolve_bops]. f_equal. apply IH. intros o' Ho'. apply Hops. right. exact Ho'.
Qed.


(* ------------------------------------------------------------------ examples (non-vacuity) *)
Definition ex_key : str := [118;101;114;121;108;111;110;103]%N.   (* not inline: 8 symbols *)
Definition ex_inline : str := [97;98;99]%N.                       (* inline *)

Lemma example_char6 :
  encode ex_inline = Some (-212278) /\ decode (-212278) = ex_inline /\ encode ex_key = None /\
  encode [97;46]%N = None /\ encode [46;97]%N = Some (-3393).
Proof. vm_compute. repeat split; reflexivity. Qed.

Lemma example_contention :
  let progs := [[ex_key; ex_inline]; [ex_key]] in
  let mid := run [0;0;1;1;1;1]%nat (init progs) in
  let fin := run [0;0;1;1;1;1;1;1;0;0;1;1;0;0]%nat (init progs) in
  map pc (threads mid) = [PAppend ex_key; PSpin ex_key] /\
  final fin = true /\
  map res (threads fin) = [[(ex_key, 1); (ex_inline, -212278)]; [(ex_key, 1)]] /\
  log fin = [ex_key] /\ value (log fin) 1 = Some ex_key /\ query (index fin) ex_key = (1, true).
Proof. vm_compute. repeat split; reflexivity. Qed.

Lemma example_fair :
  forall t, (t < 2)%nat -> forall k, exists m, (k <= m)%nat /\ Nat.modulo m 2 = t.
Proof.
  intros t Ht k. exists (t + k * 2)%nat. split; [lia|].
  rewrite Nat.mod_add by discriminate. apply Nat.mod_small. exact Ht.
Qed.

Lemma example_bytes :
  let ops := [BWrite 0 ex_key; BInternBytes 0; BWrite 0 [120;120;120;120;120;120;120;120]%N;
              BOp (OQuery ex_key); BOp (OIntern ex_key); BOp (OValue 1); BQueryBytes 0; BInternBytes 0] in
  snd (run_bops heap_empty idx_empty [] ops) =
  [RIntern 1; RQuery 1 true; RIntern 1; RValue (Some ex_key); RQuery 0 false; RIntern 2].
Proof. vm_compute. reflexivity. Qed.
