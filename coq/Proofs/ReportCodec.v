(* Proofs about the report codec model (C37). *)
From Coq Require Import List ZArith NArith Bool Lia Permutation.
From PV Require Import Common.Corr Model.ReportCodec.
Import ListNotations.
Open Scope Z_scope.

(* ---------- small facts ---------- *)
Lemma str_eqb_eq a b : str_eqb a b = true <-> a = b.
Proof.
  unfold str_eqb, list_N_eqb. destruct (list_eq_dec N.eq_dec a b) as [E|E]; split; intro H; auto; discriminate.
Qed.

Lemma str_eqb_refl a : str_eqb a a = true.
Proof. now apply str_eqb_eq. Qed.

Lemma u32_small z : u32_ok z -> u32 z = z.
Proof. unfold u32_ok, u32. intros H. now apply Z.mod_small. Qed.

Lemma wrap8_small z : -128 <= z < 128 -> wrap8 z = z.
Proof. unfold wrap8. intros H. rewrite Z.mod_small by lia. lia. Qed.

Lemma find_path_none p fs i : find_path p fs i = None -> ~ In p (map pf_path fs).
Proof.
  revert i. induction fs as [|f r IH]; intros i H; cbn [find_path map In] in *.
  - tauto.
  - destruct (str_eqb (pf_path f) p) eqn:E; [discriminate|].
    intros [H1|H1].
    + subst p. rewrite str_eqb_refl in E. discriminate.
    + exact (IH _ H H1).
Qed.

Lemma find_path_some p fs i k :
  find_path p fs i = Some k ->
  exists j pf, k = (i + j)%nat /\ nth_error fs j = Some pf /\ pf_path pf = p.
Proof.
  revert i. induction fs as [|f r IH]; intros i H; cbn [find_path] in *.
  - discriminate.
  - destruct (str_eqb (pf_path f) p) eqn:E.
    + injection H as H. exists 0%nat, f. apply str_eqb_eq in E. repeat split; auto; lia.
    + destruct (IH _ H) as (j & pf & H1 & H2 & H3). exists (S j), pf. repeat split; auto; lia.
Qed.

Lemma nth_error_ext {A} (l ext : list A) i x : nth_error l i = Some x -> nth_error (l ++ ext) i = Some x.
Proof.
  intros H. rewrite nth_error_app1; auto. apply nth_error_Some. congruence.
Qed.

Lemma NoDup_app_one {A} (l : list A) x : NoDup l -> ~ In x l -> NoDup (l ++ [x]).
Proof.
  intros ND NI. induction l as [|y r IH]; cbn [app].
  - constructor; [auto|constructor].
  - inversion ND; subst. constructor.
    + rewrite in_app_iff. cbn [In]. intros [H|[H|[]]]; [auto|]. subst. apply NI. now left.
    + apply IH; auto. intros H. apply NI. now right.
Qed.

(* ---------- the file table ---------- *)
Definition spath (s : snippet) : str := f_path (s_file s).
Definition stext (s : snippet) : str := f_text (s_file s).

Definition path_consistent (ALL : list snippet) : Prop :=
  forall s1 s2, In s1 ALL -> In s2 ALL -> spath s1 = spath s2 -> s_file s1 = s_file s2.

(* every entry of the table is the file of some snippet of the report, paths are distinct *)
Definition tbl_ok (ALL : list snippet) (files : list pfile) : Prop :=
  NoDup (map pf_path files) /\
  forall pf, In pf files -> exists s, In s ALL /\ spath s = pf_path pf /\ stext s = pf_text pf.

Definition same_paths (seen : list str) (files : list pfile) : Prop :=
  forall p, In p seen <-> In p (map pf_path files).

Definition Rel (F : list pfile) (s : snippet) (a : pannot) : Prop :=
  exists idx, a = enc_annot idx s /\ nth_error F idx = Some (mkpfile (spath s) (stext s)).

Lemma Rel_ext F ext s a : Rel F s a -> Rel (F ++ ext) s a.
Proof. intros (idx & H1 & H2). exists idx. split; auto. now apply nth_error_ext. Qed.

Lemma Forall2_Rel_ext F ext ss anns : Forall2 (Rel F) ss anns -> Forall2 (Rel (F ++ ext)) ss anns.
Proof. induction 1; constructor; auto using Rel_ext. Qed.

Lemma span_text_whole s : whole s -> span_text s = Some (stext s).
Proof.
  unfold whole, span_text, stext, len. intros [H1 H2]. rewrite H1, H2.
  replace (0 <? 0) with false by reflexivity.
  rewrite Z.ltb_irrefl.
  replace (Z.of_nat (length (f_text (s_file s))) <? 0) with false by (symmetry; apply Z.ltb_ge; lia).
  cbn [orb]. rewrite Z.sub_0_r, Nat2Z.id. cbn [Z.to_nat skipn]. now rewrite firstn_all.
Qed.

Lemma enc_snip_ok v ALL files seen s :
  path_consistent ALL -> tbl_ok ALL files -> same_paths seen files -> In s ALL ->
  (fix_text v = false -> ~ In (spath s) seen -> whole s) ->
  exists files' a, enc_snip v files s = Some (files', a) /\
    (exists ext, files' = files ++ ext) /\ tbl_ok ALL files' /\
    same_paths (spath s :: seen) files' /\ Rel files' s a.
Proof.
  intros PC [ND TB] SP IN FU. unfold enc_snip. fold (spath s).
  destruct (find_path (spath s) files 0) as [k|] eqn:FP.
  - apply find_path_some in FP. destruct FP as (j & pf & Hk & Hn & Hp). cbn in Hk. subst k.
    exists files, (enc_annot j s). split; [reflexivity|]. split; [exists []; now rewrite app_nil_r|].
    split; [split; assumption|]. split.
    + intros p. cbn [In]. split.
      * intros [H|H]; [|now apply SP]. subst p. rewrite <- Hp. apply in_map. eapply nth_error_In; eauto.
      * intros H. right. now apply SP.
    + exists j. split; auto. rewrite Hn. f_equal.
      destruct (TB pf (nth_error_In _ _ Hn)) as (s0 & I0 & P0 & T0).
      assert (E : s_file s0 = s_file s) by (apply PC; auto; congruence).
      destruct pf as [pp pt]. cbn in *. unfold stext in *. rewrite <- E. congruence.
  - pose proof (find_path_none _ _ _ FP) as NI.
    assert (VT : vtext v s = Some (stext s)).
    { unfold vtext. destruct (fix_text v) eqn:FT; [reflexivity|]. apply span_text_whole. apply FU; auto.
      intros H. apply NI. now apply SP. }
    rewrite VT.
    exists (files ++ [mkpfile (spath s) (stext s)]), (enc_annot (length files) s).
    split; [reflexivity|]. split; [eexists; reflexivity|]. split; [split|split].
    + rewrite map_app. cbn [map pf_path]. apply NoDup_app_one; auto.
    + intros pf H. apply in_app_or in H. destruct H as [H|[H|[]]]; [now apply TB|]. subst pf. exists s. auto.
    + intros p. rewrite map_app, in_app_iff. cbn [In map pf_path]. split.
      * intros [H|H]; [right; left; auto | left; now apply SP].
      * intros [H|[H|[]]]; [right; now apply SP | left; auto].
    + exists (length files). split; auto. rewrite nth_error_app2 by lia. now rewrite Nat.sub_diag.
Qed.

Lemma first_use_whole_ext seen seen' ss :
  (forall p, In p seen <-> In p seen') -> first_use_whole seen ss -> first_use_whole seen' ss.
Proof.
  revert seen seen'. induction ss as [|s r IH]; intros seen seen' E H; cbn [first_use_whole] in *; auto.
  destruct H as [H1 H2]. split.
  - intros N. apply H1. intros I. apply N. now apply E.
  - eapply IH; [|exact H2]. intros p. cbn [In]. now rewrite E.
Qed.

Lemma enc_snips_ok v ALL ss : forall files seen,
  path_consistent ALL -> tbl_ok ALL files -> same_paths seen files -> incl ss ALL ->
  (fix_text v = false -> first_use_whole seen ss) ->
  exists files' anns, enc_snips v files ss = Some (files', anns) /\
    (exists ext, files' = files ++ ext) /\ tbl_ok ALL files' /\
    same_paths (rev (map spath ss) ++ seen) files' /\ Forall2 (Rel files') ss anns.
Proof.
  induction ss as [|s r IH]; intros files seen PC TB SP INC FU.
  - exists files, []. cbn. split; auto. split; [exists []; now rewrite app_nil_r|]. auto.
  - cbn [enc_snips].
    destruct (enc_snip_ok v ALL files seen s PC TB SP) as (f1 & a & E1 & (x1 & X1) & TB1 & SP1 & R1).
    { apply INC. now left. }
    { intros FT. exact (proj1 (FU FT)). }
    rewrite E1.
    destruct (IH f1 (spath s :: seen) PC TB1 SP1) as (f2 & anns & E2 & (x2 & X2) & TB2 & SP2 & R2).
    { intros y Hy. apply INC. now right. }
    { intros FT. exact (proj2 (FU FT)). }
    rewrite E2. exists f2, (a :: anns). split; auto.
    split; [exists (x1 ++ x2); subst; now rewrite app_assoc|]. split; auto. split.
    + intros p. specialize (SP2 p). cbn [map rev]. rewrite !in_app_iff in *. cbn [In] in *. tauto.
    + constructor; auto. subst f2. now apply Rel_ext.
Qed.

(* ---------- decoding what was encoded ---------- *)
Lemma dec_enc_edits es : Forall wf_edit es -> map dec_edit (map enc_edit es) = es.
Proof.
  induction 1 as [|e r [H1 H2] _ IH]; cbn [map]; auto. rewrite IH. f_equal.
  unfold dec_edit, enc_edit. cbn. rewrite !u32_small by auto. now destruct e.
Qed.

Definition eof_guard (v : variant) (s : snippet) : Prop := fix_eof v = false -> s_start s < len (stext s).

Lemma dec_annot_ok v F i j s a :
  Z.of_nat (length F) < 4294967296 -> Rel F s a -> wf_snip s -> eof_guard v s ->
  dec_annot v F i j a = inr s.
Proof.
  intros LF (idx & -> & NE) (W1 & W2 & W3 & W4 & W5) EG.
  assert (LT : (idx < length F)%nat) by (apply nth_error_Some; congruence).
  unfold dec_annot, enc_annot. cbn [pa_file pa_start pa_end pa_msg pa_primary pa_break pa_edits].
  rewrite (u32_small (Z.of_nat idx)) by (unfold u32_ok; lia).
  replace (Z.of_nat (length F) <=? Z.of_nat idx) with false by (symmetry; apply Z.leb_gt; lia).
  rewrite Nat2Z.id. rewrite (nth_error_nth _ _ _ NE). cbn [pf_text pf_path].
  rewrite (u32_small (s_start s)) by (unfold u32_ok; lia).
  rewrite (u32_small (s_end s)) by (unfold u32_ok; lia).
  fold (stext s) in W3.
  assert (SR : start_rejected v (s_start s) (len (stext s)) = false).
  { unfold start_rejected. destruct (fix_eof v) eqn:FE.
    - apply Z.ltb_ge. lia.
    - apply Z.leb_gt. now apply EG. }
  rewrite SR.
  replace (len (stext s) <? s_end s) with false by (symmetry; apply Z.ltb_ge; lia).
  replace (s_end s <? s_start s) with false by (symmetry; apply Z.ltb_ge; lia).
  cbn [orb]. rewrite dec_enc_edits by auto.
  unfold spath, stext. destruct s as [[fp ft] ? ? ? ? ? ?]. reflexivity.
Qed.

Lemma dec_annots_ok v F i ss : forall j anns,
  Z.of_nat (length F) < 4294967296 -> Forall2 (Rel F) ss anns -> Forall wf_snip ss ->
  (forall s, In s ss -> eof_guard v s) ->
  dec_annots v F i j anns = inr ss.
Proof.
  induction ss as [|s r IH]; intros j anns LF R W EG; inversion R; subst; cbn [dec_annots]; auto.
  inversion W; subst.
  rewrite (dec_annot_ok v F i j s y) by (auto; apply EG; now left).
  rewrite (IH (S j) l') by (auto; intros; apply EG; now right). reflexivity.
Qed.

Lemma default_primary_id ss : ss = [] \/ existsb s_primary ss = true -> default_primary ss = ss.
Proof. unfold default_primary. intros [H | H]; rewrite H; reflexivity. Qed.

Definition enc_of (F : list pfile) (d : diag) (pd : pdiag) : Prop :=
  exists anns, pd = mkpdiag (d_msg d) (d_tag d) (d_level d) (d_infile d) anns (d_notes d) (d_help d) (d_debug d) /\
               Forall2 (Rel F) (d_snips d) anns.

Lemma enc_of_ext F ext d pd : enc_of F d pd -> enc_of (F ++ ext) d pd.
Proof. intros (anns & H1 & H2). exists anns. split; auto. now apply Forall2_Rel_ext. Qed.

Lemma dec_diag_ok v F i d pd :
  Z.of_nat (length F) < 4294967296 -> enc_of F d pd -> wf_diag d ->
  (forall s, In s (d_snips d) -> eof_guard v s) -> (fix_ice v = false -> d_level d <> 1) ->
  dec_diag v F i pd = inr (forget_sort d).
Proof.
  intros LF (anns & -> & R) (M & L & WS & P) EG IG. unfold dec_diag.
  cbn [pd_msg pd_level pd_annots pd_tag pd_infile pd_notes pd_help pd_debug].
  destruct (d_msg d) as [|c m] eqn:EM; [congruence|].
  rewrite wrap8_small by lia.
  assert (LO : level_ok v (d_level d) = true).
  { unfold level_ok. destruct (fix_ice v) eqn:FI.
    - assert (C : d_level d = 1 \/ d_level d = 2 \/ d_level d = 3 \/ d_level d = 4) by lia.
      destruct C as [C|[C|[C|C]]]; rewrite C; reflexivity.
    - specialize (IG eq_refl).
      assert (C : d_level d = 2 \/ d_level d = 3 \/ d_level d = 4) by lia.
      destruct C as [C|[C|C]]; rewrite C; reflexivity. }
  rewrite LO. cbn [negb]. rewrite (dec_annots_ok v F i (d_snips d) 0%nat anns) by auto.
  rewrite default_primary_id by auto. unfold forget_sort. now rewrite EM.
Qed.

Lemma enc_diags_ok v ALL ds : forall files seen,
  path_consistent ALL -> tbl_ok ALL files -> same_paths seen files -> incl (flat_map d_snips ds) ALL ->
  (fix_text v = false -> first_use_whole seen (flat_map d_snips ds)) ->
  exists files' pds, enc_diags v files ds = Some (files', pds) /\
    (exists ext, files' = files ++ ext) /\ tbl_ok ALL files' /\ Forall2 (enc_of files') ds pds.
Proof.
  induction ds as [|d r IH]; intros files seen PC TB SP INC FU.
  - exists files, []. cbn. split; auto. split; [exists []; now rewrite app_nil_r|]. auto.
  - cbn [enc_diags flat_map] in *. unfold enc_diag.
    assert (FU' : fix_text v = false ->
              first_use_whole seen (d_snips d) /\
              first_use_whole (rev (map spath (d_snips d)) ++ seen) (flat_map d_snips r)).
    { intros FT. specialize (FU FT). clear - FU. revert seen FU.
      induction (d_snips d) as [|s t IHt]; intros seen FU; cbn [app first_use_whole map rev] in *.
      - split; auto.
      - destruct FU as [F1 F2]. destruct (IHt _ F2) as [G1 G2]. split; [split; auto|].
        eapply first_use_whole_ext; [|exact G2]. intros p. rewrite !in_app_iff. cbn [In]. tauto. }
    destruct (enc_snips_ok v ALL (d_snips d) files seen PC TB SP) as (f1 & anns & E1 & (x1 & X1) & TB1 & SP1 & R1).
    { intros y Hy. apply INC. apply in_or_app. now left. }
    { intros FT. exact (proj1 (FU' FT)). }
    rewrite E1.
    destruct (IH f1 (rev (map spath (d_snips d)) ++ seen) PC TB1 SP1) as (f2 & pds & E2 & (x2 & X2) & TB2 & R2).
    { intros y Hy. apply INC. apply in_or_app. now right. }
    { intros FT. exact (proj2 (FU' FT)). }
    rewrite E2. eexists f2, (_ :: pds). split; [reflexivity|].
    split; [exists (x1 ++ x2); subst; now rewrite app_assoc|]. split; auto.
    constructor; auto. subst f2. apply enc_of_ext. exists anns. auto.
Qed.

Lemma dec_diags_ok v F ds : forall i pds,
  Z.of_nat (length F) < 4294967296 -> Forall2 (enc_of F) ds pds -> Forall wf_diag ds ->
  (forall s, In s (flat_map d_snips ds) -> eof_guard v s) ->
  (fix_ice v = false -> forall d, In d ds -> d_level d <> 1) ->
  dec_diags v F i pds = Ok (map forget_sort ds).
Proof.
  induction ds as [|d r IH]; intros i pds LF R W EG IG; inversion R; subst; cbn [dec_diags map]; auto.
  inversion W; subst. cbn [flat_map] in EG.
  rewrite (dec_diag_ok v F i d y); auto.
  - rewrite (IH (S i) l'); auto.
    + intros s Hs. apply EG. apply in_or_app. now right.
    + intros FI d0 Hd. apply IG; auto. now right.
  - intros s Hs. apply EG. apply in_or_app. now left.
  - intros FI. apply IG; auto. now left.
Qed.

Lemma tbl_len ALL files : tbl_ok ALL files -> (length files <= length ALL)%nat.
Proof.
  intros [ND TB]. rewrite <- (map_length pf_path files), <- (map_length spath ALL).
  apply NoDup_incl_length; auto. intros p Hp. apply in_map_iff in Hp. destruct Hp as (pf & <- & Hpf).
  destruct (TB pf Hpf) as (s & I & P & _). rewrite <- P. now apply in_map.
Qed.

(* ---------- the round trip, for every variant, under exactly the guards of the unrepaired places ---------- *)
Theorem roundtrip_v_lemma : forall v r, wf r -> guard v r -> roundtrip_v v r = Some (Ok (map forget_sort r)).
Proof.
  intros v r (WD & PC & LN) (GT & GE & GI). unfold roundtrip_v, to_proto_v.
  destruct (enc_diags_ok v (all_snips r) r [] []) as (F & pds & E & _ & TB & R).
  - exact PC.
  - split; [constructor|]. intros pf [].
  - intros p. cbn. tauto.
  - apply incl_refl.
  - exact GT.
  - rewrite E. unfold from_proto_v. cbn [pr_files pr_diags]. f_equal.
    apply dec_diags_ok; auto.
    + pose proof (tbl_len _ _ TB). lia.
    + intros s Hs FE. apply GE; auto.
Qed.

(* the code as it is *)
Definition roundtrip (r : report) : option res := roundtrip_v asis r.

Theorem report_roundtrip_partial_lemma : forall r, wf r -> guard asis r ->
  exists p, to_proto r = Some p /\ from_proto p = Ok (map forget_sort r).
Proof.
  intros r W G. pose proof (roundtrip_v_lemma asis r W G) as H. unfold roundtrip_v in H.
  unfold to_proto, from_proto. destruct (to_proto_v asis r) as [p|]; [|discriminate].
  exists p. split; auto. congruence.
Qed.

(* the repaired code: the guard is empty, the property holds as stated *)
Lemma guard_repaired r : guard repaired r.
Proof. repeat split; cbn; intros; discriminate. Qed.

Theorem report_roundtrip_repaired_lemma : forall r, wf r ->
  exists p, to_proto_v repaired r = Some p /\ from_proto_v repaired p = Ok (map forget_sort r).
Proof.
  intros r W. pose proof (roundtrip_v_lemma repaired r W (guard_repaired r)) as H. unfold roundtrip_v in H.
  destruct (to_proto_v repaired r) as [p|]; [|discriminate]. exists p. split; auto. congruence.
Qed.

(* ---------- refutation for the code as it is: four smallest reports ---------- *)
Definition fA : file := mkfile [97]%N [97; 98; 99]%N.                (* path a, text abc *)
Definition fE : file := mkfile [97]%N [].                          (* path a, empty text *)
Definition one (lv : Z) (ss : list snippet) : report := [mkdiag [] [109]%N lv 0 [] ss [] [] []].
Definition sn (f : file) (a b : Z) : snippet := mksnip f a b [] true false [].

Definition w_eof : report := one 2 [sn fA 0 3; sn fA 3 3].       (* whole file, then an empty span at EOF *)
Definition w_empty : report := one 2 [sn fE 0 0].                (* the only possible span of an empty file *)
Definition w_ice : report := one 1 [].                           (* level ICE, no annotation *)
Definition w_text : report := one 2 [sn fA 1 2].                 (* an ordinary span that is not the whole file *)

Lemma wf_one lv ss : 1 <= lv <= 4 -> Forall wf_snip ss -> (ss = [] \/ existsb s_primary ss = true) ->
  (forall s1 s2, In s1 ss -> In s2 ss -> f_path (s_file s1) = f_path (s_file s2) -> s_file s1 = s_file s2) ->
  (length ss < 10)%nat -> wf (one lv ss).
Proof.
  intros L W P C N. unfold wf, one, all_snips. cbn [flat_map d_snips]. rewrite app_nil_r. repeat split.
  - constructor; [|constructor]. unfold wf_diag. cbn. repeat split; auto; try lia. discriminate.
  - exact C.
  - lia.
Qed.

Ltac wf_witness :=
  apply wf_one; [lia | repeat constructor; cbn; lia | (now left) || (right; reflexivity)
                | cbn; intros ? ? H1 H2 _; repeat (destruct H1 as [<-|H1]; [|]); try contradiction;
                  repeat (destruct H2 as [<-|H2]; [|]); try contradiction; reflexivity
                | cbn; lia ].

Theorem report_roundtrip_refuted_lemma :
  (wf w_eof /\ roundtrip w_eof = Some (Err (EOutOfBounds 0 1 3 3) [])) /\
  (wf w_empty /\ roundtrip w_empty = Some (Err (EOutOfBounds 0 0 0 0) [])) /\
  (wf w_ice /\ roundtrip w_ice = Some (Err (EInvalidLevel 1) [])) /\
  (wf w_text /\ roundtrip w_text = Some (Err (EOutOfBounds 0 0 1 2) []) /\
   to_proto w_text = Some (mkpreport [mkpfile [97]%N [98]%N]
     [mkpdiag [109]%N [] 2 [] [mkpannot 0 1 2 [] true false []] [] [] []])).
Proof.
  split; [split; [wf_witness | vm_compute; reflexivity]|].
  split; [split; [wf_witness | vm_compute; reflexivity]|].
  split; [split; [wf_witness | vm_compute; reflexivity]|].
  split; [wf_witness|]. split; vm_compute; reflexivity.
Qed.

Corollary report_roundtrip_refuted_exists :
  exists r, wf r /\ forall p, to_proto r = Some p -> from_proto p <> Ok (map forget_sort r).
Proof.
  exists w_eof. split; [apply report_roundtrip_refuted_lemma|].
  intros p H. vm_compute in H. injection H as <-. vm_compute. discriminate.
Qed.

(* each repair alone removes exactly its own witness and no other: the three are independent *)
Theorem repairs_independent_lemma :
  roundtrip_v (mkvar true false false) w_text = Some (Ok (map forget_sort w_text)) /\
  roundtrip_v (mkvar true false false) w_eof <> Some (Ok (map forget_sort w_eof)) /\
  roundtrip_v (mkvar true false false) w_ice <> Some (Ok (map forget_sort w_ice)) /\
  roundtrip_v (mkvar false true false) w_eof = Some (Ok (map forget_sort w_eof)) /\
  roundtrip_v (mkvar false true false) w_empty = Some (Ok (map forget_sort w_empty)) /\
  roundtrip_v (mkvar false true false) w_text <> Some (Ok (map forget_sort w_text)) /\
  roundtrip_v (mkvar false false true) w_ice = Some (Ok (map forget_sort w_ice)) /\
  roundtrip_v (mkvar false false true) w_eof <> Some (Ok (map forget_sort w_eof)).
Proof.
  split; [vm_compute; reflexivity|]. split; [vm_compute; discriminate|]. split; [vm_compute; discriminate|].
  split; [vm_compute; reflexivity|]. split; [vm_compute; reflexivity|]. split; [vm_compute; discriminate|].
  split; [vm_compute; reflexivity|]. vm_compute; discriminate.
Qed.

(* non-vacuity of the partial theorem: a two-file report with edits that satisfies wf and the guard *)
Definition fB : file := mkfile [98]%N [120; 121]%N.
Definition ex_ok : report :=
  [mkdiag [116]%N [109]%N 3 7 [] [sn fA 0 3; mksnip fB 0 2 [104]%N false true [mkedit 0 1 [122]%N]; sn fA 1 2] [[110]%N] [[104]%N] [];
   mkdiag [] [110]%N 4 0 [102]%N [] [] [] [[100]%N]].

Lemma ex_ok_wf_guard : wf ex_ok /\ guard asis ex_ok /\ roundtrip ex_ok = Some (Ok (map forget_sort ex_ok)).
Proof.
  assert (W : wf ex_ok).
  { unfold wf. split; [|split].
    - unfold ex_ok. constructor; [|constructor; [|constructor]].
      + unfold wf_diag. cbn [d_msg d_level d_snips]. split; [discriminate|]. split; [lia|]. split.
        * repeat constructor; cbn; lia.
        * right. reflexivity.
      + unfold wf_diag. cbn [d_msg d_level d_snips]. split; [discriminate|]. split; [lia|]. split; [constructor|now left].
    - unfold ex_ok, all_snips. cbn [flat_map d_snips app]. intros s1 s2 H1 H2.
      destruct H1 as [<-|[<-|[<-|[]]]]; destruct H2 as [<-|[<-|[<-|[]]]]; cbn; intros E; try reflexivity; discriminate.
    - cbn. lia. }
  assert (G : guard asis ex_ok).
  { unfold guard, ex_ok, all_snips. cbn [flat_map d_snips app fix_text fix_eof fix_ice asis]. split; [|split]; intros _.
    - cbn [first_use_whole]. unfold whole. cbn. repeat split; try tauto; intros; try lia.
    - intros s [<-|[<-|[<-|[]]]]; cbn; lia.
    - intros d [<-|[<-|[]]]; cbn; lia. }
  split; [exact W|]. split; [exact G|]. apply roundtrip_v_lemma; assumption.
Qed.

(* nothing the property lists is lost: two well-formed reports that serialize to the same message agree on every
   field but sortOrder *)
Theorem to_proto_injective_lemma : forall r1 r2, wf r1 -> wf r2 ->
  to_proto_v repaired r1 = to_proto_v repaired r2 -> map forget_sort r1 = map forget_sort r2.
Proof.
  intros r1 r2 W1 W2 E.
  destruct (report_roundtrip_repaired_lemma r1 W1) as (p1 & T1 & F1).
  destruct (report_roundtrip_repaired_lemma r2 W2) as (p2 & T2 & F2).
  rewrite T1, T2 in E. injection E as ->. rewrite F1 in F2. injection F2 as H. exact H.
Qed.
