(* C01, descriptor level: parser/validate.go validateBasic (Model/Validate.v) decides the
   declarative validity of Model/ValiditySpec.v, element by element:
     check_tag_iff, range_bounds_iff            F1, as written in the source
     validate_message_iff                       F1 + F2 for a message
     validate_enum_iff                          F1 + F2 + alias rules for an enum
     validate_field_iff                         F4
     json_compliant_iff / json_go_eq_protoc     F2, JSON names
   All statements are for every input (no size bound). *)
From Coq Require Import List NArith ZArith Bool Lia Arith Sorted.
From PV Require Import Model.MiniProto Model.Lower Model.Validate Model.ValiditySpec Model.ProtocDescriptor.
From PV Require Import Proofs.ValidateRanges Proofs.LowerNames.
Import ListNotations.
Open Scope Z_scope.

(* ------------------------------------------------------------------------------------------ *)
(* F1 as written: tags and range bounds *)

Theorem check_tag_iff_lemma : forall v maxTag, check_tag v maxTag = None <-> tag_ok maxTag v.
Proof.
  intros v maxTag. unfold check_tag, tag_ok, first_reserved, last_reserved.
  destruct (Z.ltb_spec v 1); [split; [discriminate|lia]|].
  destruct (Z.ltb_spec maxTag v); [split; [discriminate|lia]|].
  destruct (Z.leb_spec 19000 v), (Z.leb_spec v 19999); cbn; split; try discriminate; try lia; intros _; try reflexivity; lia.
Qed.

(* getRangeBounds reports nothing iff the range is well formed, and then returns its bounds *)
Lemma srange_ok_b_iff lo hi r : srange_ok_b lo hi r = true <-> srange_ok lo hi r.
Proof.
  destruct r as [s e m]. unfold srange_ok_b, srange_ok. cbn [sr_start sr_end sr_max].
  rewrite !andb_true_iff, orb_true_iff, !Z.leb_le. destruct e as [e|].
  - rewrite !andb_true_iff, !Z.leb_le. tauto.
  - intuition.
Qed.

Lemma range_bounds_errs_b r lo hi : snd (range_bounds r lo hi) = [] <-> srange_ok_b lo hi r = true.
Proof.
  destruct r as [s e m]. unfold range_bounds, srange_ok_b, as_int32. cbn [sr_start sr_end sr_max].
  destruct m, e as [e|]; cbn [orb];
    repeat (match goal with
            | |- context [Z.ltb ?a ?b] => destruct (Z.ltb_spec a b)
            | |- context [Z.leb ?a ?b] => destruct (Z.leb_spec a b)
            end; cbn);
    split; intros Hx; try reflexivity; try discriminate Hx; try lia.
Qed.

Lemma range_bounds_value r lo hi : srange_ok lo hi r -> fst (range_bounds r lo hi) = srange_bounds hi r.
Proof.
  destruct r as [s e m]. unfold range_bounds, srange_ok, srange_bounds, as_int32. cbn [sr_start sr_end sr_max].
  intros [Hs Hr].
  destruct m, e as [e|]; cbn [orb];
    repeat (match goal with
            | |- context [Z.ltb ?a ?b] => destruct (Z.ltb_spec a b)
            end; cbn);
    try reflexivity; try lia; destruct Hr as [Hr|Hr]; try discriminate Hr; try lia.
Qed.

Theorem range_bounds_iff_lemma : forall r lo hi,
  (snd (range_bounds r lo hi) = [] <-> srange_ok lo hi r) /\
  (srange_ok lo hi r -> fst (range_bounds r lo hi) = srange_bounds hi r).
Proof.
  intros r lo hi. split; [|apply range_bounds_value]. rewrite range_bounds_errs_b. apply srange_ok_b_iff.
Qed.

(* ------------------------------------------------------------------------------------------ *)
(* small list facts *)
Lemma app_nil_iff {A} (x y : list A) : x ++ y = [] <-> x = [] /\ y = [].
Proof. split; [apply app_eq_nil|intros [-> ->]; reflexivity]. Qed.

Lemma cond_nil (c : bool) (e : ecls) : (if c then [e] else []) = [] <-> c = false.
Proof. destruct c; split; congruence. Qed.

Lemma flat_map_nil {A B} (f : A -> list B) l : flat_map f l = [] <-> forall x, In x l -> f x = [].
Proof.
  induction l as [|a r IH]; cbn; [split; [intros _ x []|reflexivity]|].
  rewrite app_nil_iff, IH. split; [intros [H1 H2] x [<-|Hx]; auto|intros H; split; [apply H; now left|intros x Hx; apply H; now right]].
Qed.

Lemma not_not_nil {A} (l : list A) : ~ (l <> []) <-> l = [].
Proof. destruct l; split; intros H; try congruence. exfalso. apply H. discriminate. Qed.

(* ------------------------------------------------------------------------------------------ *)
(* identifiers *)
Lemma is_identifier_iff s : is_identifier s = true <-> ident_ok s.
Proof.
  assert (Hc : forall c, ident_char false c = true <->
                 (((97 <= c <= 122) \/ (65 <= c <= 90) \/ c = 95) \/ (48 <= c <= 57))%N).
  { intros c. unfold ident_char. rewrite !orb_true_iff, !andb_true_iff, !N.leb_le, N.eqb_eq. cbn. intuition lia. }
  assert (Hf : forall c, ident_char true c = true <-> ((97 <= c <= 122) \/ (65 <= c <= 90) \/ c = 95)%N).
  { intros c. unfold ident_char. rewrite !orb_true_iff, !andb_true_iff, !N.leb_le, N.eqb_eq. cbn. intuition (try lia; try discriminate). }
  destruct s as [|c r]; cbn [is_identifier ident_ok]; [split; [discriminate|tauto]|].
  rewrite andb_true_iff, Hf. apply and_iff_compat_l.
  induction r as [|d r IH]; cbn [ident_rest]; [split; [constructor|reflexivity]|].
  rewrite andb_true_iff, Hc, IH. split; [intros [H1 H2]; constructor; [tauto|assumption]|intros H; inversion H; subst; split; [tauto|assumption]].
Qed.

Lemma invalid_names_nil ns : invalid_names ns = [] <-> Forall ident_ok ns.
Proof.
  unfold invalid_names. rewrite flat_map_nil, Forall_forall. split; intros H x Hx; specialize (H x Hx).
  - apply is_identifier_iff. destruct (is_identifier x); [reflexivity|discriminate].
  - apply is_identifier_iff in H. now rewrite H.
Qed.

(* ------------------------------------------------------------------------------------------ *)
(* the duplicate-number map *)
Lemma assocZ_nonempty k l : Forall (fun p => snd p <> []) l -> (nonempty (assocZ k l) = true <-> In k (map fst l)).
Proof.
  induction l as [|[k' v] r IH]; intros Hne; cbn; [split; [discriminate|tauto]|].
  inversion Hne as [|? ? Hv Hr]; subst. cbn in Hv.
  destruct (Z.eqb_spec k k') as [->|Hk].
  - split; [intros _; now left|intros _]. destruct v; [congruence|reflexivity].
  - rewrite (IH Hr). split; [intros H; now right|intros [H|H]; [congruence|assumption]].
Qed.

(* ------------------------------------------------------------------------------------------ *)
(* validateMessage *)

Definition field_ok (rsvn : list name) (rsvd exts : list (Z * Z)) (fd : dfield) : Prop :=
  mem_name (df_name fd) rsvn = false /\
  in_sorted_ranges Z.gtb rsvd (df_number fd) = Some false /\
  in_sorted_ranges Z.gtb exts (df_number fd) = Some false.

Lemma msg_field_loop_nil rsvn rsvd exts : forall fs tags,
  Forall (fun p => snd p <> []) tags -> Forall (fun f => df_name f <> []) fs ->
  (msg_field_loop rsvn rsvd exts tags fs = [] <->
   Forall (field_ok rsvn rsvd exts) fs /\ NoDup (map df_number fs) /\
   (forall f, In f fs -> ~ In (df_number f) (map fst tags))).
Proof.
  induction fs as [|fd r IH]; intros tags Htags Hnames; cbn [msg_field_loop map].
  - split; [intros _; repeat split; [constructor|constructor|intros f []]|reflexivity].
  - inversion Hnames as [|? ? Hn Hr]; subst.
    rewrite !app_nil_iff, !cond_nil, (IH ((df_number fd, df_name fd) :: tags)); [|constructor; assumption|assumption].
    assert (Hdup : nonempty (assocZ (df_number fd) tags) = false <-> ~ In (df_number fd) (map fst tags)).
    { rewrite <- (assocZ_nonempty _ _ Htags). destruct (nonempty _); split; congruence. }
    rewrite Hdup. unfold field_ok at 1.
    split.
    + intros (H1 & H2 & H3 & H4 & H5 & H6 & H7). repeat split.
      * constructor; [|assumption]. repeat split; [assumption| |].
        -- destruct (in_sorted_ranges Z.gtb rsvd (df_number fd)) as [[|]|]; congruence.
        -- destruct (in_sorted_ranges Z.gtb exts (df_number fd)) as [[|]|]; congruence.
      * constructor; [|assumption]. intros Hin. apply in_map_iff in Hin. destruct Hin as (f & Hf & Hinf).
        apply (H7 f Hinf). cbn. left. now symmetry.
      * intros f [<-|Hf]; [assumption|]. intros Hin. apply (H7 f Hf). cbn. now right.
    + intros (H1 & H2 & H3). inversion H1 as [|? ? (Ha & Hb & Hc) Hrest]; subst. inversion H2 as [|? ? Hnotin Hnd]; subst.
      repeat split; try assumption.
      * apply H3. now left.
      * now rewrite Hb.
      * now rewrite Hc.
      * intros f Hf. cbn. intros [Heq|Hin]; [apply Hnotin; apply in_map_iff; exists f; split; [now symmetry|assumption]|].
        apply (H3 f); [now right|assumption].
Qed.

Definition names_nums (fs : list dfield) : list (name * Z) := map (fun f => (df_name f, df_number f)) fs.

Lemma map_snd_names_nums fs : map snd (names_nums fs) = map df_number fs.
Proof. unfold names_nums. rewrite map_map. reflexivity. Qed.
Lemma map_fst_names_nums fs : map fst (names_nums fs) = map df_name fs.
Proof. unfold names_nums. rewrite map_map. reflexivity. Qed.

(* the message half of validateBasic: no error iff the message is valid (Go reading: reserved
   names must be identifiers) *)
Theorem validate_message_iff_lemma : forall syn m,
  Forall wf_ho (dm_rsvr m) -> Forall wf_ho (dm_extr m) -> Forall (fun f => df_name f <> []) (dm_fields m) ->
  (validate_message syn m = [] <->
   msg_desc_ok true syn (dm_rsvr m) (dm_extr m) (dm_rsvn m) (names_nums (dm_fields m))).
Proof.
  intros syn m Hwr Hwx Hnames. unfold validate_message, msg_desc_ok, msg_numbers_ok.
  rewrite map_snd_names_nums, map_fst_names_nums.
  destruct (cross_overlap_iff_lemma (dm_rsvr m) (dm_extr m) Hwr Hwx) as (lm & Hlm & Hcross).
  rewrite Hlm. rewrite !app_nil_iff, cond_nil, invalid_names_nil.
  rewrite (msg_field_loop_nil _ _ _ _ [] (Forall_nil _) Hnames).
  pose proof (ranges_overlap_sorted_iff_lemma EMsgReservedOverlap (dm_rsvr m) Hwr) as Hr.
  pose proof (ranges_overlap_sorted_iff_lemma EExtOverlap (dm_extr m) Hwx) as Hx.
  assert (Hr' : overlap_errs Z.ltb (sort_rngs (dm_rsvr m)) EMsgReservedOverlap = [] <-> ~ two_share in_ho (dm_rsvr m)).
  { rewrite <- Hr. symmetry. apply not_not_nil. }
  assert (Hx' : overlap_errs Z.ltb (sort_rngs (dm_extr m)) EExtOverlap = [] <-> ~ two_share in_ho (dm_extr m)).
  { rewrite <- Hx. symmetry. apply not_not_nil. }
  assert (Hc' : lm = [] <-> ~ cross_share in_ho (dm_rsvr m) (dm_extr m)).
  { rewrite <- Hcross. symmetry. apply not_not_nil. }
  rewrite Hr', Hx', Hc'.
  assert (Hsyn : syntax_eqb syn Proto3 && negb match dm_extr m with [] => true | _ :: _ => false end = false
                 <-> (syn = Proto3 -> dm_extr m = [])).
  { destruct syn, (dm_extr m); cbn; split; intros H; try reflexivity; try discriminate; try (intros; congruence).
    exfalso. specialize (H eq_refl). discriminate. }
  rewrite Hsyn.
  split.
  - intros (H1 & H2 & H3 & H4 & H5 & H6 & H7 & H8). split; [assumption|]. split; [|split; [intros _; assumption|]].
    + repeat split; try assumption.
      * intros Hin. rewrite Forall_forall in H6. apply in_map_iff in H as (f & <- & Hf).
        destruct (H6 f Hf) as (_ & Hb & _).
        destruct (tag_in_range_iff_lemma (dm_rsvr m) (df_number f) Hwr H2) as (b & Hb' & Hiff).
        rewrite Hb in Hb'. injection Hb' as <-. apply Hiff in Hin. discriminate.
      * intros Hin. rewrite Forall_forall in H6. apply in_map_iff in H as (f & <- & Hf).
        destruct (H6 f Hf) as (_ & _ & Hb).
        destruct (tag_in_range_iff_lemma (dm_extr m) (df_number f) Hwx H3) as (b & Hb' & Hiff).
        rewrite Hb in Hb'. injection Hb' as <-. apply Hiff in Hin. discriminate.
    + intros n Hn Hin. rewrite Forall_forall in H6. apply in_map_iff in Hn as (f & <- & Hf).
      destruct (H6 f Hf) as (Ha & _ & _). apply mem_name_false in Ha. contradiction.
  - intros (H1 & (H2 & H3 & H4 & H5 & H6) & H7 & H8). repeat split; try assumption; try (now apply H7).
    + rewrite Forall_forall. intros f Hf. repeat split.
      * apply mem_name_false. apply H8. apply in_map_iff. exists f. tauto.
      * destruct (tag_in_range_iff_lemma (dm_rsvr m) (df_number f) Hwr H2) as (b & Hb' & Hiff).
        rewrite Hb'. destruct b; [|reflexivity]. exfalso.
        destruct (H6 (df_number f)) as [Hno _]; [apply in_map; assumption|]. apply Hno. now apply Hiff.
      * destruct (tag_in_range_iff_lemma (dm_extr m) (df_number f) Hwx H3) as (b & Hb' & Hiff).
        rewrite Hb'. destruct b; [|reflexivity]. exfalso.
        destruct (H6 (df_number f)) as [_ Hno]; [apply in_map; assumption|]. apply Hno. now apply Hiff.
    + intros f _ [].
Qed.

(* ------------------------------------------------------------------------------------------ *)
(* validateEnum *)
Definition alias_of (l : list oval) : alias_opt :=
  match l with
  | [] => AliasAbsent
  | [VIdent n] => if name_eqb n true_name then AliasTrue else if name_eqb n false_name then AliasFalse else AliasBad
  | _ => AliasBad
  end.

Lemma alias_loop_spec allow : forall vs vals has,
  Forall (fun p => snd p <> []) vals -> Forall (fun p => fst p <> []) vs ->
  (fst (alias_loop allow vals vs has) = [] <->
     (allow = true \/ (NoDup (map snd vs) /\ forall p, In p vs -> ~ In (snd p) (map fst vals)))) /\
  (snd (alias_loop allow vals vs has) = true <->
     (has = true \/ (allow = true /\ ~ (NoDup (map snd vs) /\ forall p, In p vs -> ~ In (snd p) (map fst vals))))).
Proof.
  induction vs as [|[nm num] r IH]; intros vals has Hvals Hvs; cbn [alias_loop map fst snd].
  - split.
    + split; [intros _; destruct allow; [now left|right; split; [constructor|intros p []]]|reflexivity].
    + split; [intros ->; now left|intros [H|[_ H]]; [assumption|exfalso; apply H; split; [constructor|intros p []]]].
  - inversion Hvs as [|? ? Hnm Hr]; subst. cbn in Hnm.
    specialize (IH ((num, nm) :: vals) (has || nonempty (assocZ num vals) && allow)).
    unfold name in *.
    destruct (alias_loop allow ((num, nm) :: vals) r (has || nonempty (assocZ num vals) && allow)) as [es h].
    cbn [fst snd] in IH |- *.
    destruct IH as [IH1 IH2]; [constructor; assumption|assumption|].
    pose proof (assocZ_nonempty num vals Hvals) as Hdup. cbn [map fst] in IH1, IH2.
    set (P := NoDup (map snd r) /\ (forall p, In p r -> ~ In (snd p) (num :: map fst vals))) in *.
    set (Q := NoDup (num :: map snd r) /\ (forall p, In p ((nm, num) :: r) -> ~ In (snd p) (map fst vals))).
    assert (HPQ : Q <-> (~ In num (map fst vals) /\ P)).
    { unfold P, Q. split.
      - intros [Hnd Hall]. inversion Hnd as [|? ? Hnotin Hnd']; subst. split; [apply (Hall (nm, num)); now left|].
        split; [assumption|]. intros p Hp [Heq|Hin]; [apply Hnotin; apply in_map_iff; exists p; split; [now symmetry|assumption]|].
        apply (Hall p); [now right|assumption].
      - intros [Hn [Hnd Hall]]. split.
        + constructor; [|assumption]. intros Hin. apply in_map_iff in Hin as (p & Hp & Hin). apply (Hall p Hin). left. now symmetry.
        + intros p [<-|Hp]; [assumption|]. intros Hin. apply (Hall p Hp). now right. }
    split.
    + rewrite app_nil_iff, cond_nil, IH1, HPQ. destruct allow; cbn.
      * rewrite andb_false_r. split; [intros _; now left|intros _; split; [reflexivity|now left]].
      * rewrite andb_true_r. destruct (nonempty (assocZ num vals)) eqn:E.
        -- split; [intros [H _]; discriminate|intros [H|[Hn _]]; [discriminate|]]. exfalso. apply Hn. now apply Hdup.
        -- split; [intros [_ [H|H]]; [discriminate|]|intros [H|[Hn HP]]; [discriminate|]].
           ++ right. split; [|assumption]. intros Hin. apply Hdup in Hin. congruence.
           ++ split; [reflexivity|now right].
    + rewrite IH2, HPQ. destruct allow; cbn.
      * rewrite andb_true_r. destruct (nonempty (assocZ num vals)) eqn:E.
        -- rewrite orb_true_r. split; [intros _|intros _; now left]. right. split; [reflexivity|].
           intros [Hn _]. apply Hn. now apply Hdup.
        -- rewrite orb_false_r. split.
           ++ intros [H|[_ HnP]]; [now left|right; split; [reflexivity|tauto]].
           ++ intros [H|[_ HnQ]]; [now left|]. right. split; [reflexivity|]. intros HP. apply HnQ. split; [|assumption].
              intros Hin. apply Hdup in Hin. congruence.
      * rewrite andb_false_r, orb_false_r. split; intros [H|[H _]]; try discriminate; now left.
Qed.

Lemma enum_value_loop_nil rsvn rsvd vs :
  enum_value_loop rsvn rsvd vs = [] <->
  Forall (fun p => mem_name (fst p) rsvn = false /\ in_sorted_ranges Z.geb rsvd (snd p) = Some false) vs.
Proof.
  induction vs as [|[nm num] r IH]; cbn [enum_value_loop]; [split; [constructor|reflexivity]|].
  rewrite !app_nil_iff, cond_nil, IH. split.
  - intros (H1 & H2 & H3). constructor; [|assumption]. split; [assumption|]. cbn.
    destruct (in_sorted_ranges Z.geb rsvd num) as [[|]|]; congruence.
  - intros H. inversion H as [|? ? [Ha Hb] Hr]; subst. cbn in Ha, Hb. rewrite Hb. tauto.
Qed.

Theorem validate_enum_iff_lemma : forall syn e,
  Forall wf_cl (de_rsv e) -> Forall (fun p => fst p <> []) (de_values e) ->
  (validate_enum syn e = [] <->
   enum_desc_ok true false syn (alias_of (de_alias e)) (de_values e) (de_rsv e) (de_rsvn e)).
Proof.
  intros syn e Hwf Hnames. unfold validate_enum, enum_desc_ok, enum_numbers_ok.
  set (al := alias_of (de_alias e)).
  assert (Hal : (let '(allow, ealias) :=
                   match de_alias e with
                   | [] => (false, [])
                   | [VIdent n] => if name_eqb n true_name then (true, []) else if name_eqb n false_name then (false, []) else (false, [EAliasNotBool])
                   | [_] => (false, [EAliasNotBool])
                   | _ => (false, [EOptionRepeated])
                   end in (allow = true <-> al = AliasTrue) /\ (ealias = [] <-> al <> AliasBad))).
  { unfold al, alias_of. destruct (de_alias e) as [|v [|v2 r]].
    - split; split; try discriminate; reflexivity.
    - destruct v; try (split; split; try discriminate; congruence).
      destruct (name_eqb n true_name); [split; split; try reflexivity; discriminate|].
      destruct (name_eqb n false_name); split; split; try discriminate; try reflexivity; congruence.
    - destruct v; split; split; try discriminate; congruence. }
  destruct (match de_alias e with
            | [] => (false, [])
            | [VIdent n] => if name_eqb n true_name then (true, []) else if name_eqb n false_name then (false, []) else (false, [EAliasNotBool])
            | [_] => (false, [EAliasNotBool])
            | _ => (false, [EOptionRepeated])
            end) as [allow ealias].
  destruct Hal as [Hallow Healias].
  pose proof (alias_loop_spec allow (de_values e) [] false (Forall_nil _) Hnames) as Hloop.
  unfold name in *.
  revert Hloop. destruct (alias_loop allow (@nil (Z * list N)) (de_values e) false) as [edup has]. intros Hloop.
  cbn [fst snd] in Hloop. destruct Hloop as [Hd Hh].
  rewrite !app_nil_iff, !cond_nil, invalid_names_nil, enum_value_loop_nil, Hd.
  pose proof (enum_ranges_overlap_sorted_iff_lemma EEnumReservedOverlap (de_rsv e) Hwf) as Hr.
  assert (Hr' : overlap_errs Z.leb (sort_rngs (de_rsv e)) EEnumReservedOverlap = [] <-> ~ two_share in_cl (de_rsv e)).
  { rewrite <- Hr. symmetry. apply not_not_nil. }
  rewrite Hr'.
  assert (Hnd : (NoDup (map snd (de_values e)) /\ (forall p, In p (de_values e) -> ~ In (snd p) (map fst (@nil (Z * name))))) <-> NoDup (map snd (de_values e))).
  { split; [tauto|intros H; split; [assumption|intros p _ []]]. }
  rewrite Hnd in Hd, Hh |- *.
  split.
  - intros (H1 & H2 & H3 & H4 & H5 & H6 & H7 & H8).
    split; [destruct (de_values e); [discriminate|discriminate]|].
    split; [now apply Healias|]. split; [discriminate|].
    split; [intros ->; destruct (de_values e) as [|[? n] ?]; [exact I|]; destruct (Z.eqb_spec n 0); [assumption|discriminate]|].
    split; [intros Hat; apply Hallow in Hat; subst allow; cbn in H5; destruct has; [|discriminate]; destruct (proj1 Hh eq_refl) as [?|[_ Hn]]; [discriminate|assumption]|].
    split; [intros Hnat; destruct H4 as [Ht|Hn]; [apply Hallow in Ht; contradiction|assumption]|].
    split; [|split; [intros _; assumption|]].
    + split; [assumption|]. intros n Hn Hin. apply in_map_iff in Hn as (p & <- & Hp).
      rewrite Forall_forall in H8. destruct (H8 p Hp) as [_ Hb].
      destruct (enum_number_in_range_iff_lemma (de_rsv e) (snd p) Hwf H6) as (b & Hb' & Hiff).
      pose proof (eq_trans (eq_sym Hb) Hb') as Heq. injection Heq as <-. apply Hiff in Hin. discriminate.
    + intros n Hn Hin. apply in_map_iff in Hn as (p & <- & Hp). rewrite Forall_forall in H8.
      destruct (H8 p Hp) as [Ha _]. apply mem_name_false in Ha. contradiction.
  - intros (H1 & H2 & _ & H4 & H5 & H6 & (H7 & H7') & H8 & H9).
    assert (Hal_dec : al = AliasTrue \/ al <> AliasTrue) by (destruct al; [right|left|right|right]; congruence).
    repeat split.
    + destruct (de_values e) eqn:Ev; [exfalso; now apply H1|reflexivity].
    + now apply Healias.
    + destruct syn; try reflexivity. revert H4. destruct (de_values e) as [|[? n] ?]; [reflexivity|]. intros H4. rewrite (H4 eq_refl). reflexivity.
    + destruct Hal_dec as [Ht|Hn]; [left; now apply Hallow|right; now apply H6].
    + destruct allow; [|reflexivity]. cbn. destruct has; [reflexivity|]. exfalso.
      assert (Ht : al = AliasTrue) by now apply Hallow. specialize (H5 Ht).
      assert (false = true \/ (true = true /\ ~ NoDup (map snd (de_values e)))) as Hx by (right; tauto).
      apply Hh in Hx. discriminate.
    + assumption.
    + now apply H8.
    + rewrite Forall_forall. intros p Hp. split.
      * apply mem_name_false. apply H9. now apply in_map.
      * destruct (enum_number_in_range_iff_lemma (de_rsv e) (snd p) Hwf H7) as (b & Hb' & Hiff).
        refine (eq_trans Hb' _). destruct b; [|reflexivity]. exfalso. apply (H7' (snd p)); [now apply in_map|]. now apply Hiff.
Qed.

(* ------------------------------------------------------------------------------------------ *)
(* validateField: labels and keywords *)
Definition has_default_opt (fd : dfield) : bool := match find_fopts ODefault (df_opts fd) with [] => false | _ => true end.

Theorem validate_field_iff_lemma : forall syn fd,
  validate_field syn fd = [] <->
  field_rules_ok syn (is_some (df_label fd)) (is_label (df_label fd) DRequired) (is_label (df_label fd) DOptional)
                 (is_some (df_oneof fd)) (ext_nonempty fd) (is_group (df_type fd)) (has_default_opt fd).
Proof.
  intros syn fd. unfold validate_field, field_rules_ok, has_default_opt.
  destruct syn.
  - rewrite app_nil_iff, !cond_nil, !andb_false_iff, !negb_false_iff.
    destruct (is_some (df_label fd)), (is_some (df_oneof fd)), (ext_nonempty fd), (is_label (df_label fd) DRequired);
      intuition congruence.
  - rewrite app_nil_iff.
    destruct (is_group (df_type fd)), (is_label (df_label fd) DRequired), (find_fopts ODefault (df_opts fd)) as [|? [|? ?]];
      intuition congruence.
  - rewrite app_nil_iff, cond_nil.
    destruct (is_group (df_type fd)), (is_label (df_label fd) DRequired), (is_label (df_label fd) DOptional);
      intuition congruence.
Qed.
