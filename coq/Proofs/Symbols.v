(* Proofs about the model of linker/symbols.go (Model/Symbols.v). *)
From Coq Require Import List NArith ZArith Bool Lia Arith.
From PV Require Import Common.Corr Model.Symbols.
Import ListNotations.

(* ------------------------------------------------------------------------------------------ *)
(* basics *)

Lemma name_eqb_refl a : name_eqb a a = true.
Proof. induction a as [|x a IH]; cbn; [reflexivity|]. now rewrite N.eqb_refl, IH. Qed.

Lemma name_eqb_eq a b : name_eqb a b = true <-> a = b.
Proof.
  revert b. induction a as [|x a IH]; intros [|y b]; cbn; split; intros H; try reflexivity; try discriminate.
  - apply andb_true_iff in H as [H1 H2]. apply N.eqb_eq in H1. apply IH in H2. now subst.
  - inversion H; subst. now rewrite N.eqb_refl, name_eqb_refl.
Qed.

Lemma name_eqb_neq a b : name_eqb a b = false <-> a <> b.
Proof.
  split; intros H.
  - intros E. apply name_eqb_eq in E. congruence.
  - destruct (name_eqb a b) eqn:E; [|reflexivity]. apply name_eqb_eq in E. contradiction.
Qed.

Lemma name_eqb_sym a b : name_eqb a b = name_eqb b a.
Proof.
  destruct (name_eqb a b) eqn:E.
  - apply name_eqb_eq in E. subst. now rewrite name_eqb_refl.
  - symmetry. apply name_eqb_neq. apply name_eqb_neq in E. congruence.
Qed.

Lemma mem_name_In x l : mem_name x l = true <-> In x l.
Proof.
  induction l as [|y l IH]; cbn; [split; [discriminate|tauto]|].
  rewrite orb_true_iff, IH, name_eqb_eq. split; intros [H|H]; auto.
Qed.

Lemma mem_N_In x l : mem_N x l = true <-> In x l.
Proof.
  induction l as [|y l IH]; cbn; [split; [discriminate|tauto]|].
  rewrite orb_true_iff, IH, N.eqb_eq. split; intros [H|H]; auto.
Qed.

Lemma get_node_set T p nd q :
  get_node (set_node T p nd) q = if name_eqb q p then nd else get_node T q.
Proof. unfold get_node, set_node. cbn. destruct (name_eqb q p); reflexivity. Qed.

Lemma get_node_set_same T p nd : get_node (set_node T p nd) p = nd.
Proof. now rewrite get_node_set, name_eqb_refl. Qed.

Lemma get_node_nil p : get_node [] p = empty_node.
Proof. reflexivity. Qed.

(* induction over files and their imports *)
Section file_induction.
  Variable P : file -> Prop.
  Hypothesis step : forall fid pkg deps syms exts,
      Forall P deps -> P (File fid pkg deps syms exts).
  Fixpoint file_ind2 (f : file) : P f :=
    match f with
    | File fid pkg deps syms exts =>
      step fid pkg deps syms exts
           ((fix go (ds : list file) : Forall P ds :=
               match ds with
               | [] => Forall_nil P
               | d :: r => Forall_cons d (file_ind2 d) (go r)
               end) deps)
    end.
End file_induction.

(* Import with the import of the dependencies written as import_list *)
Definition import_body (fx : bool) (idp : list file -> table -> table * res)
           (fid : N) (pkg : name) (deps : list file) (syms : list name)
           (exts : list (name * name * Z)) (T : table) : table * res :=
  match import_packages T fid pkg with
  | (T1, PkgErr e) => (T1, Err e)
  | (T1, PkgOk None) => (T1, Ok)
  | (T1, PkgOk (Some p)) =>
    if mem_N fid (n_files (get_node T1 p)) then (T1, Ok)
    else
      match idp deps T1 with
      | (T2, Err e) => (T2, Err e)
      | (T2, Ok) =>
        match (if fx then check_exts T2 exts [] else None) with
        | Some e => if mem_N fid (n_files (get_node T2 p)) then (T2, Ok) else (T2, Err e)
        | None =>
          match import_file_node T2 p fid syms with
          | (T3, _, Err e) => (T3, Err e)
          | (T3, false, Ok) => (T3, Ok)
          | (T3, true, Ok) => add_exts T3 fid exts
          end
        end
      end
  end.

Lemma import_gen_unfold fx fid pkg deps syms exts T :
  import_gen fx (File fid pkg deps syms exts) T
  = import_body fx (import_list (import_gen fx)) fid pkg deps syms exts T.
Proof.
  cbn [import_gen]. unfold import_body.
  destruct (import_packages T fid pkg) as [T1 [[p|]|e]]; try reflexivity.
  destruct (mem_N fid (n_files (get_node T1 p))); [reflexivity|].
  assert (E : forall ds T0,
             (fix import_deps (ds : list file) (T : table) {struct ds} : table * res :=
                match ds with
                | [] => (T, Ok)
                | d :: r => match import_gen fx d T with
                            | (T', Ok) => import_deps r T'
                            | (T', Err e) => (T', Err e)
                            end
                end) ds T0 = import_list (import_gen fx) ds T0).
  { induction ds as [|d ds IH]; intros T0; [reflexivity|]. cbn [import_list].
    destruct (import_gen fx d T0) as [T' [|e]]; [apply IH|reflexivity]. }
  rewrite E. reflexivity.
Qed.

(* ------------------------------------------------------------------------------------------ *)
(* C17: what a failed import leaves behind *)

(* once a package component had to be created, every deeper one is created as well: a package
   collision can only be reported before anything was written *)
Lemma import_packages_loop_fresh T o cur ps :
  get_node T cur = empty_node ->
  forall T' e, import_packages_loop T o cur ps <> (T', PkgErr e).
Proof.
  revert T cur. induction ps as [|p ps IH]; intros T cur Hf T' e; cbn [import_packages_loop]; [discriminate|].
  unfold import_package. rewrite Hf. cbn [n_symbols empty_node sym_find].
  apply IH. apply get_node_set_same.
Qed.

Lemma import_packages_loop_err T o cur ps T' e :
  import_packages_loop T o cur ps = (T', PkgErr e) -> T' = T.
Proof.
  revert T cur. induction ps as [|p ps IH]; intros T cur; cbn [import_packages_loop]; [discriminate|].
  unfold import_package.
  destruct (sym_find p (n_symbols (get_node T cur))) as [en|] eqn:Es.
  - destruct (e_pkg en).
    + destruct (mem_name p (n_children (get_node T cur))); [apply IH|discriminate].
    + intros H; inversion H; reflexivity.
  - intros H. exfalso. eapply import_packages_loop_fresh; [|exact H]. apply get_node_set_same.
Qed.

Lemma failed_package_collision_keeps_table_lemma T o pkg T' e :
  import_packages T o pkg = (T', PkgErr e) -> T' = T.
Proof. apply import_packages_loop_err. Qed.

Lemma import_list_settled imp ds T :
  (forall d, In d ds -> imp d T = (T, Ok)) -> import_list imp ds T = (T, Ok).
Proof.
  induction ds as [|d ds IH]; intros H; cbn [import_list]; [reflexivity|].
  rewrite (H d (or_introl eq_refl)). apply IH. intros d' Hd. apply H. now right.
Qed.

Lemma add_extension_err_kind T pkg m t o T' e :
  add_extension T pkg m t o = (T', Err e) -> forall n b, e <> ESym n b.
Proof.
  unfold add_extension, add_ext_node. intros H n b.
  destruct (negb (name_eqb pkg []) && negb (proper_prefix pkg m)); [inversion H; discriminate|].
  destruct (get_package T pkg true); [|inversion H; discriminate].
  destruct (ext_find m t (n_exts (get_node T n0))); inversion H; discriminate.
Qed.

Lemma add_exts_err_kind exts : forall T o T' e,
  add_exts T o exts = (T', Err e) -> forall n b, e <> ESym n b.
Proof.
  induction exts as [|[[pkg m] t] r IH]; intros T o T' e; cbn [add_exts]; [discriminate|].
  destruct (add_extension T pkg m t o) as [T1 [|e1]] eqn:E.
  - apply IH.
  - intros H; inversion H; subst. intros n b. exact (add_extension_err_kind _ _ _ _ _ _ _ E n b).
Qed.

Lemma import_file_node_err T p fid syms T' b e :
  import_file_node T p fid syms = (T', b, Err e) -> T' = T.
Proof.
  unfold import_file_node.
  destruct (mem_N fid (n_files (get_node T p))); [discriminate|].
  destruct (check_syms syms (n_symbols (get_node T p))); intros H; inversion H; reflexivity.
Qed.

(* a failed import whose error is a name collision, under the guard, changes nothing *)
Lemma failed_name_collision_keeps_table fx T f T' n b :
  deps_settled (import_gen fx) T f ->
  import_gen fx f T = (T', Err (ESym n b)) -> T' = T.
Proof.
  destruct f as [fid pkg deps syms exts]. intros [[p Hp] Hd]. cbn [ffid fpkg fdeps] in *.
  rewrite import_gen_unfold. unfold import_body. rewrite Hp.
  destruct (mem_N fid (n_files (get_node T p))) eqn:Hm; [discriminate|].
  rewrite (import_list_settled _ _ _ Hd).
  destruct (if fx then check_exts T exts [] else None) as [e|] eqn:Ec.
  - rewrite Hm. intros H; inversion H; reflexivity.
  - destruct (import_file_node T p fid syms) as [[T3 imp] [|e3]] eqn:Ef.
    + destruct imp; [|discriminate]. intros H. exfalso. exact (add_exts_err_kind _ _ _ _ _ H n b eq_refl).
    + destruct imp; intros H; inversion H; subst; exact (import_file_node_err _ _ _ _ _ _ _ Ef).
Qed.

Lemma observe_eq imp T T' : T' = T -> forall q, observe_with imp T' q = observe_with imp T q.
Proof. intros ->; reflexivity. Qed.

Lemma failed_import_is_noop_partial_lemma T f T' n b :
  deps_settled import T f -> import f T = (T', Err (ESym n b)) ->
  T' = T /\ forall q, observe T' q = observe T q.
Proof.
  intros Hg H. assert (E : T' = T) by (eapply failed_name_collision_keeps_table; eauto).
  split; [exact E|]. now apply observe_eq.
Qed.

Lemma failed_import_repeats_partial_lemma T f T' n b :
  deps_settled import T f -> import f T = (T', Err (ESym n b)) ->
  import f T' = (T', Err (ESym n b)).
Proof.
  intros Hg H. assert (E : T' = T) by (eapply failed_name_collision_keeps_table; eauto).
  subst. exact H.
Qed.

(* witnesses of what the pinned code does not guarantee *)
Definition wX : file := File 0 [] [] [[7%N]; [20%N]; [21%N]] [([], [7%N], 100%Z); ([], [7%N], 100%Z)].
Definition wD0 : file := File 0 [4%N] [] [[4%N; 7%N]] [].
Definition wD1 : file := File 1 [4%N] [] [[4%N; 7%N]] [].
Definition wD2 : file := File 2 [14%N] [] [[14%N; 25%N]] [].
Definition wA : file := File 3 [18%N; 17%N] [wD2; wD1] [[18%N; 17%N; 23%N]] [].
Definition wB : file := File 4 [18%N] [] [[18%N; 17%N]] [].

(* one file with two extensions of the same message and tag: the names are committed and the
   file is marked imported before the collision is found, although the guard holds *)
Lemma refuted_extnum_lemma :
  exists f T' e q, deps_settled import [] f /\ import f [] = (T', Err e) /\ observe T' q <> observe [] q.
Proof.
  exists wX, (fst (import wX [])), (EExt [7%N] 100%Z), (QLookup [20%N]).
  split; [|split].
  - split; [exists []; reflexivity|]. intros d [].
  - vm_compute. reflexivity.
  - vm_compute. discriminate.
Qed.

Lemma repeats_refuted_lemma :
  exists f T' e, deps_settled import [] f /\ import f [] = (T', Err e) /\ import f T' = (T', Ok).
Proof.
  exists wX, (fst (import wX [])), (EExt [7%N] 100%Z).
  split; [|split].
  - split; [exists []; reflexivity|]. intros d [].
  - vm_compute. reflexivity.
  - vm_compute. reflexivity.
Qed.

(* a dependency that was imported before the failure stays *)
Lemma refuted_deps_lemma fx :
  exists h f T' n b q,
    let T := fst (run_ops_with (import_gen fx) [] h) in
    import_gen fx f T = (T', Err (ESym n b)) /\ observe_with (import_gen fx) T' q <> observe_with (import_gen fx) T q.
Proof.
  exists [OImport wD0], wA, (fst (import_gen fx wA (fst (import_gen fx wD0 [])))), [4%N; 7%N], false, (QLookup [14%N; 25%N]).
  destruct fx; vm_compute; split; try reflexivity; discriminate.
Qed.

(* the packages registered for the failed file stay and make a later import fail *)
Definition wA2 : file := File 3 [18%N; 17%N] [wD1] [[18%N; 17%N; 23%N]] [].

Lemma refuted_packages_lemma fx :
  exists h f T' n b g,
    let T := fst (run_ops_with (import_gen fx) [] h) in
    import_gen fx f T = (T', Err (ESym n b)) /\
    observe_with (import_gen fx) T (QImport g) = ARes Ok /\
    observe_with (import_gen fx) T' (QImport g) = ARes (Err (ESym [18%N; 17%N] true)).
Proof.
  exists [OImport wD0], wA2, (fst (import_gen fx wA2 (fst (import_gen fx wD0 [])))), [4%N; 7%N], false, wB.
  destruct fx; vm_compute; repeat split; reflexivity.
Qed.

Lemma partial_nonvacuous :
  let T := fst (import wD0 []) in
  deps_settled import T wD1 /\ import wD1 T = (T, Err (ESym [4%N; 7%N] false)).
Proof.
  cbn zeta. split; [split|].
  - exists [4%N]. vm_compute. reflexivity.
  - intros d [].
  - vm_compute. reflexivity.
Qed.
