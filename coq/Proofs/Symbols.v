(* Proofs about the model of linker/symbols.go (Model/Symbols.v). *)
From Coq Require Import List NArith ZArith Bool Lia Arith.
From PV Require Import Common.Corr Model.Symbols.
Import ListNotations.

(* ------------------------------------------------------------------------------------------ *)
(* basics *)

Lemma name_eqb_refl a : name_eqb a a = true.
Proof. induction a as [|x a IH]; cbn; [reflexivity|]. now rewrite N.eqb_refl, IH. Qed.

Lemma name_eqb_eq a b : name_eqb a b = true <-> a = b.
Proof.
  revert b. induction a as [|x a IH]; intros [|y b]; cbn; split; intros H; try reflexivity; try discriminate.
  - apply andb_true_iff in H as [H1 H2]. apply N.eqb_eq in H1. apply IH in H2. now subst.
  - inversion H; subst. now rewrite N.eqb_refl, name_eqb_refl.
Qed.

Lemma name_eqb_neq a b : name_eqb a b = false <-> a <> b.
Proof.
  split; intros H.
  - intros E. apply name_eqb_eq in E. congruence.
  - destruct (name_eqb a b) eqn:E; [|reflexivity]. apply name_eqb_eq in E. contradiction.
Qed.

Lemma name_eqb_sym a b : name_eqb a b = name_eqb b a.
Proof.
  destruct (name_eqb a b) eqn:E.
  - apply name_eqb_eq in E. subst. now rewrite name_eqb_refl.
  - symmetry. apply name_eqb_neq. apply name_eqb_neq in E. congruence.
Qed.

Lemma mem_name_In x l : mem_name x l = true <-> In x l.
Proof.
  induction l as [|y l IH]; cbn; [split; [discriminate|tauto]|].
  rewrite orb_true_iff, IH, name_eqb_eq. split; intros [H|H]; auto.
Qed.

Lemma mem_N_In x l : mem_N x l = true <-> In x l.
Proof.
  induction l as [|y l IH]; cbn; [split; [discriminate|tauto]|].
  rewrite orb_true_iff, IH, N.eqb_eq. split; intros [H|H]; auto.
Qed.

Lemma get_node_set T p nd q :
  get_node (set_node T p nd) q = if name_eqb q p then nd else get_node T q.
Proof. unfold get_node, set_node. cbn. destruct (name_eqb q p); reflexivity. Qed.

Lemma get_node_set_same T p nd : get_node (set_node T p nd) p = nd.
Proof. now rewrite get_node_set, name_eqb_refl. Qed.

Lemma get_node_nil p : get_node [] p = empty_node.
Proof. reflexivity. Qed.

(* induction over files and their imports *)
Section file_induction.
  Variable P : file -> Prop.
  Hypothesis step : forall fid pkg deps syms exts,
      Forall P deps -> P (File fid pkg deps syms exts).
  Fixpoint file_ind2 (f : file) : P f :=
    match f with
    | File fid pkg deps syms exts =>
      step fid pkg deps syms exts
           ((fix go (ds : list file) : Forall P ds :=
               match ds with
               | [] => Forall_nil P
               | d :: r => Forall_cons d (file_ind2 d) (go r)
               end) deps)
    end.
End file_induction.

(* Import with the import of the dependencies written as import_list *)
Definition import_body (fx : bool) (idp : list file -> table -> table * res)
           (fid : N) (pkg : name) (deps : list file) (syms : list name)
           (exts : list (name * name * Z)) (T : table) : table * res :=
  match import_packages T fid pkg with
  | (T1, PkgErr e) => (T1, Err e)
  | (T1, PkgOk None) => (T1, Ok)
  | (T1, PkgOk (Some p)) =>
    if mem_N fid (n_files (get_node T1 p)) then (T1, Ok)
    else
      match idp deps T1 with
      | (T2, Err e) => (T2, Err e)
      | (T2, Ok) =>
        match (if fx then check_exts T2 exts [] else None) with
        | Some e => if mem_N fid (n_files (get_node T2 p)) then (T2, Ok) else (T2, Err e)
        | None =>
          match import_file_node T2 p fid syms with
          | (T3, _, Err e) => (T3, Err e)
          | (T3, false, Ok) => (T3, Ok)
          | (T3, true, Ok) => add_exts T3 fid exts
          end
        end
      end
  end.

Lemma import_gen_unfold fx fid pkg deps syms exts T :
  import_gen fx (File fid pkg deps syms exts) T
  = import_body fx (import_list (import_gen fx)) fid pkg deps syms exts T.
Proof.
  cbn [import_gen]. unfold import_body.
  destruct (import_packages T fid pkg) as [T1 [[p|]|e]]; try reflexivity.
  destruct (mem_N fid (n_files (get_node T1 p))); [reflexivity|].
  assert (E : forall ds T0,
             (fix import_deps (ds : list file) (T : table) {struct ds} : table * res :=
                match ds with
                | [] => (T, Ok)
                | d :: r => match import_gen fx d T with
                            | (T', Ok) => import_deps r T'
                            | (T', Err e) => (T', Err e)
                            end
                end) ds T0 = import_list (import_gen fx) ds T0).
  { induction ds as [|d ds IH]; intros T0; [reflexivity|]. cbn [import_list].
    destruct (import_gen fx d T0) as [T' [|e]]; [apply IH|reflexivity]. }
  rewrite E. reflexivity.
Qed.

(* ------------------------------------------------------------------------------------------ *)
(* C17: what a failed import leaves behind *)

(* once a package component had to be created, every deeper one is created as well: a package
   collision can only be reported before anything was written *)
Lemma import_packages_loop_fresh T o cur ps :
  get_node T cur = empty_node ->
  forall T' e, import_packages_loop T o cur ps <> (T', PkgErr e).
Proof.
  revert T cur. induction ps as [|p ps IH]; intros T cur Hf T' e; cbn [import_packages_loop]; [discriminate|].
  unfold import_package. rewrite Hf. cbn [n_symbols empty_node sym_find].
  apply IH. apply get_node_set_same.
Qed.

Lemma import_packages_loop_err T o cur ps T' e :
  import_packages_loop T o cur ps = (T', PkgErr e) -> T' = T.
Proof.
  revert T cur. induction ps as [|p ps IH]; intros T cur; cbn [import_packages_loop]; [discriminate|].
  unfold import_package.
  destruct (sym_find p (n_symbols (get_node T cur))) as [en|] eqn:Es.
  - destruct (e_pkg en).
    + destruct (mem_name p (n_children (get_node T cur))); [apply IH|discriminate].
    + intros H; inversion H; reflexivity.
  - intros H. exfalso. eapply import_packages_loop_fresh; [|exact H]. apply get_node_set_same.
Qed.

Lemma failed_package_collision_keeps_table_lemma T o pkg T' e :
  import_packages T o pkg = (T', PkgErr e) -> T' = T.
Proof. apply import_packages_loop_err. Qed.

Lemma import_list_settled imp ds T :
  (forall d, In d ds -> imp d T = (T, Ok)) -> import_list imp ds T = (T, Ok).
Proof.
  induction ds as [|d ds IH]; intros H; cbn [import_list]; [reflexivity|].
  rewrite (H d (or_introl eq_refl)). apply IH. intros d' Hd. apply H. now right.
Qed.

Lemma add_extension_err_kind T pkg m t o T' e :
  add_extension T pkg m t o = (T', Err e) -> forall n b, e <> ESym n b.
Proof.
  unfold add_extension, add_ext_node. intros H n b.
  destruct (negb (name_eqb pkg []) && negb (proper_prefix pkg m)); [inversion H; discriminate|].
  destruct (get_package T pkg true); [|inversion H; discriminate].
  destruct (ext_find m t (n_exts (get_node T n0))); inversion H; discriminate.
Qed.

Lemma add_exts_err_kind exts : forall T o T' e,
  add_exts T o exts = (T', Err e) -> forall n b, e <> ESym n b.
Proof.
  induction exts as [|[[pkg m] t] r IH]; intros T o T' e; cbn [add_exts]; [discriminate|].
  destruct (add_extension T pkg m t o) as [T1 [|e1]] eqn:E.
  - apply IH.
  - intros H; inversion H; subst. intros n b. exact (add_extension_err_kind _ _ _ _ _ _ _ E n b).
Qed.

Lemma import_file_node_err T p fid syms T' b e :
  import_file_node T p fid syms = (T', b, Err e) -> T' = T.
Proof.
  unfold import_file_node.
  destruct (mem_N fid (n_files (get_node T p))); [discriminate|].
  destruct (check_syms syms (n_symbols (get_node T p))); intros H; inversion H; reflexivity.
Qed.

(* a failed import whose error is a name collision, under the guard, changes nothing *)
Lemma failed_name_collision_keeps_table fx T f T' n b :
  deps_settled (import_gen fx) T f ->
  import_gen fx f T = (T', Err (ESym n b)) -> T' = T.
Proof.
  destruct f as [fid pkg deps syms exts]. intros [[p Hp] Hd]. cbn [ffid fpkg fdeps] in *.
  rewrite import_gen_unfold. unfold import_body. rewrite Hp.
  destruct (mem_N fid (n_files (get_node T p))) eqn:Hm; [discriminate|].
  rewrite (import_list_settled _ _ _ Hd).
  destruct (if fx then check_exts T exts [] else None) as [e|] eqn:Ec.
  - rewrite Hm. intros H; inversion H; reflexivity.
  - destruct (import_file_node T p fid syms) as [[T3 imp] [|e3]] eqn:Ef.
    + destruct imp; [|discriminate]. intros H. exfalso. exact (add_exts_err_kind _ _ _ _ _ H n b eq_refl).
    + destruct imp; intros H; inversion H; subst; exact (import_file_node_err _ _ _ _ _ _ _ Ef).
Qed.

Lemma observe_eq imp T T' : T' = T -> forall q, observe_with imp T' q = observe_with imp T q.
Proof. intros ->; reflexivity. Qed.

Lemma failed_import_is_noop_partial_lemma T f T' n b :
  deps_settled import T f -> import f T = (T', Err (ESym n b)) ->
  T' = T /\ forall q, observe T' q = observe T q.
Proof.
  intros Hg H. assert (E : T' = T) by (eapply failed_name_collision_keeps_table; eauto).
  split; [exact E|]. now apply observe_eq.
Qed.

Lemma failed_import_repeats_partial_lemma T f T' n b :
  deps_settled import T f -> import f T = (T', Err (ESym n b)) ->
  import f T' = (T', Err (ESym n b)).
Proof.
  intros Hg H. assert (E : T' = T) by (eapply failed_name_collision_keeps_table; eauto).
  subst. exact H.
Qed.

(* witnesses of what the pinned code does not guarantee *)
Definition wX : file := File 0 [] [] [[7%N]; [20%N]; [21%N]] [([], [7%N], 100%Z); ([], [7%N], 100%Z)].
Definition wD0 : file := File 0 [4%N] [] [[4%N; 7%N]] [].
Definition wD1 : file := File 1 [4%N] [] [[4%N; 7%N]] [].
Definition wD2 : file := File 2 [14%N] [] [[14%N; 25%N]] [].
Definition wA : file := File 3 [18%N; 17%N] [wD2; wD1] [[18%N; 17%N; 23%N]] [].
Definition wB : file := File 4 [18%N] [] [[18%N; 17%N]] [].

(* one file with two extensions of the same message and tag: the names are committed and the
   file is marked imported before the collision is found, although the guard holds *)
Lemma refuted_extnum_lemma :
  exists f T' e q, deps_settled import [] f /\ import f [] = (T', Err e) /\ observe T' q <> observe [] q.
Proof.
  exists wX, (fst (import wX [])), (EExt [7%N] 100%Z), (QLookup [20%N]).
  split; [|split].
  - split; [exists []; reflexivity|]. intros d [].
  - vm_compute. reflexivity.
  - vm_compute. discriminate.
Qed.

Lemma repeats_refuted_lemma :
  exists f T' e, deps_settled import [] f /\ import f [] = (T', Err e) /\ import f T' = (T', Ok).
Proof.
  exists wX, (fst (import wX [])), (EExt [7%N] 100%Z).
  split; [|split].
  - split; [exists []; reflexivity|]. intros d [].
  - vm_compute. reflexivity.
  - vm_compute. reflexivity.
Qed.

(* a dependency that was imported before the failure stays *)
Lemma refuted_deps_lemma fx :
  exists h f T' n b q,
    let T := fst (run_ops_with (import_gen fx) [] h) in
    import_gen fx f T = (T', Err (ESym n b)) /\ observe_with (import_gen fx) T' q <> observe_with (import_gen fx) T q.
Proof.
  exists [OImport wD0], wA, (fst (import_gen fx wA (fst (import_gen fx wD0 [])))), [4%N; 7%N], false, (QLookup [14%N; 25%N]).
  destruct fx; vm_compute; split; try reflexivity; discriminate.
Qed.

(* the packages registered for the failed file stay and make a later import fail *)
Definition wA2 : file := File 3 [18%N; 17%N] [wD1] [[18%N; 17%N; 23%N]] [].

Lemma refuted_packages_lemma fx :
  exists h f T' n b g,
    let T := fst (run_ops_with (import_gen fx) [] h) in
    import_gen fx f T = (T', Err (ESym n b)) /\
    observe_with (import_gen fx) T (QImport g) = ARes Ok /\
    observe_with (import_gen fx) T' (QImport g) = ARes (Err (ESym [18%N; 17%N] true)).
Proof.
  exists [OImport wD0], wA2, (fst (import_gen fx wA2 (fst (import_gen fx wD0 [])))), [4%N; 7%N], false, wB.
  destruct fx; vm_compute; repeat split; reflexivity.
Qed.

Lemma partial_nonvacuous :
  let T := fst (import wD0 []) in
  deps_settled import T wD1 /\ import wD1 T = (T, Err (ESym [4%N; 7%N] false)).
Proof.
  cbn zeta. split; [split|].
  - exists [4%N]. vm_compute. reflexivity.
  - intros d [].
  - vm_compute. reflexivity.
Qed.

(* ------------------------------------------------------------------------------------------ *)
(* C17 on the repaired model: after the pre-check has passed, registering the extensions of the
   file cannot fail, so every failure happens before anything of the file is written *)

Lemma get_package_loop_children Ta Tb :
  (forall q, n_children (get_node Tb q) = n_children (get_node Ta q)) ->
  forall ps cur ex, get_package_loop Tb cur ps ex = get_package_loop Ta cur ps ex.
Proof.
  intros H. induction ps as [|p ps IH]; intros cur ex; cbn [get_package_loop]; [reflexivity|].
  rewrite H. destruct (mem_name p (n_children (get_node Ta cur))); [apply IH|reflexivity].
Qed.

Lemma check_exts_add_exts o : forall exts seen Ta Tb,
  (forall q, n_children (get_node Tb q) = n_children (get_node Ta q)) ->
  (forall q m t, seen_ext m t seen = false ->
                 ext_find m t (n_exts (get_node Tb q)) = ext_find m t (n_exts (get_node Ta q))) ->
  check_exts Ta exts seen = None -> exists Tb', add_exts Tb o exts = (Tb', Ok).
Proof.
  induction exts as [|[[pkg m] t] r IH]; intros seen Ta Tb Hc He; cbn [check_exts add_exts].
  - intros _. eexists; reflexivity.
  - unfold add_extension, get_package.
    destruct (negb (name_eqb pkg []) && negb (proper_prefix pkg m)); [discriminate|].
    rewrite (get_package_loop_children Ta Tb Hc).
    destruct (get_package_loop Ta [] (prefixes pkg) true) as [p|]; [|discriminate].
    destruct (seen_ext m t seen) eqn:Es; [discriminate|].
    destruct (ext_find m t (n_exts (get_node Ta p))) eqn:Ef; [discriminate|].
    intros Hr. unfold add_ext_node. rewrite (He p m t Es), Ef.
    apply (IH ((m, t) :: seen) Ta); [| |exact Hr].
    + intros q. rewrite get_node_set. destruct (name_eqb q p) eqn:Eq; [|apply Hc].
      apply name_eqb_eq in Eq. subst q. cbn [add_ext n_children]. apply Hc.
    + intros q m' t' Hs. cbn [seen_ext] in Hs. apply orb_false_iff in Hs as [Hk Hs].
      rewrite get_node_set. destruct (name_eqb q p) eqn:Eq; [|now apply He].
      apply name_eqb_eq in Eq. subst q. cbn [add_ext n_exts ext_find]. rewrite Hk. now apply He.
Qed.

Lemma commit_syms_children nd fid syms : n_children (commit_syms nd fid syms) = n_children nd.
Proof.
  unfold commit_syms. revert nd. induction syms as [|x r IH]; intros nd; cbn [fold_left]; [reflexivity|].
  now rewrite IH.
Qed.
Lemma commit_syms_exts nd fid syms : n_exts (commit_syms nd fid syms) = n_exts nd.
Proof.
  unfold commit_syms. revert nd. induction syms as [|x r IH]; intros nd; cbn [fold_left]; [reflexivity|].
  now rewrite IH.
Qed.
Lemma commit_syms_files nd fid syms : n_files (commit_syms nd fid syms) = n_files nd.
Proof.
  unfold commit_syms. revert nd. induction syms as [|x r IH]; intros nd; cbn [fold_left]; [reflexivity|].
  now rewrite IH.
Qed.

Lemma failed_import_fx_keeps_table T f T' e :
  deps_settled import_fx T f -> import_fx f T = (T', Err e) -> T' = T.
Proof.
  destruct f as [fid pkg deps syms exts]. intros [[p Hp] Hd]. cbn [ffid fpkg fdeps] in *.
  unfold import_fx in *. rewrite import_gen_unfold. unfold import_body. rewrite Hp.
  destruct (mem_N fid (n_files (get_node T p))) eqn:Hm; [discriminate|].
  rewrite (import_list_settled _ _ _ Hd).
  destruct (check_exts T exts []) as [e1|] eqn:Ec.
  - rewrite Hm. intros H; inversion H; reflexivity.
  - destruct (import_file_node T p fid syms) as [[T3 imp] [|e3]] eqn:Ef.
    + destruct imp; [|discriminate]. intros H. exfalso.
      unfold import_file_node in Ef. rewrite Hm in Ef.
      destruct (check_syms syms (n_symbols (get_node T p))); [discriminate|].
      inversion Ef; subst T3. clear Ef.
      destruct (check_exts_add_exts fid exts [] T
                  (set_node T p (add_file (commit_syms (get_node T p) fid syms) fid))) as [Tb' Hb].
      * intros q. rewrite get_node_set. destruct (name_eqb q p) eqn:Eq; [|reflexivity].
        apply name_eqb_eq in Eq. subst q. cbn [add_file n_children]. apply commit_syms_children.
      * intros q m t _. rewrite get_node_set. destruct (name_eqb q p) eqn:Eq; [|reflexivity].
        apply name_eqb_eq in Eq. subst q. cbn [add_file n_exts]. now rewrite commit_syms_exts.
      * exact Ec.
      * rewrite Hb in H. discriminate.
    + destruct imp; intros H; inversion H; subst; exact (import_file_node_err _ _ _ _ _ _ _ Ef).
Qed.

Lemma failed_import_fx_is_noop_lemma T f T' e :
  deps_settled import_fx T f -> import_fx f T = (T', Err e) ->
  T' = T /\ forall q, observe_with import_fx T' q = observe_with import_fx T q.
Proof.
  intros Hg H. assert (E : T' = T) by (eapply failed_import_fx_keeps_table; eauto).
  split; [exact E|]. now apply observe_eq.
Qed.

Lemma failed_import_fx_repeats_lemma T f T' e :
  deps_settled import_fx T f -> import_fx f T = (T', Err e) -> import_fx f T' = (T', Err e).
Proof.
  intros Hg H. assert (E : T' = T) by (eapply failed_import_fx_keeps_table; eauto).
  subst. exact H.
Qed.

(* the repaired model does reject the witnesses of the pinned model before writing anything *)
Lemma fx_nonvacuous :
  deps_settled import_fx [] wX /\ import_fx wX [] = ([], Err (EExt [7%N] 100%Z)).
Proof.
  split; [split|].
  - exists []. reflexivity.
  - intros d [].
  - vm_compute. reflexivity.
Qed.

(* ------------------------------------------------------------------------------------------ *)
(* C16, concurrency: lock discipline of the programs and absence of races in the model *)

(* thread-local discipline: started with the locks h, the program takes no lock it already
   holds, releases only locks it holds, reads a map of a node only while holding R or W of that
   node and writes only while holding W, whatever the reads return; Q holds at the end *)
Fixpoint discQ {R : Type} (h : held) (m : prog R) (Q : R -> held -> Prop) : Prop :=
  match m with
  | Ret r => Q r h
  | RLock p k => holds_any h p = false /\ discQ ((p, false) :: h) k Q
  | WLock p k => holds_any h p = false /\ discQ ((p, true) :: h) k Q
  | RUnlock p k => holds h p false = true /\ discQ (release h p false) k Q
  | WUnlock p k => holds h p true = true /\ discQ (release h p true) k Q
  | Rd p f k => holds_any h p = true /\ forall nd, discQ h (k nd) Q
  | Wr p f u k => holds h p true = true /\ discQ h k Q
  | NewChild p c k => holds h p true = true /\ discQ h k Q
  end.

(* balanced: started without locks, disciplined, and ends without locks *)
Definition bal {R : Type} (m : prog R) : Prop := discQ [] m (fun _ h => h = []).

Lemma discQ_mono {R : Type} (m : prog R) : forall h (Q Q' : R -> held -> Prop),
  (forall r h', Q r h' -> Q' r h') -> discQ h m Q -> discQ h m Q'.
Proof.
  induction m as [r|p k IH|p k IH|p k IH|p k IH|p f k IH|p f u k IH|p c k IH]; intros h Q Q' HQ; cbn [discQ].
  - apply HQ.
  - intros [H1 H2]; split; [exact H1|]. eapply IH; eauto.
  - intros [H1 H2]; split; [exact H1|]. eapply IH; eauto.
  - intros [H1 H2]; split; [exact H1|]. eapply IH; eauto.
  - intros [H1 H2]; split; [exact H1|]. eapply IH; eauto.
  - intros [H1 H2]; split; [exact H1|]. intros nd. eapply IH; eauto.
  - intros [H1 H2]; split; [exact H1|]. eapply IH; eauto.
  - intros [H1 H2]; split; [exact H1|]. eapply IH; eauto.
Qed.

Lemma discQ_bind {A B : Type} (m : prog A) (g : A -> prog B) : forall h (Q : B -> held -> Prop),
  discQ h m (fun r h' => discQ h' (g r) Q) -> discQ h (bind m g) Q.
Proof.
  induction m as [r|p k IH|p k IH|p k IH|p k IH|p f k IH|p f u k IH|p c k IH]; intros h Q; cbn [discQ bind].
  - auto.
  - intros [H1 H2]; split; auto.
  - intros [H1 H2]; split; auto.
  - intros [H1 H2]; split; auto.
  - intros [H1 H2]; split; auto.
  - intros [H1 H2]; split; auto.
  - intros [H1 H2]; split; auto.
  - intros [H1 H2]; split; auto.
Qed.

Lemma bal_bind {A B : Type} (m : prog A) (g : A -> prog B) (Q : B -> held -> Prop) :
  bal m -> (forall r, discQ [] (g r) Q) -> discQ [] (bind m g) Q.
Proof.
  intros Hm Hg. apply discQ_bind. eapply discQ_mono; [|exact Hm].
  intros r h' E. cbn beta in E. subst h'. apply Hg.
Qed.

Lemma holds_any_r p : holds_any [(p, false)] p = true.
Proof. unfold holds_any. cbn. rewrite name_eqb_refl. cbn. reflexivity. Qed.
Lemma holds_any_w p : holds_any [(p, true)] p = true.
Proof. unfold holds_any. cbn. rewrite name_eqb_refl. reflexivity. Qed.
Lemma holds_w p : holds [(p, true)] p true = true.
Proof. cbn. rewrite name_eqb_refl. reflexivity. Qed.
Lemma holds_r p : holds [(p, false)] p false = true.
Proof. cbn. rewrite name_eqb_refl. reflexivity. Qed.
Lemma release_r p : release [(p, false)] p false = [].
Proof. cbn. rewrite name_eqb_refl. reflexivity. Qed.
Lemma release_w p : release [(p, true)] p true = [].
Proof. cbn. rewrite name_eqb_refl. reflexivity. Qed.

Ltac disc :=
  repeat (cbn [discQ];
          rewrite ?holds_any_r, ?holds_any_w, ?holds_w, ?holds_r, ?release_r, ?release_w;
          match goal with
          | |- _ /\ _ => split
          | |- forall _, _ => intro
          | |- true = true => reflexivity
          | |- false = false => reflexivity
          | |- holds_any [] _ = false => reflexivity
          | |- @eq held [] [] => reflexivity
          end).

Lemma bal_import_package_prog cur o p : bal (import_package_prog cur o p).
Proof.
  unfold bal, import_package_prog. disc.
  destruct (sym_find p (n_symbols nd)) as [e|].
  - destruct (e_pkg e); disc.
  - disc. destruct (sym_find p (n_symbols nd0)) as [e|].
    + destruct (e_pkg e); disc.
    + disc.
Qed.

Lemma bal_import_packages_loop_prog o ps : forall cur, bal (import_packages_loop_prog o cur ps).
Proof.
  induction ps as [|p ps IH]; intros cur; cbn [import_packages_loop_prog].
  - unfold bal. disc.
  - apply bal_bind; [apply bal_import_package_prog|].
    intros [[c|]|e]; [apply IH| |]; disc.
Qed.

Lemma bal_get_package_loop_prog ex ps : forall cur, bal (get_package_loop_prog cur ps ex).
Proof.
  induction ps as [|p ps IH]; intros cur; cbn [get_package_loop_prog]; unfold bal.
  - disc.
  - disc. destruct (mem_name p (n_children nd)); [apply IH|disc].
Qed.

Lemma disc_commit_loop p fid syms (k : prog (bool * res)) Q :
  discQ [(p, true)] k Q ->
  discQ [(p, true)]
        (fold_right (fun x k0 => Wr p FSymbols (fun nd => add_symbol nd x (mkEntry fid false)) k0) k syms) Q.
Proof.
  intros Hk. induction syms as [|x r IH]; cbn [fold_right]; [exact Hk|]. disc. exact IH.
Qed.

Lemma bal_import_file_prog p fid syms : bal (import_file_prog p fid syms).
Proof.
  unfold bal, import_file_prog. disc.
  destruct (mem_N fid (n_files nd)); disc.
  destruct (check_syms syms (n_symbols nd0)); disc.
  apply disc_commit_loop. disc.
Qed.

Lemma bal_add_ext_node_prog p m t o : bal (add_ext_node_prog p m t o).
Proof.
  unfold bal, add_ext_node_prog. disc. destruct (ext_find m t (n_exts nd)); disc.
Qed.

Lemma bal_add_extension_prog pkg m t o : bal (add_extension_prog pkg m t o).
Proof.
  unfold add_extension_prog.
  destruct (negb (name_eqb pkg []) && negb (proper_prefix pkg m)); [unfold bal; disc|].
  apply bal_bind; [apply bal_get_package_loop_prog|].
  intros [p|]; [apply bal_add_ext_node_prog|disc].
Qed.

Lemma bal_add_exts_prog o exts : bal (add_exts_prog o exts).
Proof.
  induction exts as [|[[pkg m] t] r IH]; cbn [add_exts_prog]; [unfold bal; disc|].
  apply bal_bind; [apply bal_add_extension_prog|]. intros [|e]; [apply IH|disc].
Qed.

Lemma bal_check_exts_prog exts : forall seen, bal (check_exts_prog exts seen).
Proof.
  induction exts as [|[[pkg m] t] r IH]; intros seen; cbn [check_exts_prog]; [unfold bal; disc|].
  destruct (negb (name_eqb pkg []) && negb (proper_prefix pkg m)); [unfold bal; disc|].
  apply bal_bind; [apply bal_get_package_loop_prog|].
  intros [p|]; [|disc].
  destruct (seen_ext m t seen); [disc|].
  disc. destruct (ext_find m t (n_exts nd)); [disc|apply IH].
Qed.

Lemma bal_import_prog_gen fx f : bal (import_prog_gen fx f).
Proof.
  induction f as [fid pkg deps syms exts IHd] using file_ind2.
  cbn [import_prog_gen].
  apply bal_bind; [apply bal_import_packages_loop_prog|].
  intros [[p|]|e]; [|disc|disc].
  disc. destruct (mem_N fid (n_files nd)); [disc|].
  apply bal_bind.
  - induction IHd as [|d ds Hd _ IH]; [unfold bal; disc|].
    apply bal_bind; [exact Hd|]. intros [|e]; [exact IH|disc].
  - intros [|e]; [|disc].
    apply bal_bind; [destruct fx; [apply bal_check_exts_prog|unfold bal; disc]|].
    intros [e|].
    + disc. destruct (mem_N fid (n_files nd0)); disc.
    + apply bal_bind; [apply bal_import_file_prog|].
      intros [[|] [|e]]; try (disc; fail). apply bal_add_exts_prog.
Qed.

Lemma bal_lookup_prog_fx n : bal (lookup_prog_fx n).
Proof.
  unfold lookup_prog_fx. apply bal_bind; [apply bal_get_package_loop_prog|]. intros [p|]; disc.
Qed.
Lemma bal_lookup_ext_prog_fx m t : bal (lookup_ext_prog_fx m t).
Proof.
  unfold lookup_ext_prog_fx. apply bal_bind; [apply bal_get_package_loop_prog|]. intros [p|]; disc.
Qed.

(* operations that do not look up: Import and AddExtension *)
Definition is_import_op (o : op) : Prop :=
  match o with OImport _ | OAddExt _ _ _ _ => True | _ => False end.

Lemma bal_op_prog_import o : is_import_op o -> bal (op_prog o).
Proof.
  destruct o as [f|pkg m t ow|n|m t]; cbn; intros H; try contradiction; unfold op_prog, op_prog_with.
  - apply bal_bind; [apply bal_import_prog_gen|]. intros r; disc.
  - apply bal_bind; [apply bal_add_extension_prog|]. intros r; disc.
Qed.

Lemma bal_op_prog_with_fx impp o :
  (forall f, bal (impp f)) -> bal (op_prog_with impp lookup_prog_fx lookup_ext_prog_fx o).
Proof.
  intros Hi. destruct o as [f|pkg m t ow|n|m t]; unfold op_prog_with.
  - apply bal_bind; [apply Hi|]. intros r; disc.
  - apply bal_bind; [apply bal_add_extension_prog|]. intros r; disc.
  - apply bal_bind; [apply bal_lookup_prog_fx|]. intros r; disc.
  - apply bal_bind; [apply bal_lookup_ext_prog_fx|]. intros r; disc.
Qed.

Lemma bal_ops_prog_with opp ops : (forall o, In o ops -> bal (opp o)) -> bal (ops_prog_with opp ops).
Proof.
  induction ops as [|o r IH]; intros H; cbn [ops_prog_with]; [unfold bal; disc|].
  apply bal_bind; [apply H; now left|]. intros a.
  apply bal_bind; [apply IH; intros o' Ho'; apply H; now right|]. intros l; disc.
Qed.

(* ---- the global invariant of the interleaving semantics ---- *)

Definition thread_ok {R : Type} (th : thread R) : Prop :=
  discQ (th_held th) (th_prog th) (fun _ _ => True).

(* a write lock excludes every other holder *)
Definition excl {R : Type} (ths : list (thread R)) : Prop :=
  forall i j a b p, i <> j -> nth_error ths i = Some a -> nth_error ths j = Some b ->
                    holds (th_held a) p true = true -> holds_any (th_held b) p = false.

Definition GI {R : Type} (s : cstate R) : Prop :=
  Forall thread_ok (cs_threads s) /\ excl (cs_threads s).

Lemma nth_error_replace_nth {A : Type} (l : list A) : forall t x j,
  nth_error (replace_nth l t x) j =
  if Nat.eqb j t then (match nth_error l t with Some _ => Some x | None => None end) else nth_error l j.
Proof.
  induction l as [|y l IH]; intros t x j; cbn [replace_nth].
  - destruct (Nat.eqb j t); destruct j, t; reflexivity.
  - destruct t as [|t]; destruct j as [|j]; cbn; try reflexivity. apply IH.
Qed.

Lemma Forall_replace_nth {A : Type} (P : A -> Prop) (l : list A) : forall t x,
  Forall P l -> P x -> Forall P (replace_nth l t x).
Proof.
  induction l as [|y l IH]; intros t x Hl Hx; cbn [replace_nth]; [constructor|].
  inversion Hl; subst. destruct t; constructor; auto.
Qed.

Lemma others_hold_at_false {R : Type} (ths : list (thread R)) : forall i t p w,
  others_hold_at ths i t p w = false ->
  forall j b, nth_error ths j = Some b -> (i + j)%nat <> t ->
              (if w then holds (th_held b) p true else holds_any (th_held b) p) = false.
Proof.
  induction ths as [|th ths IH]; intros i t p w H j b Hj Hne; [destruct j; discriminate|].
  cbn [others_hold_at] in H. apply orb_false_iff in H as [H1 H2].
  destruct j as [|j]; cbn in Hj.
  - inversion Hj; subst b. rewrite Nat.add_0_r in Hne.
    destruct (Nat.eqb i t) eqn:E; [apply Nat.eqb_eq in E; contradiction|]. exact H1.
  - apply (IH (S i) t p w H2 j b Hj). lia.
Qed.

Lemma holds_cons h q w' p w :
  holds ((q, w') :: h) p w = (name_eqb p q && Bool.eqb w w') || holds h p w.
Proof. reflexivity. Qed.

Lemma holds_any_cons h q w' p :
  holds_any ((q, w') :: h) p = name_eqb p q || holds_any h p.
Proof.
  unfold holds_any. rewrite !holds_cons. destruct (name_eqb p q), w'; cbn; try reflexivity.
  now rewrite orb_true_r.
Qed.

Lemma holds_release h p w q w' : holds (release h p w) q w' = true -> holds h q w' = true.
Proof.
  induction h as [|[r wr] h IH]; cbn [release]; [auto|].
  destruct (name_eqb p r && Bool.eqb w wr).
  - intros H. rewrite holds_cons, H. apply orb_true_r.
  - rewrite !holds_cons. intros H. apply orb_true_iff in H as [H|H]; [now rewrite H|].
    rewrite (IH H). apply orb_true_r.
Qed.

Lemma holds_any_release h p w q : holds_any (release h p w) q = true -> holds_any h q = true.
Proof.
  unfold holds_any. intros H. apply orb_true_iff in H as [H|H]; apply holds_release in H; rewrite H;
    [reflexivity|apply orb_true_r].
Qed.

Lemma holds_true_any h p : holds h p true = true -> holds_any h p = true.
Proof. unfold holds_any. now intros ->. Qed.

(* replacing thread t by a thread whose locks are justified keeps the invariant *)
Lemma GI_replace {R : Type} (s : cstate R) t th th' T' :
  GI s -> nth_error (cs_threads s) t = Some th -> thread_ok th' ->
  (forall p, holds (th_held th') p true = true ->
             holds (th_held th) p true = true \/
             (forall j b, j <> t -> nth_error (cs_threads s) j = Some b -> holds_any (th_held b) p = false)) ->
  (forall p, holds_any (th_held th') p = true ->
             holds_any (th_held th) p = true \/
             (forall j b, j <> t -> nth_error (cs_threads s) j = Some b -> holds (th_held b) p true = false)) ->
  GI (mkCState T' (replace_nth (cs_threads s) t th')).
Proof.
  intros [Hok Hex] Ht Hth' Hw Ha. split; cbn [cs_threads].
  - now apply Forall_replace_nth.
  - intros i j a b p Hij Hi Hj Hp.
    rewrite nth_error_replace_nth in Hi, Hj. rewrite Ht in Hi, Hj.
    destruct (Nat.eqb i t) eqn:Ei; destruct (Nat.eqb j t) eqn:Ej.
    + apply Nat.eqb_eq in Ei, Ej. congruence.
    + apply Nat.eqb_eq in Ei. apply Nat.eqb_neq in Ej. inversion Hi; subst a i.
      destruct (Hw p Hp) as [Hold|Hnew].
      * eapply Hex; [| exact Ht | exact Hj | exact Hold]. congruence.
      * apply (Hnew j b); auto.
    + apply Nat.eqb_neq in Ei. apply Nat.eqb_eq in Ej. inversion Hj; subst b j.
      destruct (holds_any (th_held th') p) eqn:Eh; [|reflexivity].
      destruct (Ha p Eh) as [Hold|Hnew].
      * rewrite <- Hold. eapply Hex; [| exact Hi | exact Ht | exact Hp]. exact Ei.
      * rewrite (Hnew i a Ei Hi) in Hp. discriminate.
    + eapply Hex; eauto.
Qed.

Lemma step_GI {R : Type} (s s' : cstate R) t : GI s -> step s t = Some s' -> GI s'.
Proof.
  intros HG. unfold step. destruct (nth_error (cs_threads s) t) as [th|] eqn:Et; [|discriminate].
  assert (Hth : thread_ok th).
  { destruct HG as [Hok _]. rewrite Forall_forall in Hok. apply Hok. eapply nth_error_In; eauto. }
  destruct th as [h m]. unfold thread_ok in Hth. cbn [th_held th_prog] in *.
  destruct m as [r|p k|p k|p k|p k|p f k|p f u k|p c k]; cbn [discQ] in Hth.
  - discriminate.
  - (* RLock *)
    destruct (others_hold_at (cs_threads s) 0 t p true || holds_any h p) eqn:E; [discriminate|].
    apply orb_false_iff in E as [Eo Eh]. intros H; inversion H; subst s'; clear H.
    eapply GI_replace; [exact HG|exact Et|exact (proj2 Hth)| |]; cbn [th_held].
    + intros q Hq. rewrite holds_cons in Hq. cbn [Bool.eqb] in Hq. rewrite andb_false_r in Hq. now left.
    + intros q Hq. rewrite holds_any_cons in Hq. apply orb_true_iff in Hq as [Hq|Hq]; [|now left].
      right. intros j b Hj Hb. apply name_eqb_eq in Hq. subst q.
      apply (others_hold_at_false _ _ _ _ _ Eo j b Hb). cbn. congruence.
  - (* RUnlock *)
    destruct (holds h p false); [|discriminate]. intros H; inversion H; subst s'; clear H.
    eapply GI_replace; [exact HG|exact Et|exact (proj2 Hth)| |]; cbn [th_held].
    + intros q Hq. left. eapply holds_release; eauto.
    + intros q Hq. left. eapply holds_any_release; eauto.
  - (* WLock *)
    destruct (others_hold_at (cs_threads s) 0 t p false || holds_any h p) eqn:E; [discriminate|].
    apply orb_false_iff in E as [Eo Eh]. intros H; inversion H; subst s'; clear H.
    eapply GI_replace; [exact HG|exact Et|exact (proj2 Hth)| |]; cbn [th_held].
    + intros q Hq. rewrite holds_cons in Hq. apply orb_true_iff in Hq as [Hq|Hq]; [|now left].
      right. intros j b Hj Hb. apply andb_true_iff in Hq as [Hq _]. apply name_eqb_eq in Hq. subst q.
      apply (others_hold_at_false _ _ _ _ _ Eo j b Hb). cbn. congruence.
    + intros q Hq. rewrite holds_any_cons in Hq. apply orb_true_iff in Hq as [Hq|Hq]; [|now left].
      right. intros j b Hj Hb. apply name_eqb_eq in Hq. subst q.
      assert (Hx : holds_any (th_held b) p = false).
      { apply (others_hold_at_false _ _ _ _ _ Eo j b Hb). cbn. congruence. }
      destruct (holds (th_held b) p true) eqn:Ew; [|reflexivity].
      apply holds_true_any in Ew. congruence.
  - (* WUnlock *)
    destruct (holds h p true); [|discriminate]. intros H; inversion H; subst s'; clear H.
    eapply GI_replace; [exact HG|exact Et|exact (proj2 Hth)| |]; cbn [th_held].
    + intros q Hq. left. eapply holds_release; eauto.
    + intros q Hq. left. eapply holds_any_release; eauto.
  - (* Rd *)
    intros H; inversion H; subst s'; clear H.
    eapply GI_replace; [exact HG|exact Et|exact (proj2 Hth _)| |]; cbn [th_held]; intros q Hq; now left.
  - (* Wr *)
    intros H; inversion H; subst s'; clear H.
    eapply GI_replace; [exact HG|exact Et|exact (proj2 Hth)| |]; cbn [th_held]; intros q Hq; now left.
  - (* NewChild *)
    intros H; inversion H; subst s'; clear H.
    eapply GI_replace; [exact HG|exact Et|exact (proj2 Hth)| |]; cbn [th_held]; intros q Hq; now left.
Qed.

Lemma run_sched_GI {R : Type} sched : forall (s : cstate R), GI s -> GI (run_sched s sched).
Proof.
  induction sched as [|t r IH]; intros s HG; cbn [run_sched]; [exact HG|].
  destruct (step s t) as [s'|] eqn:E; [|now apply IH]. apply IH. eapply step_GI; eauto.
Qed.

Lemma init_GI {R : Type} T (progs : list (prog R)) :
  Forall bal progs -> GI (init_state T progs).
Proof.
  intros Hb. split; unfold init_state; cbn [cs_threads].
  - induction Hb as [|m ms Hm _ IH]; cbn [map]; constructor; [|exact IH].
    unfold thread_ok. cbn [th_held th_prog]. eapply discQ_mono; [|exact Hm]. auto.
  - intros i j a b p _ Hi _ Hp. apply nth_error_In in Hi. apply in_map_iff in Hi as [m [Hm _]].
    subst a. cbn in Hp. discriminate.
Qed.

Lemma thread_ok_access {R : Type} (th : thread R) : thread_ok th -> access_ok th = true.
Proof.
  destruct th as [h m]. unfold thread_ok, access_ok. cbn [th_held th_prog].
  destruct m; cbn [discQ next_access]; try reflexivity; intros [H _]; exact H.
Qed.

Lemma GI_no_race {R : Type} (s : cstate R) i j : GI s -> race_at s i j = false.
Proof.
  intros [Hok Hex]. unfold race_at.
  destruct (nth_error (cs_threads s) i) as [a|] eqn:Ei; [|reflexivity].
  destruct (nth_error (cs_threads s) j) as [b|] eqn:Ej; [|reflexivity].
  destruct (Nat.eqb i j) eqn:Eij; [reflexivity|]. apply Nat.eqb_neq in Eij. cbn [negb andb].
  rewrite Forall_forall in Hok.
  assert (Ha : thread_ok a) by (apply Hok; eapply nth_error_In; eauto).
  assert (Hb : thread_ok b) by (apply Hok; eapply nth_error_In; eauto).
  destruct (conflicting (next_access (th_prog a)) (next_access (th_prog b))) eqn:Ec; [|reflexivity].
  exfalso. unfold conflicting in Ec.
  destruct (next_access (th_prog a)) as [[[p f] w]|] eqn:Na; [|discriminate].
  destruct (next_access (th_prog b)) as [[[q g] w']|] eqn:Nb; [|discriminate].
  apply andb_true_iff in Ec as [Ec Hw]. apply andb_true_iff in Ec as [Epq _].
  apply name_eqb_eq in Epq. subst q.
  pose proof (thread_ok_access a Ha) as Aa. pose proof (thread_ok_access b Hb) as Ab.
  unfold access_ok in Aa, Ab. rewrite Na in Aa. rewrite Nb in Ab.
  destruct w.
  - assert (Hb2 : holds_any (th_held b) p = true) by (destruct w'; [now apply holds_true_any|exact Ab]).
    rewrite (Hex i j a b p Eij Ei Ej Aa) in Hb2. discriminate.
  - cbn in Hw. subst w'.
    assert (Hne : j <> i) by congruence.
    rewrite (Hex j i b a p Hne Ej Ei Ab) in Aa. discriminate.
Qed.

(* the two theorems for any set of balanced goroutine programs *)
Lemma lock_discipline_bal {R : Type} T (progs : list (prog R)) sched t th :
  Forall bal progs ->
  nth_error (cs_threads (run_sched (init_state T progs) sched)) t = Some th -> access_ok th = true.
Proof.
  intros Hb Ht. pose proof (run_sched_GI sched _ (init_GI T progs Hb)) as [Hok _].
  rewrite Forall_forall in Hok. apply thread_ok_access, Hok. eapply nth_error_In; eauto.
Qed.

Lemma model_drf_bal {R : Type} T (progs : list (prog R)) sched i j :
  Forall bal progs -> race_at (run_sched (init_state T progs) sched) i j = false.
Proof. intros Hb. apply GI_no_race, run_sched_GI, init_GI, Hb. Qed.

Lemma Forall_bal_ops_import opss :
  Forall (Forall is_import_op) opss -> Forall bal (map ops_prog opss).
Proof.
  intros H. apply Forall_forall. intros m Hm. apply in_map_iff in Hm as [ops [E Hin]]. subst m.
  rewrite Forall_forall in H. specialize (H ops Hin). rewrite Forall_forall in H.
  apply bal_ops_prog_with. intros o Ho. apply bal_op_prog_import. now apply H.
Qed.

Lemma Forall_bal_ops_fx impp opss :
  (forall f, bal (impp f)) ->
  Forall bal (map (ops_prog_with (op_prog_with impp lookup_prog_fx lookup_ext_prog_fx)) opss).
Proof.
  intros Hi. apply Forall_forall. intros m Hm. apply in_map_iff in Hm as [ops [E Hin]]. subst m.
  apply bal_ops_prog_with. intros o _. now apply bal_op_prog_with_fx.
Qed.

(* pinned code, import paths: goroutines that only Import / AddExtension *)
Lemma lock_discipline_imports_lemma T opss sched t th :
  Forall (Forall is_import_op) opss ->
  nth_error (cs_threads (run_sched (init_state T (map ops_prog opss)) sched)) t = Some th ->
  access_ok th = true.
Proof. intros H. apply lock_discipline_bal. now apply Forall_bal_ops_import. Qed.

Lemma model_drf_imports_lemma T opss sched i j :
  Forall (Forall is_import_op) opss ->
  race_at (run_sched (init_state T (map ops_prog opss)) sched) i j = false.
Proof. intros H. apply model_drf_bal. now apply Forall_bal_ops_import. Qed.

(* repaired lookups (with either Import): every operation *)
Lemma lock_discipline_fx_lemma fx T opss sched t th :
  nth_error (cs_threads (run_sched (init_state T
     (map (ops_prog_with (op_prog_with (import_prog_gen fx) lookup_prog_fx lookup_ext_prog_fx)) opss)) sched)) t = Some th ->
  access_ok th = true.
Proof. apply lock_discipline_bal. apply Forall_bal_ops_fx. apply bal_import_prog_gen. Qed.

Lemma model_drf_fx_lemma fx T opss sched i j :
  race_at (run_sched (init_state T
     (map (ops_prog_with (op_prog_with (import_prog_gen fx) lookup_prog_fx lookup_ext_prog_fx)) opss)) sched) i j = false.
Proof. apply model_drf_bal. apply Forall_bal_ops_fx. apply bal_import_prog_gen. Qed.

(* pinned code with a lookup: the final read of Lookup holds no lock, and it can be about to
   happen while an Import is about to write the same map under its write lock *)
Definition wM : file := File 0 [1%N] [] [[1%N; 7%N]] [].
Definition wM2 : file := File 1 [1%N] [] [[1%N; 8%N]] [].
Definition race_threads : list (list op) := [[OImport wM2]; [OLookup [1%N; 7%N]]].
Definition race_init : table := fst (import wM []).
Definition race_sched : list nat := repeat 1%nat 6 ++ repeat 0%nat 10.

Lemma lock_discipline_refuted_lemma :
  exists T opss sched t th,
    nth_error (cs_threads (run_sched (init_state T (map ops_prog opss)) sched)) t = Some th /\
    access_ok th = false /\
    next_access (th_prog th) = Some ([1%N], FSymbols, false) /\ th_held th = [].
Proof.
  exists race_init, race_threads, race_sched, 1%nat.
  assert (H : match nth_error (cs_threads (run_sched (init_state race_init (map ops_prog race_threads)) race_sched)) 1 with
              | Some th => access_ok th = false /\
                           next_access (th_prog th) = Some ([1%N], FSymbols, false) /\ th_held th = []
              | None => False
              end) by (vm_compute; repeat split).
  destruct (nth_error (cs_threads (run_sched (init_state race_init (map ops_prog race_threads)) race_sched)) 1) as [th|];
    [|contradiction].
  exists th. split; [reflexivity|exact H].
Qed.

Lemma model_race_witness_lemma :
  exists T opss sched, race_at (run_sched (init_state T (map ops_prog opss)) sched) 0 1 = true.
Proof. exists race_init, race_threads, race_sched. vm_compute. reflexivity. Qed.
