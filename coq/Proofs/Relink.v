(* C10 - proofs: an already fully-qualified reference resolves to itself and is left as it is; linking a
   linked file again changes nothing. *)
From Coq Require Import List Bool String PeanoNat.
From PV Require Import Model.Relink.
Import ListNotations.
Open Scope list_scope.

Lemma name_eqb_refl : forall n, name_eqb n n = true.
Proof. induction n as [| x r IH]; cbn; [reflexivity | rewrite String.eqb_refl, IH; reflexivity]. Qed.

Lemma name_eqb_eq : forall a b, name_eqb a b = true -> a = b.
Proof.
  induction a as [| x r IH]; intros [| y s] H; cbn in H; try discriminate; [reflexivity |].
  apply andb_prop in H. destruct H as [H1 H2]. apply String.eqb_eq in H1. rewrite H1, (IH s H2). reflexivity.
Qed.

(* ------------------------------------------------------------------ an absolute name resolves to itself *)
Theorem resolve_absolute_idempotent_lemma : forall vis pkg chain only_types p d,
  resolve vis pkg chain only_types (mkref true p) = Some d -> fst d = p /\ query_all vis p = Some (snd d).
Proof.
  intros vis pkg chain ot p d H. unfold resolve in H. cbn [r_abs r_parts] in H.
  destruct (query_all vis p) as [k |] eqn:E; [| discriminate].
  injection H as H. subst d. cbn. auto.
Qed.

Theorem link_absolute_unchanged_lemma : forall vis pkg chain w p r',
  link_ref vis pkg chain w (mkref true p) = LOk r' -> r' = mkref true p.
Proof.
  intros vis pkg chain w p r' H. unfold link_ref in H.
  destruct (resolve vis pkg chain (match w with WType => true | WMessage => false end) (mkref true p)) as [[n k] |] eqn:E;
    [| discriminate].
  destruct (resolve_absolute_idempotent_lemma _ _ _ _ _ _ E) as [Hn _]. cbn in Hn. subst n.
  destruct k; try discriminate; destruct w; try discriminate; injection H as H; subst r'; reflexivity.
Qed.

(* ------------------------------------------------------------------ whatever resolve finds is really there *)
(* a found descriptor is a sentinel, or its full name is defined with that kind among the visible files *)
Definition sound (vis : list filesyms) (d : desc) : Prop :=
  snd d = KSentinel \/ query_all vis (fst d) = Some (snd d).

Definition sound_opt (vis : list filesyms) (o : option desc) : Prop :=
  match o with Some d => sound vis d | None => True end.

Lemma query_own_all : forall vis n k, query_own vis n = Some k -> query_all vis n = Some k.
Proof.
  intros vis n k H. destruct vis as [| f r]; [discriminate |]. cbn in *. rewrite H. reflexivity.
Qed.

Lemma resolve_relative_sound : forall vis first full q,
  (forall n k, q n = Some k -> query_all vis n = Some k) ->
  sound_opt vis (resolve_relative first full q).
Proof.
  intros vis first full q Hq. unfold resolve_relative.
  destruct (q first) as [k1 |] eqn:E1; [| exact I].
  destruct (name_eqb first full) eqn:En.
  - cbn. right. cbn. apply Hq. exact E1.
  - destruct (negb (is_aggregate k1)); [exact I |].
    destruct (q full) as [k |] eqn:E2; cbn.
    + right. cbn. apply Hq. exact E2.
    + left. reflexivity.
Qed.

Lemma file_scope_loop_sound : forall vis prefixes q first parts skip best,
  (forall n k, q n = Some k -> query_all vis n = Some k) ->
  sound_opt vis best ->
  sound_opt vis (file_scope_loop prefixes q first parts skip best).
Proof.
  intros vis prefixes q first parts skip. induction prefixes as [| p r IH]; intros best Hq Hb; cbn [file_scope_loop].
  - exact Hb.
  - pose proof (resolve_relative_sound vis (p ++ [first]) (p ++ parts) q Hq) as Hr.
    destruct (resolve_relative (p ++ [first]) (p ++ parts) q) as [d |].
    + destruct (negb skip || is_type (snd d)); [exact Hr |].
      apply IH; [exact Hq |]. destruct best; [exact Hb | exact Hr].
    + apply IH; assumption.
Qed.

Lemma scopes_loop_sound : forall vis pkg chain first parts ot best,
  sound_opt vis best ->
  sound_opt vis (scopes_loop vis pkg chain first parts ot best).
Proof.
  intros vis pkg chain first parts ot. induction chain as [| m r IH]; intros best Hb; cbn [scopes_loop].
  - pose proof (file_scope_loop_sound vis (prefix_list pkg) (query_all vis) first parts
                  (ot && match parts with [_] => true | _ => false end) None (fun n k H => H) I) as Hf.
    destruct (file_scope_loop (prefix_list pkg) (query_all vis) first parts
                (ot && match parts with [_] => true | _ => false end) None) as [d |].
    + destruct (negb ot || is_type (snd d) || negb match parts with [_] => true | _ => false end); [exact Hf |].
      destruct best; [exact Hb | exact Hf].
    + exact Hb.
  - pose proof (resolve_relative_sound vis (m ++ [first]) (m ++ parts) (query_own vis) (query_own_all vis)) as Hr.
    destruct (resolve_relative (m ++ [first]) (m ++ parts) (query_own vis)) as [d |].
    + destruct (negb ot || is_type (snd d) || negb match parts with [_] => true | _ => false end); [exact Hr |].
      apply IH. destruct best; [exact Hb | exact Hr].
    + apply IH. exact Hb.
Qed.

Lemma resolve_sound : forall vis pkg chain ot r d,
  resolve vis pkg chain ot r = Some d -> sound vis d.
Proof.
  intros vis pkg chain ot [ab p] d H. unfold resolve in H. cbn [r_abs r_parts] in H.
  destruct ab.
  - destruct (query_all vis p) as [k |] eqn:E; [| discriminate]. injection H as H. subst d. right. exact E.
  - destruct p as [| first rest]; [discriminate |].
    pose proof (scopes_loop_sound vis pkg chain first (first :: rest) ot None I) as Hs.
    rewrite H in Hs. exact Hs.
Qed.

(* ------------------------------------------------------------------ linking once more changes nothing *)
Lemma link_ref_fixpoint : forall vis pkg chain w r r',
  link_ref vis pkg chain w r = LOk r' -> link_ref vis pkg chain w r' = LOk r'.
Proof.
  intros vis pkg chain w r r' H. unfold link_ref in H.
  destruct (resolve vis pkg chain (match w with WType => true | WMessage => false end) r) as [[n k] |] eqn:E;
    [| discriminate].
  pose proof (resolve_sound _ _ _ _ _ _ E) as [Hs | Hq]; cbn in *.
  - subst k. discriminate.
  - assert (Hr : r' = mkref true n /\ (k = KMessage \/ (k = KEnum /\ w = WType))).
    { destruct k; try discriminate.
      - injection H as H. subst r'. auto.
      - destruct w; [| discriminate]. injection H as H. subst r'. auto. }
    destruct Hr as [Hr' Hk]. subst r'.
    unfold link_ref, resolve. cbn [r_abs r_parts]. rewrite Hq.
    destruct Hk as [Hk | [Hk Hw]]; subst; reflexivity.
Qed.

Lemma link_refs_fixpoint : forall vis pkg refs refs',
  link_refs vis pkg refs = Some refs' -> link_refs vis pkg refs' = Some refs'.
Proof.
  intros vis pkg refs. induction refs as [| [[chain w] r] rest IH]; intros refs' H; cbn [link_refs] in H.
  - injection H as H. subst refs'. reflexivity.
  - destruct (link_ref vis pkg chain w r) as [r1 | | |] eqn:E1; try discriminate.
    destruct (link_refs vis pkg rest) as [rest' |] eqn:E2; [| discriminate].
    injection H as H. subst refs'. cbn [link_refs].
    rewrite (link_ref_fixpoint _ _ _ _ _ _ E1), (IH rest' eq_refl). reflexivity.
Qed.

Theorem link_idempotent_lemma : forall f f', link f = Some f' -> link f' = Some f'.
Proof.
  intros f f' H. unfold link in H.
  destruct (link_refs (rf_vis f) (rf_pkg f) (rf_refs f)) as [refs' |] eqn:E; [| discriminate].
  injection H as H. subst f'. unfold link. cbn [rf_vis rf_pkg rf_refs].
  rewrite (link_refs_fixpoint _ _ _ _ E). reflexivity.
Qed.

(* every reference of a linked file is fully qualified *)
Lemma link_refs_absolute : forall vis pkg refs refs',
  link_refs vis pkg refs = Some refs' -> Forall (fun x => r_abs (snd x) = true) refs'.
Proof.
  intros vis pkg refs. induction refs as [| [[chain w] r] rest IH]; intros refs' H; cbn [link_refs] in H.
  - injection H as H. subst refs'. constructor.
  - destruct (link_ref vis pkg chain w r) as [r1 | | |] eqn:E1; try discriminate.
    destruct (link_refs vis pkg rest) as [rest' |] eqn:E2; [| discriminate].
    injection H as H. subst refs'. constructor; [| apply IH; reflexivity].
    cbn. unfold link_ref in E1.
    destruct (resolve vis pkg chain (match w with WType => true | WMessage => false end) r) as [[n k] |]; [| discriminate].
    destruct k; try discriminate; destruct w; try discriminate; injection E1 as E1; subst r1; reflexivity.
Qed.

Theorem linked_refs_absolute_lemma : forall f f', link f = Some f' ->
  Forall (fun x => r_abs (snd x) = true) (rf_refs f').
Proof.
  intros f f' H. unfold link in H.
  destruct (link_refs (rf_vis f) (rf_pkg f) (rf_refs f)) as [refs' |] eqn:E; [| discriminate].
  injection H as H. subst f'. cbn. eapply link_refs_absolute; eauto.
Qed.
