(* Proofs about the lexer model: it is total (the fuel never runs out), accepted inputs are tiled by
   whitespace and items, and every reported error offset lies inside the file. *)
From Coq Require Import List NArith ZArith Bool Lia Arith.
From PV Require Import Common.Bytes Model.Utf8 Proofs.Utf8 Model.Lexer.
Import ListNotations.
Open Scope nat_scope.

Lemma span_le p l : span p l <= length l.
Proof. induction l as [|c r IH]; cbn; [lia|]. destruct (p c); cbn; lia. Qed.

Lemma read_number_le : forall rest a, read_number rest a <= length rest.
Proof.
  induction rest as [|c r IH]; intros a; cbn; [lia|].
  destruct (((c =? 45)%N || (c =? 43)%N) && negb a); [lia|].
  destruct (negb (is_num_char c)); [lia|]. specialize (IH ((c =? 101)%N || (c =? 69)%N)). lia.
Qed.

Lemma scan_line_comment_le rest n : scan_line_comment rest = COk n -> n <= length rest.
Proof.
  revert n. induction rest as [|c r IH]; intros n; cbn.
  - intros H. inversion H. lia.
  - destruct (c =? 10)%N; [intros H; inversion H; lia|].
    destruct (c =? 0)%N; [discriminate|].
    destruct (scan_line_comment r) as [m| |]; try discriminate.
    intros H. inversion H. specialize (IH m eq_refl). lia.
Qed.

Lemma scan_block_comment_le rest n : scan_block_comment rest = COk n -> n <= length rest.
Proof.
  revert n. induction rest as [|c r IH]; intros n; cbn; [discriminate|].
  destruct (c =? 0)%N; [discriminate|].
  destruct (c =? 42)%N.
  - destruct r as [|d r']; [discriminate|].
    destruct (d =? 47)%N; [intros H; inversion H; cbn; lia|].
    destruct (scan_block_comment (d :: r')) as [m| |]; try discriminate.
    intros H. inversion H. specialize (IH m eq_refl). cbn in *. lia.
  - destruct (scan_block_comment r) as [m| |]; try discriminate.
    intros H. inversion H. specialize (IH m eq_refl). lia.
Qed.

(* decoding a rune from a non-empty input consumes between one byte and the whole input *)
Lemma decode_size rest c sz : rest <> [] -> decode_rune rest = (c, sz) -> 1 <= sz <= length rest.
Proof.
  intros Hne H. pose proof (rune_size_pos rest Hne). pose proof (rune_size_le rest).
  unfold rune_size in *. rewrite H in *. cbn in *. lia.
Qed.

(* ---- string literals ---- *)
(* positions recorded by the escape-error bookkeeping stay inside [0, hi] *)
Definition st_ok (hi : nat) (st : sstate) : Prop :=
  (forall z, s_pend st = Some z -> (0 <= z <= Z.of_nat hi)%Z) /\
  (forall z, In z (s_flushed st) -> (0 <= z <= Z.of_nat hi)%Z).

Lemma st_ok_report hi st p : st_ok hi st -> p <= hi -> st_ok hi (report st (Z.of_nat p)).
Proof.
  intros [A B] Hp. split; cbn.
  - intros z Hz. inversion Hz. lia.
  - intros z Hz. destruct (s_pend st) as [q|]; [|auto]. apply in_app_or in Hz.
    destruct Hz as [Hz|[<-|[]]]; auto.
Qed.

Lemma st_ok_emit hi st bs : st_ok hi st -> st_ok hi (emit st bs).
Proof. intros [A B]. split; cbn; auto. Qed.

Lemma read_uni_le : forall k q rest rs n full, read_uni k q rest = Some (rs, n, full) -> n <= length rest.
Proof.
  induction k as [|k IH]; intros q rest rs n full; cbn.
  - intros H. inversion H. lia.
  - destruct rest as [|b r]; [discriminate|].
    destruct (decode_rune (b :: r)) as [c sz] eqn:Ed.
    destruct ((c =? q)%N || (c =? 92)%N); [intros H; inversion H; cbn; lia|].
    destruct (read_uni k q (skipn sz (b :: r))) as [[[rs' n'] full']|] eqn:Er; [|discriminate].
    intros H. inversion H; subst. specialize (IH _ _ _ _ _ Er). rewrite skipn_length in IH.
    pose proof (decode_size (b :: r) c sz ltac:(discriminate) Ed). lia.
Qed.

(* one iteration either stops, or continues strictly further in the input *)
Definition step_ok (q : N) (pos : nat) (rest : list N) (st : sstate) (r : sstep) : Prop :=
  let hi := pos + length rest in
  match r with
  | SCont pos' rest' st' =>
    exists k, 1 <= k <= length rest /\ pos' = pos + k /\ rest' = skipn k rest /\ st_ok hi st'
  | SStop (SDone endpos st') => exists k, 1 <= k <= length rest /\ endpos = pos + k /\ st_ok hi st'
  | SStop (SEof st') | SStop (SNewline st') => st_ok hi st'
  | SStop SFuel => False
  end.

Lemma skipn_skipn_N (a b : nat) (l : list N) : skipn a (skipn b l) = skipn (b + a) l.
Proof.
  revert l. induction b as [|b IH]; intros l; cbn; [reflexivity|].
  destruct l as [|x l]; [now rewrite skipn_nil|]. apply IH.
Qed.

Ltac dec_rune rest c sz Ed :=
  destruct (decode_rune rest) as [c sz] eqn:Ed.

Ltac cont K :=
  cbn; exists K; split; [lia|]; split; [lia|]; split; [f_equal; lia|];
  auto using st_ok_emit, st_ok_report with arith.

Lemma string_step_ok q pos rest st : st_ok (pos + length rest) st ->
  step_ok q pos rest st (string_step q pos rest st).
Proof.
  intros Hst. unfold string_step. destruct rest as [|b0 r0] eqn:Erest; [exact Hst|].
  rewrite <- Erest in *. assert (Hne : rest <> []) by (rewrite Erest; discriminate).
  destruct (decode_rune rest) as [c sz] eqn:Ed.
  pose proof (decode_size rest c sz Hne Ed) as Hsz.
  assert (Hrep : st_ok (pos + length rest) (report st (Z.of_nat pos))) by (apply st_ok_report; [assumption|lia]).
  destruct (c =? 10)%N; [exact Hst|].
  destruct (c =? q)%N; [cbn; exists sz; auto|].
  destruct (c =? 0)%N; [cont sz|].
  destruct (negb (c =? 92)%N); [cont sz|].
  destruct (skipn sz rest) as [|b1 r1] eqn:Er1; [exact Hst|].
  rewrite <- Er1 in *. assert (Hne1 : skipn sz rest <> []) by (rewrite Er1; discriminate).
  destruct (decode_rune (skipn sz rest)) as [e esz] eqn:Ed1.
  pose proof (decode_size _ e esz Hne1 Ed1) as Hesz. rewrite skipn_length in Hesz.
  rewrite !skipn_skipn_N.
  destruct ((e =? 120)%N || (e =? 88)%N).
  { destruct (skipn (sz + esz) rest) as [|b2 r2] eqn:Er2; [exact Hst|].
    rewrite <- Er2 in *. assert (Hne2 : skipn (sz + esz) rest <> []) by (rewrite Er2; discriminate).
    destruct (decode_rune (skipn (sz + esz) rest)) as [c1 sz1] eqn:Ed2.
    pose proof (decode_size _ c1 sz1 Hne2 Ed2) as Hsz1. rewrite skipn_length in Hsz1.
    destruct ((c1 =? q)%N || (c1 =? 92)%N); [cont (sz + esz)|].
    rewrite !skipn_skipn_N.
    destruct (skipn (sz + esz + sz1) rest) as [|b3 r3] eqn:Er3; [exact Hst|].
    rewrite <- Er3 in *. assert (Hne3 : skipn (sz + esz + sz1) rest <> []) by (rewrite Er3; discriminate).
    destruct (decode_rune (skipn (sz + esz + sz1) rest)) as [c2 sz2] eqn:Ed3.
    pose proof (decode_size _ c2 sz2 Hne3 Ed3) as Hsz2. rewrite skipn_length in Hsz2.
    destruct (is_hexdigit c2).
    - rewrite !skipn_skipn_N. destruct (parse_uint16_32 [c1; c2]); cont (sz + esz + sz1 + sz2).
    - destruct (parse_uint16_32 [c1]); cont (sz + esz + sz1). }
  destruct (is_octdigit e).
  { destruct (skipn (sz + esz) rest) as [|b2 r2] eqn:Er2; [exact Hst|].
    rewrite <- Er2 in *. assert (Hne2 : skipn (sz + esz) rest <> []) by (rewrite Er2; discriminate).
    destruct (decode_rune (skipn (sz + esz) rest)) as [c2 sz2] eqn:Ed2.
    pose proof (decode_size _ c2 sz2 Hne2 Ed2) as Hsz2. rewrite skipn_length in Hsz2.
    destruct (negb (is_octdigit c2)); [cont (sz + esz)|].
    rewrite !skipn_skipn_N.
    destruct (skipn (sz + esz + sz2) rest) as [|b3 r3] eqn:Er3; [exact Hst|].
    rewrite <- Er3 in *. assert (Hne3 : skipn (sz + esz + sz2) rest <> []) by (rewrite Er3; discriminate).
    destruct (decode_rune (skipn (sz + esz + sz2) rest)) as [c3 sz3] eqn:Ed3.
    pose proof (decode_size _ c3 sz3 Hne3 Ed3) as Hsz3. rewrite skipn_length in Hsz3.
    destruct (negb (is_octdigit c3)); [cont (sz + esz + sz2)|].
    rewrite !skipn_skipn_N.
    destruct (255 <? digits_val 8 [e; c2; c3])%N; cont (sz + esz + sz2 + sz3). }
  destruct (e =? 117)%N.
  { destruct (read_uni 4 q (skipn (sz + esz) rest)) as [[[rs n] full]|] eqn:Eu; [|exact Hst].
    pose proof (read_uni_le _ _ _ _ _ _ Eu) as Hn. rewrite skipn_length in Hn.
    rewrite !skipn_skipn_N.
    destruct (negb full); [cont (sz + esz + n)|].
    destruct (parse_uint16_32 rs); cont (sz + esz + n). }
  destruct (e =? 85)%N.
  { destruct (read_uni 8 q (skipn (sz + esz) rest)) as [[[rs n] full]|] eqn:Eu; [|exact Hst].
    pose proof (read_uni_le _ _ _ _ _ _ Eu) as Hn. rewrite skipn_length in Hn.
    rewrite !skipn_skipn_N.
    destruct (negb full); [cont (sz + esz + n)|].
    destruct (parse_uint16_32 rs) as [i|]; [destruct (1114111 <? i)%N|]; cont (sz + esz + n). }
  destruct (simple_esc e); cont (sz + esz).
Qed.

Definition sres_ok (pos : nat) (rest : list N) (r : sres) : Prop :=
  let hi := pos + length rest in
  match r with
  | SDone endpos st' => exists k, 1 <= k <= length rest /\ endpos = pos + k /\ st_ok hi st'
  | SEof st' | SNewline st' => st_ok hi st'
  | SFuel => False
  end.

Lemma scan_string_ok q : forall fuel pos rest st, length rest < fuel -> st_ok (pos + length rest) st ->
  sres_ok pos rest (scan_string fuel q pos rest st).
Proof.
  induction fuel as [|fuel IH]; intros pos rest st Hf Hst; [lia|].
  cbn [scan_string]. pose proof (string_step_ok q pos rest st Hst) as Hs.
  destruct (string_step q pos rest st) as [r|pos' rest' st'].
  - destruct r; cbn in *; assumption.
  - cbn in Hs. destruct Hs as (k & Hk & -> & -> & Hst').
    assert (Hl : length (skipn k rest) = length rest - k) by apply skipn_length.
    assert (Hhi : pos + k + length (skipn k rest) = pos + length rest) by lia.
    specialize (IH (pos + k) (skipn k rest) st' ltac:(lia) ltac:(rewrite Hhi; exact Hst')).
    unfold sres_ok in *. rewrite Hhi in IH.
    destruct (scan_string fuel q (pos + k) (skipn k rest) st') as [endpos st2|st2|st2|]; try assumption.
    destruct IH as (k2 & Hk2 & -> & Hst2). exists (k + k2). split; [lia|]. split; [lia|assumption].
Qed.

(* ---- one dispatch ---- *)
Definition errs_in (hi : nat) (es : errs) : Prop :=
  es <> [] /\ forall e z, In (e, z) es -> (0 <= z <= Z.of_nat hi)%Z.

Definition dres_ok (pos : nat) (rest : list N) (r : dres) : Prop :=
  match r with
  | DItem it => i_off it = pos /\ 1 <= i_len it <= length rest
  | DErr es => errs_in (pos + length rest) es
  end.

Lemma errs_in_single hi e p : p <= hi -> errs_in hi [(e, Z.of_nat p)].
Proof.
  intros Hp. split; [discriminate|]. intros e' z [H|[]]. inversion H. lia.
Qed.

Lemma errs_in_map hi (l : list Z) tail :
  (forall z, In z l -> (0 <= z <= Z.of_nat hi)%Z) ->
  (forall e z, In (e, z) tail -> (0 <= z <= Z.of_nat hi)%Z) ->
  (l <> [] \/ tail <> []) ->
  errs_in hi (map (fun z => (EStringEscape, z)) l ++ tail).
Proof.
  intros Hl Ht Hne. split.
  - destruct Hne as [Hne|Hne]; destruct l; cbn; try discriminate; try congruence.
  - intros e z Hin. apply in_app_or in Hin. destruct Hin as [Hin|Hin]; [|eauto].
    apply in_map_iff in Hin. destruct Hin as (z' & Heq & Hz'). inversion Heq; subst. auto.
Qed.

Lemma dispatch_ok pos rest : rest <> [] -> dres_ok pos rest (dispatch pos rest).
Proof.
  intros Hne. unfold dispatch.
  destruct (decode_rune rest) as [c sz] eqn:Ed.
  pose proof (decode_size rest c sz Hne Ed) as Hsz.
  assert (Hl1 : length (skipn sz rest) = length rest - sz) by apply skipn_length.
  assert (Herr : forall e, dres_ok pos rest (DErr [(e, Z.of_nat pos)])).
  { intros e. cbn. apply errs_in_single. lia. }
  destruct (c =? 46)%N.
  { destruct (skipn sz rest) as [|d r2] eqn:Er; [cbn; lia|].
    destruct (is_digit d); [|cbn; lia].
    pose proof (read_number_le r2 false) as Hrn. cbn in Hl1.
    destruct (float_syntax_ok (firstn (2 + read_number r2 false) rest)); [|apply Herr].
    cbn. split; [reflexivity|]. lia. }
  destruct (is_ident_start c).
  { pose proof (span_le is_ident_char (skipn sz rest)). cbn. lia. }
  destruct (is_digit c).
  { pose proof (read_number_le (skipn sz rest) false).
    destruct (classify_number (firstn (1 + read_number (skipn sz rest) false) rest)); [cbn; lia|apply Herr]. }
  destruct ((c =? 39)%N || (c =? 34)%N).
  { set (st0 := {| s_buf := []; s_pend := None; s_flushed := [] |}).
    assert (Hst0 : st_ok (pos + 1 + length (skipn sz rest)) st0).
    { split; cbn; [discriminate|intros z []]. }
    pose proof (scan_string_ok c (S (length (skipn sz rest))) (pos + 1) (skipn sz rest) st0 ltac:(lia) Hst0) as Hs.
    unfold sres_ok in Hs.
    assert (Hhi : forall z, (0 <= z <= Z.of_nat (pos + 1 + length (skipn sz rest)))%Z ->
                            (0 <= z <= Z.of_nat (pos + length rest))%Z) by (intros; lia).
    destruct (scan_string (S (length (skipn sz rest))) c (pos + 1) (skipn sz rest) st0) as [endpos st|st|st|].
    - destruct Hs as (k & Hk & -> & [Hp Hf]). destruct (s_pend st) as [p|] eqn:Ep.
      + cbn. rewrite <- (app_nil_r (map _ _)). apply errs_in_map.
        * intros z Hz. apply Hhi. apply in_app_or in Hz. destruct Hz as [Hz|[<-|[]]]; auto.
        * intros e z [].
        * left. destruct (s_flushed st); discriminate.
      + cbn. split; [reflexivity|]. lia.
    - destruct Hs as [Hp Hf]. cbn. apply errs_in_map.
      + intros z Hz. apply Hhi. auto.
      + intros e z [H|[]]. inversion H. lia.
      + right. discriminate.
    - destruct Hs as [Hp Hf]. cbn. apply errs_in_map.
      + intros z Hz. apply Hhi. auto.
      + intros e z [H|[]]. inversion H. lia.
      + right. discriminate.
    - destruct Hs. }
  destruct (c =? 47)%N.
  { destruct (skipn sz rest) as [|d r2] eqn:Er; [cbn; lia|]. cbn in Hl1.
    destruct (d =? 47)%N.
    - destruct (scan_line_comment r2) as [n| |] eqn:Ec; try apply Herr.
      apply scan_line_comment_le in Ec. cbn. lia.
    - destruct (d =? 42)%N; [|cbn; lia].
      destruct (scan_block_comment r2) as [n| |] eqn:Ec; try apply Herr.
      apply scan_block_comment_le in Ec. cbn. lia. }
  destruct ((c <? 32)%N || (c =? 127)%N); [apply Herr|].
  destruct (negb (is_punct c)); [apply Herr|]. cbn. lia.
Qed.

(* ---- the main loop ---- *)
(* the input from offset pos on is: whitespace, an item, whitespace, an item, ..., the EOF token *)
Inductive Tiles : nat -> list N -> list item -> Prop :=
| T_eof pos : Tiles pos [] [mk (IToken TEof) pos 0]
| T_ws pos c r l : is_ws c = true -> Tiles (S pos) r l -> Tiles pos (c :: r) l
| T_item pos rest it l : i_off it = pos -> 1 <= i_len it <= length rest ->
    Tiles (pos + i_len it) (skipn (i_len it) rest) l -> Tiles pos rest (it :: l).

Definition lres_ok (pos : nat) (rest : list N) (acc : list item) (r : lres) : Prop :=
  match r with
  | LDone items => exists new, items = rev acc ++ new /\ Tiles pos rest new
  | LFail items es => errs_in (pos + length rest) es
  | LFuel => False
  end.

Lemma lex_loop_ok : forall fuel pos rest acc, length rest < fuel ->
  lres_ok pos rest acc (lex_loop fuel pos rest acc).
Proof.
  induction fuel as [|fuel IH]; intros pos rest acc Hf; [lia|].
  cbn [lex_loop]. destruct rest as [|c r].
  - cbn. exists [mk (IToken TEof) pos 0]. split; [reflexivity|constructor].
  - destruct (is_ws c) eqn:Ews.
    + specialize (IH (S pos) r acc ltac:(cbn in Hf; lia)).
      destruct (lex_loop fuel (S pos) r acc) as [items|items es|]; cbn [lres_ok] in *.
      * destruct IH as (new & -> & Ht). exists new. split; [reflexivity|]. constructor; assumption.
      * assert (E : S pos + length r = pos + length (c :: r)) by (cbn [length]; lia).
        rewrite <- E. exact IH.
      * assumption.
    + pose proof (dispatch_ok pos (c :: r) ltac:(discriminate)) as Hd.
      destruct (dispatch pos (c :: r)) as [it|es].
      * destruct Hd as [Hoff Hlen].
        assert (Hl : length (skipn (i_len it) (c :: r)) = length (c :: r) - i_len it) by apply skipn_length.
        specialize (IH (pos + i_len it) (skipn (i_len it) (c :: r)) (it :: acc) ltac:(lia)).
        destruct (lex_loop fuel (pos + i_len it) (skipn (i_len it) (c :: r)) (it :: acc)) as [items|items es|];
          cbn [lres_ok] in *.
        -- destruct IH as (new & -> & Ht). exists (it :: new). split.
           ++ cbn [rev]. rewrite <- app_assoc. reflexivity.
           ++ apply T_item; assumption.
        -- assert (E : pos + i_len it + length (skipn (i_len it) (c :: r)) = pos + length (c :: r)) by lia.
           rewrite <- E. exact IH.
        -- assumption.
      * exact Hd.
Qed.

(* C12: the lexer model never runs out of fuel, on any byte string *)
Theorem lex_total_lemma : forall data, lex data <> LFuel.
Proof.
  intros data. unfold lex. pose proof (lex_loop_ok (S (length (strip_bom data))) 0 (strip_bom data) [] ltac:(lia)) as H.
  destruct (lex_loop _ _ _ _); cbn in H; [discriminate|discriminate|contradiction].
Qed.

(* C11 (lexer side): an accepted input is tiled by its items *)
Theorem lex_tiles_lemma : forall data items, lex data = LDone items -> Tiles 0 (strip_bom data) items.
Proof.
  intros data items H. unfold lex in H.
  pose proof (lex_loop_ok (S (length (strip_bom data))) 0 (strip_bom data) [] ltac:(lia)) as Hok.
  rewrite H in Hok. cbn in Hok. destruct Hok as (new & -> & Ht). exact Ht.
Qed.

(* C12: when the lexer fails it reports at least one error and every reported offset is inside the file *)
Theorem lex_error_positions_lemma : forall data items es, lex data = LFail items es ->
  es <> [] /\ forall e z, In (e, z) es -> (0 <= z <= Z.of_nat (length (strip_bom data)))%Z.
Proof.
  intros data items es H. unfold lex in H.
  pose proof (lex_loop_ok (S (length (strip_bom data))) 0 (strip_bom data) [] ltac:(lia)) as Hok.
  rewrite H in Hok. exact Hok.
Qed.


(* what tiling means for the bytes: the input is the concatenation, item after item, of a run of
   whitespace followed by the item's raw text, the offsets of the items are exactly the positions
   where their raw text starts, and the last item is the (empty) EOF token, whose leading
   whitespace is the trailing whitespace of the file *)
Fixpoint chunks_ok (pos : nat) (cs : list (list N * list N)) (l : list item) : Prop :=
  match cs, l with
  | [], [] => True
  | (w, raw) :: cs', it :: l' =>
    forallb is_ws w = true /\ i_off it = pos + length w /\ i_len it = length raw /\
    chunks_ok (pos + length w + length raw) cs' l'
  | _, _ => False
  end.

Definition flatten_chunks (cs : list (list N * list N)) : list N :=
  concat (map (fun p => fst p ++ snd p) cs).

Lemma tiles_nonempty pos rest l : Tiles pos rest l -> l <> [].
Proof. induction 1; congruence. Qed.

Theorem tiles_rebuild_lemma pos rest l : Tiles pos rest l ->
  exists cs, chunks_ok pos cs l /\ rest = flatten_chunks cs /\
             exists e, last l e = mk (IToken TEof) (pos + length rest) 0.
Proof.
  induction 1 as [pos|pos c r l Hws Ht IH|pos rest it l Hoff Hlen Ht IH].
  - exists [([], [])]. cbn. rewrite !Nat.add_0_r. split; [auto|]. split; [reflexivity|]. exists (mk (IToken TEof) pos 0). reflexivity.
  - destruct IH as (cs & Hc & Hr & e & He). pose proof (tiles_nonempty _ _ _ Ht) as Hne.
    destruct l as [|it l]; [congruence|]. destruct cs as [|[w raw] cs]; [destruct Hc|].
    destruct Hc as (Hw & Ho & Hl & Hc).
    exists ((c :: w, raw) :: cs). split; [|split].
    + cbn [chunks_ok length forallb]. rewrite Hws, Hw. repeat split; auto; try lia.
      replace (pos + S (length w) + length raw) with (S pos + length w + length raw) by lia. exact Hc.
    + unfold flatten_chunks in *. cbn in *. rewrite Hr. reflexivity.
    + exists e. rewrite He. f_equal. cbn [length]. lia.
  - destruct IH as (cs & Hc & Hr & e & He).
    assert (Hsplit : rest = firstn (i_len it) rest ++ skipn (i_len it) rest) by (symmetry; apply firstn_skipn).
    assert (Hfl : length (firstn (i_len it) rest) = i_len it) by (apply firstn_length_le; lia).
    exists (([], firstn (i_len it) rest) :: cs). split; [|split].
    + cbn [chunks_ok length forallb]. rewrite Hfl. repeat split; auto; try lia.
      rewrite Nat.add_0_r. exact Hc.
    + unfold flatten_chunks in *. cbn [map concat fst snd app]. rewrite <- Hr. exact Hsplit.
    + exists e. pose proof (tiles_nonempty _ _ _ Ht) as Hne. destruct l as [|i2 l]; [congruence|].
      change (last (it :: i2 :: l) e) with (last (i2 :: l) e). rewrite He. f_equal.
      rewrite skipn_length. lia.
Qed.

(* non-vacuity: a small accepted input and its items *)
Example lex_example :
  lex [109; 32; 47; 42; 120; 42; 47; 10; 34; 92; 110; 34; 59]%N =
  LDone [mk (IToken TName) 0 1; mk (IComment true) 2 5; mk (IToken (TStr [10%N])) 8 4;
         mk (IToken (TRune 59%N)) 12 1; mk (IToken TEof) 13 0].
Proof. vm_compute. reflexivity. Qed.

(* the three C11 statements composed: an accepted input IS the optional byte order mark followed by the
   concatenation, in order, of each item's leading whitespace and raw text *)
Lemma bom_only_exception_lemma : forall data,
  strip_bom data = data \/ data = [239; 187; 191]%N ++ strip_bom data.
Proof.
  intros data. unfold strip_bom. destruct data as [|a [|b [|c r]]]; auto.
  destruct (a =? 239)%N eqn:Ea; destruct (b =? 187)%N eqn:Eb; destruct (c =? 191)%N eqn:Ec; cbn; auto.
  apply N.eqb_eq in Ea, Eb, Ec. subst. right. reflexivity.
Qed.

Theorem lex_rebuilds_source_lemma : forall data items, lex data = LDone items ->
  exists cs, chunks_ok 0 cs items /\
             (data = flatten_chunks cs \/ data = [239; 187; 191]%N ++ flatten_chunks cs) /\
             exists e, last items e = mk (IToken TEof) (length (strip_bom data)) 0.
Proof.
  intros data items H. apply lex_tiles_lemma in H. apply tiles_rebuild_lemma in H.
  destruct H as (cs & Hc & Hf & e & He). exists cs. split; [exact Hc|]. split.
  - destruct (bom_only_exception_lemma data) as [E|E].
    + left. rewrite <- E. exact Hf.
    + right. rewrite <- Hf. exact E.
  - exists e. exact He.
Qed.

(* positions on the accepting side (C12): every item of an accepted input lies inside the file *)
Lemma tiles_items_in_file : forall pos rest l, Tiles pos rest l ->
  forall it, In it l -> pos <= i_off it /\ i_off it + i_len it <= pos + length rest.
Proof.
  intros pos rest l T. induction T as [pos|pos c r l Hws T IH|pos rest it l Hoff Hlen T IH]; intros x Hx.
  - destruct Hx as [<-|[]]. cbn. lia.
  - specialize (IH x Hx). cbn [length]. lia.
  - destruct Hx as [<-|Hx]; [lia|]. specialize (IH x Hx). rewrite skipn_length in IH. lia.
Qed.

Theorem lex_item_positions_lemma : forall data items, lex data = LDone items ->
  forall it, In it items -> i_off it + i_len it <= length (strip_bom data).
Proof.
  intros data items H it Hin. apply lex_tiles_lemma in H.
  destruct (tiles_items_in_file _ _ _ H it Hin) as [_ Hle]. lia.
Qed.
