(* Proofs about the lexer model: it is total (the fuel never runs out), accepted inputs are tiled by
   whitespace and items, and every reported error offset lies inside the file. *)
From Coq Require Import List NArith ZArith Bool Lia Arith.
From PV Require Import Common.Bytes Model.Utf8 Proofs.Utf8 Model.Lexer.
Import ListNotations.
Open Scope nat_scope.

Lemma span_le p l : span p l <= length l.
Proof. induction l as [|c r IH]; cbn; [lia|]. destruct (p c); cbn; lia. Qed.

Lemma read_number_le : forall rest a, read_number rest a <= length rest.
Proof.
  induction rest as [|c r IH]; intros a; cbn; [lia|].
  destruct (((c =? 45)%N || (c =? 43)%N) && negb a); [lia|].
  destruct (negb (is_num_char c)); [lia|]. specialize (IH ((c =? 101)%N || (c =? 69)%N)). lia.
Qed.

Lemma scan_line_comment_le rest n : scan_line_comment rest = COk n -> n <= length rest.
Proof.
  revert n. induction rest as [|c r IH]; intros n; cbn.
  - intros H. inversion H. lia.
  - destruct (c =? 10)%N; [intros H; inversion H; lia|].
    destruct (c =? 0)%N; [discriminate|].
    destruct (scan_line_comment r) as [m| |]; try discriminate.
    intros H. inversion H. specialize (IH m eq_refl). lia.
Qed.

Lemma scan_block_comment_le rest n : scan_block_comment rest = COk n -> n <= length rest.
Proof.
  revert n. induction rest as [|c r IH]; intros n; cbn; [discriminate|].
  destruct (c =? 0)%N; [discriminate|].
  destruct (c =? 42)%N.
  - destruct r as [|d r']; [discriminate|].
    destruct (d =? 47)%N; [intros H; inversion H; cbn; lia|].
    destruct (scan_block_comment (d :: r')) as [m| |]; try discriminate.
    intros H. inversion H. specialize (IH m eq_refl). cbn in *. lia.
  - destruct (scan_block_comment r) as [m| |]; try discriminate.
    intros H. inversion H. specialize (IH m eq_refl). lia.
Qed.

(* decoding a rune from a non-empty input consumes between one byte and the whole input *)
Lemma decode_size rest c sz : rest <> [] -> decode_rune rest = (c, sz) -> 1 <= sz <= length rest.
Proof.
  intros Hne H. pose proof (rune_size_pos rest Hne). pose proof (rune_size_le rest).
  unfold rune_size in *. rewrite H in *. cbn in *. lia.
Qed.

(* ---- string literals ---- *)
(* positions recorded by the escape-error bookkeeping stay inside [0, hi] *)
Definition st_ok (hi : nat) (st : sstate) : Prop :=
  (forall z, s_pend st = Some z -> (0 <= z <= Z.of_nat hi)%Z) /\
  (forall z, In z (s_flushed st) -> (0 <= z <= Z.of_nat hi)%Z).

Lemma st_ok_report hi st p : st_ok hi st -> p <= hi -> st_ok hi (report st (Z.of_nat p)).
Proof.
  intros [A B] Hp. split; cbn.
  - intros z Hz. inversion Hz. lia.
  - intros z Hz. destruct (s_pend st) as [q|]; [|auto]. apply in_app_or in Hz.
    destruct Hz as [Hz|[<-|[]]]; auto.
Qed.

Lemma st_ok_emit hi st bs : st_ok hi st -> st_ok hi (emit st bs).
Proof. intros [A B]. split; cbn; auto. Qed.

Lemma read_uni_le : forall k q rest rs n full, read_uni k q rest = Some (rs, n, full) -> n <= length rest.
Proof.
  induction k as [|k IH]; intros q rest rs n full; cbn.
  - intros H. inversion H. lia.
  - destruct rest as [|b r]; [discriminate|].
    destruct (decode_rune (b :: r)) as [c sz] eqn:Ed.
    destruct ((c =? q)%N || (c =? 92)%N); [intros H; inversion H; cbn; lia|].
    destruct (read_uni k q (skipn sz (b :: r))) as [[[rs' n'] full']|] eqn:Er; [|discriminate].
    intros H. inversion H; subst. specialize (IH _ _ _ _ _ Er). rewrite skipn_length in IH.
    pose proof (decode_size (b :: r) c sz ltac:(discriminate) Ed). lia.
Qed.

(* one iteration either stops, or continues strictly further in the input *)
Definition step_ok (q : N) (pos : nat) (rest : list N) (st : sstate) (r : sstep) : Prop :=
  let hi := pos + length rest in
  match r with
  | SCont pos' rest' st' =>
    exists k, 1 <= k <= length rest /\ pos' = pos + k /\ rest' = skipn k rest /\ st_ok hi st'
  | SStop (SDone endpos st') => exists k, 1 <= k <= length rest /\ endpos = pos + k /\ st_ok hi st'
  | SStop (SEof st') | SStop (SNewline st') => st_ok hi st'
  | SStop SFuel => False
  end.

Lemma skipn_skipn_N (a b : nat) (l : list N) : skipn a (skipn b l) = skipn (b + a) l.
Proof.
  revert l. induction b as [|b IH]; intros l; cbn; [reflexivity|].
  destruct l as [|x l]; [now rewrite skipn_nil|]. apply IH.
Qed.

Ltac dec_rune rest c sz Ed :=
  destruct (decode_rune rest) as [c sz] eqn:Ed.

Lemma string_step_ok q pos rest st : st_ok (pos + length rest) st ->
  step_ok q pos rest st (string_step q pos rest st).
Proof.
  intros Hst. unfold string_step. destruct rest as [|b0 r0] eqn:Erest; [exact Hst|].
  rewrite <- Erest in *. assert (Hne : rest <> []) by (rewrite Erest; discriminate).
  destruct (decode_rune rest) as [c sz] eqn:Ed.
  pose proof (decode_size rest c sz Hne Ed) as Hsz.
  set (hi := pos + length rest) in *.
  assert (Hcont : forall k st', 1 <= k <= length rest -> st_ok hi st' ->
            step_ok q pos rest st (SCont (pos + k) (skipn k rest) st')).
  { intros k st' Hk Hs. cbn. exists k. auto. }
  assert (Hrep : forall p, p <= hi -> st_ok hi (report st (Z.of_nat p))) by (intros; apply st_ok_report; assumption).
  assert (Hpos : pos <= hi) by (unfold hi; lia).
  destruct (c =? 10)%N; [exact Hst|].
  destruct (c =? q)%N; [cbn; exists sz; auto|].
  destruct (c =? 0)%N; [apply Hcont; auto|].
  destruct (negb (c =? 92)%N); [apply Hcont; [assumption|apply st_ok_emit; assumption]|].
  destruct (skipn sz rest) as [|b1 r1] eqn:Er1; [exact Hst|].
  rewrite <- Er1 in *. assert (Hne1 : skipn sz rest <> []) by (rewrite Er1; discriminate).
  destruct (decode_rune (skipn sz rest)) as [e esz] eqn:Ed1.
  pose proof (decode_size _ e esz Hne1 Ed1) as Hesz. rewrite skipn_length in Hesz.
  rewrite !skipn_skipn_N.
  (* a continuation after consuming sz + esz + extra bytes *)
  assert (Hcont2 : forall extra st', sz + esz + extra <= length rest -> st_ok hi st' ->
            step_ok q pos rest st (SCont (pos + sz + esz + extra) (skipn (sz + esz + extra) rest) st')).
  { intros extra st' Hk Hs. cbn. exists (sz + esz + extra). repeat split; auto; lia. }
  destruct ((e =? 120)%N || (e =? 88)%N).
  { destruct (skipn (sz + esz) rest) as [|b2 r2] eqn:Er2; [exact Hst|].
    rewrite <- Er2 in *. assert (Hne2 : skipn (sz + esz) rest <> []) by (rewrite Er2; discriminate).
    destruct (decode_rune (skipn (sz + esz) rest)) as [c1 sz1] eqn:Ed2.
    pose proof (decode_size _ c1 sz1 Hne2 Ed2) as Hsz1. rewrite skipn_length in Hsz1.
    destruct ((c1 =? q)%N || (c1 =? 92)%N).
    { replace (pos + sz + esz) with (pos + sz + esz + 0) by lia.
      replace (sz + esz) with (sz + esz + 0) at 2 by lia. apply Hcont2; [lia|auto]. }
    rewrite !skipn_skipn_N.
    destruct (skipn (sz + esz + sz1) rest) as [|b3 r3] eqn:Er3; [exact Hst|].
    rewrite <- Er3 in *. assert (Hne3 : skipn (sz + esz + sz1) rest <> []) by (rewrite Er3; discriminate).
    destruct (decode_rune (skipn (sz + esz + sz1) rest)) as [c2 sz2] eqn:Ed3.
    pose proof (decode_size _ c2 sz2 Hne3 Ed3) as Hsz2. rewrite skipn_length in Hsz2.
    destruct (is_hexdigit c2).
    - rewrite !skipn_skipn_N.
      replace (pos + sz + esz + sz1 + sz2) with (pos + sz + esz + (sz1 + sz2)) by lia.
      replace (sz + esz + sz1 + sz2) with (sz + esz + (sz1 + sz2)) by lia.
      destruct (parse_uint16_32 [c1; c2]); apply Hcont2; try lia; auto using st_ok_emit.
    - destruct (parse_uint16_32 [c1]); apply Hcont2; try lia; auto using st_ok_emit. }
  destruct (is_octdigit e).
  { destruct (skipn (sz + esz) rest) as [|b2 r2] eqn:Er2; [exact Hst|].
    rewrite <- Er2 in *. assert (Hne2 : skipn (sz + esz) rest <> []) by (rewrite Er2; discriminate).
    destruct (decode_rune (skipn (sz + esz) rest)) as [c2 sz2] eqn:Ed2.
    pose proof (decode_size _ c2 sz2 Hne2 Ed2) as Hsz2. rewrite skipn_length in Hsz2.
    destruct (negb (is_octdigit c2)).
    { replace (pos + sz + esz) with (pos + sz + esz + 0) by lia.
      replace (sz + esz) with (sz + esz + 0) at 2 by lia. apply Hcont2; [lia|auto using st_ok_emit]. }
    rewrite !skipn_skipn_N.
    destruct (skipn (sz + esz + sz2) rest) as [|b3 r3] eqn:Er3; [exact Hst|].
    rewrite <- Er3 in *. assert (Hne3 : skipn (sz + esz + sz2) rest <> []) by (rewrite Er3; discriminate).
    destruct (decode_rune (skipn (sz + esz + sz2) rest)) as [c3 sz3] eqn:Ed3.
    pose proof (decode_size _ c3 sz3 Hne3 Ed3) as Hsz3. rewrite skipn_length in Hsz3.
    destruct (negb (is_octdigit c3)).
    { apply Hcont2; [lia|auto using st_ok_emit]. }
    rewrite !skipn_skipn_N.
    replace (pos + sz + esz + sz2 + sz3) with (pos + sz + esz + (sz2 + sz3)) by lia.
    replace (sz + esz + sz2 + sz3) with (sz + esz + (sz2 + sz3)) by lia.
    destruct (255 <? digits_val 8 [e; c2; c3])%N; apply Hcont2; try lia; auto using st_ok_emit. }
  destruct (e =? 117)%N.
  { destruct (read_uni 4 q (skipn (sz + esz) rest)) as [[[rs n] full]|] eqn:Eu; [|exact Hst].
    pose proof (read_uni_le _ _ _ _ _ _ Eu) as Hn. rewrite skipn_length in Hn.
    rewrite !skipn_skipn_N.
    destruct (negb full); [apply Hcont2; [lia|auto]|].
    destruct (parse_uint16_32 rs); apply Hcont2; try lia; auto using st_ok_emit. }
  destruct (e =? 85)%N.
  { destruct (read_uni 8 q (skipn (sz + esz) rest)) as [[[rs n] full]|] eqn:Eu; [|exact Hst].
    pose proof (read_uni_le _ _ _ _ _ _ Eu) as Hn. rewrite skipn_length in Hn.
    rewrite !skipn_skipn_N.
    destruct (negb full); [apply Hcont2; [lia|auto]|].
    destruct (parse_uint16_32 rs) as [i|]; [destruct (1114111 <? i)%N|]; apply Hcont2; try lia; auto using st_ok_emit. }
  replace (pos + sz + esz) with (pos + sz + esz + 0) by lia.
  replace (sz + esz) with (sz + esz + 0) at 1 by lia.
  destruct (simple_esc e); apply Hcont2; try lia; auto using st_ok_emit.
Qed.
