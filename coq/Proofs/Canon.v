(* Proofs about the model of Report.Canonicalize (C36). *)
From Coq Require Import List ZArith NArith Bool Lia Sorting.Permutation Sorting.Sorted.
From PV Require Import Common.Corr Model.Canon.
Import ListNotations.
Open Scope Z_scope.

(* ---------- comparison functions that are total orders on their keys ---------- *)
Record OrdOK {A} (c : A -> A -> comparison) : Prop := mkOrdOK {
  ok_eq : forall a b, c a b = Eq <-> a = b;
  ok_anti : forall a b, c b a = CompOpp (c a b);
  ok_lt : forall a b d, c a b = Lt -> c b d = Lt -> c a d = Lt }.

Lemma str_cmp_ok : OrdOK str_cmp.
Proof.
  constructor.
  - induction a as [|x a IH]; destruct b as [|y b]; cbn [str_cmp]; try (split; [discriminate|discriminate]); try tauto.
    destruct (N.compare x y) eqn:E.
    + apply N.compare_eq_iff in E. subst y. rewrite IH. split; [intros ->; reflexivity | intros H; now injection H].
    + split; [discriminate|]. intros H. injection H as H1 H2. subst y. rewrite N.compare_refl in E. discriminate.
    + split; [discriminate|]. intros H. injection H as H1 H2. subst y. rewrite N.compare_refl in E. discriminate.
  - induction a as [|x a IH]; destruct b as [|y b]; cbn [str_cmp]; try reflexivity.
    rewrite (N.compare_antisym x y). destruct (N.compare x y); cbn [CompOpp]; auto.
  - induction a as [|x a IH]; destruct b as [|y b]; destruct d as [|z d]; cbn [str_cmp]; try discriminate; auto.
    intros H1 H2.
    destruct (N.compare x y) eqn:E1; destruct (N.compare y z) eqn:E2; try discriminate.
    + apply N.compare_eq_iff in E1, E2. subst. rewrite N.compare_refl. eapply IH; eauto.
    + apply N.compare_eq_iff in E1. subst. now rewrite E2.
    + apply N.compare_eq_iff in E2. subst. now rewrite E1.
    + rewrite N.compare_lt_iff in E1, E2. assert (E3 : (x < z)%N) by lia. apply N.compare_lt_iff in E3. now rewrite E3.
Qed.

Lemma Z_cmp_ok : OrdOK Z.compare.
Proof.
  constructor.
  - intros a b. apply Z.compare_eq_iff.
  - intros a b. apply Z.compare_antisym.
  - intros a b d. rewrite !Z.compare_lt_iff. lia.
Qed.

Definition lexp {A B} (ca : A -> A -> comparison) (cb : B -> B -> comparison) (x y : A * B) : comparison :=
  lex (ca (fst x) (fst y)) (cb (snd x) (snd y)).

Lemma lexp_ok {A B} (ca : A -> A -> comparison) (cb : B -> B -> comparison) :
  OrdOK ca -> OrdOK cb -> OrdOK (lexp ca cb).
Proof.
  intros [ea aa la] [eb ab lb]. constructor.
  - intros [a1 b1] [a2 b2]. unfold lexp, lex. cbn [fst snd]. destruct (ca a1 a2) eqn:E.
    + apply ea in E. subst a2. rewrite eb. split; [intros ->; reflexivity | intros H; now injection H].
    + split; [discriminate|]. intros H. injection H as H1 H2. subst a2 b2. rewrite (proj2 (ea a1 a1) eq_refl) in E. discriminate.
    + split; [discriminate|]. intros H. injection H as H1 H2. subst a2 b2. rewrite (proj2 (ea a1 a1) eq_refl) in E. discriminate.
  - intros [a1 b1] [a2 b2]. unfold lexp, lex. cbn [fst snd]. rewrite (aa a1 a2). destruct (ca a1 a2); cbn [CompOpp]; auto.
  - intros [a1 b1] [a2 b2] [a3 b3]. unfold lexp, lex. cbn [fst snd]. intros H1 H2.
    destruct (ca a1 a2) eqn:E1; destruct (ca a2 a3) eqn:E2; try discriminate.
    + apply ea in E1, E2. subst. rewrite (proj2 (ea a3 a3) eq_refl). eapply lb; eauto.
    + apply ea in E1. subst. now rewrite E2.
    + apply ea in E2. subst. now rewrite E1.
    + now rewrite (la _ _ _ E1 E2).
Qed.

(* the six keys of a diagnostic *)
Definition skey : Type := (str * (Z * (Z * (Z * (str * str)))))%type.
Definition sort_key (d : cdiag) : skey :=
  (sp_path (c_prim d), (c_sort d, (sp_start (c_prim d), (sp_end (c_prim d), (c_tag d, c_msg d))))).
Definition kcmp : skey -> skey -> comparison :=
  lexp str_cmp (lexp Z.compare (lexp Z.compare (lexp Z.compare (lexp str_cmp str_cmp)))).

Lemma kcmp_ok : OrdOK kcmp.
Proof. unfold kcmp. repeat apply lexp_ok; auto using str_cmp_ok, Z_cmp_ok. Qed.

Lemma dcmp_kcmp a b : dcmp a b = kcmp (sort_key a) (sort_key b).
Proof. reflexivity. Qed.

(* dcmp a b = Eq says exactly: the six keys are equal *)
Lemma dcmp_eq_keys a b : dcmp a b = Eq <-> sort_key a = sort_key b.
Proof. rewrite dcmp_kcmp. apply (ok_eq _ kcmp_ok). Qed.

Lemma dcmp_refl a : dcmp a a = Eq.
Proof. now apply dcmp_eq_keys. Qed.

Lemma dcmp_anti a b : dcmp b a = CompOpp (dcmp a b).
Proof. rewrite !dcmp_kcmp. apply (ok_anti _ kcmp_ok). Qed.

Lemma dle_trans a b c : dle a b -> dle b c -> dle a c.
Proof.
  unfold dle, dle_c. rewrite !dcmp_kcmp. intros H1 H2.
  destruct (kcmp (sort_key a) (sort_key b)) eqn:E1; [| |congruence].
  - apply (ok_eq _ kcmp_ok) in E1. now rewrite E1.
  - destruct (kcmp (sort_key b) (sort_key c)) eqn:E2; [| |congruence].
    + apply (ok_eq _ kcmp_ok) in E2. rewrite <- E2, E1. discriminate.
    + rewrite (ok_lt _ kcmp_ok _ _ _ E1 E2). discriminate.
Qed.

(* the same two facts for any comparison that is a lexicographic order on some key *)
Lemma ordok_le_trans {K} (c : K -> K -> comparison) (key : cdiag -> K) :
  OrdOK c -> forall x y z, c (key x) (key y) <> Gt -> c (key y) (key z) <> Gt -> c (key x) (key z) <> Gt.
Proof.
  intros OK x y z H1 H2.
  destruct (c (key x) (key y)) eqn:E1; [| |congruence].
  - apply (ok_eq _ OK) in E1. now rewrite E1.
  - destruct (c (key y) (key z)) eqn:E2; [| |congruence].
    + apply (ok_eq _ OK) in E2. rewrite <- E2, E1. discriminate.
    + rewrite (ok_lt _ OK _ _ _ E1 E2). discriminate.
Qed.

(* ---------- the marking pass, characterised by a look-ahead ---------- *)
Lemma list_N_eqb_eq a b : list_N_eqb a b = true <-> a = b.
Proof. unfold list_N_eqb. destruct (list_eq_dec N.eq_dec a b); split; intros; auto; discriminate. Qed.

Lemma fileref_eqb_eq a b : fileref_eqb a b = true <-> a = b.
Proof.
  unfold fileref_eqb. rewrite andb_true_iff, N.eqb_eq, list_N_eqb_eq. destruct a, b; cbn. split.
  - intros [-> ->]. reflexivity.
  - intros H. injection H as -> ->. auto.
Qed.

Lemma span_eqb_eq a b : span_eqb a b = true <-> a = b.
Proof.
  unfold span_eqb, ofile_eqb. rewrite !andb_true_iff, !Z.eqb_eq. destruct a as [fa sa ea], b as [fb sb eb]. cbn. split.
  - intros [[H1 ->] ->]. destruct fa, fb; try discriminate; auto. apply fileref_eqb_eq in H1. now subst.
  - intros H. injection H as -> -> ->. repeat split; auto. destruct fb; auto. now apply fileref_eqb_eq.
Qed.

Lemma key_eqb_eq a b : key_eqb a b = true <-> a = b.
Proof.
  unfold key_eqb. rewrite andb_true_iff, span_eqb_eq, list_N_eqb_eq. destruct a, b; cbn. split.
  - intros [-> ->]. reflexivity.
  - intros H. injection H as -> ->. auto.
Qed.

(* the key of the first tagged diagnostic, or the zero key *)
Fixpoint nk (l : list cdiag) : dkey :=
  match l with
  | [] => zero_key
  | d :: r => if is_nil (c_tag d) then nk r else key_of d
  end.

Lemma mark_snd l : snd (mark l) = nk l.
Proof.
  induction l as [|d r IH]; cbn [mark nk]; auto.
  destruct (mark r) as [r' cur]. cbn [snd] in IH. subst cur.
  destruct (is_nil (c_tag d)); cbn [snd]; auto.
  destruct (negb (is_nil (snd (nk r))) && key_eqb (nk r) (key_of d)) eqn:C; cbn [snd]; auto.
  apply andb_true_iff in C. destruct C as [_ C]. now apply key_eqb_eq in C.
Qed.

Definition dropped (d : cdiag) (r : list cdiag) : bool :=
  (negb (is_nil (c_tag d)) && key_eqb (nk r) (key_of d)) || (c_level d =? -1).

Fixpoint dedup_spec (l : list cdiag) : list cdiag :=
  match l with
  | [] => []
  | d :: r => if dropped d r then dedup_spec r else d :: dedup_spec r
  end.

Lemma dedup_eq l : dedup l = dedup_spec l.
Proof.
  unfold dedup. induction l as [|d r IH]; cbn [mark dedup_spec]; auto.
  pose proof (mark_snd r) as MS. destruct (mark r) as [r' cur]. cbn [fst snd] in *. subst cur.
  unfold dropped. destruct (is_nil (c_tag d)) eqn:T; cbn [negb andb orb fst filter].
  - rewrite IH. destruct (c_level d =? -1); reflexivity.
  - destruct (key_eqb (nk r) (key_of d)) eqn:K.
    + assert (N : is_nil (snd (nk r)) = false).
      { apply key_eqb_eq in K. rewrite K. exact T. }
      rewrite N. cbn [negb andb orb fst filter set_level c_level]. rewrite IH. reflexivity.
    + rewrite andb_false_r. cbn [orb fst filter]. rewrite IH. destruct (c_level d =? -1); reflexivity.
Qed.

Lemma dedup_spec_incl l x : In x (dedup_spec l) -> In x l.
Proof.
  induction l as [|d r IH]; cbn [dedup_spec]; auto. destruct (dropped d r); cbn [In]; tauto.
Qed.

Lemma dedup_spec_sorted (R : cdiag -> cdiag -> Prop) l : StronglySorted R l -> StronglySorted R (dedup_spec l).
Proof.
  induction l as [|d r IH]; intros S; cbn [dedup_spec]; auto. apply StronglySorted_inv in S. destruct S as [S F].
  destruct (dropped d r); auto. constructor; auto.
  rewrite Forall_forall in *. intros x Hx. apply F. now apply dedup_spec_incl.
Qed.

Lemma dedup_spec_alive l x : In x (dedup_spec l) -> c_level x <> -1.
Proof.
  induction l as [|d r IH]; cbn [dedup_spec]; [tauto|].
  destruct (dropped d r) eqn:D; auto. intros [<-|H]; auto.
  unfold dropped in D. apply orb_false_iff in D. destruct D as [_ D]. now apply Z.eqb_neq in D.
Qed.

Lemma nk_dedup r : no_sentinel r -> nk (dedup_spec r) = nk r.
Proof.
  induction r as [|d r IH]; intros NS; auto.
  assert (NS' : no_sentinel r) by (intros x Hx; apply NS; now right).
  assert (L : (c_level d =? -1) = false) by (apply Z.eqb_neq, NS; now left).
  cbn [dedup_spec nk]. unfold dropped. rewrite L, orb_false_r.
  destruct (is_nil (c_tag d)) eqn:T; cbn [negb andb].
  - cbn [nk]. rewrite T. auto.
  - destruct (key_eqb (nk r) (key_of d)) eqn:K.
    + rewrite IH by auto. now apply key_eqb_eq in K.
    + cbn [nk]. now rewrite T.
Qed.

Lemma dedup_spec_idem l : no_sentinel l -> dedup_spec (dedup_spec l) = dedup_spec l.
Proof.
  induction l as [|d r IH]; intros NS; auto.
  assert (NS' : no_sentinel r) by (intros x Hx; apply NS; now right).
  cbn [dedup_spec]. destruct (dropped d r) eqn:D; auto.
  cbn [dedup_spec]. unfold dropped in *. rewrite nk_dedup by auto. rewrite D. now rewrite IH.
Qed.

Lemma no_sentinel_perm l s : Permutation l s -> no_sentinel l -> no_sentinel s.
Proof. intros P NS d Hd. apply NS. eapply Permutation_in; [apply Permutation_sym; exact P | exact Hd]. Qed.

(* ====================================================================================
   Everything below the marking pass is proved for an arbitrary comparison that is antisymmetric
   and whose "not greater" is transitive; it is instantiated for the six keys of the code as it is
   (dcmp) and for the repaired comparison (dcmp2).
   ==================================================================================== *)
Section Gen.
Variable cmp : cdiag -> cdiag -> comparison.
Hypothesis cmp_anti : forall a b, cmp b a = CompOpp (cmp a b).
Hypothesis cmp_le_trans : forall a b c, dle_c cmp a b -> dle_c cmp b c -> dle_c cmp a c.

Local Notation gle := (dle_c cmp).

Lemma gle_antisym a b : gle a b -> gle b a -> cmp a b = Eq.
Proof. unfold dle_c. rewrite (cmp_anti a b). destruct (cmp a b); cbn [CompOpp]; congruence. Qed.

Lemma gt_gle a b : cmp a b = Gt -> gle b a.
Proof. unfold dle_c. rewrite (cmp_anti a b). intros ->. discriminate. Qed.

(* ---------- a sorted permutation is unique when the keys identify the elements ---------- *)
Lemma keys_injective_incl l l' : (forall x, In x l' -> In x l) -> keys_injective_c cmp l -> keys_injective_c cmp l'.
Proof. intros I K a b Ha Hb. apply K; auto. Qed.

Lemma sorted_perm_unique l1 : forall l2,
  StronglySorted gle l1 -> StronglySorted gle l2 -> Permutation l1 l2 -> keys_injective_c cmp l1 -> l1 = l2.
Proof.
  induction l1 as [|a r1 IH]; intros l2 S1 S2 P K.
  - apply Permutation_nil in P. now subst.
  - destruct l2 as [|b r2]; [apply Permutation_sym, Permutation_nil in P; discriminate|].
    apply StronglySorted_inv in S1, S2. destruct S1 as [S1 F1], S2 as [S2 F2].
    rewrite Forall_forall in F1, F2.
    assert (Ib : In b (a :: r1)) by (eapply Permutation_in; [apply Permutation_sym; exact P | now left]).
    assert (Ia : In a (b :: r2)) by (eapply Permutation_in; [exact P | now left]).
    assert (E : a = b).
    { destruct Ib as [Ib|Ib]; auto. destruct Ia as [Ia|Ia]; auto.
      apply K; [now left | now right |]. apply gle_antisym; auto. }
    subst b. f_equal. apply IH; auto.
    + eapply Permutation_cons_inv; eauto.
    + eapply keys_injective_incl; [|exact K]. intros x Hx. now right.
Qed.

(* ---------- insertion sort is a sort, and leaves sorted lists alone ---------- *)
Lemma insert_perm x s : Permutation (x :: s) (insert_c cmp x s).
Proof.
  induction s as [|y r IH]; cbn [insert_c]; auto.
  destruct (cmp x y); auto. eapply perm_trans; [apply perm_swap|]. now apply perm_skip.
Qed.

Lemma isort_perm l : Permutation l (isort_c cmp l).
Proof.
  induction l as [|x r IH]; cbn [isort_c fold_right]; auto.
  eapply perm_trans; [apply perm_skip; exact IH|]. apply insert_perm.
Qed.

Lemma insert_sorted x s : StronglySorted gle s -> StronglySorted gle (insert_c cmp x s).
Proof.
  induction s as [|y r IH]; intros S; cbn [insert_c].
  - repeat constructor.
  - apply StronglySorted_inv in S. destruct S as [S F].
    destruct (cmp x y) eqn:E.
    + constructor; [constructor; auto|]. constructor; [unfold dle_c; congruence|].
      rewrite Forall_forall in *. intros z Hz. eapply cmp_le_trans; [|apply F; exact Hz]. unfold dle_c. congruence.
    + constructor; [constructor; auto|]. constructor; [unfold dle_c; congruence|].
      rewrite Forall_forall in *. intros z Hz. eapply cmp_le_trans; [|apply F; exact Hz]. unfold dle_c. congruence.
    + constructor; [now apply IH|].
      eapply Permutation_Forall; [apply insert_perm|]. constructor; auto. now apply gt_gle.
Qed.

Lemma isort_sorted l : StronglySorted gle (isort_c cmp l).
Proof.
  induction l as [|x r IH]; cbn [isort_c fold_right]; [constructor|]. now apply insert_sorted.
Qed.

Lemma isort_is_sort l : is_sort_c cmp l (isort_c cmp l).
Proof. split; [apply isort_perm | apply isort_sorted]. Qed.

Lemma isort_id s : StronglySorted gle s -> isort_c cmp s = s.
Proof.
  induction s as [|a r IH]; intros S; auto. apply StronglySorted_inv in S. destruct S as [S F].
  cbn [isort_c fold_right]. fold (isort_c cmp r). rewrite IH by auto.
  destruct r as [|y r']; auto. cbn [insert_c]. inversion F as [|? ? D _]; subst.
  unfold dle_c in D. destruct (cmp a y); congruence.
Qed.

(* what Canonicalize leaves behind is sorted, and a sub-multiset of the input *)
Lemma canon_rel_sorted keep l o : canon_rel_c cmp keep l o -> StronglySorted gle o.
Proof.
  intros (s & [P S] & ->). destruct keep; auto. rewrite dedup_eq. now apply dedup_spec_sorted.
Qed.

Lemma canon_rel_incl keep l o x : canon_rel_c cmp keep l o -> In x o -> In x l.
Proof.
  intros (s & [P S] & ->) H. eapply Permutation_in; [apply Permutation_sym; exact P|].
  destruct keep; auto. rewrite dedup_eq in H. now apply dedup_spec_incl in H.
Qed.

(* ---------- the theorems ---------- *)
Theorem canon_rel_total_c : forall keep l, canon_rel_c cmp keep l (canonicalize_c cmp keep l).
Proof. intros keep l. exists (isort_c cmp l). split; [apply isort_is_sort|]. reflexivity. Qed.

(* canonicalising twice changes nothing: the result of one pass is a fixed point of the next ... *)
Theorem canon_idempotent_c : forall keep l o,
  no_sentinel l -> canon_rel_c cmp keep l o -> canon_rel_c cmp keep o o.
Proof.
  intros keep l o NS H. pose proof (canon_rel_sorted _ _ _ H) as SO.
  destruct H as (s & [P S] & E). exists o. split; [split; auto|].
  destruct keep; auto. subst o. rewrite !dedup_eq. symmetry. apply dedup_spec_idem.
  eapply no_sentinel_perm; eauto.
Qed.

(* ... and, when the keys identify the diagnostics, it is the only possible result of the next pass *)
Theorem canon_idempotent_unique_c : forall keep l o o',
  no_sentinel l -> keys_injective_c cmp l -> canon_rel_c cmp keep l o -> canon_rel_c cmp keep o o' -> o' = o.
Proof.
  intros keep l o o' NS K H H'.
  pose proof (canon_idempotent_c _ _ _ NS H) as (s1 & [P1 S1] & E1).
  destruct H' as (s2 & [P2 S2] & E2).
  assert (KO : keys_injective_c cmp o).
  { eapply keys_injective_incl; [|exact K]. intros x Hx. eapply canon_rel_incl; eauto. }
  pose proof (canon_rel_sorted _ _ _ H) as SO.
  assert (s1 = o) by (symmetry; apply sorted_perm_unique; auto).
  assert (s2 = o) by (symmetry; apply sorted_perm_unique; auto).
  subst s1 s2. congruence.
Qed.

(* the stable instance is idempotent whatever the keys are *)
Theorem canonicalize_idempotent_c : forall keep l,
  no_sentinel l -> canonicalize_c cmp keep (canonicalize_c cmp keep l) = canonicalize_c cmp keep l.
Proof.
  intros keep l NS. unfold canonicalize_c. destruct keep.
  - apply isort_id, isort_sorted.
  - rewrite isort_id.
    + rewrite !dedup_eq. apply dedup_spec_idem. eapply no_sentinel_perm; [apply isort_perm|auto].
    + rewrite dedup_eq. apply dedup_spec_sorted, isort_sorted.
Qed.

(* the result does not depend on the order of the input -- given that the keys identify the diagnostics *)
Theorem canon_perm_invariant_c : forall keep l l' o o',
  Permutation l l' -> keys_injective_c cmp l -> canon_rel_c cmp keep l o -> canon_rel_c cmp keep l' o' -> o = o'.
Proof.
  intros keep l l' o o' P K (s & [P1 S1] & ->) (s' & [P2 S2] & ->).
  assert (s = s').
  { apply sorted_perm_unique; auto.
    - eapply perm_trans; [apply Permutation_sym; exact P1|]. exact (perm_trans P P2).
    - eapply keys_injective_incl; [|exact K]. intros x Hx. eapply Permutation_in; [apply Permutation_sym; exact P1|auto]. }
  now subst.
Qed.

(* incremental.Run: the visiting order of the tasks does not matter *)
Lemma concat_perm {A} (v v' : list (list A)) : Permutation v v' -> Permutation (concat v) (concat v').
Proof.
  induction 1; cbn [concat]; auto.
  - now apply Permutation_app_head.
  - rewrite !app_assoc. apply Permutation_app_tail, Permutation_app_comm.
  - eapply perm_trans; eauto.
Qed.

Theorem run_report_order_independent_c : forall keep v v' o o',
  Permutation v v' -> keys_injective_c cmp (concat v) ->
  run_report_c cmp keep v o -> run_report_c cmp keep v' o' -> o = o'.
Proof.
  intros keep v v' o o' P K H H'. unfold run_report_c in *.
  eapply (canon_perm_invariant_c keep (concat v) (concat v')); eauto. now apply concat_perm.
Qed.
End Gen.

(* ---------- instance: the code as it is (six keys) ---------- *)
Definition canon_rel_total_lemma : forall keep l, canon_rel keep l (canonicalize keep l) :=
  canon_rel_total_c dcmp dcmp_anti dle_trans.
Definition canon_idempotent_lemma : forall keep l o, no_sentinel l -> canon_rel keep l o -> canon_rel keep o o :=
  canon_idempotent_c dcmp.
Definition canon_idempotent_unique_lemma : forall keep l o o',
  no_sentinel l -> keys_injective l -> canon_rel keep l o -> canon_rel keep o o' -> o' = o :=
  canon_idempotent_unique_c dcmp dcmp_anti.
Definition canonicalize_idempotent_lemma : forall keep l,
  no_sentinel l -> canonicalize keep (canonicalize keep l) = canonicalize keep l :=
  canonicalize_idempotent_c dcmp dcmp_anti dle_trans.
Definition canon_perm_invariant_lemma : forall keep l l' o o',
  Permutation l l' -> keys_injective l -> canon_rel keep l o -> canon_rel keep l' o' -> o = o' :=
  canon_perm_invariant_c dcmp dcmp_anti.
Definition run_report_order_independent_lemma : forall keep v v' o o',
  Permutation v v' -> keys_injective (concat v) -> run_report keep v o -> run_report keep v' o' -> o = o' :=
  run_report_order_independent_c dcmp dcmp_anti.

(* ---------- instance: the repaired comparison (six keys, then level, then the rest) ---------- *)
Lemma N_cmp_ok : OrdOK N.compare.
Proof.
  constructor.
  - intros a b. apply N.compare_eq_iff.
  - intros a b. apply N.compare_antisym.
  - intros a b d. rewrite !N.compare_lt_iff. lia.
Qed.

Definition skey2 : Type := (skey * (Z * N))%type.
Definition sort_key2 (d : cdiag) : skey2 := (sort_key d, (c_level d, c_rest d)).
Definition kcmp2 : skey2 -> skey2 -> comparison := lexp kcmp (lexp Z.compare N.compare).

Lemma kcmp2_ok : OrdOK kcmp2.
Proof. unfold kcmp2. apply lexp_ok; [apply kcmp_ok | apply lexp_ok; [apply Z_cmp_ok | apply N_cmp_ok]]. Qed.

Lemma dcmp2_kcmp2 a b : dcmp2 a b = kcmp2 (sort_key2 a) (sort_key2 b).
Proof. reflexivity. Qed.

Lemma dcmp2_anti a b : dcmp2 b a = CompOpp (dcmp2 a b).
Proof. rewrite !dcmp2_kcmp2. apply (ok_anti _ kcmp2_ok). Qed.

Lemma dle2_trans a b c : dle_c dcmp2 a b -> dle_c dcmp2 b c -> dle_c dcmp2 a c.
Proof. unfold dle_c. rewrite !dcmp2_kcmp2. apply (ordok_le_trans kcmp2 sort_key2 kcmp2_ok). Qed.

(* with the two extra keys, comparing equal means being equal -- up to which File object a path refers to *)
Lemma dcmp2_injective l : one_file_per_path l -> keys_injective_c dcmp2 l.
Proof.
  intros OF a b Ha Hb E. rewrite dcmp2_kcmp2 in E. apply (ok_eq _ kcmp2_ok) in E.
  unfold sort_key2, sort_key in E. injection E as E1 E2 E3 E4 E5 E6 E7 E8.
  specialize (OF a b Ha Hb E1).
  destruct a as [[fa sa ea] so ta ma la ra], b as [[fb sb eb] sob tb mb lb rb]. cbn in *. congruence.
Qed.

Theorem canon_perm_invariant_repaired_lemma : forall keep l l' o o',
  Permutation l l' -> one_file_per_path l ->
  canon_rel_c dcmp2 keep l o -> canon_rel_c dcmp2 keep l' o' -> o = o'.
Proof.
  intros keep l l' o o' P OF. apply (canon_perm_invariant_c dcmp2 dcmp2_anti); auto.
  now apply dcmp2_injective.
Qed.

Theorem canon_idempotent_repaired_lemma : forall keep l o o',
  no_sentinel l -> one_file_per_path l ->
  canon_rel_c dcmp2 keep l o -> canon_rel_c dcmp2 keep o o' -> o' = o.
Proof.
  intros keep l o o' NS OF. apply (canon_idempotent_unique_c dcmp2 dcmp2_anti); auto.
  now apply dcmp2_injective.
Qed.

Theorem run_report_order_independent_repaired_lemma : forall keep v v' o o',
  Permutation v v' -> one_file_per_path (concat v) ->
  run_report_c dcmp2 keep v o -> run_report_c dcmp2 keep v' o' -> o = o'.
Proof.
  intros keep v v' o o' P OF. apply (run_report_order_independent_c dcmp2 dcmp2_anti); auto.
  now apply dcmp2_injective.
Qed.

(* the witness of the missing tie-break is ordered by the repaired comparison *)
Lemma tie_repaired : dcmp2 (mkcd zero_span 0 [] [109%N] 2 1) (mkcd zero_span 0 [] [109%N] 3 2) = Lt.
Proof. reflexivity. Qed.

(* without that hypothesis the statement is false, already for the sort alone: two diagnostics that agree
   on all six keys and differ elsewhere (here: level and the rest) may come out in either order *)
Definition tie_a : cdiag := mkcd zero_span 0 [] [109%N] 2 1.
Definition tie_b : cdiag := mkcd zero_span 0 [] [109%N] 3 2.

Theorem canon_perm_invariant_needs_injective_lemma :
  dcmp tie_a tie_b = Eq /\ tie_a <> tie_b /\ Permutation [tie_a; tie_b] [tie_b; tie_a] /\
  forall keep,
    canon_rel keep [tie_a; tie_b] [tie_a; tie_b] /\ canon_rel keep [tie_a; tie_b] [tie_b; tie_a] /\
    canon_rel keep [tie_b; tie_a] [tie_b; tie_a] /\
    canonicalize keep [tie_a; tie_b] <> canonicalize keep [tie_b; tie_a].
Proof.
  split; [reflexivity|]. split; [discriminate|]. split; [apply perm_swap|].
  assert (S1 : StronglySorted dle [tie_a; tie_b]) by (repeat constructor; discriminate).
  assert (S2 : StronglySorted dle [tie_b; tie_a]) by (repeat constructor; discriminate).
  intros keep. repeat split.
  - exists [tie_a; tie_b]. split; [split; auto|]. destruct keep; reflexivity.
  - exists [tie_b; tie_a]. split; [split; [apply perm_swap|auto]|]. destruct keep; reflexivity.
  - exists [tie_b; tie_a]. split; [split; auto|]. destruct keep; reflexivity.
  - destruct keep; vm_compute; discriminate.
Qed.

(* idempotence needs no_sentinel: Canonicalize marks a diagnostic for deletion by overwriting its level
   with -1, so a diagnostic that already has level -1 is deleted AFTER it has separated two duplicates *)
Definition fp : fileref := mkfr 1 [97%N].
Definition sen_d : cdiag := mkcd (mkspan (Some fp) 0 1) 0 [116%N] [109%N] 2 1.
Definition sen_x : cdiag := mkcd (mkspan (Some fp) 0 1) 1 [117%N] [109%N] (-1) 2.
Definition sen_y : cdiag := mkcd (mkspan (Some fp) 0 1) 2 [116%N] [109%N] 2 3.

Theorem canon_idempotent_needs_no_sentinel_lemma :
  canon_rel false [sen_d; sen_x; sen_y] [sen_d; sen_y] /\
  (forall o', canon_rel false [sen_d; sen_y] o' -> o' = [sen_y]) /\
  canonicalize false (canonicalize false [sen_d; sen_x; sen_y]) <> canonicalize false [sen_d; sen_x; sen_y].
Proof.
  split; [|split].
  - exists [sen_d; sen_x; sen_y]. split; [split; auto|reflexivity].
    repeat constructor; discriminate.
  - intros o' (s & [P S] & ->).
    assert (E : [sen_d; sen_y] = s).
    { apply (sorted_perm_unique dcmp dcmp_anti); auto.
      - repeat constructor; discriminate.
      - intros a b [<-|[<-|[]]] [<-|[<-|[]]]; vm_compute; intros; try reflexivity; discriminate. }
    subst s. reflexivity.
  - vm_compute. discriminate.
Qed.

(* non-vacuity: a list with a duplicate pair, in two orders *)
Definition ex_1 : cdiag := mkcd (mkspan (Some fp) 3 5) 10 [116%N] [109%N] 2 1.
Definition ex_2 : cdiag := mkcd (mkspan (Some fp) 3 5) 10 [116%N] [110%N] 2 2.
Definition ex_3 : cdiag := mkcd (mkspan (Some fp) 0 1) 20 [] [122%N] 3 3.
Definition ex_4 : cdiag := mkcd zero_span 0 [] [101%N] 1 4.

Lemma canon_example :
  keys_injective [ex_1; ex_2; ex_3; ex_4] /\ no_sentinel [ex_1; ex_2; ex_3; ex_4] /\
  canonicalize false [ex_1; ex_2; ex_3; ex_4] = [ex_4; ex_2; ex_3] /\
  canonicalize false [ex_3; ex_4; ex_2; ex_1] = [ex_4; ex_2; ex_3] /\
  canonicalize true [ex_3; ex_4; ex_2; ex_1] = [ex_4; ex_1; ex_2; ex_3].
Proof.
  split; [|split; [|split; [|split]]]; try (vm_compute; reflexivity).
  - intros a b [<-|[<-|[<-|[<-|[]]]]] [<-|[<-|[<-|[<-|[]]]]]; vm_compute; intros; try reflexivity; discriminate.
  - intros d [<-|[<-|[<-|[<-|[]]]]]; vm_compute; discriminate.
Qed.

(* ====================================================================================
   incremental.Run with memory: collecting a report does not touch the memoised task diagnostics
   ==================================================================================== *)
Lemma nth_set_arr_other (h : heap) a a' v : (a' < a)%nat -> (a' < length h)%nat -> nth a' (set_arr h a v) [] = nth a' h [].
Proof.
  intros L1 L2. unfold set_arr. rewrite app_nth1 by (rewrite firstn_length; lia).
  rewrite <- (firstn_skipn a h) at 2. rewrite app_nth1 by (rewrite firstn_length; lia). reflexivity.
Qed.

Lemma nth_set_arr_same (h : heap) a v : (a < length h)%nat -> nth a (set_arr h a v) [] = v.
Proof.
  intros L. unfold set_arr. rewrite app_nth2 by (rewrite firstn_length; lia).
  rewrite firstn_length. replace (a - Nat.min a (length h))%nat with 0%nat by lia. reflexivity.
Qed.

Lemma length_set_arr (h : heap) a v : (length h <= length (set_arr h a v))%nat.
Proof. unfold set_arr. rewrite app_length, firstn_length. cbn [length]. rewrite skipn_length. lia. Qed.

Lemma length_set_arr_in (h : heap) a v : (a < length h)%nat -> length (set_arr h a v) = length h.
Proof. intros L. unfold set_arr. rewrite app_length, firstn_length. cbn [length]. rewrite skipn_length. lia. Qed.

Definition fresh (n0 : nat) (s : slice) : Prop := match sl_arr s with None => True | Some a => (n0 <= a)%nat end.
(* the report slice is well formed *)
Definition rep_ok (h : heap) (s : slice) : Prop :=
  match sl_arr s with None => True | Some a => (a < length h)%nat /\ (sl_len s <= length (nth a h []))%nat end.

Lemma go_append_spec spare n0 h s xs h' s' :
  (n0 <= length h)%nat -> fresh n0 s -> rep_ok h s -> go_append spare h s xs = (h', s') ->
  (forall a', (a' < n0)%nat -> nth a' h' [] = nth a' h []) /\ (n0 <= length h')%nat /\ fresh n0 s' /\ rep_ok h' s' /\
  read h' s' = read h s ++ xs.
Proof.
  intros L F R E. unfold go_append in E. destruct xs as [|x xs0].
  - injection E as <- <-. rewrite app_nil_r. auto.
  - remember (x :: xs0) as xs eqn:EX in *. unfold fresh, rep_ok, read in *. destruct (sl_arr s) as [a|] eqn:SA.
    + destruct R as [R1 R2].
      destruct (Nat.leb (sl_len s + length xs) (length (nth a h []))) eqn:C; injection E as <- <-; cbn [sl_arr sl_len].
      * apply Nat.leb_le in C. split; [|split; [|split; [|split]]].
        -- intros a' La. apply nth_set_arr_other; lia.
        -- pose proof (length_set_arr h a (write_at (nth a h []) (sl_len s) xs)). lia.
        -- exact F.
        -- rewrite length_set_arr_in by auto. split; auto. rewrite nth_set_arr_same by auto.
           unfold write_at. rewrite !app_length, firstn_length, skipn_length. lia.
        -- rewrite nth_set_arr_same by auto. unfold write_at.
           assert (LF : length (firstn (sl_len s) (nth a h [])) = sl_len s) by (rewrite firstn_length; lia).
           rewrite <- LF at 1. rewrite firstn_app_2. f_equal.
           rewrite firstn_app, firstn_all, Nat.sub_diag. cbn [firstn]. now rewrite app_nil_r.
      * split; [|split; [|split; [|split]]].
        -- intros a' La. rewrite app_nth1 by lia. reflexivity.
        -- rewrite app_length. lia.
        -- lia.
        -- rewrite app_length. cbn [length]. split; [lia|]. rewrite app_nth2 by lia. rewrite Nat.sub_diag. cbn [nth].
           rewrite !app_length, firstn_length. lia.
        -- rewrite app_nth2 by lia. rewrite Nat.sub_diag. cbn [nth].
           assert (LF : length (firstn (sl_len s) (nth a h [])) = sl_len s) by (rewrite firstn_length; lia).
           rewrite <- LF at 1. rewrite firstn_app_2. f_equal.
           rewrite firstn_app, firstn_all, Nat.sub_diag. cbn [firstn]. now rewrite app_nil_r.
    + injection E as <- <-. cbn [sl_arr sl_len]. split; [|split; [|split; [|split]]].
      * intros a' La. rewrite app_nth1 by lia. reflexivity.
      * rewrite app_length. lia.
      * lia.
      * rewrite app_length. cbn [length]. split; [lia|]. rewrite app_nth2 by lia. rewrite Nat.sub_diag. cbn [nth].
        rewrite app_length. lia.
      * rewrite app_nth2 by lia. rewrite Nat.sub_diag. cbn [nth app].
        rewrite firstn_app, firstn_all, Nat.sub_diag. cbn [firstn]. now rewrite app_nil_r.
Qed.

Definition task_old (n0 : nat) (t : slice) : Prop := match sl_arr t with None => True | Some a => (a < n0)%nat end.

Lemma read_old n0 (h h' : heap) t :
  task_old n0 t -> (forall a', (a' < n0)%nat -> nth a' h' [] = nth a' h []) -> read h' t = read h t.
Proof. unfold task_old, read. destruct (sl_arr t); auto. intros L E. now rewrite E. Qed.

Lemma collect_spec spare n0 tasks : forall h rep h' rep',
  (n0 <= length h)%nat -> fresh n0 rep -> rep_ok h rep -> Forall (task_old n0) tasks ->
  collect spare h rep tasks = (h', rep') ->
  (forall a', (a' < n0)%nat -> nth a' h' [] = nth a' h []) /\ (n0 <= length h')%nat /\ fresh n0 rep' /\ rep_ok h' rep' /\
  read h' rep' = read h rep ++ concat (map (read h) tasks).
Proof.
  induction tasks as [|t r IH]; intros h rep h' rep' L F R T E; cbn [collect] in E.
  - injection E as <- <-. cbn. rewrite app_nil_r. auto.
  - destruct (go_append spare h rep (read h t)) as [h1 rep1] eqn:G.
    destruct (go_append_spec _ _ _ _ _ _ _ L F R G) as (O1 & L1 & F1 & R1 & RD1).
    inversion T as [|? ? T1 T2]; subst.
    destruct (IH _ _ _ _ L1 F1 R1 T2 E) as (O2 & L2 & F2 & R2 & RD2).
    split; [|split; [|split; [|split]]]; auto.
    + intros a' La. rewrite O2, O1; auto.
    + rewrite RD2, RD1. cbn [map concat]. rewrite <- app_assoc. f_equal. f_equal.
      f_equal. apply map_ext_in. intros t' Ht'. rewrite Forall_forall in T2. eapply read_old; eauto.
Qed.

Lemma canon_inplace_spec canon n0 h rep h' rep' :
  (forall l, length (canon l) <= length l)%nat ->
  (n0 <= length h)%nat -> fresh n0 rep -> rep_ok h rep -> canon_inplace canon h rep = (h', rep') ->
  (forall a', (a' < n0)%nat -> nth a' h' [] = nth a' h []) /\ (n0 <= length h')%nat /\
  read h' rep' = canon (read h rep).
Proof.
  intros CL L F R E. unfold canon_inplace, fresh, rep_ok, read in *. destruct (sl_arr rep) as [a|] eqn:SA.
  - destruct R as [R1 R2]. injection E as <- <-. cbn [sl_arr sl_len]. split; [|split].
    + intros a' La. apply nth_set_arr_other; lia.
    + pose proof (length_set_arr h a (canon (firstn (sl_len rep) (nth a h [])) ++
        repeat zero_diag (sl_len rep - length (canon (firstn (sl_len rep) (nth a h [])))) ++ skipn (sl_len rep) (nth a h []))). lia.
    + rewrite nth_set_arr_same by auto. rewrite firstn_app, firstn_all, Nat.sub_diag. cbn [firstn]. now rewrite app_nil_r.
  - injection E as <- <-. rewrite SA. split; [auto|split; [auto|]].
    specialize (CL []). cbn in CL. destruct (canon []); [reflexivity|cbn in CL; lia].
Qed.

(* Run builds its report in an array of its own: every array that existed before is unchanged, so every
   memoised task still has exactly its diagnostics, and the report is Canonicalize of their concatenation *)
Theorem run_heap_spec_lemma : forall spare canon h tasks h' rep',
  (forall l, length (canon l) <= length l)%nat ->
  Forall (task_old (length h)) tasks ->
  run_heap spare canon h tasks = (h', rep') ->
  (forall a, (a < length h)%nat -> nth a h' [] = nth a h []) /\ (length h <= length h')%nat /\
  (forall t, In t tasks -> read h' t = read h t) /\
  read h' rep' = canon (concat (map (read h) tasks)).
Proof.
  intros spare canon h tasks h' rep' CL T E. unfold run_heap in E.
  destruct (collect spare h (mkslice None 0) tasks) as [h1 rep1] eqn:C.
  destruct (collect_spec spare (length h) tasks h (mkslice None 0) h1 rep1) as (O1 & L1 & F1 & R1 & RD1); auto; try exact I.
  destruct (canon_inplace_spec canon (length h) h1 rep1 h' rep' CL L1 F1 R1 E) as (O2 & L2 & RD2).
  assert (O : forall a, (a < length h)%nat -> nth a h' [] = nth a h []) by (intros a La; rewrite O2, O1; auto).
  split; [exact O|]. split; [exact L2|]. split.
  - intros t Ht. rewrite Forall_forall in T. eapply read_old; eauto.
  - rewrite RD2, RD1. reflexivity.
Qed.

Theorem run_report_leaves_task_diagnostics_unchanged_lemma : forall spare canon h tasks h' rep',
  (forall l, length (canon l) <= length l)%nat -> Forall (task_old (length h)) tasks ->
  run_heap spare canon h tasks = (h', rep') -> forall t, In t tasks -> read h' t = read h t.
Proof. intros. eapply run_heap_spec_lemma; eauto. Qed.

(* hence a second Run of the same queries on the same executor (same tasks, nothing evicted) reports the
   same, whatever the first one allocated *)
Theorem run_heap_rerun_same_lemma : forall spare spare' canon h tasks h1 rep1 h2 rep2,
  (forall l, length (canon l) <= length l)%nat -> Forall (task_old (length h)) tasks ->
  run_heap spare canon h tasks = (h1, rep1) -> run_heap spare' canon h1 tasks = (h2, rep2) ->
  read h2 rep2 = read h1 rep1.
Proof.
  intros spare spare' canon h tasks h1 rep1 h2 rep2 CL T E1 E2.
  destruct (run_heap_spec_lemma _ _ _ _ _ _ CL T E1) as (O1 & L1 & RT1 & RD1).
  assert (T' : Forall (task_old (length h1)) tasks).
  { rewrite Forall_forall in *. intros t Ht. specialize (T t Ht). unfold task_old in *. destruct (sl_arr t); auto. lia. }
  destruct (run_heap_spec_lemma _ _ _ _ _ _ CL T' E2) as (_ & _ & _ & RD2).
  rewrite RD2, RD1. f_equal. f_equal. apply map_ext_in. intros t Ht. now apply RT1.
Qed.

(* the connection with the relational statement: the report is an outcome of run_report on the task
   reports, for any Canonicalize that is an outcome of canon_rel *)
Theorem run_heap_is_run_report_lemma : forall keep spare canon h tasks h' rep',
  (forall l, canon_rel keep l (canon l)) -> (forall l, length (canon l) <= length l)%nat ->
  Forall (task_old (length h)) tasks -> run_heap spare canon h tasks = (h', rep') ->
  run_report keep (map (read h) tasks) (read h' rep').
Proof.
  intros keep spare canon h tasks h' rep' CR CL T E.
  destruct (run_heap_spec_lemma _ _ _ _ _ _ CL T E) as (_ & _ & _ & RD). rewrite RD. apply CR.
Qed.

(* the seeded variant (take over the first task slice instead of copying it) does change a task: the
   root task has five diagnostics and room for three more, two leaves have one each *)
Definition sd (m : N) : cdiag := mkcd zero_span 0 [] [m] 2 0.
Definition alias_heap : heap :=
  [[sd 114; sd 115; sd 116; sd 117; sd 118; zero_diag; zero_diag; zero_diag]; [sd 97]; [sd 122]].
Definition alias_tasks : list slice := [mkslice (Some 0%nat) 5; mkslice (Some 1%nat) 1; mkslice (Some 2%nat) 1].

Theorem run_alias_changes_task_lemma :
  Forall (task_old (length alias_heap)) alias_tasks /\
  read alias_heap (mkslice (Some 0%nat) 5) = [sd 114; sd 115; sd 116; sd 117; sd 118] /\
  read (fst (run_heap_alias (fun _ => 0%nat) (canonicalize false) alias_heap alias_tasks)) (mkslice (Some 0%nat) 5)
    = [sd 97; sd 114; sd 115; sd 116; sd 117] /\
  read (fst (run_heap (fun _ => 0%nat) (canonicalize false) alias_heap alias_tasks)) (mkslice (Some 0%nat) 5)
    = [sd 114; sd 115; sd 116; sd 117; sd 118].
Proof.
  split; [repeat constructor|]. split; [reflexivity|]. split; vm_compute; reflexivity.
Qed.

(* canonicalize never makes the list longer *)
Lemma dedup_spec_length l : (length (dedup_spec l) <= length l)%nat.
Proof. induction l as [|d r IH]; cbn [dedup_spec length]; auto. destruct (dropped d r); cbn [length]; lia. Qed.

Lemma canonicalize_length keep l : (length (canonicalize keep l) <= length l)%nat.
Proof.
  unfold canonicalize, canonicalize_c. pose proof (Permutation_length (isort_perm dcmp l)) as P.
  destruct keep; [lia|]. rewrite dedup_eq. pose proof (dedup_spec_length (isort_c dcmp l)). lia.
Qed.

(* ------------------------------------------------------------------ the walk of Run over recorded edges *)
From Coq Require Import Relations.Relation_Operators Relations.Operators_Properties.
Local Open Scope nat_scope.
Section RunWalkProofs.
  Variable deps_of : nat -> list nat.
  Notation reachable := (x_reachable deps_of).

  Definition x_inv (st : xstate) : Prop :=
    (forall c d, In (c, d) (x_edges st) -> In d (deps_of c)) /\
    (forall t d, In t (x_done st) -> In d (deps_of t) -> In d (x_done st) /\ In (t, d) (x_edges st)).

  Lemma x_inv_reachable : forall st, reachable st -> x_inv st.
  Proof.
    intros st H. induction H as [|st e Hr [IH1 IH2] Hen].
    - split; intros; contradiction.
    - destruct e as [c d|t]; cbn in Hen |- *.
      + destruct Hen as [Hd Hc]. split.
        * intros c' d' [Heq|Hin]; [inversion Heq; subst; exact Hd | apply IH1; exact Hin].
        * intros t d' Ht Hd'. destruct (IH2 t d' Ht Hd') as [A B]. split; [exact A | right; exact B].
      + destruct Hen as [Hnt Hall]. split.
        * exact IH1.
        * intros t' d [Heq|Ht'] Hd.
          -- subst t'. destruct (Hall d Hd) as [A B]. split; [right; exact A | exact B].
          -- destruct (IH2 t' d Ht' Hd) as [A B]. split; [right; exact A | exact B].
  Qed.

  Lemma x_walk_is_closure : forall st roots, reachable st ->
    (forall r, In r roots -> In r (x_done st)) ->
    forall t, x_visited st roots t <-> d_reach deps_of roots t.
  Proof.
    intros st roots Hr Hroots t. destruct (x_inv_reachable st Hr) as [I1 I2]. split.
    - intros [r [Hin Hc]]. exists r. split; [exact Hin|]. clear Hin.
      induction Hc as [a b Hab|a|a b c _ IHab _ IHbc].
      + apply rt_step. apply I1. exact Hab.
      + apply rt_refl.
      + eapply rt_trans; eassumption.
    - intros [r [Hin Hc]]. exists r. split; [exact Hin|].
      assert (Hdone : In r (x_done st)) by (apply Hroots; exact Hin). clear Hin.
      assert (G : clos_refl_trans nat (x_edge st) r t /\ In t (x_done st)).
      { apply clos_rt_rt1n in Hc. induction Hc as [a|a b c Hab _ IH].
        - split; [apply rt_refl | exact Hdone].
        - destruct (I2 a b Hdone Hab) as [Hb Hedge]. destruct (IH Hb) as [P Q].
          split; [eapply rt_trans; [apply rt_step; exact Hedge | exact P] | exact Q]. }
      exact (proj1 G).
  Qed.

  Lemma x_walk_history_independent : forall st1 st2 roots, reachable st1 -> reachable st2 ->
    (forall r, In r roots -> In r (x_done st1)) -> (forall r, In r roots -> In r (x_done st2)) ->
    forall t, x_visited st1 roots t <-> x_visited st2 roots t.
  Proof.
    intros st1 st2 roots H1 H2 R1 R2 t.
    rewrite (x_walk_is_closure st1 roots H1 R1 t), (x_walk_is_closure st2 roots H2 R2 t). reflexivity.
  Qed.
End RunWalkProofs.

(* non-vacuity: a, b both depend on c; the history completes c for a first, then b finds c done *)
Definition ex_deps (t : nat) : list nat := match t with 0 => [2] | 1 => [2] | _ => [] end.
Definition ex_hist : list xevent := [XEdge 0 2; XComplete 2; XComplete 0; XEdge 1 2; XComplete 1].
Lemma ex_hist_reachable : x_reachable ex_deps (fold_left x_apply ex_hist x_init).
Proof.
  cbn [ex_hist fold_left].
  apply xr_step. apply xr_step. apply xr_step. apply xr_step. apply xr_step. apply xr_init.
  - cbn. split; [tauto | intros H; exact H].
  - cbn. split; [intros H; exact H | intros d H; contradiction].
  - cbn. split; [intros [H|H]; [discriminate | exact H] |].
    intros d [H|H]; [subst d; split; [left; reflexivity | left; reflexivity] | contradiction].
  - cbn. split; [tauto | intros [H|[H|H]]; [discriminate | discriminate | exact H]].
  - cbn. split; [intros [H|[H|H]]; [discriminate | discriminate | exact H] |].
    intros d [H|H]; [subst d; split; [right; left; reflexivity | left; reflexivity] | contradiction].
Qed.
(* ... and in that state a Run of root 1 alone visits 2 although 2 was a cache hit for it *)
Lemma ex_hist_visits : x_visited (fold_left x_apply ex_hist x_init) [1] 2.
Proof. exists 1. split; [left; reflexivity | apply rt_step; cbn; left; reflexivity]. Qed.
