(* Incremental executor model, any dependency graph, no panics: the executor cannot deadlock.
   Edge stores precede waits, so the thread that published its Resolve call last on any wait cycle
   has a cycle check that saw the whole cycle. *)
From Coq Require Import List Arith Bool NArith Lia.
From PV Require Import Model.IncExec Proofs.IncExec1 Proofs.IncExec2 Proofs.IncExec3 Proofs.IncExec5.
Import ListNotations.

(* the Resolve call whose edges a thread has completely stored *)
Definition pubd (p : pc) : option nat :=
  match p with
  | PStart g _ _ | PCall g _ | PJoinRel g | PJoin g | PJoinAcq g => Some g
  | _ => None
  end.
(* the dependencies dep.start has been called for *)
Definition started (p : pc) (i : nat) : Prop :=
  match p with
  | PStart _ j _ => j <= i
  | PCall _ _ | PJoinRel _ | PJoin _ | PJoinAcq _ => True
  | _ => False
  end.

Lemma bfs_push_props ds x : forall q seen q' seen', bfs_push ds x q seen = (q', seen') ->
  incl q q' /\ incl (map fst seen) (map fst seen') /\
  (forall y, In y q' -> In y q \/ (In y (map fst seen') /\ ~ In y (map fst seen))) /\
  (forall y, In y (map fst seen') -> ~ In y (map fst seen) -> In y q') /\
  (forall y, In y ds -> In y (map fst seen')).
Proof.
  induction ds as [|a ds IH]; intros q seen q' seen' H; cbn in H.
  - inversion H; subst. repeat split; auto; try apply incl_refl; try (intros; contradiction).
  - destruct (memb a (map fst seen)) eqn:Em.
    + destruct (IH _ _ _ _ H) as (A & B & C & D & E). repeat split; auto.
      intros y [<-|Hy]; [apply B; apply memb_In; assumption|apply E; assumption].
    + apply memb_false in Em. destruct (IH _ _ _ _ H) as (A & B & C & D & E).
      assert (Hs : incl (map fst seen) (map fst (seen ++ [(a, x)]))) by (rewrite map_app; apply incl_appl, incl_refl).
      assert (Ha : In a (map fst (seen ++ [(a, x)]))) by (rewrite map_app; apply in_or_app; right; left; reflexivity).
      repeat split.
      * intros y Hy. apply A. apply in_or_app. left. assumption.
      * intros y Hy. apply B. apply Hs. assumption.
      * intros y Hy. destruct (C y Hy) as [Hq|[H1 H2]].
        -- apply in_app_or in Hq. destruct Hq as [Hq|[<-|[]]]; [left; assumption|].
           right. split; [apply B; assumption|assumption].
        -- right. split; [assumption|]. intros F. apply H2. apply Hs. assumption.
      * intros y Hy Hn. destruct (Nat.eq_dec y a) as [->|Hya].
        -- apply A. apply in_or_app. right. left. reflexivity.
        -- apply D; [assumption|]. rewrite map_app. intros F. apply in_app_or in F. destruct F as [F|[F|[]]]; [contradiction|].
           cbn in F. congruence.
      * intros y [<-|Hy]; [apply B; assumption|apply E; assumption].
Qed.

Section Inv5.
Variable w : world.
Variable par : nat.
Hypothesis Hnp : forall k, wpanic w k = None.
Hypothesis Hwf : wf_world w.

(* the thread X handles key x, has published the group grp, and did so before the thread p published *)
Definition earlier (s : state) (p X : nat) (x : key) (grp : list key) : Prop :=
  X < nthr s /\ tkey (thr s X) = Some x /\
  (exists g, pubd (tpc (thr s X)) = Some g /\ nth_error (groups w s X) g = Some grp) /\
  tpub (thr s X) < tpub (thr s p).

Record thread5 (s : state) (id : nat) : Prop := {
  y_child : forall i, i < length (tslots (thr s id)) -> started (tpc (thr s id)) i ->
            nth_error (tslots (thr s id)) i = Some None ->
            exists c, c < nthr s /\ ended (tpc (thr s c)) = false /\ thost (thr s c) = Some (id, i);
  y_pub : forall g, pubd (tpc (thr s id)) = Some g -> tpub (thr s id) < clock s;
  y_stored : forall k g grp, tkey (thr s id) = Some k -> pubd (tpc (thr s id)) = Some g ->
             nth_error (groups w s id) g = Some grp -> forall d, In d grp -> In (k, d) (edges s);
  y_childpub : forall p i g, thost (thr s id) = Some (p, i) -> pubd (tpc (thr s id)) = Some g ->
               tpub (thr s p) < tpub (thr s id);
  y_pedges : forall k g i grp, tkey (thr s id) = Some k -> tpc (thr s id) = PEdges g i ->
             nth_error (groups w s id) g = Some grp -> forall d, In d (firstn i grp) -> In (k, d) (edges s);
  y_bfs : forall o q seen p i c d, tpc (thr s id) = RCheck o q seen -> thost (thr s id) = Some (p, i) ->
          tcaller (thr s id) = Some c -> tkey (thr s id) = Some d ->
          incl q (d :: map fst seen) /\ (In c (d :: map fst seen) -> In c q) /\
          (forall x, In x (d :: map fst seen) -> ~ In x q ->
             forall X grp y, earlier s p X x grp -> In y grp -> In y (d :: map fst seen));
  y_done : forall o p i c d, tpc (thr s id) = RRel o \/ tpc (thr s id) = RWait o -> thost (thr s id) = Some (p, i) ->
           tcaller (thr s id) = Some c -> tkey (thr s id) = Some d ->
           In d (tdisc (thr s id)) /\ ~ In c (tdisc (thr s id)) /\
           (forall x, In x (tdisc (thr s id)) -> forall X grp y, earlier s p X x grp -> In y grp -> In y (tdisc (thr s id)))
}.

Record inv5 (s : state) : Prop := {
  z_thr : forall id, id < nthr s -> thread5 s id;
  z_dist : forall a b ga gb, a < nthr s -> b < nthr s -> a <> b ->
           pubd (tpc (thr s a)) = Some ga -> pubd (tpc (thr s b)) = Some gb -> tpub (thr s a) <> tpub (thr s b)
}.

(* how publication changes in a step of the thread itself *)
Lemma pubd_step s id e g : inv1 w par s -> id < nthr s -> step_local w s id = Some e ->
  pubd (tpc (e_self e)) = Some g ->
  (pubd (tpc (thr s id)) = Some g /\ tpub (e_self e) = tpub (thr s id) /\ e_pub e = false /\ e_edge e = None) \/
  (exists i, tpc (thr s id) = PEdges g i /\ tpub (e_self e) = clock s /\ e_pub e = true /\ e_edge e = None).
Proof.
  intros Hi Hid H. pose proof (i_thr _ _ _ Hi id Hid) as Ht.
  pose proof (cancelled_false w par s (thr s id) Hi) as Hc.
  pose proof (t_hold _ _ _ Ht) as Hh. unfold hexp in Hh. pose proof (t_synconly _ _ _ Ht) as Hso.
  local_cases H; rewrite ?Epc in *; cbn [hpc] in Hh;
    rewrite ?after_resolve_nc by assumption;
    rewrite ?do_release_hold by (rewrite Hh; first [reflexivity | cbn; apply Hso; reflexivity]);
    cbn; intros Hq; try discriminate; inversion Hq; subst; try (left; repeat split; reflexivity).
  right. eexists. repeat split; reflexivity.
Qed.

Lemma clock_mono s id e p : clock s <= clock (apply_eff s id e p).
Proof. unfold apply_eff; cbn. destruct (e_edge e); [lia|]. destruct (e_pub e); lia. Qed.


Lemma live_step s id e : inv1 w par s -> id < nthr s -> step_local w s id = Some e ->
  tkey (thr s id) <> None -> (forall r, tpc (thr s id) <> PReturn r) -> ended (tpc (e_self e)) = false.
Proof.
  intros Hi Hid H Hk Hr. pose proof (i_thr _ _ _ Hi id Hid) as Ht.
  pose proof (cancelled_false w par s (thr s id) Hi) as Hc.
  pose proof (t_hold _ _ _ Ht) as Hh. unfold hexp in Hh. pose proof (t_synconly _ _ _ Ht) as Hso.
  pose proof (t_noabort _ _ _ Ht) as Hna.
  local_cases H; rewrite ?Epc in *; cbn [hpc] in Hh;
    rewrite ?after_resolve_nc by assumption;
    rewrite ?do_release_hold by (rewrite Hh; first [reflexivity | cbn; apply Hso; reflexivity]);
    cbn; try reflexivity; try congruence.
  all: try (exfalso; eapply Hr; reflexivity).
  all: rewrite Hh in *; discriminate.
Qed.

(* what the stepping thread itself contributes *)
Lemma step_self5 s id e p : inv1 w par s -> inv2 w s -> inv4 w s -> inv5 s -> id < nthr s -> step_local w s id = Some e ->
  let s' := apply_eff s id e p in let t' := e_self e in let gs := groups w s id in
  (forall k g i grp, tkey t' = Some k -> tpc t' = PEdges g i -> nth_error gs g = Some grp ->
     forall d, In d (firstn i grp) -> In (k, d) (edges s')) /\
  (forall k g grp, tkey t' = Some k -> pubd (tpc t') = Some g -> nth_error gs g = Some grp ->
     forall d, In d grp -> In (k, d) (edges s')).
Proof.
  intros Hi Hj Hx Hz Hid H. pose proof (i_thr _ _ _ Hi id Hid) as Ht. pose proof (z_thr _ Hz id Hid) as Hy.
  pose proof (cancelled_false w par s (thr s id) Hi) as Hc.
  pose proof (t_hold _ _ _ Ht) as Hh. unfold hexp in Hh. pose proof (t_synconly _ _ _ Ht) as Hso.
  assert (Yp : forall k g i grp, tkey (thr s id) = Some k -> tpc (thr s id) = PEdges g i ->
                nth_error (groups w s id) g = Some grp -> forall d, In d (firstn i grp) -> In (k, d) (edges (apply_eff s id e p))).
  { intros k g i grp A B C d D. apply edges_mono. eapply (y_pedges _ _ Hy); eassumption. }
  assert (Ys : forall k g grp, tkey (thr s id) = Some k -> pubd (tpc (thr s id)) = Some g ->
                nth_error (groups w s id) g = Some grp -> forall d, In d grp -> In (k, d) (edges (apply_eff s id e p))).
  { intros k g grp A B C d D. apply edges_mono. eapply (y_stored _ _ Hy); eassumption. }
  pose proof (fun ed => edges_new s id e p ed) as Enew.
  destruct (step_self_id w s id e H) as (Ia & Ib & Ic & Id & Ie).
  cbv zeta. rewrite Ib. clear Ia Ib Ic Id Ie. set (s' := apply_eff s id e p) in *. clearbody s'.
  local_cases H; rewrite ?Epc in *; cbn [hpc] in Hh;
    rewrite ?after_resolve_nc by assumption;
    rewrite ?do_release_hold by (rewrite Hh; first [reflexivity | cbn; apply Hso; reflexivity]);
    cbn [e_self e_edge E Esem set_pc set_pc_hold set_pc_slots set_pc_obj set_pc_pub set_pc_disc leave_resolve
         tpc tkey pubd] in *.
  all: split; try (intros; discriminate).
  all: try solve [intros k' g' i' grp' A B; inversion B; subst; intros C d' D; cbn in D; contradiction].
  all: try solve [intros k' g' grp' A B; inversion B; subst; eapply Ys; try eassumption; reflexivity].
  all: try solve [intros k1 g0 i0 grp A B C d D; inversion A; inversion B; subst;
       match goal with Hg : nth_error (groups _ _ _) _ = Some ?l, Hd0 : nth_error ?l _ = Some _ |- _ =>
         rewrite C in Hg; inversion Hg; subst; rewrite (firstn_S_nth _ _ _ Hd0) in D end;
       apply in_app_or in D; destruct D as [D|[<-|[]]];
       [eapply Yp; try eassumption; reflexivity|apply Enew; reflexivity]].
  (* publication: every dependency of the group has been stored *)
  intros k g0 grp A B C d D. inversion B; subst g0.
  match goal with Hg : nth_error (groups _ _ _) _ = Some ?l, Hd0 : nth_error ?l _ = None |- _ =>
    rewrite C in Hg; inversion Hg; subst; apply nth_error_None in Hd0;
    eapply Yp; try eassumption; try reflexivity; rewrite firstn_all2 by assumption; assumption end.
Qed.


Lemma rdone_step s id e o : inv1 w par s -> id < nthr s -> step_local w s id = Some e ->
  tpc (e_self e) = RRel o \/ tpc (e_self e) = RWait o ->
  (exists seen d, tpc (thr s id) = RCheck o [] seen /\ tkey (thr s id) = Some d /\ tdisc (e_self e) = d :: map fst seen) \/
  (tpc (thr s id) = RRel o /\ tdisc (e_self e) = tdisc (thr s id)).
Proof.
  intros Hi Hid H. pose proof (i_thr _ _ _ Hi id Hid) as Ht.
  pose proof (cancelled_false w par s (thr s id) Hi) as Hc.
  pose proof (t_hold _ _ _ Ht) as Hh. unfold hexp in Hh. pose proof (t_synconly _ _ _ Ht) as Hso.
  local_cases H; rewrite ?Epc in *; cbn [hpc] in Hh;
    rewrite ?after_resolve_nc by assumption;
    rewrite ?do_release_hold by (rewrite Hh; first [reflexivity | cbn; apply Hso; reflexivity]);
    cbn; intros [Hq|Hq]; try discriminate; inversion Hq; subst.
  all: try (left; do 2 eexists; repeat split; reflexivity).
  all: try (right; split; reflexivity).
Qed.

Lemma step_self_bfs s id e : inv1 w par s -> inv2 w s -> inv4 w s -> inv5 s -> id < nthr s ->
  step_local w s id = Some e ->
  let t' := e_self e in
  (forall o q seen hp hi c d, tpc t' = RCheck o q seen -> thost (thr s id) = Some (hp, hi) ->
     tcaller (thr s id) = Some c -> tkey (thr s id) = Some d ->
     incl q (d :: map fst seen) /\ (In c (d :: map fst seen) -> In c q) /\
     (forall x, In x (d :: map fst seen) -> ~ In x q ->
        forall X grp y, earlier s hp X x grp -> In y grp -> In y (d :: map fst seen))) /\
  (forall o hp hi c d, tpc t' = RRel o \/ tpc t' = RWait o -> thost (thr s id) = Some (hp, hi) ->
     tcaller (thr s id) = Some c -> tkey (thr s id) = Some d ->
     In d (tdisc t') /\ ~ In c (tdisc t') /\
     (forall x, In x (tdisc t') -> forall X grp y, earlier s hp X x grp -> In y grp -> In y (tdisc t'))).
Proof.
  intros Hi Hj Hx Hz Hid H. pose proof (z_thr _ Hz id Hid) as Hy. cbv zeta. split.
  - intros o q seen hp hi c d Hpc Hh Hc Hk.
    destruct (rcheck_step w par s id e o q seen Hi Hid H Hpc) as [(d' & D1 & -> & ->)|(x0 & q0 & seen0 & D1 & D2)].
    + assert (d' = d) as -> by congruence. cbn. repeat split.
      * intros y Hy'. assumption.
      * intros [<-|[]]. left. reflexivity.
      * intros x [<-|[]] Hn. exfalso. apply Hn. left. reflexivity.
    + destruct (y_bfs _ _ Hy _ _ _ _ _ _ _ D1 Hh Hc Hk) as (B1 & B2 & B3).
      destruct (bfs_push_props _ _ _ _ _ _ D2) as (P1 & P2 & P3 & P4 & P5).
      (* the popped node is not the caller: the step stays in the check *)
      assert (Hx0 : x0 <> c).
      { intros ->. clear - H D1 Hc Hpc Hk. unfold step_local in H. cbv zeta in H. rewrite D1, Hk, Hc, Nat.eqb_refl in H.
        inversion H; subst e. cbn in Hpc. destruct (wfix w); discriminate. }
      repeat split.
      * intros y Hy'. destruct (P3 y Hy') as [Hq|[Hs _]]; [|right; assumption].
        destruct (B1 y (or_intror Hq)) as [<-|Hs]; [left; reflexivity|right; apply P2; assumption].
      * intros [<-|Hs].
        -- apply P1. destruct (B2 (or_introl eq_refl)) as [E|Hq]; [congruence|assumption].
        -- destruct (in_dec Nat.eq_dec c (map fst seen0)) as [Ho|Hn].
           ++ apply P1. destruct (B2 (or_intror Ho)) as [E|Hq]; [congruence|assumption].
           ++ apply P4; assumption.
      * intros x Hxd Hxq X grp y He Hyg.
        destruct (Nat.eq_dec x x0) as [->|Hne].
        -- (* the node just processed: its published dependencies are edges, hence pushed *)
           destruct He as (E1 & E2 & (g & E3 & E4) & E5).
           pose proof (y_stored _ _ (z_thr _ Hz X E1) _ _ _ E2 E3 E4 y Hyg) as Hed.
           right. apply P5. apply deps_of_In. assumption.
        -- assert (Hold : In x (d :: map fst seen0)).
           { destruct Hxd as [<-|Hs]; [left; reflexivity|].
             destruct (in_dec Nat.eq_dec x (map fst seen0)) as [Ho|Hn]; [right; assumption|].
             exfalso. apply Hxq. apply P4; assumption. }
           assert (Hnq : ~ In x (x0 :: q0)).
           { intros [E|Hq]; [congruence|]. apply Hxq. apply P1. assumption. }
           destruct (B3 x Hold Hnq X grp y He Hyg) as [<-|Hs]; [left; reflexivity|right; apply P2; assumption].
  - intros o hp hi c d Hpc Hh Hc Hk.
    destruct (rdone_step s id e o Hi Hid H Hpc) as [(seen & d' & D1 & D2 & D3)|(D1 & D2)].
    + assert (d' = d) as -> by congruence. rewrite D3.
      destruct (y_bfs _ _ Hy _ _ _ _ _ _ _ D1 Hh Hc Hk) as (B1 & B2 & B3).
      repeat split.
      * left. reflexivity.
      * intros F. destruct (B2 F).
      * intros x Hxd X grp y He Hyg. eapply B3; eauto.
    + rewrite D2. apply (y_done _ _ Hy o hp hi c d (or_introl D1) Hh Hc Hk).
Qed.


Lemma started_step s id e i : inv1 w par s -> id < nthr s -> step_local w s id = Some e ->
  e_spawn e = None -> i < length (tslots (e_self e)) ->
  started (tpc (e_self e)) i -> nth_error (tslots (e_self e)) i = Some None ->
  started (tpc (thr s id)) i /\ nth_error (tslots (thr s id)) i = Some None.
Proof.
  intros Hi Hid H. pose proof (i_thr _ _ _ Hi id Hid) as Ht.
  pose proof (cancelled_false w par s (thr s id) Hi) as Hc.
  pose proof (t_hold _ _ _ Ht) as Hh. unfold hexp in Hh. pose proof (t_synconly _ _ _ Ht) as Hso.
  pose proof (t_slots _ _ _ Ht) as Tsl.
  local_cases H; rewrite ?Epc in *; cbn [hpc] in Hh;
    rewrite ?after_resolve_nc by assumption;
    rewrite ?do_release_hold by (rewrite Hh; first [reflexivity | cbn; apply Hso; reflexivity]);
    cbn [e_self e_spawn E Esem set_pc set_pc_hold set_pc_slots set_pc_obj set_pc_pub set_pc_disc leave_resolve
         tpc tslots started]; intros Hsp Hlen Hst Hn; try contradiction; try discriminate; try (split; [exact I|assumption]);
    try (split; assumption).
  - exfalso. destruct (Tsl _ eq_refl) as (grp & G1 & G2). rewrite Heqo in G1. inversion G1; subst. lia.
  - split; [lia|assumption].
  - rewrite set_slot_length in Hlen. destruct (Nat.eq_dec i n) as [->|Hne].
    + rewrite set_slot_same in Hn by assumption. discriminate.
    + rewrite set_slot_other in Hn by assumption. split; [lia|assumption].
Qed.


Lemma pubd_in_resolve p g : pubd p = Some g -> in_resolve p = Some g.
Proof. destruct p; cbn; intros H; try discriminate; assumption. Qed.

Lemma host_pubd s x hp hi : inv1 w par s -> x < nthr s -> ended (tpc (thr s x)) = false ->
  tkey (thr s x) <> None -> thost (thr s x) = Some (hp, hi) ->
  hp < x /\ exists g, pubd (tpc (thr s hp)) = Some g.
Proof.
  intros Hi Hx Hl Hk Hh. destruct (t_host _ _ _ (i_thr _ _ _ Hi x Hx) Hk Hl) as [(hp' & hi' & g & grp & d & H1 & H2 & H3 & H4 & H5 & H6 & H7 & H8 & H9)].
  rewrite Hh in H1. inversion H1; subst. split; [assumption|]. exists g.
  destruct (tsync (thr s x)); [destruct H9 as [_ [nw E]]; rewrite E; reflexivity|].
  destruct H9 as [_ E]. destruct (tpc (thr s hp')); cbn in E; try contradiction; cbn.
  - destruct E as (-> & _). reflexivity. - destruct E as (-> & _). reflexivity. - subst; reflexivity. - subst; reflexivity.
Qed.

Lemma inv5_step s id s1 : inv1 w par s -> inv2 w s -> inv4 w s -> inv5 s -> step w s id = Some s1 -> inv5 s1.
Proof.
  intros Hi Hj Hx Hz H. destruct (step_spec _ _ _ _ H) as (Hid & e & p & Hl & -> & Hp).
  set (s' := apply_eff s id e p).
  assert (Hi' : inv1 w par s') by (eapply inv1_step; eassumption).
  destruct (thr_after w par s id e p Hi Hid Hl) as (Tself & Toth & Tn). fold s' in Tself, Toth, Tn.
  destruct (step_self_id w s id e Hl) as (Ia & Ib & Ic & Id & Ie).
  destruct (step_self5 s id e p Hi Hj Hx Hz Hid Hl) as (S1 & S2). fold s' in S1, S2.
  destruct (step_self_bfs s id e Hi Hj Hx Hz Hid Hl) as (S3 & S4).
  pose proof (i_thr _ _ _ Hi id Hid) as Htid. pose proof (z_thr _ Hz id Hid) as Hyid.
  pose proof (step_local_live w _ _ _ Hl) as Hlive.
  assert (Hkey : forall x, x < nthr s -> tkey (thr s' x) = tkey (thr s x)).
  { intros x Hx'. destruct (Nat.eq_dec x id) as [->|Hxi]; [rewrite Tself; assumption|].
    destruct (Toth x Hx' Hxi) as [->|(hi & r & h & _ & _ & ->)]; reflexivity. }
  assert (Hgr : forall x, x < nthr s -> groups w s' x = groups w s x) by (intros x Hx'; apply groups_eq; auto).
  assert (Hem : forall x, In x (edges s) -> In x (edges s')) by (intros x; apply edges_mono).
  assert (Hck : clock s <= clock s') by apply clock_mono.
  assert (Hnth : nthr s <= nthr s') by (destruct Tn as [->|[-> _]]; lia).
  (* fields of the other old threads *)
  assert (Hsame : forall x, x < nthr s -> x <> id ->
            tpc (thr s' x) = tpc (thr s x) /\ tpub (thr s' x) = tpub (thr s x) /\ tdisc (thr s' x) = tdisc (thr s x) /\
            thost (thr s' x) = thost (thr s x) /\ tcaller (thr s' x) = tcaller (thr s x)).
  { intros x Hx' Hxi. destruct (Toth x Hx' Hxi) as [->|(hi & r & h & _ & _ & ->)]; repeat split; reflexivity. }
  (* publication of the stepping thread *)
  assert (Hpself : forall g, pubd (tpc (e_self e)) = Some g ->
            (pubd (tpc (thr s id)) = Some g /\ tpub (e_self e) = tpub (thr s id)) \/
            (tpub (e_self e) = clock s /\ clock s' = S (clock s))).
  { intros g Hg. destruct (pubd_step s id e g Hi Hid Hl Hg) as [(A & B & _)|(i & A & B & C & D)]; [left; auto|right].
    split; [assumption|]. unfold s', apply_eff; cbn. rewrite D, C. reflexivity. }
  (* threads published in the new state were published, with the same stamp, unless they just did it *)
  assert (Hpback : forall X g, X < nthr s' -> pubd (tpc (thr s' X)) = Some g ->
            X < nthr s /\ ((pubd (tpc (thr s X)) = Some g /\ tpub (thr s' X) = tpub (thr s X)) \/
                           (X = id /\ tpub (thr s' X) = clock s /\ clock s' = S (clock s)))).
  { intros X g HX Hg. destruct (le_lt_dec (nthr s) X) as [Hge|Hlt].
    - destruct Tn as [E|(E & j & d & sy & h & Hc)]; [lia|]. assert (X = nthr s) as -> by lia. rewrite Hc in Hg. discriminate.
    - split; [assumption|]. destruct (Nat.eq_dec X id) as [->|HXi].
      + rewrite Tself in *. destruct (Hpself g Hg) as [[A B]|[A B]]; auto.
      + destruct (Hsame X Hlt HXi) as (P1 & P2 & _). left. rewrite <- P1, P2. auto. }
  (* earlier-than relations only shrink *)
  assert (Hearl : forall hp X x grp, hp < nthr s -> (exists g, pubd (tpc (thr s hp)) = Some g) ->
            tpub (thr s' hp) = tpub (thr s hp) -> earlier s' hp X x grp -> earlier s hp X x grp).
  { intros hp X x grp Hhp (gp & Hgp) Htp (E1 & E2 & (g & E3 & E4) & E5).
    destruct (Hpback X g E1 E3) as (HX & [[A B]|(-> & B & C)]).
    - split; [assumption|]. rewrite <- Hkey by assumption. split; [assumption|]. split.
      + exists g. rewrite <- Hgr by assumption. auto.
      + rewrite <- B, <- Htp. assumption.
    - exfalso. pose proof (y_pub _ _ (z_thr _ Hz hp Hhp) gp Hgp). lia. }
  (* the caller of a live thread keeps its publication stamp *)
  assert (Hptp : forall x hp hi, x < nthr s -> x <> id -> ended (tpc (thr s x)) = false -> tkey (thr s x) <> None ->
            thost (thr s x) = Some (hp, hi) -> tpub (thr s' hp) = tpub (thr s hp)).
  { intros x hp hi Hlt Hxi Hlx Hk Hh. pose proof (i_thr _ _ _ Hi x Hlt) as Htx.
    destruct (host_pubd s x hp hi Hi Hlt Hlx Hk Hh) as [Hlt' (gp & Hgp)].
    assert (Hhp : hp < nthr s) by lia.
    destruct (Nat.eq_dec hp id) as [->|Hne]; [|apply (Hsame hp Hhp Hne)].
    rewrite Tself.
    destruct (t_host _ _ _ Htx Hk Hlx) as [(hp' & hi' & g' & grp' & d' & H1 & H2 & H3 & H4 & H5 & H6 & H7 & H8 & H9)].
    rewrite Hh in H1. inversion H1; subst hp' hi'.
    destruct (parent_step_child w par s id e g' hi (tsync (thr s x)) Hi Hid Hl H8 H9) as [_ Q].
    assert (Hpg : exists g2, pubd (tpc (e_self e)) = Some g2).
    { destruct (tsync (thr s x)); [destruct Q as [_ [nw E]]; rewrite E; eexists; reflexivity|].
      destruct Q as [_ E]. destruct (tpc (e_self e)); cbn in E; try contradiction; eexists; reflexivity. }
    destruct Hpg as [g2 Hg2]. destruct (pubd_step s id e g2 Hi Hid Hl Hg2) as [(A' & B' & _)|(i & A' & _)]; [assumption|].
    rewrite A' in Hgp. discriminate. }
  constructor.
  - intros x Hx'. destruct (le_lt_dec (nthr s) x) as [Hge|Hlt].
    + (* the new thread *)
      destruct Tn as [E|(E & j & d & sy & h & Hc)]; [lia|]. assert (x = nthr s) as -> by lia.
      constructor; rewrite Hc; unfold child_of; cbn; try (intros; discriminate); try (intros; lia); try (intros; contradiction).
      all: intros; destruct H0; discriminate.
    + destruct (Nat.eq_dec x id) as [->|Hxi].
      * (* the stepping thread *)
        constructor; rewrite ?Tself, ?Hgr by assumption.
        -- intros i Hi0 Hst Hn.
           destruct (step_kinds w s id e Hl) as [[A B]|[(r & hp & hi & A1 & A2 & A3 & A4 & A5 & _)|(g & j & nw & grp & d & A1 & A2 & A3 & A4 & A5 & A6 & _)]].
           ++ destruct (started_step s id e i Hi Hid Hl B Hi0 Hst Hn) as [Q1 Q2].
              assert (Hi1 : i < length (tslots (thr s id))) by (apply nth_error_Some; congruence).
              destruct (y_child _ _ Hyid i Hi1 Q1 Q2) as (c & C1 & C2 & C3).
              assert (Hci : c <> id).
              { intros ->. destruct (t_root _ _ _ Htid) as [R _]; [|congruence].
                destruct (tkey (thr s id)) eqn:Ek; [|reflexivity]. exfalso.
                destruct (host_pubd s id id i Hi Hid C2 ltac:(congruence) C3) as [F _]. lia. }
              destruct (Hsame c C1 Hci) as (P1 & _ & _ & P4 & _). exists c. rewrite P1, P4. split; [lia|auto].
           ++ rewrite A5 in Hst. contradiction.
           ++ assert (Hsl : tslots (e_self e) = tslots (thr s id)) by (rewrite A6; destruct (Nat.eqb j 0); reflexivity).
              rewrite Hsl in *. destruct (Nat.eq_dec i j) as [->|Hij].
              ** destruct Tn as [E|(E & j' & d' & sy & h & Hc)]; [unfold s', apply_eff in E; cbn in E; rewrite A5 in E; lia|].
                 exists (nthr s). split; [lia|].
                 assert (Hc' : thr s' (nthr s) = child_of s id j d (j =? 0) (if j =? 0 then thold (thr s id) else false)).
                 { unfold s', apply_eff. cbn. rewrite A5. apply upd_same. }
                 rewrite Hc'. unfold child_of; cbn. auto.
              ** assert (Hst0 : started (tpc (thr s id)) i).
                 { rewrite A1. cbn. rewrite A6 in Hst. destruct (Nat.eqb j 0) eqn:Ej; cbn in Hst; [apply Nat.eqb_eq in Ej|]; lia. }
                 destruct (y_child _ _ Hyid i Hi0 Hst0 Hn) as (c & C1 & C2 & C3).
                 assert (Hci : c <> id).
                 { intros ->. destruct (tkey (thr s id)) eqn:Ek.
                   - destruct (host_pubd s id id i Hi Hid C2 ltac:(congruence) C3) as [F _]. lia.
                   - destruct (t_root _ _ _ Htid Ek) as [R _]. congruence. }
                 destruct (Hsame c C1 Hci) as (P1 & _ & _ & P4 & _). exists c. rewrite P1, P4. split; [lia|auto].
        -- intros g Hg. destruct (Hpself g Hg) as [[A B]|[A B]]; [rewrite B; pose proof (y_pub _ _ Hyid g A); lia|lia].
        -- intros k g grp A B C d D. eapply S2; eassumption.
        -- rewrite Id. intros hp hi g Hh Hg.
           assert (Hk : tkey (thr s id) <> None).
           { intros Hk. destruct (t_root _ _ _ Htid Hk) as [R _]. congruence. }
           destruct (host_pubd s id hp hi Hi Hid Hlive Hk Hh) as [Hlt' (gp & Hgp)].
           assert (Hhp : hp < nthr s) by lia.
           destruct (Hsame hp Hhp ltac:(lia)) as (_ & P2 & _). rewrite P2.
           destruct (Hpself g Hg) as [[A B]|[A B]].
           ++ rewrite B. eapply (y_childpub _ _ Hyid); eassumption.
           ++ rewrite A. apply (y_pub _ _ (z_thr _ Hz hp Hhp) gp Hgp).
        -- intros k g i grp A B C d D. eapply S1; eassumption.
        -- rewrite Id, Ic, Ib. intros o q seen hp hi c d Hpc Hh Hc Hk.
           destruct (S3 o q seen hp hi c d Hpc Hh Hc Hk) as (B1 & B2 & B3). split; [assumption|]. split; [assumption|].
           intros x Hxd Hxq X grp y He Hyg.
           destruct (host_pubd s id hp hi Hi Hid Hlive ltac:(congruence) Hh) as [Hlt' Hgp].
           assert (Hhp : hp < nthr s) by lia. destruct (Hsame hp Hhp ltac:(lia)) as (_ & P2 & _).
           apply (B3 x Hxd Hxq X grp y); [apply Hearl; assumption|assumption].
        -- rewrite Id, Ic, Ib. intros o hp hi c d Hpc Hh Hc Hk.
           destruct (S4 o hp hi c d Hpc Hh Hc Hk) as (B1 & B2 & B3). split; [assumption|]. split; [assumption|].
           intros x Hxd X grp y He Hyg.
           destruct (host_pubd s id hp hi Hi Hid Hlive ltac:(congruence) Hh) as [Hlt' Hgp].
           assert (Hhp : hp < nthr s) by lia. destruct (Hsame hp Hhp ltac:(lia)) as (_ & P2 & _).
           apply (B3 x Hxd X grp y); [apply Hearl; assumption|assumption].
      * (* the other threads *)
        pose proof (z_thr _ Hz x Hlt) as Hy. pose proof (i_thr _ _ _ Hi x Hlt) as Htx.
        destruct (Hsame x Hlt Hxi) as (P1 & P2 & P3 & P4 & P5).
        constructor; rewrite ?P1, ?P2, ?P3, ?P4, ?P5, ?Hkey, ?Hgr by assumption.
        -- intros i Hi0 Hst Hn.
           destruct (Toth x Hlt Hxi) as [E|(hi & r & h & Q1 & Q2 & E)].
           ++ rewrite E in *. destruct (y_child _ _ Hy i Hi0 Hst Hn) as (c & C1 & C2 & C3).
              destruct (Nat.eq_dec c id) as [->|Hci].
              ** exists id. rewrite Tself, Id. split; [lia|]. split; [|assumption].
                 apply (live_step s id e Hi Hid Hl).
                 --- intros Hk. destruct (t_root _ _ _ Htid Hk) as [R _]. congruence.
                 --- intros r Hr. destruct (step_kinds w s id e Hl) as [[A B]|[(r' & hp & hi & A1 & A2 & A3 & A4 & _)|(g & j & nw & grp & d & A1 & _)]]; try congruence.
                     +++ clear - Hl Hr A. unfold step_local in Hl. cbv zeta in Hl. rewrite Hr in Hl.
                         destruct (thost (thr s id)) as [[a b]|]; [inversion Hl; subst e; discriminate|discriminate].
                     +++ exfalso. rewrite A2 in C3. inversion C3; subst. 
                         destruct (Toth x Hlt Hxi) as [E'|(hi' & r0 & h' & Q1 & Q2 & E')]; [|rewrite A2 in Q2; inversion Q2; subst].
                         *** unfold s', apply_eff in E'. cbn in E'. rewrite A4, A3 in E'. cbn in E'.
                             rewrite upd_same in E'. rewrite (upd_other (thr s) id (e_self e) x Hxi) in E'. apply (f_equal tslots) in E'. cbn in E'.
                             pose proof (set_slot_same (tslots (thr s x)) i r' Hi0) as Hss. rewrite E' in Hss. congruence.
                         *** rewrite E' in E. apply (f_equal tslots) in E. cbn in E.
                             match goal with Hn0 : nth_error (tslots (thr s x)) ?j = Some None, Hj : ?j < length (tslots (thr s x)) |- _ =>
                               pose proof (set_slot_same (tslots (thr s x)) j r0 Hj) as Hss; rewrite E in Hss; congruence end.
              ** destruct (Hsame c C1 Hci) as (Q1 & _ & _ & Q4 & _). exists c. rewrite Q1, Q4. split; [lia|auto].
           ++ rewrite E in *. cbn [slot_write tslots] in *. rewrite set_slot_length in Hi0.
              assert (Hne : i <> hi) by (intros ->; rewrite set_slot_same in Hn by assumption; discriminate).
              rewrite set_slot_other in Hn by assumption.
              destruct (y_child _ _ Hy i Hi0 Hst Hn) as (c & C1 & C2 & C3).
              assert (Hci : c <> id) by (intros ->; rewrite Q2 in C3; inversion C3; congruence).
              destruct (Hsame c C1 Hci) as (R1 & _ & _ & R4 & _). exists c. rewrite R1, R4. split; [lia|auto].
        -- intros g Hg. pose proof (y_pub _ _ Hy g Hg). lia.
        -- intros k g grp A B C d D. apply Hem. eapply (y_stored _ _ Hy); eassumption.
        -- intros hp hi g Hh Hg.
           assert (Hk : tkey (thr s x) <> None).
           { intros Hk. destruct (t_root _ _ _ Htx Hk) as [R _]. congruence. }
           assert (Hlx : ended (tpc (thr s x)) = false) by (destruct (tpc (thr s x)); try discriminate; reflexivity).
           rewrite (Hptp x hp hi Hlt Hxi Hlx Hk Hh). eapply (y_childpub _ _ Hy); eassumption.
        -- intros k g i grp A B C d D. apply Hem. eapply (y_pedges _ _ Hy); eassumption.
        -- intros o q seen hp hi c d Hpc Hh Hc Hk.
           destruct (y_bfs _ _ Hy o q seen hp hi c d Hpc Hh Hc Hk) as (B1 & B2 & B3). split; [assumption|]. split; [assumption|].
           intros x0 Hxd Hxq X grp y He Hyg.
           assert (Hlx : ended (tpc (thr s x)) = false) by (rewrite Hpc; reflexivity).
           destruct (host_pubd s x hp hi Hi Hlt Hlx ltac:(congruence) Hh) as [Hlt' Hgp].
           assert (Hhp : hp < nthr s) by lia.
           apply (B3 x0 Hxd Hxq X grp y); [|assumption]. apply Hearl; try assumption.
           apply (Hptp x hp hi Hlt Hxi Hlx ltac:(congruence) Hh).
        -- intros o hp hi c d Hpc Hh Hc Hk.
           destruct (y_done _ _ Hy o hp hi c d Hpc Hh Hc Hk) as (B1 & B2 & B3). split; [assumption|]. split; [assumption|].
           intros x0 Hxd X grp y He Hyg.
           assert (Hlx : ended (tpc (thr s x)) = false) by (destruct Hpc as [E|E]; rewrite E; reflexivity).
           destruct (host_pubd s x hp hi Hi Hlt Hlx ltac:(congruence) Hh) as [Hlt' Hgp].
           assert (Hhp : hp < nthr s) by lia.
           apply (B3 x0 Hxd X grp y); [|assumption]. apply Hearl; try assumption.
           apply (Hptp x hp hi Hlt Hxi Hlx ltac:(congruence) Hh).
  - intros a b ga gb Ha Hb Hab Hpa Hpb.
    destruct (Hpback a ga Ha Hpa) as (Ha' & [[A1 A2]|(-> & A2 & A3)]); destruct (Hpback b gb Hb Hpb) as (Hb' & [[B1 B2]|(-> & B2 & B3)]).
    + rewrite A2, B2. eapply (z_dist _ Hz); eassumption.
    + rewrite A2, B2. pose proof (y_pub _ _ (z_thr _ Hz a Ha') ga A1). lia.
    + rewrite A2, B2. pose proof (y_pub _ _ (z_thr _ Hz b Hb') gb B1). lia.
    + congruence.
Qed.


Lemma inv5_start_run s ks : inv1 w par s -> inv5 s -> inv5 (start_run s ks).
Proof.
  intros Hi Hz. set (s' := start_run s ks).
  assert (Hnew : thr s' (nthr s) = root_thread (S (nrun s))) by (unfold s', start_run; cbn; apply upd_same).
  assert (Hoth : forall x, x < nthr s -> thr s' x = thr s x) by (intros x Hx; unfold s', start_run; cbn; apply upd_other; lia).
  assert (Hgr : forall x, x < nthr s -> groups w s' x = groups w s x) by (intros; apply groups_start_run; assumption).
  assert (Hearl : forall hp X x grp, hp < nthr s -> earlier s' hp X x grp -> earlier s hp X x grp).
  { intros hp X x grp Hhp (E1 & E2 & (g & E3 & E4) & E5). change (nthr s') with (S (nthr s)) in E1.
    destruct (Nat.eq_dec X (nthr s)) as [->|HX]; [rewrite Hnew in E2; discriminate|].
    assert (HX' : X < nthr s) by lia. rewrite (Hoth X), (Hoth hp) in * by assumption. rewrite Hgr in E4 by assumption.
    split; [assumption|]. split; [assumption|]. split; [eauto|assumption]. }
  assert (Hhost : forall x hp hi, x < nthr s -> ended (tpc (thr s x)) = false -> thost (thr s x) = Some (hp, hi) -> hp < nthr s).
  { intros x hp hi Hx Hl Hh. assert (Hk : tkey (thr s x) <> None).
    { intros Hk. destruct (t_root _ _ _ (i_thr _ _ _ Hi x Hx) Hk) as [R _]. congruence. }
    destruct (host_pubd s x hp hi Hi Hx Hl Hk Hh) as [F _]. lia. }
  constructor.
  - intros x Hx. change (nthr s') with (S (nthr s)) in Hx. destruct (Nat.eq_dec x (nthr s)) as [->|Hxn].
    + constructor; rewrite Hnew; cbn; try (intros; discriminate); try (intros; lia); try (intros; contradiction).
      all: intros; destruct H; discriminate.
    + assert (Hx' : x < nthr s) by lia. pose proof (z_thr _ Hz x Hx') as Hy.
      constructor; rewrite ?Hoth, ?Hgr by assumption; try apply Hy.
      * intros i Hi0 Hst Hn. destruct (y_child _ _ Hy i Hi0 Hst Hn) as (c & C1 & C2 & C3).
        exists c. change (nthr s') with (S (nthr s)). rewrite Hoth by assumption. split; [lia|auto].
      * intros hp hi g Hh Hg.
        assert (Hl : ended (tpc (thr s x)) = false) by (destruct (tpc (thr s x)); try discriminate; reflexivity).
        rewrite (Hoth hp) by (eapply Hhost; eassumption). eapply (y_childpub _ _ Hy); eassumption.
      * intros o q seen hp hi c d Hpc Hh Hc Hk. destruct (y_bfs _ _ Hy o q seen hp hi c d Hpc Hh Hc Hk) as (B1 & B2 & B3).
        split; [assumption|]. split; [assumption|]. intros x0 Hxd Hxq X grp y He Hyg.
        apply (B3 x0 Hxd Hxq X grp y); [|assumption]. apply Hearl; [|assumption].
        eapply Hhost; [eassumption|rewrite Hpc; reflexivity|eassumption].
      * intros o hp hi c d Hpc Hh Hc Hk. destruct (y_done _ _ Hy o hp hi c d Hpc Hh Hc Hk) as (B1 & B2 & B3).
        split; [assumption|]. split; [assumption|]. intros x0 Hxd X grp y He Hyg.
        apply (B3 x0 Hxd X grp y); [|assumption]. apply Hearl; [|assumption].
        eapply Hhost; [eassumption|destruct Hpc as [E|E]; rewrite E; reflexivity|eassumption].
  - intros a b ga gb Ha Hb Hab Hpa Hpb. change (nthr s') with (S (nthr s)) in *.
    destruct (Nat.eq_dec a (nthr s)) as [->|Han]; [rewrite Hnew in Hpa; discriminate|].
    destruct (Nat.eq_dec b (nthr s)) as [->|Hbn]; [rewrite Hnew in Hpb; discriminate|].
    rewrite (Hoth a), (Hoth b) in * by lia. eapply (z_dist _ Hz a b); try eassumption; lia.
Qed.

Lemma inv5_quiet s s' : inv5 s -> quiescent s = true -> thr s' = thr s -> nthr s' = nthr s -> inv5 s'.
Proof.
  intros Hz Hq Ht Hn. pose proof (quiescent_ended s Hq) as He.
  constructor.
  - intros x Hx. rewrite Hn in Hx. specialize (He x Hx).
    constructor; rewrite Ht; destruct (tpc (thr s x)); try discriminate; cbn;
      try (intros; discriminate); try (intros; contradiction).
    all: intros; destruct H; discriminate.
  - intros a b ga gb Ha _ _ Hpa _. rewrite Hn in Ha. rewrite Ht in Hpa. specialize (He a Ha).
    destruct (tpc (thr s a)); discriminate.
Qed.

Lemma inv5_event s e s' : inv1 w par s -> inv2 w s -> inv4 w s -> inv5 s -> do_event w s e = Some s' -> inv5 s'.
Proof.
  intros Hi Hj Hx Hz H. destruct e as [t|ks|ks|ks vs]; cbn [do_event] in H.
  - eapply inv5_step; eassumption.
  - destruct (forallb (fun k => Nat.ltb k (wn w)) ks); inversion H. apply inv5_start_run; assumption.
  - destruct (quiescent s) eqn:Hq; inversion H. eapply inv5_quiet; try eassumption; reflexivity.
  - destruct (quiescent s) eqn:Hq; inversion H. eapply inv5_quiet; try eassumption; reflexivity.
Qed.

Lemma inv5_init inputs : inv5 (init par inputs).
Proof. constructor; cbn; intros; lia. Qed.

Lemma reach_inv5 inputs s : reach w par inputs s -> inv1 w par s /\ inv2 w s /\ inv4 w s /\ inv5 s.
Proof.
  induction 1 as [|s e s' Hr (IH1 & IH2 & IH3 & IH4) He].
  - split; [apply inv1_init|split; [apply inv2_init|split; [apply inv4_init|apply inv5_init]]].
  - split; [eapply inv1_event; eassumption|]. split; [eapply inv2_event; eassumption|].
    split; [eapply inv4_event; eassumption|eapply inv5_event; eassumption].
Qed.


(* ---- deadlock freedom ---- *)
Lemma forallb_false_ex' {A} (p : A -> bool) l : forallb p l = false -> exists x, In x l /\ p x = false.
Proof.
  induction l as [|a l IH]; [discriminate|]. cbn. destruct (p a) eqn:E.
  - intros H. destruct (IH H) as (x & A1 & A2). exists x. auto.
  - intros _. exists a. auto.
Qed.

Definition blocked_join (p : pc) : bool := match p with PCall _ _ | PJoin _ => true | _ => false end.

(* a live thread that cannot step waits for a permit, for a pending result, or for its callees *)
Lemma blocked_shape s id : inv1 w par s -> inv2 w s -> inv4 w s -> id < nthr s -> ended (tpc (thr s id)) = false ->
  step w s id = None ->
  (permits s = 0 /\ hexp (thr s id) = false) \/
  (exists o, tpc (thr s id) = RWait o /\ oclosed (objs s o) = false) \/
  (blocked_join (tpc (thr s id)) = true /\ hexp (thr s id) = false /\
   exists i, i < length (tslots (thr s id)) /\ started (tpc (thr s id)) i /\ nth_error (tslots (thr s id)) i = Some None).
Proof.
  intros Hi Hj Hx Hid Hl Hs. pose proof (i_thr _ _ _ Hi id Hid) as Ht.
  pose proof (cancelled_false w par s (thr s id) Hi) as Hc.
  pose proof (t_hold _ _ _ Ht) as Hh. pose proof (t_slots _ _ _ Ht) as Tsl. pose proof (t_start _ _ _ Ht) as Tst.
  pose proof (t_root _ _ _ Ht) as Tr. pose proof (t_host _ _ _ Ht) as Th.
  unfold step in Hs. apply Nat.ltb_lt in Hid. rewrite Hid in Hs. apply Nat.ltb_lt in Hid.
  destruct (step_local w s id) as [e|] eqn:El.
  - (* only an acquire with no free permit *)
    left. destruct (e_sem e) eqn:Es; try discriminate. destruct (permits s) eqn:Ep; [|discriminate]. split; [reflexivity|].
    unfold hexp. clear Hs. local_cases El; cbn in Es; try discriminate; try reflexivity.
    all: try (unfold do_release in Es; repeat match type of Es with context [if ?x then _ else _] => destruct x end; discriminate).
  - right. clear Hs. unfold step_local in El. cbv zeta in El.
    destruct (tpc (thr s id)) eqn:Epc; try discriminate;
      repeat match type of El with
             | context [match ?x with _ => _ end] => destruct x eqn:?
             | context [if ?x then _ else _] => destruct x eqn:?
             end; try discriminate.
    all: try (unfold do_release in El; repeat match type of El with context [if ?x then _ else _] => destruct x end; discriminate).
    all: try solve [destruct (Tr eq_refl) as (_ & _ & R & Rc & Rr & _); first [discriminate | exfalso; eapply Rc; reflexivity
                                                                               | exfalso; eapply Rr; reflexivity]].
    all: try solve [destruct (Tsl _ eq_refl) as (grp & G1 & G2); congruence].
    + left. exists o. split; [reflexivity|]. apply orb_false_iff in Heqb. apply Heqb.
    + (* PStart: the group has an element at every index below the counter *)
      exfalso. destruct (Tsl _ eq_refl) as (grp & G1 & G2). destruct (Tst _ _ _ eq_refl) as [_ Hle].
      match goal with Hg : nth_error (groups _ _ _) _ = Some ?l, Hn : nth_error ?l _ = None |- _ =>
        rewrite G1 in Hg; inversion Hg; subst; apply nth_error_None in Hn; lia end.
    + right. split; [reflexivity|]. split; [unfold hexp; rewrite Epc; match goal with Hn : nth_error _ 0 = _ |- _ => rewrite Hn end; reflexivity|].
      exists 0. repeat split; [|assumption]. apply nth_error_Some. congruence.
    + exfalso. pose proof (x_pcall _ _ Hx id _ _ Hid Epc) as Hp.
      match goal with Hn : nth_error _ 0 = None |- _ => apply nth_error_None in Hn; lia end.
    + right. split; [reflexivity|]. split; [unfold hexp; rewrite Epc; reflexivity|].
      match goal with Hf : slots_full _ = false |- _ => unfold slots_full in Hf; destruct (forallb_false_ex' _ _ Hf) as (x & Hin & Hx0) end.
      destruct x as [r|]; [discriminate|]. apply In_nth_error in Hin. destruct Hin as [i Hi0]. exists i.
      repeat split; [apply nth_error_Some; congruence|assumption].
    + exfalso. destruct (tkey (thr s id)) as [k|] eqn:Ek.
      * destruct (Th ltac:(discriminate) eq_refl) as [(hp & hi & g & grp & d & H1 & _)]. congruence.
      * destruct (Tr eq_refl) as (_ & _ & _ & _ & Rr & _). eapply Rr; reflexivity.
Qed.


Lemma blocked_join_pubd p : blocked_join p = true -> exists g, pubd p = Some g.
Proof. destruct p; try discriminate; intros _; eexists; reflexivity. Qed.

(* L waits for the leader L' of one of the dependencies of its current Resolve call *)
Definition waits (s : state) (L L' : nat) : Prop :=
  exists h i g grp c d,
    h < nthr s /\ thost (thr s h) = Some (L, i) /\ tkey (thr s h) = Some d /\ tcaller (thr s h) = tkey (thr s L) /\
    pubd (tpc (thr s L)) = Some g /\ nth_error (groups w s L) g = Some grp /\ nth_error grp i = Some d /\
    tkey (thr s L) = c /\ L' < nthr s /\ tkey (thr s L') = Some d /\ blocked_join (tpc (thr s L')) = true /\
    (h = L' \/ exists o, tpc (thr s h) = RWait o).

Definition all_blocked (s : state) : Prop := forall t, t < nthr s -> step w s t = None.

Lemma successor s L : inv1 w par s -> inv2 w s -> inv4 w s -> inv5 s -> all_blocked s -> 0 < permits s ->
  L < nthr s -> blocked_join (tpc (thr s L)) = true -> exists L', waits s L L'.
Proof.
  intros Hi Hj Hx Hz Hab Hperm HL Hbj.
  assert (HlL : ended (tpc (thr s L)) = false) by (destruct (tpc (thr s L)); try discriminate; reflexivity).
  destruct (blocked_shape s L Hi Hj Hx HL HlL (Hab L HL)) as [[F _]|[(o & F & _)|(_ & _ & i & I1 & I2 & I3)]];
    [lia|rewrite F in Hbj; discriminate|].
  destruct (y_child _ _ (z_thr _ Hz L HL) i I1 I2 I3) as (h & C1 & C2 & C3).
  pose proof (i_thr _ _ _ Hi h C1) as Hth.
  assert (Hkh : tkey (thr s h) <> None).
  { intros Hk. destruct (t_root _ _ _ Hth Hk) as [R _]. congruence. }
  destruct (t_host _ _ _ Hth Hkh C2) as [(hp & hi & g & grp & d & H1 & H2 & H3 & H4 & H5 & H6 & H7 & H8 & H9)].
  rewrite C3 in H1. inversion H1; subst hp hi.
  assert (Hpg : pubd (tpc (thr s L)) = Some g).
  { destruct (tsync (thr s h)); [destruct H9 as [_ [nw E]]; rewrite E; reflexivity|].
    destruct H9 as [_ E]. destruct (tpc (thr s L)); cbn in E; try contradiction; cbn.
    - destruct E as (-> & _). reflexivity. - destruct E as (-> & _). reflexivity. - subst; reflexivity. - subst; reflexivity. }
  destruct (blocked_shape s h Hi Hj Hx C1 C2 (Hab h C1)) as [[F _]|[(o & F1 & F2)|(F1 & _ & _)]]; [lia| |].
  - (* the callee waits for the pending result of d: its leader *)
    destruct (u_waiter _ _ _ (j_thr _ _ Hj h C1) d o H7 ltac:(rewrite F1; reflexivity)) as [W1 _].
    destruct (j_leader _ _ Hj d o W1 F2) as (L' & Q1 & Q2 & Q3 & Q4).
    assert (HlL' : ended (tpc (thr s L')) = false) by (destruct (tpc (thr s L')); try discriminate; reflexivity).
    destruct (blocked_shape s L' Hi Hj Hx Q1 HlL' (Hab L' Q1)) as [[F _]|[(o' & F & _)|(G1 & _ & _)]];
      [lia|rewrite F in Q3; discriminate|].
    exists L', h, i, g, grp, (tkey (thr s L)), d. repeat split; auto. right. exists o. assumption.
  - exists h, h, i, g, grp, (tkey (thr s L)), d. repeat split; auto.
Qed.

Lemma argmax (f : nat -> nat) (C : list nat) : C <> [] -> exists T, In T C /\ forall x, In x C -> f x <= f T.
Proof.
  induction C as [|a C IH]; [congruence|]. intros _. destruct C as [|b C].
  - exists a. split; [left; reflexivity|]. intros x [<-|[]]. lia.
  - destruct (IH ltac:(discriminate)) as (T & HT & Hmax).
    destruct (le_lt_dec (f a) (f T)).
    + exists T. split; [right; assumption|]. intros x [<-|Hx]; [assumption|apply Hmax; assumption].
    + exists a. split; [left; reflexivity|]. intros x [<-|Hx]; [lia|]. specialize (Hmax x Hx). lia.
Qed.

Lemma filter_len_le {A} (p : A -> bool) (l : list A) : length (filter p l) <= length l.
Proof. induction l as [|a l IH]; cbn; [lia|]. destruct (p a); cbn; lia. Qed.
Lemma filter_length_lt {A} (p : A -> bool) (l : list A) x : In x l -> p x = false -> length (filter p l) < length l.
Proof.
  induction l as [|a l IH]; intros Hin Hp; [destruct Hin|]. cbn. destruct Hin as [->|Hin].
  - rewrite Hp. pose proof (filter_len_le p l). lia.
  - specialize (IH Hin Hp). destruct (p a); cbn; lia.
Qed.

(* no set of leaders can wait on each other around published dependency edges *)
Lemma no_stuck_set s : inv1 w par s -> inv2 w s -> inv5 s ->
  forall n C, length C <= n -> C <> [] ->
  (forall L, In L C -> L < nthr s /\ (exists k, tkey (thr s L) = Some k) /\ blocked_join (tpc (thr s L)) = true /\
                       exists L', In L' C /\ waits s L L') -> False.
Proof.
  intros Hi Hj Hz. induction n as [|n IH]; intros C Hlen Hne Hst.
  - destruct C; [congruence|cbn in Hlen; lia].
  - destruct (argmax (fun L => tpub (thr s L)) C Hne) as (T & HTC & Hmax). cbn beta in Hmax.
    destruct (Hst T HTC) as (HT & (c & HcT) & HbT & L0 & HL0 & (h & i & g & grp & c' & d & W1 & W2 & W3 & W4 & W5 & W6 & W7 & W8 & W9 & W10 & W11 & W12)).
    rewrite HcT in W8. subst c'.
    destruct W12 as [->|(o & Ho)].
    + (* the callee is itself the leader of d: it published after its caller *)
      destruct (blocked_join_pubd _ W11) as [g0 Hg0].
      pose proof (y_childpub _ _ (z_thr _ Hz L0 W9) T i g0 W2 Hg0) as Hlt. specialize (Hmax L0 HL0). lia.
    + (* the callee finished its cycle check without finding the caller *)
      rewrite HcT in W4.
      destruct (y_done _ _ (z_thr _ Hz h W1) o T i c d (or_intror Ho) W2 W4 W3) as (D1 & D2 & D3).
      set (D := tdisc (thr s h)) in *.
      set (p := fun L => match tkey (thr s L) with Some k => memb k D | None => false end).
      apply (IH (filter p C)).
      * pose proof (filter_length_lt p C T HTC) as Hlt.
        assert (p T = false) as HpT by (unfold p; rewrite HcT; apply memb_false; assumption). specialize (Hlt HpT). lia.
      * intros Hnil. assert (In L0 (filter p C)) as Hin; [|rewrite Hnil in Hin; destruct Hin].
        apply filter_In. split; [assumption|]. unfold p. rewrite W10. apply memb_In. assumption.
      * intros L HL. apply filter_In in HL. destruct HL as [HLC HpL].
        destruct (Hst L HLC) as (HLn & (x & HxL) & HbL & L2 & HL2 & Hw). split; [assumption|]. split; [eauto|]. split; [assumption|].
        exists L2. split; [|assumption]. apply filter_In. split; [assumption|].
        destruct Hw as (h2 & i2 & g2 & grp2 & c2 & y & V1 & V2 & V3 & V4 & V5 & V6 & V7 & V8 & V9 & V10 & V11 & V12).
        unfold p in *. rewrite HxL in HpL. apply memb_In in HpL. rewrite V10. apply memb_In.
        assert (HLT : L <> T) by (intros ->; rewrite HcT in HxL; inversion HxL; subst; contradiction).
        apply (D3 x HpL L grp2 y); [|eapply nth_error_In; eassumption].
        split; [assumption|]. split; [assumption|]. split; [eauto|].
        destruct (blocked_join_pubd _ HbT) as [gT HgT].
        pose proof (z_dist _ Hz L T g2 gT HLn HT HLT V5 HgT). specialize (Hmax L HLC). lia.
Qed.

Lemma holder_exists s : 0 < holders s -> exists id, id < nthr s /\ thold (thr s id) = true.
Proof.
  unfold holders. induction (nthr s) as [|n IH]; cbn; [lia|]. intros H.
  destruct (thold (thr s n)) eqn:E.
  - exists n. split; [lia|assumption].
  - cbn in H. destruct IH as (id & A & B); [lia|]. exists id. split; [lia|assumption].
Qed.

Theorem no_deadlock inputs s : 1 <= par -> reach w par inputs s -> quiescent s = false ->
  exists t s', step w s t = Some s'.
Proof.
  intros Hpar Hr Hq. destruct (reach_inv5 inputs s Hr) as (Hi & Hj & Hx & Hz).
  destruct (existsb (fun t => match step w s t with Some _ => true | None => false end) (seq 0 (nthr s))) eqn:E.
  - apply existsb_exists in E. destruct E as (t & _ & Ht). destruct (step w s t) as [s'|] eqn:Es; [eauto|discriminate].
  - exfalso.
    assert (Hab : all_blocked s).
    { intros t Ht. destruct (step w s t) eqn:Es; [|reflexivity].
      assert (existsb (fun t => match step w s t with Some _ => true | None => false end) (seq 0 (nthr s)) = true); [|congruence].
      apply existsb_exists. exists t. split; [apply in_seq; lia|]. rewrite Es. reflexivity. }
    (* a permit is free: a holder could always step *)
    assert (Hperm : 0 < permits s).
    { destruct (permits s) eqn:Ep; [|lia]. exfalso.
      pose proof (i_perm _ _ _ Hi) as Hp. rewrite Ep in Hp.
      destruct (holder_exists s ltac:(lia)) as (id & A & B).
      pose proof (t_hold _ _ _ (i_thr _ _ _ Hi id A)) as Hh. rewrite B in Hh.
      assert (Hl : ended (tpc (thr s id)) = false).
      { unfold hexp in Hh. destruct (tpc (thr s id)); try discriminate; reflexivity. }
      destruct (blocked_shape s id Hi Hj Hx A Hl (Hab id A)) as [[_ F]|[(o & F & _)|(_ & F & _)]]; try congruence.
      unfold hexp in Hh. rewrite F in Hh. discriminate. }
    set (C := filter (fun L => blocked_join (tpc (thr s L)) && match tkey (thr s L) with Some _ => true | None => false end)
                     (seq 0 (nthr s))).
    assert (HC : forall L, In L C <-> L < nthr s /\ blocked_join (tpc (thr s L)) = true /\ exists k, tkey (thr s L) = Some k).
    { intros L. unfold C. rewrite filter_In, in_seq, andb_true_iff. split.
      - intros [A [B D]]. split; [lia|]. split; [assumption|]. destruct (tkey (thr s L)); [eauto|discriminate].
      - intros (A & B & (k & D)). split; [lia|]. rewrite B, D. auto. }
    assert (Hsucc : forall L, L < nthr s -> blocked_join (tpc (thr s L)) = true -> exists L', In L' C /\ waits s L L').
    { intros L HL Hb. destruct (successor s L Hi Hj Hx Hz Hab Hperm HL Hb) as (L' & Hw). exists L'. split; [|assumption].
      destruct Hw as (h & i & g & grp & c & d & W1 & W2 & W3 & W4 & W5 & W6 & W7 & W8 & W9 & W10 & W11 & W12).
      apply HC. split; [assumption|]. split; [assumption|eauto]. }
    apply (no_stuck_set s Hi Hj Hz (length C) C (le_n _)).
    + (* some thread is live; it, the leader it waits for, or that leader's successor is in C *)
      unfold quiescent in Hq. destruct (forallb_false_ex' _ _ Hq) as (t0 & Hin & Hl0). apply in_seq in Hin.
      assert (Ht0 : t0 < nthr s) by lia.
      intros Hnil.
      assert (Hex : exists L, L < nthr s /\ blocked_join (tpc (thr s L)) = true).
      { destruct (blocked_shape s t0 Hi Hj Hx Ht0 Hl0 (Hab t0 Ht0)) as [[F _]|[(o & F1 & F2)|(F1 & _ & _)]]; [lia| |eauto].
        pose proof (i_thr _ _ _ Hi t0 Ht0) as Htt.
        destruct (tkey (thr s t0)) as [d|] eqn:Ek.
        - destruct (u_waiter _ _ _ (j_thr _ _ Hj t0 Ht0) d o Ek ltac:(rewrite F1; reflexivity)) as [W1 _].
          destruct (j_leader _ _ Hj d o W1 F2) as (L' & Q1 & Q2 & Q3 & Q4).
          assert (HlL' : ended (tpc (thr s L')) = false) by (destruct (tpc (thr s L')); try discriminate; reflexivity).
          destruct (blocked_shape s L' Hi Hj Hx Q1 HlL' (Hab L' Q1)) as [[F _]|[(o' & F & _)|(G1 & _ & _)]];
            [lia|rewrite F in Q3; discriminate|eauto].
        - destruct (t_root _ _ _ Htt Ek) as (_ & _ & R & _). rewrite F1 in R. discriminate. }
      destruct Hex as (L & HL & Hb). destruct (Hsucc L HL Hb) as (L' & Hin' & _). rewrite Hnil in Hin'. destruct Hin'.
    + intros L HL. apply HC in HL. destruct HL as (A & B & D). split; [assumption|]. split; [assumption|]. split; [assumption|].
      apply Hsucc; assumption.
Qed.

End Inv5.
