(* C16: the collisions reported by imports on a shared table are exactly the collisions of the
   set of files, whatever the order and the partition (sequential sharing). *)
From Coq Require Import List NArith ZArith Bool Lia Arith Permutation.
From PV Require Import Common.Corr Model.Symbols Proofs.Symbols.
Import ListNotations.
