(* C16: the collisions reported by imports on a shared table are exactly the collisions of the
   set of files, whatever the order and the partition (sequential sharing).

   The proof characterises every table that is reached by successful imports only: it is the
   table of a set S of installed files and a set Rg of registered packages (predicate Good). *)
From Coq Require Import List NArith ZArith Bool Lia Arith Permutation.
From PV Require Import Common.Corr Model.Symbols Proofs.Symbols.
Import ListNotations.

(* ------------------------------------------------------------------------------------------ *)
(* names *)

Definition parent (q : name) : name := removelast q.

Lemma In_prefixes q n : In q (prefixes n) <-> q <> [] /\ exists r, n = q ++ r.
Proof.
  revert q. induction n as [|c n IH]; intros q; cbn [prefixes].
  - split; [intros []|]. intros [H [r E]]. destruct q; [congruence|discriminate].
  - split.
    + intros [H|H].
      * subst q. split; [discriminate|]. exists n. reflexivity.
      * apply in_map_iff in H as [q' [E H]]. subst q. apply IH in H as [H1 [r E]].
        split; [discriminate|]. exists r. cbn. now rewrite E.
    + intros [H1 [r E]]. destruct q as [|x q]; [congruence|]. cbn in E. injection E as Ex En. subst x.
      destruct q as [|y q]; [left; reflexivity|]. right. apply in_map_iff. exists (y :: q).
      split; [reflexivity|]. apply IH. split; [discriminate|]. exists r. exact En.
Qed.

Lemma parent_snoc (c : name) x : parent (c ++ [x]) = c.
Proof. apply removelast_last. Qed.

Lemma snoc_neq (c : name) x : c ++ [x] <> c.
Proof. intros E. apply (f_equal (@length N)) in E. rewrite app_length in E. cbn in E. lia. Qed.

Lemma name_snoc_cases (q : name) : q = [] \/ exists c x, q = c ++ [x].
Proof.
  destruct q as [|a q]; [now left|]. right.
  exists (removelast (a :: q)), (last (a :: q) 0%N). apply app_removelast_last. discriminate.
Qed.

Lemma prefixes_snoc_map base c r :
  map (app base) (prefixes (c :: r)) = (base ++ [c]) :: map (app (base ++ [c])) (prefixes r).
Proof.
  cbn [prefixes map]. f_equal. rewrite map_map. apply map_ext. intros a. now rewrite <- app_assoc.
Qed.

Lemma map_app_nil (l : list name) : map (app []) l = l.
Proof. induction l as [|a l IH]; [reflexivity|]. cbn [map]. rewrite IH. reflexivity. Qed.

Lemma In_map_prefixes base rest q :
  In q (map (app base) (prefixes rest)) <-> exists p, p <> [] /\ (exists r, rest = p ++ r) /\ q = base ++ p.
Proof.
  rewrite in_map_iff. split.
  - intros [p [E H]]. apply In_prefixes in H as [H1 H2]. exists p. auto.
  - intros [p [H1 [H2 E]]]. exists p. split; [auto|]. apply In_prefixes. auto.
Qed.

(* ------------------------------------------------------------------------------------------ *)
(* the table of a set of installed files *)

Definition ekey (x : name * name * Z * N) : name * Z := (snd (fst (fst x)), snd (fst x)).
Definition efacts (f : file) : list (name * name * Z * N) := map (fun x => (x, ffid f)) (fexts f).
Definition EF (S : list file) : list (name * name * Z * N) := flat_map efacts S.

Record Good (U S : list file) (Rg : list name) (E : list (name * name * Z * N)) (T : table) : Prop := {
  g_sub : forall f, In f S -> In f U;
  g_dep : forall f d, In f S -> In d (closure f) -> In d S;
  g_rg1 : forall q, In q Rg -> q <> [] /\ (parent q = [] \/ In (parent q) Rg);
  g_rgS : forall f q, In f S -> In q (prefixes (fpkg f)) -> In q Rg;
  g_cf1 : forall f f' n, In f S -> In f' S -> In n (fsyms f) -> In n (fsyms f') -> f = f';
  g_cf2 : forall f q, In f S -> In q Rg -> ~ In q (fsyms f);
  g_child : forall c q, In q (n_children (get_node T c)) <-> In q Rg /\ parent q = c;
  g_sympkg : forall c n e, sym_find n (n_symbols (get_node T c)) = Some e -> e_pkg e = true ->
                           In n (n_children (get_node T c));
  g_pkgsym : forall c n, In n (n_children (get_node T c)) ->
                         exists e, sym_find n (n_symbols (get_node T c)) = Some e /\ e_pkg e = true;
  g_symfile : forall c n e, sym_find n (n_symbols (get_node T c)) = Some e -> e_pkg e = false ->
                            exists f, In f S /\ fpkg f = c /\ In n (fsyms f) /\ e_owner e = ffid f;
  g_filesym : forall f n, In f S -> In n (fsyms f) ->
                          sym_find n (n_symbols (get_node T (fpkg f))) = Some (mkEntry (ffid f) false);
  g_files : forall c i, In i (n_files (get_node T c)) <-> exists f, In f S /\ fpkg f = c /\ ffid f = i;
  g_ext : forall c m t o, ext_find m t (n_exts (get_node T c)) = Some o <-> In (c, m, t, o) E;
  g_Esrc : forall c m t o, In (c, m, t, o) E -> exists h, In h S /\ fpkg h = c /\ In m (fsyms h);
  g_Ekeys : NoDup (map ekey E)
}.

Definition reg (Rg : list name) (c : name) : Prop := c = [] \/ In c Rg.

Lemma good_empty U : Good U [] [] [] [].
Proof.
  constructor; cbn; try (intros; contradiction); try (intros; discriminate).
  - intros c q. split; [intros []|intros [[] _]].
  - intros c i. split; [intros []|intros [f [[] _]]].
  - intros c m t o. split; [discriminate|intros []].
  - constructor.
Qed.

Section good_facts.
  Variables (U S : list file) (Rg : list name) (E : list (name * name * Z * N)) (T : table).
  Hypothesis G : Good U S Rg E T.

  (* registered packages are closed under non-empty prefixes *)
  Lemma rg_prefix_closed : forall r q, q <> [] -> In (q ++ r) Rg -> In q Rg.
  Proof.
    induction r as [|x r IH] using rev_ind; intros q Hq H.
    - now rewrite app_nil_r in H.
    - rewrite app_assoc in H. destruct (g_rg1 _ _ _ _ _ G _ H) as [_ [Hp|Hp]]; rewrite parent_snoc in Hp.
      + destruct q; [congruence|discriminate].
      + now apply IH.
  Qed.

  Lemma reg_prefix_closed q r : reg Rg (q ++ r) -> reg Rg q.
  Proof.
    intros [H|H].
    - left. now destruct q.
    - destruct q as [|a q]; [now left|]. right. apply (rg_prefix_closed r); [discriminate|exact H].
  Qed.

  Lemma child_of_reg base c : In (base ++ [c]) Rg -> In (base ++ [c]) (n_children (get_node T base)).
  Proof. intros H. apply (g_child _ _ _ _ _ G). split; [exact H|apply parent_snoc]. Qed.

  (* getPackage on a registered path walks all the way *)
  Lemma get_package_loop_reg ex : forall rest base,
    (forall q, In q (map (app base) (prefixes rest)) -> In q Rg) ->
    get_package_loop T base (map (app base) (prefixes rest)) ex = Some (base ++ rest).
  Proof.
    induction rest as [|c r IH]; intros base H.
    - cbn. now rewrite app_nil_r.
    - rewrite prefixes_snoc_map in *. cbn [get_package_loop].
      assert (Hc : In (base ++ [c]) Rg) by (apply H; now left).
      apply child_of_reg, mem_name_In in Hc. rewrite Hc.
      rewrite IH; [now rewrite <- app_assoc|]. intros q Hq. apply H. now right.
  Qed.

  Lemma get_package_reg c ex : reg Rg c -> get_package T c ex = Some c.
  Proof.
    intros Hc. unfold get_package.
    rewrite <- (map_app_nil (prefixes c)). rewrite get_package_loop_reg; [reflexivity|].
    intros q Hq. rewrite map_app_nil in Hq. apply In_prefixes in Hq as [H1 [r E0]].
    subst c. destruct Hc as [Hc|Hc].
    - destruct q; [congruence|discriminate].
    - now apply (rg_prefix_closed r).
  Qed.

  (* a name of an installed file that is a registered package prefix of some name: impossible *)
  Lemma name_under_shorter_pkg f q x :
    In f S -> names_closed f -> In (q ++ [x]) (fsyms f) -> reg Rg q -> fpkg f = q.
  Proof.
    intros Hf Hc Hn Hq. destruct (Hc _ Hn) as [r [Hr [En Hcl]]].
    (* fpkg f ++ r = q ++ [x], r <> [] : fpkg f is a prefix of q *)
    destruct (name_snoc_cases r) as [->|[r' [y ->]]]; [congruence|].
    rewrite app_assoc in En. apply app_inj_tail in En as [Eq _].
    destruct r' as [|a r']; [now rewrite app_nil_r in Eq|]. exfalso.
    (* then q = fpkg f ++ a :: r' is a name of f and registered *)
    assert (In q (fsyms f)).
    { rewrite Eq. apply (Hcl (a :: r') [y]); [reflexivity|discriminate]. }
    destruct Hq as [Hq|Hq].
    - subst q. destruct (fpkg f); discriminate.
    - exact (g_cf2 _ _ _ _ _ G f q Hf Hq H).
  Qed.
End good_facts.

(* ------------------------------------------------------------------------------------------ *)
(* registering one package component *)

Definition name_dec : forall a b : name, {a = b} + {a <> b} := list_eq_dec N.eq_dec.

Lemma sym_find_cons n q e l : sym_find n ((q, e) :: l) = if name_eqb n q then Some e else sym_find n l.
Proof. reflexivity. Qed.

Lemma good_register U S Rg E T cur x o :
  Good U S Rg E T -> reg Rg cur -> ~ In (cur ++ [x]) Rg ->
  (forall f, In f S -> ~ In (cur ++ [x]) (fsyms f)) ->
  Good U S ((cur ++ [x]) :: Rg) E
       (set_node (set_node T cur (add_child (add_symbol (get_node T cur) (cur ++ [x]) (mkEntry o true)) (cur ++ [x])))
                 (cur ++ [x]) empty_node).
Proof.
  intros G Hcur Hnew Hnames.
  set (q := cur ++ [x]) in *.
  set (nd' := add_child (add_symbol (get_node T cur) q (mkEntry o true)) q).
  set (T' := set_node (set_node T cur nd') q empty_node).
  assert (Hqc : q <> cur) by apply snoc_neq.
  assert (N1 : get_node T' q = empty_node) by apply get_node_set_same.
  assert (N2 : get_node T' cur = nd').
  { unfold T'. rewrite get_node_set. destruct (name_eqb cur q) eqn:E1.
    - apply name_eqb_eq in E1. congruence.
    - apply get_node_set_same. }
  assert (N3 : forall c, c <> q -> c <> cur -> get_node T' c = get_node T c).
  { intros c H1 H2. unfold T'. rewrite !get_node_set.
    apply name_eqb_neq in H1, H2. now rewrite H1, H2. }
  assert (Hpq : parent q = cur) by apply parent_snoc.
  (* nothing lives at the new node *)
  assert (NoS : forall f, In f S -> fpkg f <> q).
  { intros f Hf Eq. apply Hnew. apply (g_rgS _ _ _ _ _ G f q Hf). apply In_prefixes.
    split; [unfold q; destruct cur; discriminate|]. exists []. now rewrite app_nil_r. }
  assert (NoC : forall q', In q' Rg -> parent q' <> q).
  { intros q' Hq' Ep. destruct (g_rg1 _ _ _ _ _ G q' Hq') as [_ [H|H]]; rewrite Ep in H.
    - unfold q in H. destruct cur; discriminate.
    - contradiction. }
  constructor.
  - apply (g_sub _ _ _ _ _ G).
  - apply (g_dep _ _ _ _ _ G).
  - intros q' [<-|Hq'].
    + split; [unfold q; destruct cur; discriminate|]. rewrite Hpq.
      destruct Hcur as [->|Hc]; [now left|right; now right].
    + destruct (g_rg1 _ _ _ _ _ G q' Hq') as [H1 [H2|H2]]; split; auto. right. now right.
  - intros f q' Hf Hq'. right. exact (g_rgS _ _ _ _ _ G f q' Hf Hq').
  - apply (g_cf1 _ _ _ _ _ G).
  - intros f q' Hf [<-|Hq']; [now apply Hnames|exact (g_cf2 _ _ _ _ _ G f q' Hf Hq')].
  - (* children *)
    intros c q'. destruct (name_dec c q) as [->|Hq]; [|destruct (name_dec c cur) as [->|Hc]].
    + rewrite N1. cbn. split; [intros []|]. intros [[<-|Hq'] Ep].
      * congruence.
      * exact (NoC q' Hq' Ep).
    + rewrite N2. unfold nd'. cbn [add_child n_children]. split.
      * intros [<-|H]; [split; [now left|exact Hpq]|].
        apply (g_child _ _ _ _ _ G) in H as [H1 H2]. split; [now right|exact H2].
      * intros [[<-|Hq'] Ep]; [now left|]. right. apply (g_child _ _ _ _ _ G). now split.
    + rewrite (N3 c Hq Hc). rewrite (g_child _ _ _ _ _ G). split.
      * intros [H1 H2]. split; [now right|exact H2].
      * intros [[<-|Hq'] Ep]; [congruence|now split].
  - (* pkg entry -> child *)
    intros c n e. destruct (name_dec c q) as [->|Hq]; [|destruct (name_dec c cur) as [->|Hc]].
    + rewrite N1. cbn. discriminate.
    + rewrite N2. unfold nd'. cbn [add_child add_symbol n_symbols n_children]. rewrite sym_find_cons.
      destruct (name_eqb n q) eqn:En.
      * apply name_eqb_eq in En. subst n. intros _ _. now left.
      * intros H1 H2. right. exact (g_sympkg _ _ _ _ _ G cur n e H1 H2).
    + rewrite (N3 c Hq Hc). apply (g_sympkg _ _ _ _ _ G).
  - (* child -> pkg entry *)
    intros c n. destruct (name_dec c q) as [->|Hq]; [|destruct (name_dec c cur) as [->|Hc]].
    + rewrite N1. cbn. intros [].
    + rewrite N2. unfold nd'. cbn [add_child add_symbol n_symbols n_children]. rewrite sym_find_cons.
      destruct (name_eqb n q) eqn:En.
      * intros _. eexists. split; reflexivity.
      * intros [<-|H]; [now rewrite name_eqb_refl in En|]. exact (g_pkgsym _ _ _ _ _ G cur n H).
    + rewrite (N3 c Hq Hc). apply (g_pkgsym _ _ _ _ _ G).
  - (* file entry -> file *)
    intros c n e. destruct (name_dec c q) as [->|Hq]; [|destruct (name_dec c cur) as [->|Hc]].
    + rewrite N1. cbn. discriminate.
    + rewrite N2. unfold nd'. cbn [add_child add_symbol n_symbols]. rewrite sym_find_cons.
      destruct (name_eqb n q) eqn:En.
      * intros H1 H2. inversion H1; subst e. discriminate.
      * apply (g_symfile _ _ _ _ _ G).
    + rewrite (N3 c Hq Hc). apply (g_symfile _ _ _ _ _ G).
  - (* file -> entry *)
    intros f n Hf Hn. destruct (name_dec (fpkg f) q) as [Eq|Hq]; [|destruct (name_dec (fpkg f) cur) as [Ec|Hc]].
    + exfalso. exact (NoS f Hf Eq).
    + rewrite Ec, N2. unfold nd'. cbn [add_child add_symbol n_symbols]. rewrite sym_find_cons.
      destruct (name_eqb n q) eqn:En.
      * apply name_eqb_eq in En. subst n. exfalso. exact (Hnames f Hf Hn).
      * rewrite <- Ec. exact (g_filesym _ _ _ _ _ G f n Hf Hn).
    + rewrite (N3 _ Hq Hc). exact (g_filesym _ _ _ _ _ G f n Hf Hn).
  - (* files *)
    intros c i. destruct (name_dec c q) as [->|Hq]; [|destruct (name_dec c cur) as [->|Hc]].
    + rewrite N1. cbn. split; [intros []|]. intros [f [Hf [Ef _]]]. exact (NoS f Hf Ef).
    + rewrite N2. unfold nd'. cbn [add_child add_symbol n_files]. apply (g_files _ _ _ _ _ G).
    + rewrite (N3 c Hq Hc). apply (g_files _ _ _ _ _ G).
  - (* exts *)
    intros c m t o'. destruct (name_dec c q) as [->|Hq]; [|destruct (name_dec c cur) as [->|Hc]].
    + rewrite N1. cbn. split; [discriminate|]. intros H.
      destruct (g_Esrc _ _ _ _ _ G _ _ _ _ H) as [h [Hh [Eh _]]]. exfalso. exact (NoS h Hh Eh).
    + rewrite N2. unfold nd'. cbn [add_child add_symbol n_exts]. apply (g_ext _ _ _ _ _ G).
    + rewrite (N3 c Hq Hc). apply (g_ext _ _ _ _ _ G).
  - apply (g_Esrc _ _ _ _ _ G).
  - apply (g_Ekeys _ _ _ _ _ G).
Qed.

(* ------------------------------------------------------------------------------------------ *)
(* importPackages on a good table *)

Lemma import_packages_loop_good U S E o :
  (forall f, In f S -> names_closed f) ->
  forall rest base T Rg T1 r1,
  Good U S Rg E T -> reg Rg base ->
  import_packages_loop T o base (map (app base) (prefixes rest)) = (T1, r1) ->
  match r1 with
  | PkgErr _ => exists q f, In q (map (app base) (prefixes rest)) /\ In f S /\ In q (fsyms f)
  | PkgOk x =>
    x = Some (base ++ rest) /\
    exists Rg1, Good U S Rg1 E T1 /\
                (forall q, In q Rg1 <-> In q Rg \/ In q (map (app base) (prefixes rest)))
  end.
Proof.
  intros Hcl. induction rest as [|c r IH]; intros base T Rg T1 r1 G Hbase.
  - cbn. intros H. inversion H; subst. rewrite app_nil_r. split; [reflexivity|].
    exists Rg. split; [exact G|]. intros q. tauto.
  - rewrite prefixes_snoc_map. cbn [import_packages_loop]. unfold import_package.
    set (q := base ++ [c]).
    assert (Hnone : sym_find q (n_symbols (get_node T base)) = None ->
                    (forall f, In f S -> ~ In q (fsyms f)) /\ ~ In q Rg).
    { intros Hn. split.
      - intros f Hf Hq. pose proof (name_under_shorter_pkg _ _ _ _ _ G f base c Hf (Hcl f Hf) Hq Hbase) as Ep.
        pose proof (g_filesym _ _ _ _ _ G f q Hf Hq) as Hs. rewrite Ep, Hn in Hs. discriminate.
      - intros Hq. apply (child_of_reg _ _ _ _ _ G) in Hq.
        destruct (g_pkgsym _ _ _ _ _ G base q Hq) as [e [He _]]. rewrite Hn in He. discriminate. }
    destruct (sym_find q (n_symbols (get_node T base))) as [e|] eqn:Es.
    + destruct (e_pkg e) eqn:Ep.
      * pose proof (g_sympkg _ _ _ _ _ G base q e Es Ep) as Hch.
        assert (HqRg : In q Rg) by (apply (g_child _ _ _ _ _ G) in Hch; tauto).
        apply mem_name_In in Hch. rewrite Hch. intros Hl.
        pose proof (IH q T Rg T1 r1 G (or_intror HqRg) Hl) as I. destruct r1 as [x|e1].
        -- destruct I as [E1 [Rg1 [G1 HR]]]. split; [rewrite E1; unfold q; now rewrite <- app_assoc|].
           exists Rg1. split; [exact G1|]. intros q'. rewrite HR. cbn [In]. split; [tauto|].
           intros [H|[<-|H]]; auto.
        -- destruct I as [q' [f [H1 H2]]]. exists q', f. split; [now right|exact H2].
      * intros H. inversion H; subst.
        destruct (g_symfile _ _ _ _ _ G base q e Es Ep) as [f [Hf [_ [Hn _]]]].
        exists q, f. split; [now left|auto].
    + destruct (Hnone eq_refl) as [Hnames HnRg]. intros Hl.
      pose proof (good_register U S Rg E T base c o G Hbase HnRg Hnames) as G'.
      pose proof (IH q _ (q :: Rg) T1 r1 G' (or_intror (or_introl eq_refl)) Hl) as I. destruct r1 as [x|e1].
      * destruct I as [E1 [Rg1 [G1 HR]]]. split; [rewrite E1; unfold q; now rewrite <- app_assoc|].
        exists Rg1. split; [exact G1|]. intros q'. rewrite HR. cbn [In]. tauto.
      * destruct I as [q' [f [H1 H2]]]. exists q', f. split; [now right|exact H2].
Qed.

Lemma import_packages_good U S Rg E T o pkg T1 r1 :
  (forall f, In f S -> names_closed f) ->
  Good U S Rg E T ->
  import_packages T o pkg = (T1, r1) ->
  match r1 with
  | PkgErr _ => exists q f, In q (prefixes pkg) /\ In f S /\ In q (fsyms f)
  | PkgOk x =>
    x = Some pkg /\
    exists Rg1, Good U S Rg1 E T1 /\ (forall q, In q Rg1 <-> In q Rg \/ In q (prefixes pkg))
  end.
Proof.
  intros Hcl G. unfold import_packages. rewrite <- (map_app_nil (prefixes pkg)) at 1.
  intros H. pose proof (import_packages_loop_good U S E o Hcl pkg [] T Rg T1 r1 G (or_introl eq_refl) H) as L.
  rewrite map_app_nil in L. exact L.
Qed.

(* ------------------------------------------------------------------------------------------ *)
(* check-then-commit of the names of a file on a good table *)

Lemma check_syms_none syms tbl :
  check_syms syms tbl = None <-> forall x, In x syms -> sym_find x tbl = None.
Proof.
  induction syms as [|x r IH]; cbn [check_syms].
  - split; [intros _ x []|reflexivity].
  - destruct (sym_find x tbl) eqn:E.
    + split; [discriminate|]. intros H. rewrite (H x (or_introl eq_refl)) in E. discriminate.
    + rewrite IH. split.
      * intros H y [<-|Hy]; auto.
      * intros H y Hy. apply H. now right.
Qed.

Lemma sym_find_commit n fid syms : forall nd,
  sym_find n (n_symbols (commit_syms nd fid syms)) =
  if mem_name n syms then Some (mkEntry fid false) else sym_find n (n_symbols nd).
Proof.
  unfold commit_syms. induction syms as [|x r IH]; intros nd; cbn [fold_left mem_name]; [reflexivity|].
  rewrite IH. cbn [add_symbol n_symbols]. rewrite sym_find_cons.
  destruct (mem_name n r); [now rewrite orb_true_r|]. rewrite orb_false_r.
  destruct (name_eqb n x); reflexivity.
Qed.

(* routing: if a name of g clashes with anything registered anywhere, then some name of g is
   found in the node of g's own package *)
Lemma clash_routed U S Rg E T g :
  Good U S Rg E T -> (forall f, In f S -> names_closed f) -> names_closed g ->
  (forall q, In q (prefixes (fpkg g)) -> In q Rg) ->
  (exists n, In n (fsyms g) /\ ((exists f, In f S /\ In n (fsyms f)) \/ In n Rg)) ->
  exists n', In n' (fsyms g) /\ sym_find n' (n_symbols (get_node T (fpkg g))) <> None.
Proof.
  intros G HclS Hclg Hpk [n [Hn Hc]].
  destruct (Hclg n Hn) as [rg [Hrg [En Hg]]].
  assert (Hfirst : forall a l, rg = a :: l -> In (fpkg g ++ [a]) (fsyms g)).
  { intros a l ->. apply (Hg [a] l); [reflexivity|discriminate]. }
  assert (Hchild : forall a, In (fpkg g ++ [a]) Rg ->
                             sym_find (fpkg g ++ [a]) (n_symbols (get_node T (fpkg g))) <> None).
  { intros a Ha. apply (child_of_reg _ _ _ _ _ G) in Ha.
    destruct (g_pkgsym _ _ _ _ _ G _ _ Ha) as [e [He _]]. congruence. }
  destruct Hc as [[f [Hf Hnf]]|HnRg].
  - destruct (HclS f Hf n Hnf) as [rf [Hrf [Ef Hcf]]].
    rewrite En in Ef. apply app_eq_app in Ef as [l [[E1 E2]|[E1 E2]]].
    + (* fpkg g = fpkg f ++ l *)
      destruct l as [|a l].
      * rewrite app_nil_r in E1. exists n. split; [exact Hn|].
        pose proof (g_filesym _ _ _ _ _ G f n Hf Hnf) as Hs. rewrite <- E1 in Hs. congruence.
      * exfalso. apply (g_cf2 _ _ _ _ _ G f (fpkg f ++ [a]) Hf).
        -- apply Hpk. apply In_prefixes. split; [destruct (fpkg f); discriminate|].
           exists l. rewrite E1. now rewrite <- app_assoc.
        -- apply (Hcf [a] (l ++ rg)); [now rewrite E2|discriminate].
    + (* fpkg f = fpkg g ++ l *)
      destruct l as [|a l].
      * rewrite app_nil_r in E1. exists n. split; [exact Hn|].
        pose proof (g_filesym _ _ _ _ _ G f n Hf Hnf) as Hs. rewrite E1 in Hs. congruence.
      * exists (fpkg g ++ [a]). split; [apply (Hfirst a (l ++ rf)); exact E2|].
        apply Hchild. apply (g_rgS _ _ _ _ _ G f _ Hf). apply In_prefixes.
        split; [destruct (fpkg g); discriminate|]. exists l. rewrite E1. now rewrite <- app_assoc.
  - destruct rg as [|a l]; [congruence|].
    exists (fpkg g ++ [a]). split; [now apply (Hfirst a l)|]. apply Hchild.
    apply (rg_prefix_closed _ _ _ _ _ G l); [destruct (fpkg g); discriminate|].
    rewrite <- app_assoc. cbn. now rewrite <- En.
Qed.

Lemma good_commit U S Rg E T g :
  Good U S Rg E T -> In g U ->
  (forall q, In q (prefixes (fpkg g)) -> In q Rg) ->
  (forall d, In d (closure g) -> d = g \/ In d S) ->
  (forall n, In n (fsyms g) -> (forall f, In f S -> ~ In n (fsyms f)) /\ ~ In n Rg) ->
  check_syms (fsyms g) (n_symbols (get_node T (fpkg g))) = None /\
  Good U (S ++ [g]) Rg E
       (set_node T (fpkg g) (add_file (commit_syms (get_node T (fpkg g)) (ffid g) (fsyms g)) (ffid g))).
Proof.
  intros G HgU Hpk Hdeps Hno.
  set (c := fpkg g). set (T' := set_node T c _).
  assert (N1 : get_node T' c = add_file (commit_syms (get_node T c) (ffid g) (fsyms g)) (ffid g))
    by apply get_node_set_same.
  assert (N2 : forall c', c' <> c -> get_node T' c' = get_node T c').
  { intros c' H. unfold T'. rewrite get_node_set. apply name_eqb_neq in H. now rewrite H. }
  assert (Hchk : forall x, In x (fsyms g) -> sym_find x (n_symbols (get_node T c)) = None).
  { intros x Hx. destruct (sym_find x (n_symbols (get_node T c))) as [e|] eqn:Es; [|reflexivity].
    exfalso. destruct (Hno x Hx) as [H1 H2]. destruct (e_pkg e) eqn:Ep.
    - apply H2. pose proof (g_sympkg _ _ _ _ _ G c x e Es Ep) as Hch.
      apply (g_child _ _ _ _ _ G) in Hch. tauto.
    - destruct (g_symfile _ _ _ _ _ G c x e Es Ep) as [f [Hf [_ [Hn _]]]]. exact (H1 f Hf Hn). }
  split; [apply check_syms_none; exact Hchk|].
  constructor.
  - intros f Hf. apply in_app_iff in Hf as [Hf|[<-|[]]]; [exact (g_sub _ _ _ _ _ G f Hf)|exact HgU].
  - intros f d Hf Hd. apply in_app_iff. apply in_app_iff in Hf as [Hf|[<-|[]]].
    + left. exact (g_dep _ _ _ _ _ G f d Hf Hd).
    + destruct (Hdeps d Hd) as [->|H]; [right; now left|now left].
  - apply (g_rg1 _ _ _ _ _ G).
  - intros f q Hf Hq. apply in_app_iff in Hf as [Hf|[<-|[]]]; [exact (g_rgS _ _ _ _ _ G f q Hf Hq)|now apply Hpk].
  - intros f f' n Hf Hf' Hn Hn'.
    apply in_app_iff in Hf as [Hf|[<-|[]]]; apply in_app_iff in Hf' as [Hf'|[<-|[]]].
    + exact (g_cf1 _ _ _ _ _ G f f' n Hf Hf' Hn Hn').
    + exfalso. exact (proj1 (Hno n Hn') f Hf Hn).
    + exfalso. exact (proj1 (Hno n Hn) f' Hf' Hn').
    + reflexivity.
  - intros f q Hf Hq. apply in_app_iff in Hf as [Hf|[<-|[]]]; [exact (g_cf2 _ _ _ _ _ G f q Hf Hq)|].
    intros Hn. exact (proj2 (Hno q Hn) Hq).
  - intros c' q. destruct (name_dec c' c) as [->|Hc].
    + rewrite N1. cbn [add_file n_children]. rewrite commit_syms_children. apply (g_child _ _ _ _ _ G).
    + rewrite (N2 c' Hc). apply (g_child _ _ _ _ _ G).
  - intros c' n e. destruct (name_dec c' c) as [->|Hc].
    + rewrite N1. cbn [add_file n_children n_symbols]. rewrite commit_syms_children, sym_find_commit.
      destruct (mem_name n (fsyms g)).
      * intros H1 H2. inversion H1; subst e. discriminate.
      * apply (g_sympkg _ _ _ _ _ G).
    + rewrite (N2 c' Hc). apply (g_sympkg _ _ _ _ _ G).
  - intros c' n. destruct (name_dec c' c) as [->|Hc].
    + rewrite N1. cbn [add_file n_children n_symbols]. rewrite commit_syms_children, sym_find_commit.
      intros Hch. destruct (mem_name n (fsyms g)) eqn:Em.
      * exfalso. apply mem_name_In in Em. apply (proj2 (Hno n Em)).
        apply (g_child _ _ _ _ _ G) in Hch. tauto.
      * exact (g_pkgsym _ _ _ _ _ G c n Hch).
    + rewrite (N2 c' Hc). apply (g_pkgsym _ _ _ _ _ G).
  - intros c' n e. destruct (name_dec c' c) as [->|Hc].
    + rewrite N1. cbn [add_file n_symbols]. rewrite sym_find_commit.
      destruct (mem_name n (fsyms g)) eqn:Em.
      * intros H1 _. inversion H1; subst e. exists g. cbn. apply mem_name_In in Em.
        repeat split; auto. apply in_app_iff. right. now left.
      * intros H1 H2. destruct (g_symfile _ _ _ _ _ G c n e H1 H2) as [f [Hf H3]].
        exists f. split; [apply in_app_iff; now left|exact H3].
    + rewrite (N2 c' Hc). intros H1 H2. destruct (g_symfile _ _ _ _ _ G c' n e H1 H2) as [f [Hf H3]].
      exists f. split; [apply in_app_iff; now left|exact H3].
  - intros f n Hf Hn. apply in_app_iff in Hf as [Hf|[<-|[]]].
    + destruct (name_dec (fpkg f) c) as [Ec|Hc].
      * rewrite Ec, N1. cbn [add_file n_symbols]. rewrite sym_find_commit.
        destruct (mem_name n (fsyms g)) eqn:Em.
        -- exfalso. apply mem_name_In in Em. exact (proj1 (Hno n Em) f Hf Hn).
        -- rewrite <- Ec. exact (g_filesym _ _ _ _ _ G f n Hf Hn).
      * rewrite (N2 _ Hc). exact (g_filesym _ _ _ _ _ G f n Hf Hn).
    + fold c. rewrite N1. cbn [add_file n_symbols]. rewrite sym_find_commit.
      apply mem_name_In in Hn. now rewrite Hn.
  - intros c' i. destruct (name_dec c' c) as [->|Hc].
    + rewrite N1. cbn [add_file n_files]. rewrite commit_syms_files. split.
      * intros [<-|Hi].
        -- exists g. repeat split; auto. apply in_app_iff. right. now left.
        -- apply (g_files _ _ _ _ _ G) in Hi as [f [Hf H3]]. exists f. split; [apply in_app_iff; now left|exact H3].
      * intros [f [Hf [H1 H2]]]. apply in_app_iff in Hf as [Hf|[<-|[]]]; [|now left].
        right. apply (g_files _ _ _ _ _ G). exists f. auto.
    + rewrite (N2 c' Hc). rewrite (g_files _ _ _ _ _ G). split.
      * intros [f [Hf H3]]. exists f. split; [apply in_app_iff; now left|exact H3].
      * intros [f [Hf [H1 H2]]]. apply in_app_iff in Hf as [Hf|[<-|[]]]; [exists f; auto|].
        exfalso. apply Hc. now rewrite <- H1.
  - intros c' m t o. destruct (name_dec c' c) as [->|Hc].
    + rewrite N1. cbn [add_file n_exts]. rewrite commit_syms_exts. apply (g_ext _ _ _ _ _ G).
    + rewrite (N2 c' Hc). apply (g_ext _ _ _ _ _ G).
  - intros c' m t o H. destruct (g_Esrc _ _ _ _ _ G _ _ _ _ H) as [h [Hh H3]].
    exists h. split; [apply in_app_iff; now left|exact H3].
  - apply (g_Ekeys _ _ _ _ _ G).
Qed.

(* ------------------------------------------------------------------------------------------ *)
(* registering extension numbers on a good table *)

Lemma is_prefix_app (c r : name) : is_prefix c (c ++ r) = true.
Proof. induction c as [|a c IH]; cbn; [reflexivity|]. now rewrite N.eqb_refl, IH. Qed.

Lemma proper_prefix_app (c r : name) : r <> [] -> proper_prefix c (c ++ r) = true.
Proof.
  intros Hr. unfold proper_prefix. rewrite is_prefix_app. cbn. apply Nat.ltb_lt.
  rewrite app_length. destruct r; [congruence|cbn; lia].
Qed.

Lemma NoDup_snoc {A : Type} (l : list A) a : NoDup l -> ~ In a l -> NoDup (l ++ [a]).
Proof.
  induction l as [|b l IH]; intros Hl Ha; cbn; [constructor; [intros []|constructor]|].
  inversion Hl; subst. constructor.
  - rewrite in_app_iff. intros [H|[H|[]]]; [contradiction|]. subst. apply Ha. now left.
  - apply IH; [assumption|]. intros H. apply Ha. now right.
Qed.

Lemma not_NoDup_app_in {A : Type} (l l' : list A) a : In a l -> ~ NoDup (l ++ a :: l').
Proof.
  induction l as [|b l IH]; intros Ha Hn; [contradiction|]. cbn in Hn. inversion Hn; subst.
  destruct Ha as [->|Ha]; [|now apply IH].
  apply H1. apply in_app_iff. right. now left.
Qed.

Lemma NoDup_app_intro {A : Type} (l1 l2 : list A) :
  NoDup l1 -> NoDup l2 -> (forall x, In x l1 -> ~ In x l2) -> NoDup (l1 ++ l2).
Proof.
  induction l1 as [|a l1 IH]; intros H1 H2 Hd; cbn; [exact H2|].
  inversion H1; subst. constructor.
  - rewrite in_app_iff. intros [H|H]; [contradiction|]. apply (Hd a); [now left|exact H].
  - apply IH; auto. intros x Hx. apply Hd. now right.
Qed.

Lemma NoDup_app_elim {A : Type} (l1 l2 : list A) :
  NoDup (l1 ++ l2) -> NoDup l1 /\ NoDup l2 /\ (forall x, In x l1 -> ~ In x l2).
Proof.
  induction l1 as [|a l1 IH]; cbn; intros H.
  - repeat split; [constructor|exact H|intros x []].
  - inversion H; subst. destruct (IH H3) as [H4 [H5 H6]]. repeat split.
    + constructor; [|exact H4]. intros Ha. apply H2. apply in_app_iff. now left.
    + exact H5.
    + intros x [<-|Hx]; [|now apply H6]. intros Hx. apply H2. apply in_app_iff. now right.
Qed.

Lemma ext_find_cons m t m' t' o l :
  ext_find m t ((m', t', o) :: l) = if name_eqb m m' && Z.eqb t t' then Some o else ext_find m t l.
Proof. reflexivity. Qed.

Lemma key_eqb_true m t m' t' : name_eqb m m' && Z.eqb t t' = true <-> (m, t) = (m', t').
Proof.
  rewrite andb_true_iff, name_eqb_eq, Z.eqb_eq. split; [intros [-> ->]; reflexivity|intros H; inversion H; auto].
Qed.

Lemma good_add_ext U S Rg E T c m t o h :
  Good U S Rg E T -> In h S -> fpkg h = c -> In m (fsyms h) -> names_closed h ->
  (In (m, t) (map ekey E) -> add_extension T c m t o = (T, Err (EExt m t))) /\
  (~ In (m, t) (map ekey E) ->
   exists T', add_extension T c m t o = (T', Ok) /\ Good U S Rg (E ++ [(c, m, t, o)]) T').
Proof.
  intros G Hh Ec Hm Hcl.
  assert (Hreg : reg Rg c).
  { destruct c as [|a c]; [now left|]. right. apply (g_rgS _ _ _ _ _ G h _ Hh). rewrite Ec.
    apply In_prefixes. split; [discriminate|]. exists []. now rewrite app_nil_r. }
  assert (Hpre : negb (name_eqb c []) && negb (proper_prefix c m) = false).
  { destruct (Hcl m Hm) as [r [Hr [En _]]]. rewrite Ec in En. subst m.
    rewrite proper_prefix_app by exact Hr. cbn. apply andb_false_r. }
  unfold add_extension. rewrite Hpre, (get_package_reg _ _ _ _ _ G c true Hreg). unfold add_ext_node.
  split.
  - intros Hk. apply in_map_iff in Hk as [[[[c' m'] t'] o'] [Ek Hin]]. cbn in Ek. inversion Ek; subst m' t'.
    destruct (g_Esrc _ _ _ _ _ G _ _ _ _ Hin) as [h' [Hh' [Ec' Hm']]].
    assert (h = h') by exact (g_cf1 _ _ _ _ _ G h h' m Hh Hh' Hm Hm'). subst h'.
    rewrite Ec in Ec'. subst c'. apply (g_ext _ _ _ _ _ G) in Hin. now rewrite Hin.
  - intros Hk.
    assert (Hnone : ext_find m t (n_exts (get_node T c)) = None).
    { destruct (ext_find m t (n_exts (get_node T c))) as [o'|] eqn:Ef; [|reflexivity]. exfalso.
      apply (g_ext _ _ _ _ _ G) in Ef. apply Hk. apply in_map_iff. exists (c, m, t, o'). now split. }
    rewrite Hnone. eexists. split; [reflexivity|].
    set (T' := set_node T c (add_ext (get_node T c) m t o)).
    assert (N1 : get_node T' c = add_ext (get_node T c) m t o) by apply get_node_set_same.
    assert (N2 : forall c', c' <> c -> get_node T' c' = get_node T c').
    { intros c' H. unfold T'. rewrite get_node_set. apply name_eqb_neq in H. now rewrite H. }
    constructor.
    + apply (g_sub _ _ _ _ _ G).
    + apply (g_dep _ _ _ _ _ G).
    + apply (g_rg1 _ _ _ _ _ G).
    + apply (g_rgS _ _ _ _ _ G).
    + apply (g_cf1 _ _ _ _ _ G).
    + apply (g_cf2 _ _ _ _ _ G).
    + intros c' q. destruct (name_dec c' c) as [->|Hc]; [rewrite N1|rewrite (N2 c' Hc)]; apply (g_child _ _ _ _ _ G).
    + intros c' n e. destruct (name_dec c' c) as [->|Hc]; [rewrite N1|rewrite (N2 c' Hc)]; apply (g_sympkg _ _ _ _ _ G).
    + intros c' n. destruct (name_dec c' c) as [->|Hc]; [rewrite N1|rewrite (N2 c' Hc)]; apply (g_pkgsym _ _ _ _ _ G).
    + intros c' n e. destruct (name_dec c' c) as [->|Hc]; [rewrite N1|rewrite (N2 c' Hc)]; apply (g_symfile _ _ _ _ _ G).
    + intros f n Hf Hn. destruct (name_dec (fpkg f) c) as [Ecf|Hc].
      * rewrite Ecf, N1. cbn [add_ext n_symbols]. rewrite <- Ecf. exact (g_filesym _ _ _ _ _ G f n Hf Hn).
      * rewrite (N2 _ Hc). exact (g_filesym _ _ _ _ _ G f n Hf Hn).
    + intros c' i. destruct (name_dec c' c) as [->|Hc]; [rewrite N1|rewrite (N2 c' Hc)]; apply (g_files _ _ _ _ _ G).
    + intros c' m' t' o'. rewrite in_app_iff. destruct (name_dec c' c) as [->|Hc].
      * rewrite N1. cbn [add_ext n_exts]. rewrite ext_find_cons.
        destruct (name_eqb m' m && Z.eqb t' t) eqn:Ek.
        -- apply key_eqb_true in Ek. inversion Ek; subst m' t'. split.
           ++ intros H. inversion H; subst o'. right. now left.
           ++ intros [H|[H|[]]].
              ** exfalso. apply Hk. apply in_map_iff. exists (c, m, t, o'). now split.
              ** now inversion H.
        -- rewrite (g_ext _ _ _ _ _ G). split; [now left|]. intros [H|[H|[]]]; [exact H|].
           inversion H; subst. rewrite name_eqb_refl, Z.eqb_refl in Ek. discriminate.
      * rewrite (N2 c' Hc). rewrite (g_ext _ _ _ _ _ G). split; [now left|].
        intros [H|[H|[]]]; [exact H|]. inversion H; subst. congruence.
    + intros c' m' t' o' H. apply in_app_iff in H as [H|[H|[]]]; [exact (g_Esrc _ _ _ _ _ G _ _ _ _ H)|].
      inversion H; subst. exists h. auto.
    + rewrite map_app. cbn [map ekey fst snd]. apply NoDup_snoc; [exact (g_Ekeys _ _ _ _ _ G)|exact Hk].
Qed.

Definition key3 (x : name * name * Z) : name * Z := (snd (fst x), snd x).

Definition key_dec : forall a b : name * Z, {a = b} + {a <> b}.
Proof. decide equality; [apply Z.eq_dec|apply name_dec]. Defined.

Lemma add_exts_good U S Rg o :
  (forall f, In f S -> names_closed f) ->
  forall exts E T T' r,
  Good U S Rg E T ->
  (forall c m t, In (c, m, t) exts -> exists h, In h S /\ fpkg h = c /\ In m (fsyms h)) ->
  add_exts T o exts = (T', r) ->
  (r = Ok <-> NoDup (map ekey E ++ map key3 exts)) /\
  (r = Ok -> Good U S Rg (E ++ map (fun x => (x, o)) exts) T').
Proof.
  intros Hcl. induction exts as [|[[c m] t] rest IH]; intros E T T' r G Hsrc; cbn [add_exts].
  - intros H. inversion H; subst. cbn [map]. rewrite !app_nil_r. split.
    + split; [intros _; exact (g_Ekeys _ _ _ _ _ G)|reflexivity].
    + intros _. exact G.
  - destruct (Hsrc c m t (or_introl eq_refl)) as [h [Hh [Ec Hm]]].
    destruct (good_add_ext U S Rg E T c m t o h G Hh Ec Hm (Hcl h Hh)) as [HA HB].
    cbn [map key3 fst snd].
    destruct (in_dec key_dec (m, t) (map ekey E)) as [Hin|Hnin].
    + rewrite (HA Hin). intros H. inversion H; subst. split; [|discriminate].
      split; [discriminate|]. intros Hn. exfalso. exact (not_NoDup_app_in _ _ _ Hin Hn).
    + destruct (HB Hnin) as [T1 [E1 G1]]. rewrite E1. intros H.
      destruct (IH (E ++ [(c, m, t, o)]) T1 T' r G1) as [I1 I2].
      * intros c' m' t' H'. apply (Hsrc c' m' t'). now right.
      * exact H.
      * rewrite map_app in I1. cbn [map ekey fst snd] in I1. rewrite <- app_assoc in I1, I2. cbn [app] in I1, I2.
        split; [exact I1|exact I2].
Qed.

(* ------------------------------------------------------------------------------------------ *)
(* Import on a good table *)

Definition pp (A : list file) : list name := flat_map (fun d => prefixes (fpkg d)) A.

(* no collision inside the set A of files, nor between a name of A and a package of R *)
Definition NoClash (A : list file) (R : list name) : Prop :=
  (forall f f' n, In f A -> In f' A -> f <> f' -> In n (fsyms f) -> ~ In n (fsyms f')) /\
  (forall f q, In f A -> In q R -> ~ In q (fsyms f)) /\
  (forall f f' k, In f A -> In f' A -> f <> f' -> In k (ext_keys f) -> ~ In k (ext_keys f')) /\
  (forall f, In f A -> NoDup (ext_keys f)).

Lemma NoClash_mono A R A' R' : NoClash A R -> incl A' A -> incl R' R -> NoClash A' R'.
Proof.
  intros [H1 [H2 [H3 H4]]] HA HR. repeat split.
  - intros f f' n Hf Hf'. apply H1; auto.
  - intros f q Hf Hq. apply H2; auto.
  - intros f f' k Hf Hf'. apply H3; auto.
  - intros f Hf. apply H4; auto.
Qed.

Lemma closure_unfold fid pkg deps syms exts :
  closure (File fid pkg deps syms exts) = File fid pkg deps syms exts :: closure_list deps.
Proof.
  reflexivity.
Qed.

Lemma closure_self g : In g (closure g).
Proof. destruct g. rewrite closure_unfold. now left. Qed.

Lemma pp_app A B : pp (A ++ B) = pp A ++ pp B.
Proof. unfold pp. apply flat_map_app. Qed.

Lemma In_pp q A : In q (pp A) <-> exists d, In d A /\ In q (prefixes (fpkg d)).
Proof. unfold pp. apply in_flat_map. Qed.

Lemma EF_snoc S g : EF (S ++ [g]) = EF S ++ map (fun x => (x, ffid g)) (fexts g).
Proof. unfold EF. rewrite flat_map_app. cbn [flat_map]. now rewrite app_nil_r. Qed.

Lemma keys_EF k S : In k (map ekey (EF S)) <-> exists f, In f S /\ In k (ext_keys f).
Proof.
  unfold EF, ext_keys. rewrite in_map_iff. split.
  - intros [x [Ek Hx]]. apply in_flat_map in Hx as [f [Hf Hx]]. unfold efacts in Hx.
    apply in_map_iff in Hx as [y [Ey Hy]]. subst x. exists f. split; [exact Hf|].
    apply in_map_iff. exists y. split; [|exact Hy]. subst k. reflexivity.
  - intros [f [Hf Hk]]. apply in_map_iff in Hk as [y [Ey Hy]].
    exists (y, ffid f). split; [subst k; reflexivity|]. apply in_flat_map. exists f. split; [exact Hf|].
    unfold efacts. apply in_map_iff. exists y. auto.
Qed.

Lemma check_syms_some syms tbl e :
  check_syms syms tbl = Some e -> exists x e', In x syms /\ sym_find x tbl = Some e'.
Proof.
  induction syms as [|x r IH]; cbn [check_syms]; [discriminate|].
  destruct (sym_find x tbl) as [e'|] eqn:E.
  - intros _. exists x, e'. split; [now left|exact E].
  - intros H. destruct (IH H) as [y [e' [Hy He]]]. exists y, e'. split; [now right|exact He].
Qed.

Section import_good.
  Variable U : list file.
  Hypothesis HW : wf_universe U.
  Hypothesis HU : forall f d, In f U -> In d (closure f) -> In d U.

  Definition Pimp (g : file) : Prop :=
    In g U -> forall S Rg T T' r,
    Good U S Rg (EF S) T -> import g T = (T', r) ->
    (r = Ok -> exists S' Rg', Good U S' Rg' (EF S') T' /\
                (forall x, In x S' <-> In x S \/ In x (closure g)) /\
                (forall q, In q Rg' <-> In q Rg \/ In q (pp (closure g)))) /\
    (NoClash (S ++ closure g) (Rg ++ pp (closure g)) -> r = Ok).

  Lemma import_list_good ds :
    Forall Pimp ds -> (forall d, In d ds -> In d U) ->
    forall S Rg T T2 r2, Good U S Rg (EF S) T -> import_list import ds T = (T2, r2) ->
    (r2 = Ok -> exists S2 Rg2, Good U S2 Rg2 (EF S2) T2 /\
                 (forall x, In x S2 <-> In x S \/ In x (closure_list ds)) /\
                 (forall q, In q Rg2 <-> In q Rg \/ In q (pp (closure_list ds)))) /\
    (NoClash (S ++ closure_list ds) (Rg ++ pp (closure_list ds)) -> r2 = Ok).
  Proof.
    intros HP. induction HP as [|d ds Hd _ IH]; intros HdU S Rg T T2 r2 G; cbn [import_list].
    - intros H. inversion H; subst. split; [|reflexivity]. intros _. exists S, Rg. split; [exact G|].
      cbn. split; intros x; tauto.
    - destruct (import d T) as [Td rd] eqn:Ed.
      destruct (Hd (HdU d (or_introl eq_refl)) S Rg T Td rd G Ed) as [D1 D2].
      unfold closure_list. cbn [flat_map]. fold (closure_list ds). rewrite pp_app.
      destruct rd as [|ed].
      + destruct (D1 eq_refl) as [S' [Rg' [G' [HS' HR']]]]. intros Hl.
        destruct (IH (fun d' Hd' => HdU d' (or_intror Hd')) S' Rg' Td T2 r2 G' Hl) as [I1 I2]. split.
        * intros Hr. destruct (I1 Hr) as [S2 [Rg2 [G2 [HS2 HR2]]]]. exists S2, Rg2. split; [exact G2|].
          split.
          -- intros x. rewrite HS2, HS', in_app_iff. tauto.
          -- intros q. rewrite HR2, HR', in_app_iff. tauto.
        * intros NC. apply I2. eapply NoClash_mono; [exact NC| |].
          -- intros x Hx. apply in_app_iff in Hx as [Hx|Hx].
             ++ apply HS' in Hx as [Hx|Hx]; apply in_app_iff; [now left|right; apply in_app_iff; now left].
             ++ apply in_app_iff. right. apply in_app_iff. now right.
          -- intros q Hq. apply in_app_iff in Hq as [Hq|Hq].
             ++ apply HR' in Hq as [Hq|Hq]; apply in_app_iff; [now left|right; apply in_app_iff; now left].
             ++ apply in_app_iff. right. apply in_app_iff. now right.
      + intros H. inversion H; subst. split; [discriminate|]. intros NC. exfalso.
        assert (Err ed = Ok); [|discriminate]. apply D2. eapply NoClash_mono; [exact NC| |].
        * intros x Hx. apply in_app_iff in Hx as [Hx|Hx]; apply in_app_iff; [now left|right; apply in_app_iff; now left].
        * intros q Hq. apply in_app_iff in Hq as [Hq|Hq]; apply in_app_iff; [now left|right; apply in_app_iff; now left].
  Qed.

  Lemma import_good : forall g, Pimp g.
  Proof.
    induction g as [fid pkg deps syms exts IHdeps] using file_ind2.
    intros HgU S Rg T T' r G. unfold import. rewrite import_gen_unfold. fold import. unfold import_body.
    set (g := File fid pkg deps syms exts) in *.
    destruct HW as [W1 W2].
    assert (Hcl : forall S0 Rg0 E0 T0, Good U S0 Rg0 E0 T0 -> forall f, In f S0 -> names_closed f).
    { intros S0 Rg0 E0 T0 G0 f Hf. apply W2. exact (g_sub _ _ _ _ _ G0 f Hf). }
    assert (Hclg : names_closed g) by (apply W2; exact HgU).
    assert (Hcg : closure g = g :: closure_list deps) by apply closure_unfold.
    assert (HdepsU : forall d, In d deps -> In d U).
    { intros d Hd. apply (HU g d HgU). rewrite Hcg. right. unfold closure_list. apply in_flat_map.
      exists d. split; [exact Hd|apply closure_self]. }
    assert (Hppg : forall q, In q (pp (closure g)) <-> In q (prefixes pkg) \/ In q (pp (closure_list deps))).
    { intros q. rewrite Hcg. unfold pp at 1. cbn [flat_map]. rewrite in_app_iff. reflexivity. }
    destruct (import_packages T fid pkg) as [T1 r1] eqn:Ep.
    pose proof (import_packages_good U S Rg (EF S) T fid pkg T1 r1 (Hcl _ _ _ _ G) G Ep) as L1.
    destruct r1 as [x|e1].
    2:{ intros H. inversion H; subst. split; [discriminate|]. intros [_ [NC2 _]]. exfalso.
        destruct L1 as [q [f [Hq [Hf Hn]]]]. apply (NC2 f q); [apply in_app_iff; now left| |exact Hn].
        apply in_app_iff. right. apply Hppg. now left. }
    destruct L1 as [-> [Rg1 [G1 HR1]]].
    destruct (mem_N fid (n_files (get_node T1 pkg))) eqn:Em.
    { (* already imported *)
      intros H. inversion H; subst T' r. split; [|reflexivity]. intros _.
      apply mem_N_In in Em. apply (g_files _ _ _ _ _ G1) in Em as [f [Hf [Ef Ei]]].
      assert (f = g) by (apply W1; [exact (g_sub _ _ _ _ _ G1 f Hf)|exact HgU|exact Ei]). subst f.
      exists S, Rg1. split; [exact G1|]. split.
      - intros x. split; [now left|]. intros [Hx|Hx]; [exact Hx|]. exact (g_dep _ _ _ _ _ G1 g x Hf Hx).
      - intros q. rewrite HR1, Hppg. split; [tauto|]. intros [Hq|[Hq|Hq]]; auto. left.
        apply In_pp in Hq as [d [Hd Hq]]. apply (g_rgS _ _ _ _ _ G d q); [|exact Hq].
        apply (g_dep _ _ _ _ _ G g d Hf). rewrite Hcg. now right. }
    destruct (import_list import deps T1) as [T2 r2] eqn:Ed.
    destruct (import_list_good deps IHdeps HdepsU S Rg1 T1 T2 r2 G1 Ed) as [LD1 LD2].
    destruct r2 as [|e2].
    2:{ intros H. inversion H; subst. split; [discriminate|]. intros NC. exfalso.
        assert (Err e2 = Ok); [|discriminate]. apply LD2. eapply NoClash_mono; [exact NC| |].
        - intros x Hx. apply in_app_iff in Hx as [Hx|Hx]; apply in_app_iff; [now left|right].
          rewrite Hcg. now right.
        - intros q Hq. apply in_app_iff. apply in_app_iff in Hq as [Hq|Hq].
          + apply HR1 in Hq as [Hq|Hq]; [now left|right; apply Hppg; now left].
          + right. apply Hppg. now right. }
    destruct (LD1 eq_refl) as [S2 [Rg2 [G2 [HS2 HR2]]]].
    assert (HRg2 : forall q, In q Rg2 <-> In q Rg \/ In q (pp (closure g))).
    { intros q. rewrite HR2, HR1, Hppg. tauto. }
    assert (HinclA : incl (S2 ++ [g]) (S ++ closure g)).
    { intros x Hx. apply in_app_iff. apply in_app_iff in Hx as [Hx|[<-|[]]].
      - apply HS2 in Hx as [Hx|Hx]; [now left|right; rewrite Hcg; now right].
      - right. apply closure_self. }
    assert (HinclR : incl Rg2 (Rg ++ pp (closure g))).
    { intros q Hq. apply in_app_iff. now apply HRg2. }
    unfold import_file_node.
    destruct (mem_N fid (n_files (get_node T2 pkg))) eqn:Em2.
    { (* imported by the dependencies (cannot happen for real imports, harmless) *)
      intros H. inversion H; subst T' r. split; [|reflexivity]. intros _.
      apply mem_N_In in Em2. apply (g_files _ _ _ _ _ G2) in Em2 as [f [Hf [Ef Ei]]].
      assert (f = g) by (apply W1; [exact (g_sub _ _ _ _ _ G2 f Hf)|exact HgU|exact Ei]). subst f.
      exists S2, Rg2. split; [exact G2|]. split; [|exact HRg2].
      intros x. rewrite HS2, Hcg. cbn [In]. split; [tauto|]. intros [Hx|[<-|Hx]]; auto.
      apply HS2 in Hf. exact Hf. }
    assert (HgS2 : ~ In g S2).
    { intros Hg. assert (In fid (n_files (get_node T2 pkg))).
      { apply (g_files _ _ _ _ _ G2). exists g. auto. }
      apply mem_N_In in H. congruence. }
    destruct (check_syms syms (n_symbols (get_node T2 pkg))) as [e|] eqn:Ec.
    { intros H. inversion H; subst. split; [discriminate|]. intros [NC1 [NC2 _]]. exfalso.
      destruct (check_syms_some _ _ _ Ec) as [x [e' [Hx He]]]. destruct (e_pkg e') eqn:Epk.
      - apply (NC2 g x); [apply in_app_iff; right; apply closure_self| |exact Hx].
        apply HinclR. pose proof (g_sympkg _ _ _ _ _ G2 pkg x e' He Epk) as Hch.
        apply (g_child _ _ _ _ _ G2) in Hch. tauto.
      - destruct (g_symfile _ _ _ _ _ G2 pkg x e' He Epk) as [f [Hf [_ [Hn _]]]].
        apply (NC1 f g x); [apply HinclA, in_app_iff; now left|apply in_app_iff; right; apply closure_self| |exact Hn|exact Hx].
        intros ->. contradiction. }
    (* commit *)
    assert (Hpk2 : forall q, In q (prefixes (fpkg g)) -> In q Rg2).
    { intros q Hq. apply HR2. left. apply HR1. now right. }
    assert (Hnoclash : forall n, In n (fsyms g) -> (forall f, In f S2 -> ~ In n (fsyms f)) /\ ~ In n Rg2).
    { assert (Hall : forall x, In x syms -> sym_find x (n_symbols (get_node T2 pkg)) = None)
        by (apply check_syms_none; exact Ec).
      assert (Hno : ~ exists n, In n (fsyms g) /\ ((exists f, In f S2 /\ In n (fsyms f)) \/ In n Rg2)).
      { intros Hex. destruct (clash_routed U S2 Rg2 (EF S2) T2 g G2 (Hcl _ _ _ _ G2) Hclg Hpk2 Hex) as [n' [Hn' Hs]].
        apply Hs. apply Hall. exact Hn'. }
      intros n Hn. split.
      - intros f Hf Hnf. apply Hno. exists n. split; [exact Hn|]. left. exists f. auto.
      - intros HnR. apply Hno. exists n. split; [exact Hn|]. now right. }
    assert (Hdeps2 : forall d, In d (closure g) -> d = g \/ In d S2).
    { intros d Hd. rewrite Hcg in Hd. destruct Hd as [<-|Hd]; [now left|]. right. apply HS2. now right. }
    destruct (good_commit U S2 Rg2 (EF S2) T2 g G2 HgU Hpk2 Hdeps2 Hnoclash) as [_ G3].
    cbn [fpkg ffid fsyms g] in G3.
    destruct (add_exts (set_node T2 pkg (add_file (commit_syms (get_node T2 pkg) fid syms) fid)) fid exts)
      as [T4 r4] eqn:Ea.
    assert (Hsrc : forall c m t, In (c, m, t) exts -> exists h, In h (S2 ++ [g]) /\ fpkg h = c /\ In m (fsyms h)).
    { intros c m t Hx. destruct (proj2 (W2 g HgU) c m t Hx) as [h [Hh H3]]. exists h. split; [|exact H3].
      apply in_app_iff. destruct (Hdeps2 h Hh) as [->|Hh2]; [right; now left|now left]. }
    destruct (add_exts_good U (S2 ++ [g]) Rg2 fid (Hcl _ _ _ _ G3) exts (EF S2) _ T4 r4 G3 Hsrc Ea) as [I1 I2].
    intros H. inversion H; subst T' r. split.
    - intros Hr. exists (S2 ++ [g]), Rg2. split; [|split; [|exact HRg2]].
      + rewrite EF_snoc. exact (I2 Hr).
      + intros x. rewrite in_app_iff, HS2, Hcg. cbn [In]. split; [intros [[H1|H1]|[H1|[]]]; auto|].
        intros [H1|[H1|H1]]; auto.
    - intros [_ [_ [NC3 NC4]]]. apply I1. apply NoDup_app_intro.
      + exact (g_Ekeys _ _ _ _ _ G2).
      + apply (NC4 g). apply in_app_iff. right. apply closure_self.
      + intros k Hk Hk'. apply keys_EF in Hk as [f [Hf Hkf]].
        apply (NC3 f g k); [apply HinclA, in_app_iff; now left|apply in_app_iff; right; apply closure_self| |exact Hkf|exact Hk'].
        intros ->. contradiction.
  Qed.
End import_good.

(* ------------------------------------------------------------------------------------------ *)
(* lookups on a good table *)

Section lookups.
  Variables (U S : list file) (Rg : list name) (E : list (name * name * Z * N)) (T : table).
  Hypothesis G : Good U S Rg E T.
  Hypothesis HclS : forall f, In f S -> names_closed f.

  (* getPackage(name, false) stops at the longest registered prefix *)
  Lemma get_package_longest : forall rest base,
    reg Rg base ->
    exists r1 r2, rest = r1 ++ r2 /\
      get_package_loop T base (map (app base) (prefixes rest)) false = Some (base ++ r1) /\
      reg Rg (base ++ r1) /\
      (r2 = [] \/ exists x r3, r2 = x :: r3 /\ ~ In (base ++ r1 ++ [x]) Rg).
  Proof.
    induction rest as [|c r IH]; intros base Hb.
    - exists [], []. cbn. rewrite app_nil_r. repeat split; auto.
    - rewrite prefixes_snoc_map. cbn [get_package_loop].
      destruct (mem_name (base ++ [c]) (n_children (get_node T base))) eqn:Em.
      + apply mem_name_In in Em. apply (g_child _ _ _ _ _ G) in Em as [Hq _].
        destruct (IH (base ++ [c]) (or_intror Hq)) as [r1 [r2 [E1 [E2 [E3 E4]]]]].
        exists (c :: r1), r2. rewrite <- !app_assoc in *. cbn [app] in *. repeat split; auto.
        * now rewrite E1.
        * destruct E4 as [E4|[x [r3 [E4 E5]]]]; [now left|right]. exists x, r3. split; [exact E4|].
          rewrite <- app_assoc in E5. exact E5.
      + exists [], (c :: r). rewrite app_nil_r. repeat split; auto. right. exists c, r. split; [reflexivity|].
        cbn [app]. intros Hq. apply (child_of_reg _ _ _ _ _ G) in Hq. apply mem_name_In in Hq. congruence.
  Qed.

  (* a name of an installed file is looked up in the node of the package of that file *)
  Lemma route f n : In f S -> In n (fsyms f) -> get_package T n false = Some (fpkg f).
  Proof.
    intros Hf Hn. unfold get_package. rewrite <- (map_app_nil (prefixes n)).
    destruct (get_package_longest n [] (or_introl eq_refl)) as [r1 [r2 [E1 [E2 [E3 E4]]]]].
    rewrite E2. cbn [app] in *. f_equal.
    destruct (HclS f Hf n Hn) as [r [Hr [En Hcl]]]. rewrite E1 in En.
    apply app_eq_app in En as [l [[H1 H2]|[H1 H2]]].
    - (* r1 = fpkg f ++ l *)
      destruct l as [|a l]; [now rewrite app_nil_r in H1|]. exfalso.
      apply (g_cf2 _ _ _ _ _ G f r1 Hf).
      + destruct E3 as [E3|E3]; [|exact E3]. rewrite H1 in E3. destruct (fpkg f); discriminate.
      + rewrite H1. apply (Hcl (a :: l) r2); [exact H2|discriminate].
    - (* fpkg f = r1 ++ l *)
      destruct l as [|a l]; [now rewrite app_nil_r in H1|]. exfalso.
      destruct E4 as [->|[x [r3 [-> Hx]]]]; [discriminate|]. inversion H2; subst x r3.
      apply Hx. apply (g_rgS _ _ _ _ _ G f _ Hf). apply In_prefixes.
      split; [destruct r1; discriminate|]. exists l. rewrite H1. now rewrite <- app_assoc.
  Qed.

  Lemma lookup_good n o :
    lookup T n = Some o <-> exists f, In f S /\ In n (fsyms f) /\ ffid f = o.
  Proof.
    split.
    - unfold lookup, get_package. rewrite <- (map_app_nil (prefixes n)).
      destruct (get_package_longest n [] (or_introl eq_refl)) as [r1 [r2 [E1 [E2 [E3 E4]]]]].
      rewrite E2. cbn [app] in *.
      destruct (sym_find n (n_symbols (get_node T r1))) as [e|] eqn:Es; [|discriminate].
      cbn [option_map]. intros H. inversion H; subst o. destruct (e_pkg e) eqn:Ep.
      + exfalso. pose proof (g_sympkg _ _ _ _ _ G r1 n e Es Ep) as Hch.
        apply (g_child _ _ _ _ _ G) in Hch as [HnR Hp].
        destruct (g_rg1 _ _ _ _ _ G n HnR) as [Hne _].
        destruct (name_snoc_cases n) as [->|[c [x En]]]; [congruence|].
        rewrite En in Hp. rewrite parent_snoc in Hp. subst c.
        rewrite En in E1. rewrite <- (app_nil_r (r1 ++ [x])) in E1 at 1. rewrite <- app_assoc in E1.
        apply app_inv_head in E1. destruct E4 as [->|[y [r3 [-> Hy]]]]; [discriminate|].
        inversion E1; subst y r3. apply Hy. now rewrite <- En.
      + destruct (g_symfile _ _ _ _ _ G r1 n e Es Ep) as [f [Hf [_ [Hn Ho]]]]. exists f. auto.
    - intros [f [Hf [Hn Ho]]]. unfold lookup. rewrite (route f n Hf Hn).
      rewrite (g_filesym _ _ _ _ _ G f n Hf Hn). cbn. now rewrite Ho.
  Qed.

  Lemma lookup_ext_good m t o :
    lookup_ext T m t = Some o <-> exists c, In (c, m, t, o) E.
  Proof.
    split.
    - unfold lookup_ext. destruct (get_package T m false) as [c|]; [|discriminate].
      intros H. exists c. now apply (g_ext _ _ _ _ _ G).
    - intros [c H]. destruct (g_Esrc _ _ _ _ _ G _ _ _ _ H) as [h [Hh [Ec Hm]]].
      unfold lookup_ext. rewrite (route h m Hh Hm), Ec. now apply (g_ext _ _ _ _ _ G).
  Qed.
End lookups.

(* ------------------------------------------------------------------------------------------ *)
(* sequences of imports from the empty table; the theorems *)

Lemma closure_trans : forall g f d, In f (closure g) -> In d (closure f) -> In d (closure g).
Proof.
  induction g as [fid pkg deps syms exts IH] using file_ind2. intros f d Hf Hd.
  rewrite closure_unfold in *. destruct Hf as [<-|Hf].
  - rewrite closure_unfold in Hd. exact Hd.
  - right. unfold closure_list in *. apply in_flat_map in Hf as [d' [Hd' Hf]].
    apply in_flat_map. exists d'. split; [exact Hd'|].
    rewrite Forall_forall in IH. exact (IH d' Hd' f d Hf Hd).
Qed.

Lemma closure_list_closed fs f d : In f (closure_list fs) -> In d (closure f) -> In d (closure_list fs).
Proof.
  unfold closure_list. intros Hf Hd. apply in_flat_map in Hf as [g [Hg Hf]].
  apply in_flat_map. exists g. split; [exact Hg|]. exact (closure_trans g f d Hf Hd).
Qed.

Lemma map_ekey_efacts f : map ekey (efacts f) = ext_keys f.
Proof. unfold efacts, ext_keys. rewrite map_map. apply map_ext. intros [[c m] t]. reflexivity. Qed.

Lemma keys_EF_split l1 f l2 :
  map ekey (EF (l1 ++ f :: l2)) = map ekey (EF l1) ++ ext_keys f ++ map ekey (EF l2).
Proof.
  unfold EF. rewrite flat_map_app. cbn [flat_map]. rewrite !map_app. now rewrite map_ekey_efacts.
Qed.

Lemma good_noclash U S Rg T : Good U S Rg (EF S) T -> NoClash S Rg.
Proof.
  intros G. repeat split.
  - intros f f' n Hf Hf' Hne Hn Hn'. apply Hne. exact (g_cf1 _ _ _ _ _ G f f' n Hf Hf' Hn Hn').
  - apply (g_cf2 _ _ _ _ _ G).
  - intros f f' k Hf Hf' Hne Hk Hk'. pose proof (g_Ekeys _ _ _ _ _ G) as ND.
    destruct (in_split f S Hf) as [l1 [l2 ES]]. rewrite ES in ND, Hf'. rewrite keys_EF_split in ND.
    apply in_app_iff in Hf' as [Hf'|[Hf'|Hf']]; [|congruence|].
    + destruct (NoDup_app_elim _ _ ND) as [_ [_ Hd]]. apply (Hd k).
      * apply keys_EF. exists f'. auto.
      * apply in_app_iff. now left.
    + destruct (NoDup_app_elim _ _ ND) as [_ [ND2 _]]. destruct (NoDup_app_elim _ _ ND2) as [_ [_ Hd]].
      apply (Hd k Hk). apply keys_EF. exists f'. auto.
  - intros f Hf. pose proof (g_Ekeys _ _ _ _ _ G) as ND.
    destruct (in_split f S Hf) as [l1 [l2 ES]]. rewrite ES in ND. rewrite keys_EF_split in ND.
    destruct (NoDup_app_elim _ _ ND) as [_ [ND2 _]]. destruct (NoDup_app_elim _ _ ND2) as [ND3 _]. exact ND3.
Qed.

Section runs.
  Variable U : list file.
  Hypothesis HW : wf_universe U.
  Hypothesis HU : forall f d, In f U -> In d (closure f) -> In d U.

  Lemma run_imports_good : forall fs S Rg T T' l,
    (forall f, In f fs -> In f U) -> Good U S Rg (EF S) T ->
    run_ops T (map OImport fs) = (T', l) ->
    (any_err l = false ->
     exists S' Rg', Good U S' Rg' (EF S') T' /\
                    (forall x, In x S' <-> In x S \/ In x (closure_list fs)) /\
                    (forall q, In q Rg' <-> In q Rg \/ In q (pp (closure_list fs)))) /\
    (NoClash (S ++ closure_list fs) (Rg ++ pp (closure_list fs)) -> any_err l = false).
  Proof.
    unfold run_ops. induction fs as [|f fs IH]; intros S Rg T T' l HfU G; cbn [map run_ops_with].
    - intros H. inversion H; subst. split; [|reflexivity]. intros _. exists S, Rg. split; [exact G|].
      cbn. split; intros x; tauto.
    - cbn [do_op_with]. destruct (import f T) as [T1 r1] eqn:Ei.
      destruct (run_ops_with import T1 (map OImport fs)) as [T2 l2] eqn:Er.
      intros H. inversion H; subst T' l. clear H.
      destruct (import_good U HW HU f (HfU f (or_introl eq_refl)) S Rg T T1 r1 G Ei) as [D1 D2].
      unfold closure_list. cbn [flat_map]. fold (closure_list fs). rewrite pp_app.
      destruct r1 as [|e1]; cbn [any_err].
      + destruct (D1 eq_refl) as [S1 [Rg1 [G1 [HS1 HR1]]]].
        destruct (IH S1 Rg1 T1 T2 l2 (fun f' Hf' => HfU f' (or_intror Hf')) G1 Er) as [I1 I2]. split.
        * intros Hl. destruct (I1 Hl) as [S2 [Rg2 [G2 [HS2 HR2]]]]. exists S2, Rg2. split; [exact G2|]. split.
          -- intros x. rewrite HS2, HS1, in_app_iff. tauto.
          -- intros q. rewrite HR2, HR1, in_app_iff. tauto.
        * intros NC. apply I2. eapply NoClash_mono; [exact NC| |].
          -- intros x Hx. apply in_app_iff in Hx as [Hx|Hx].
             ++ apply HS1 in Hx as [Hx|Hx]; apply in_app_iff; [now left|right; apply in_app_iff; now left].
             ++ apply in_app_iff. right. apply in_app_iff. now right.
          -- intros q Hq. apply in_app_iff in Hq as [Hq|Hq].
             ++ apply HR1 in Hq as [Hq|Hq]; apply in_app_iff; [now left|right; apply in_app_iff; now left].
             ++ apply in_app_iff. right. apply in_app_iff. now right.
      + split; [discriminate|]. intros NC. exfalso.
        assert (Err e1 = Ok); [|discriminate]. apply D2. eapply NoClash_mono; [exact NC| |].
        * intros x Hx. apply in_app_iff in Hx as [Hx|Hx]; apply in_app_iff; [now left|right; apply in_app_iff; now left].
        * intros q Hq. apply in_app_iff in Hq as [Hq|Hq]; apply in_app_iff; [now left|right; apply in_app_iff; now left].
  Qed.
End runs.

Lemma noclash_collides U :
  wf_universe U -> (NoClash U (pp U) <-> ~ collides U).
Proof.
  intros [W1 W2]. split.
  - intros [N1 [N2 [N3 N4]]] [[f [g [Hf [Hg [Hne [[n [Hn [Hn'|Hn']]]|[m [t [Hk Hk']]]]]]]]]|[f [Hf Hd]]].
    + exact (N1 f g n Hf Hg Hne Hn Hn').
    + apply (N2 f n Hf); [|exact Hn]. apply In_pp. exists g. auto.
    + exact (N3 f g (m, t) Hf Hg Hne Hk Hk').
    + exact (Hd (N4 f Hf)).
  - intros Hnc. repeat split.
    + intros f f' n Hf Hf' Hne Hn Hn'. apply Hnc. left. exists f, f'. repeat split; auto.
      left. exists n. auto.
    + intros f q Hf Hq Hn. apply In_pp in Hq as [d [Hd Hq]].
      destruct (list_eq_dec N.eq_dec (ffid f :: nil) (ffid d :: nil)) as [Efd|Efd].
      * inversion Efd as [Efd']. assert (f = d) by (apply W1; auto). subst d.
        destruct (proj1 (W2 f Hf) q Hn) as [r [Hr [Eq _]]].
        apply In_prefixes in Hq as [_ [r' Er']]. rewrite Eq in Er'. rewrite <- app_assoc in Er'.
        rewrite <- (app_nil_r (fpkg f)) in Er' at 1. apply app_inv_head in Er'.
        destruct r; [congruence|discriminate].
      * apply Hnc. left. exists f, d. repeat split; auto; [congruence|]. left. exists q. auto.
    + intros f f' [m t] Hf Hf' Hne Hk Hk'. apply Hnc. left. exists f, f'. repeat split; auto.
      right. exists m, t. auto.
    + intros f Hf. destruct (ListDec.NoDup_dec key_dec (ext_keys f)) as [H|H]; [exact H|].
      exfalso. apply Hnc. right. exists f. auto.
Qed.

Lemma collides_ext U U' : (forall x, In x U <-> In x U') -> collides U -> collides U'.
Proof.
  intros HE [[f [g [Hf [Hg H]]]]|[f [Hf H]]].
  - left. exists f, g. rewrite <- !HE. auto.
  - right. exists f. rewrite <- HE. auto.
Qed.

Lemma wf_universe_ext U U' : (forall x, In x U <-> In x U') -> wf_universe U -> wf_universe U'.
Proof.
  intros HE [W1 W2]. split.
  - intros f g Hf Hg. apply W1; now apply HE.
  - intros f Hf. apply W2. now apply HE.
Qed.

Lemma closure_list_perm fs fs' :
  Permutation fs fs' -> forall x, In x (closure_list fs) <-> In x (closure_list fs').
Proof.
  intros HP x. unfold closure_list. rewrite !in_flat_map. split; intros [g [Hg Hx]]; exists g; split; auto.
  - eapply Permutation_in; eauto.
  - eapply Permutation_in; [apply Permutation_sym|]; eauto.
Qed.

(* the three theorems *)

Lemma collision_iff_reported_lemma fs T l :
  wf_universe (closure_list fs) ->
  run_ops [] (map OImport fs) = (T, l) ->
  (any_err l = false <-> ~ collides (closure_list fs)).
Proof.
  intros HW Hr. set (U := closure_list fs) in *.
  assert (HU : forall f d, In f U -> In d (closure f) -> In d U) by (intros f d; apply closure_list_closed).
  assert (HfU : forall f, In f fs -> In f U).
  { intros f Hf. unfold U, closure_list. apply in_flat_map. exists f. split; [exact Hf|apply closure_self]. }
  destruct (run_imports_good U HW HU fs [] [] [] T l HfU (good_empty U) Hr) as [R1 R2].
  cbn [app] in R2. rewrite <- (noclash_collides U HW). split.
  - intros Hl. destruct (R1 Hl) as [S' [Rg' [G' [HS' HR']]]].
    eapply NoClash_mono; [exact (good_noclash _ _ _ _ G')| |].
    + intros x Hx. apply HS'. now right.
    + intros q Hq. apply HR'. now right.
  - exact R2.
Qed.

Lemma partition_equiv_lemma fs parts T1 l1 T2 l2 :
  wf_universe (closure_list fs) -> Permutation (concat parts) fs ->
  run_ops [] (map OImport fs) = (T1, l1) ->
  run_ops [] (map OImport (concat parts)) = (T2, l2) ->
  any_err l2 = any_err l1.
Proof.
  intros HW HP H1 H2.
  pose proof (closure_list_perm _ _ HP) as HE.
  assert (HW' : wf_universe (closure_list (concat parts))).
  { eapply wf_universe_ext; [|exact HW]. intros x. symmetry. apply HE. }
  pose proof (collision_iff_reported_lemma fs T1 l1 HW H1) as C1.
  pose proof (collision_iff_reported_lemma _ T2 l2 HW' H2) as C2.
  destruct (any_err l1) eqn:E1, (any_err l2) eqn:E2; try reflexivity; exfalso.
  - assert (Hn : ~ collides (closure_list (concat parts))) by (apply C2; reflexivity).
    assert (true = false); [|discriminate]. apply C1. intros Hc. apply Hn. eapply collides_ext; [|exact Hc].
    intros x. symmetry. apply HE.
  - assert (Hn : ~ collides (closure_list fs)) by (apply C1; reflexivity).
    assert (true = false); [|discriminate]. apply C2. intros Hc. apply Hn. eapply collides_ext; [|exact Hc].
    exact HE.
Qed.

Lemma import_commutes_lemma fs fs' T1 l1 T2 l2 :
  wf_universe (closure_list fs) -> Permutation fs fs' ->
  ~ collides (closure_list fs) ->
  run_ops [] (map OImport fs) = (T1, l1) ->
  run_ops [] (map OImport fs') = (T2, l2) ->
  (forall n, lookup T2 n = lookup T1 n) /\ (forall m t, lookup_ext T2 m t = lookup_ext T1 m t).
Proof.
  intros HW HP Hnc H1 H2.
  pose proof (closure_list_perm _ _ HP) as HE.
  assert (HW' : wf_universe (closure_list fs')) by (eapply wf_universe_ext; [exact HE|exact HW]).
  assert (Hnc' : ~ collides (closure_list fs')).
  { intros Hc. apply Hnc. eapply collides_ext; [|exact Hc]. intros x. symmetry. apply HE. }
  assert (Good1 : forall fs0 T0 l0, wf_universe (closure_list fs0) -> ~ collides (closure_list fs0) ->
            run_ops [] (map OImport fs0) = (T0, l0) ->
            exists S' Rg', Good (closure_list fs0) S' Rg' (EF S') T0 /\
                           (forall x, In x S' <-> In x (closure_list fs0))).
  { intros fs0 T0 l0 HW0 Hnc0 Hr.
    assert (HU : forall f d, In f (closure_list fs0) -> In d (closure f) -> In d (closure_list fs0))
      by (intros f d; apply closure_list_closed).
    assert (HfU : forall f, In f fs0 -> In f (closure_list fs0)).
    { intros f Hf. unfold closure_list. apply in_flat_map. exists f. split; [exact Hf|apply closure_self]. }
    destruct (run_imports_good _ HW0 HU fs0 [] [] [] T0 l0 HfU (good_empty _) Hr) as [R1 R2].
    cbn [app] in R2. apply (noclash_collides _ HW0) in Hnc0.
    destruct (R1 (R2 Hnc0)) as [S' [Rg' [G' [HS' _]]]]. exists S', Rg'. split; [exact G'|].
    intros x. rewrite HS'. cbn. tauto. }
  destruct (Good1 fs T1 l1 HW Hnc H1) as [S1 [Rg1 [G1 HS1]]].
  destruct (Good1 fs' T2 l2 HW' Hnc' H2) as [S2 [Rg2 [G2 HS2]]].
  assert (Hcl1 : forall f, In f S1 -> names_closed f).
  { intros f Hf. apply (proj2 HW). now apply HS1. }
  assert (Hcl2 : forall f, In f S2 -> names_closed f).
  { intros f Hf. apply (proj2 HW'). now apply HS2. }
  assert (HS12 : forall x, In x S1 <-> In x S2).
  { intros x. rewrite HS1, HS2. apply HE. }
  split.
  - intros n.
    destruct (lookup T1 n) as [o|] eqn:L1.
    + apply (lookup_good _ _ _ _ _ G1 Hcl1) in L1 as [f [Hf H3]].
      apply (lookup_good _ _ _ _ _ G2 Hcl2). exists f. split; [now apply HS12|exact H3].
    + destruct (lookup T2 n) as [o|] eqn:L2; [|reflexivity].
      apply (lookup_good _ _ _ _ _ G2 Hcl2) in L2 as [f [Hf H3]].
      assert (lookup T1 n = Some o); [|congruence].
      apply (lookup_good _ _ _ _ _ G1 Hcl1). exists f. split; [now apply HS12|exact H3].
  - assert (HEF : forall x, In x (EF S1) <-> In x (EF S2)).
    { intros x. unfold EF. rewrite !in_flat_map. split; intros [f [Hf Hx]]; exists f; split; auto; now apply HS12. }
    intros m t.
    destruct (lookup_ext T1 m t) as [o|] eqn:L1.
    + apply (lookup_ext_good _ _ _ _ _ G1 Hcl1) in L1 as [c Hc].
      apply (lookup_ext_good _ _ _ _ _ G2 Hcl2). exists c. now apply HEF.
    + destruct (lookup_ext T2 m t) as [o|] eqn:L2; [|reflexivity].
      apply (lookup_ext_good _ _ _ _ _ G2 Hcl2) in L2 as [c Hc].
      assert (lookup_ext T1 m t = Some o); [|congruence].
      apply (lookup_ext_good _ _ _ _ _ G1 Hcl1). exists c. now apply HEF.
Qed.

(* ------------------------------------------------------------------------------------------ *)
(* the boolean well-formedness test implies the hypothesis of the theorems *)

Lemma file_eqb_eq : forall f g, file_eqb f g = true -> f = g.
Proof.
  induction f as [i p d s x IH] using file_ind2. intros [i' p' d' s' x'] H. cbn [file_eqb] in H.
  apply andb_true_iff in H as [H Hx]. apply andb_true_iff in H as [H Hs].
  apply andb_true_iff in H as [H Hd]. apply andb_true_iff in H as [Hi Hp].
  apply N.eqb_eq in Hi. apply name_eqb_eq in Hp. subst i' p'.
  assert (d = d').
  { clear Hs Hx. revert d' Hd. induction IH as [|u a Hu _ IHa]; intros [|v b] Hd; try discriminate; [reflexivity|].
    apply andb_true_iff in Hd as [H1 H2]. f_equal; [now apply Hu|now apply IHa]. }
  assert (s = s').
  { clear Hd Hx. revert s' Hs. induction s as [|u a IHa]; intros [|v b] Hs; try discriminate; [reflexivity|].
    apply andb_true_iff in Hs as [H1 H2]. apply name_eqb_eq in H1. f_equal; [exact H1|now apply IHa]. }
  assert (x = x').
  { clear Hd Hs. revert x' Hx. induction x as [|[[c m] t] a IHa]; intros [|[[c' m'] t'] b] Hx; try discriminate; [reflexivity|].
    apply andb_true_iff in Hx as [H1 H2]. apply andb_true_iff in H1 as [H1 H3].
    apply andb_true_iff in H1 as [H1 H4]. apply name_eqb_eq in H1, H4. apply Z.eqb_eq in H3.
    subst. f_equal. now apply IHa. }
  subst. reflexivity.
Qed.

Lemma is_prefix_spec p n : is_prefix p n = true -> exists r, n = p ++ r.
Proof.
  revert n. induction p as [|a p IH]; intros n H; [exists n; reflexivity|].
  destruct n as [|b n]; [discriminate|]. cbn in H. apply andb_true_iff in H as [H1 H2].
  apply N.eqb_eq in H1. subst b. destruct (IH n H2) as [r ->]. exists r. reflexivity.
Qed.

Lemma names_closed_b_sound f : names_closed_b f = true -> names_closed f.
Proof.
  unfold names_closed_b, names_closed. rewrite forallb_forall. intros H n Hn.
  specialize (H n Hn). apply andb_true_iff in H as [Hp Hq].
  unfold proper_prefix in Hp. apply andb_true_iff in Hp as [Hp Hl]. apply Nat.ltb_lt in Hl.
  destruct (is_prefix_spec _ _ Hp) as [r Er]. exists r. split; [|split; [exact Er|]].
  - intros ->. rewrite app_nil_r in Er. subst n. lia.
  - intros r1 r2 E1 Hr1. rewrite forallb_forall in Hq.
    assert (Hin : In (fpkg f ++ r1) (prefixes n)).
    { apply In_prefixes. split; [destruct (fpkg f); [cbn; exact Hr1|discriminate]|].
      exists r2. rewrite Er, E1. now rewrite <- app_assoc. }
    specialize (Hq _ Hin). apply orb_true_iff in Hq as [Hq|Hq]; [|now apply mem_name_In].
    apply negb_true_iff, Nat.ltb_ge in Hq. rewrite app_length in Hq. destruct r1; [congruence|cbn in Hq; lia].
Qed.

Lemma exts_resolved_b_sound f : exts_resolved_b f = true -> exts_resolved f.
Proof.
  unfold exts_resolved_b, exts_resolved. rewrite forallb_forall. intros H c m t Hx.
  specialize (H _ Hx). cbn [fst snd] in H. apply existsb_exists in H as [h [Hh H]].
  apply andb_true_iff in H as [H1 H2]. apply name_eqb_eq in H1. apply mem_name_In in H2. exists h. auto.
Qed.

Lemma wf_universe_b_sound U : wf_universe_b U = true -> wf_universe U.
Proof.
  unfold wf_universe_b. intros H. apply andb_true_iff in H as [H1 H2].
  rewrite forallb_forall in H1, H2. split.
  - intros f g Hf Hg E. specialize (H1 f Hf). rewrite forallb_forall in H1. specialize (H1 g Hg).
    apply orb_true_iff in H1 as [H1|H1]; [|now apply file_eqb_eq].
    apply negb_true_iff, N.eqb_neq in H1. contradiction.
  - intros f Hf. specialize (H2 f Hf). apply andb_true_iff in H2 as [H3 H4].
    split; [now apply names_closed_b_sound|now apply exts_resolved_b_sound].
Qed.

(* non-vacuity: a well-formed set of files without collision, and one with *)
Definition xA : file := File 0 [1%N] [] [[1%N; 7%N]; [1%N; 7%N; 8%N]] [].
Definition xB : file := File 1 [1%N; 2%N] [xA] [[1%N; 2%N; 20%N]] [([1%N], [1%N; 7%N], 100%Z)].
Definition xC : file := File 2 [3%N] [xA] [[3%N; 20%N]] [([1%N], [1%N; 7%N], 101%Z)].
Definition xD : file := File 3 [3%N] [xA] [[3%N; 21%N]] [([1%N], [1%N; 7%N], 100%Z)].

Lemma nonvacuous_clean :
  wf_universe (closure_list [xB; xC]) /\ ~ collides (closure_list [xB; xC]) /\
  any_err (snd (run_ops [] (map OImport [xB; xC]))) = false /\
  any_err (snd (run_ops [] (map OImport [xC; xB]))) = false.
Proof.
  assert (HW : wf_universe (closure_list [xB; xC])) by (apply wf_universe_b_sound; vm_compute; reflexivity).
  split; [exact HW|]. split; [|split; vm_compute; reflexivity].
  destruct (run_ops [] (map OImport [xB; xC])) as [T l] eqn:Hr.
  apply (collision_iff_reported_lemma _ T l HW Hr).
  assert (El : l = snd (run_ops [] (map OImport [xB; xC]))) by now rewrite Hr.
  rewrite El. vm_compute. reflexivity.
Qed.

Lemma nonvacuous_collision :
  wf_universe (closure_list [xB; xD]) /\ collides (closure_list [xB; xD]) /\
  any_err (snd (run_ops [] (map OImport [xB; xD]))) = true /\
  any_err (snd (run_ops [] (map OImport [xD; xB]))) = true.
Proof.
  split; [apply wf_universe_b_sound; vm_compute; reflexivity|]. split; [|split; vm_compute; reflexivity].
  left. exists xB, xD. split; [vm_compute; tauto|]. split; [vm_compute; tauto|]. split; [discriminate|].
  right. exists [1%N; 7%N], 100%Z. split; vm_compute; tauto.
Qed.

(* ------------------------------------------------------------------------------------------ *)
(* the boolean has_collision (what the correspondence compares with the implementation) decides
   collides on well-formed sets *)

Lemma mem_key_In m t l : mem_key m t l = true <-> In (m, t) l.
Proof.
  induction l as [|[m' t'] l IH]; cbn [mem_key In]; [split; [discriminate|tauto]|].
  rewrite orb_true_iff, IH, key_eqb_true. split; intros [H|H]; auto.
Qed.

Lemma dup_key_spec l : dup_key l = true <-> ~ NoDup l.
Proof.
  induction l as [|[m t] l IH]; cbn [dup_key].
  - split; [discriminate|]. intros H. exfalso. apply H. constructor.
  - rewrite orb_true_iff, mem_key_In, IH. split.
    + intros [H|H] Hn; inversion Hn; subst; tauto.
    + intros Hn. destruct (in_dec key_dec (m, t) l) as [Hi|Hi]; [now left|right].
      intros Hl. apply Hn. now constructor.
Qed.

Lemma files_collide_spec f g :
  files_collide f g = true <-> share_name f g \/ share_name g f \/ share_ext f g.
Proof.
  unfold files_collide, share_name, share_ext. rewrite !orb_true_iff, !existsb_exists. split.
  - intros [[[n [Hn H]]|[n [Hn H]]]|[[m t] [Hk H]]].
    + left. exists n. split; [exact Hn|]. apply orb_true_iff in H as [H|H]; apply mem_name_In in H; auto.
    + right. left. exists n. split; [exact Hn|]. right. now apply mem_name_In.
    + right. right. exists m, t. cbn in H. apply mem_key_In in H. auto.
  - intros [[n [Hn [H|H]]]|[[n [Hn [H|H]]]|[m [t [H1 H2]]]]].
    + left. left. exists n. split; [exact Hn|]. apply orb_true_iff. left. now apply mem_name_In.
    + left. left. exists n. split; [exact Hn|]. apply orb_true_iff. right. now apply mem_name_In.
    + left. left. exists n. split; [exact H|]. apply orb_true_iff. left. now apply mem_name_In.
    + left. right. exists n. split; [exact Hn|]. now apply mem_name_In.
    + right. exists (m, t). split; [exact H1|]. cbn. now apply mem_key_In.
Qed.

Lemma files_collide_sym f g : files_collide f g = true -> files_collide g f = true.
Proof.
  rewrite !files_collide_spec. intros [H|[H|[m [t [H1 H2]]]]]; auto. right. right. exists m, t. auto.
Qed.

Lemma pairs_collide_spec u :
  NoDup u ->
  (pairs_collide u = true <-> exists f g, In f u /\ In g u /\ f <> g /\ files_collide f g = true).
Proof.
  induction u as [|a u IH]; intros Hn; cbn [pairs_collide].
  - split; [discriminate|]. intros [f [g [[] _]]].
  - inversion Hn; subst. rewrite orb_true_iff, existsb_exists, (IH H2). split.
    + intros [[g [Hg Hc]]|[f [g [Hf [Hg [Hne Hc]]]]]].
      * exists a, g. repeat split; auto; [now left|now right|]. intros ->. contradiction.
      * exists f, g. repeat split; auto; now right.
    + intros [f [g [[<-|Hf] [[<-|Hg] [Hne Hc]]]]].
      * congruence.
      * left. exists g. auto.
      * left. exists f. split; [exact Hf|]. now apply files_collide_sym.
      * right. exists f, g. auto.
Qed.

Lemma dedup_files_spec l :
  (forall f g, In f l -> In g l -> ffid f = ffid g -> f = g) ->
  forall seen,
    (forall f, In f (dedup_files l seen) <-> In f l /\ ~ In (ffid f) seen) /\
    NoDup (dedup_files l seen).
Proof.
  intros W1. induction l as [|a l IH]; intros seen; cbn [dedup_files].
  - split; [intros f; cbn; tauto|constructor].
  - assert (W1' : forall f g, In f l -> In g l -> ffid f = ffid g -> f = g).
    { intros f g Hf Hg. apply W1; now right. }
    destruct (mem_N (ffid a) seen) eqn:Em.
    + apply mem_N_In in Em. destruct (IH W1' seen) as [I1 I2]. split; [|exact I2].
      intros f. rewrite I1. cbn [In]. split; [tauto|]. intros [[<-|Hf] Hs]; [contradiction|auto].
    + assert (Hns : ~ In (ffid a) seen) by (intros H; apply mem_N_In in H; congruence).
      destruct (IH W1' (ffid a :: seen)) as [I1 I2]. split.
      * intros f. cbn [In]. rewrite I1. cbn [In]. split.
        -- intros [<-|[Hf Hs]]; [auto|]. split; [now right|tauto].
        -- intros [[<-|Hf] Hs]; [now left|].
           destruct (N.eq_dec (ffid a) (ffid f)) as [E|E].
           ++ left. apply W1; [now left|now right|exact E].
           ++ right. split; [exact Hf|]. intros [H|H]; auto.
      * constructor; [|exact I2]. intros Ha. apply I1 in Ha as [_ Ha]. apply Ha. now left.
Qed.

Lemma has_collision_spec fs :
  wf_universe (closure_list fs) -> (has_collision fs = true <-> collides (closure_list fs)).
Proof.
  intros [W1 W2]. unfold has_collision.
  destruct (dedup_files_spec (closure_list fs) W1 []) as [D1 D2].
  set (u := dedup_files (closure_list fs) []) in *.
  assert (HE : forall x, In x u <-> In x (closure_list fs)).
  { intros x. rewrite D1. cbn. tauto. }
  rewrite orb_true_iff, (pairs_collide_spec u D2), existsb_exists. split.
  - intros [[f [g [Hf [Hg [Hne Hc]]]]]|[f [Hf Hd]]].
    + apply HE in Hf, Hg. apply files_collide_spec in Hc as [Hc|[Hc|Hc]].
      * left. exists f, g. auto.
      * left. exists g, f. repeat split; auto.
      * left. exists f, g. auto.
    + right. exists f. split; [now apply HE|now apply dup_key_spec].
  - intros [[f [g [Hf [Hg [Hne Hc]]]]]|[f [Hf Hd]]].
    + left. exists f, g. repeat split; [now apply HE|now apply HE|exact Hne|].
      apply files_collide_spec. destruct Hc as [Hc|Hc]; auto.
    + right. exists f. split; [now apply HE|now apply dup_key_spec].
Qed.

Lemma reported_eq_has_collision_lemma fs T l :
  wf_universe (closure_list fs) ->
  run_ops [] (map OImport fs) = (T, l) -> any_err l = has_collision fs.
Proof.
  intros HW Hr. pose proof (collision_iff_reported_lemma fs T l HW Hr) as C.
  pose proof (has_collision_spec fs HW) as H.
  destruct (any_err l), (has_collision fs); try reflexivity; exfalso.
  - assert (Hn : ~ collides (closure_list fs)) by (intros Hc; apply H in Hc; discriminate).
    apply C in Hn. discriminate.
  - assert (Hc : collides (closure_list fs)) by (now apply H).
    exact (proj1 C eq_refl Hc).
Qed.
