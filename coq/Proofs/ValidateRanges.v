(* F1 - numeric ranges.  The sort-and-scan tests of parser/validate.go decide the declarative
   statements of Model/ValiditySpec.v:
     ranges_overlap_sorted_iff   adjacent scan over the sorted ranges  <->  two ranges share a number
     cross_overlap_iff           two-index merge scan                  <->  a reserved and an extension range share a number
     tag_in_range_iff            sort.Search + start test              <->  the number lies in some range
   for half-open (message) and closed (enum) ranges, for every list of ranges (no length bound). *)
From Coq Require Import List NArith ZArith Bool Lia Arith Sorted.
From PV Require Import Model.MiniProto Model.Lower Model.Validate Model.ValiditySpec.
Import ListNotations.
Open Scope Z_scope.

(* ---- insertion sort keeps the elements, hence the sharing pairs ---- *)
Lemma In_insert b x l : In b (insert_rng x l) <-> b = x \/ In b l.
Proof.
  induction l as [|y r IH]; cbn.
  - intuition.
  - destruct (rng_less x y); cbn.
    + intuition.
    + rewrite IH. intuition.
Qed.

Lemma In_sort b l : In b (sort_rngs l) <-> In b l.
Proof.
  induction l as [|x r IH]; cbn.
  - tauto.
  - rewrite In_insert, IH. intuition.
Qed.


(* ------------------------------------------------------------------------------------------ *)
(* sharing a number, as an inductive over the list *)
Section Share.
Variable inr : Z -> Z * Z -> Prop.

Definition share (a b : Z * Z) : Prop := exists n, inr n a /\ inr n b.

Lemma share_sym a b : share a b -> share b a.
Proof. intros [n [H1 H2]]. exists n. tauto. Qed.

Inductive has_share : list (Z * Z) -> Prop :=
| HS_here a l b : In b l -> share a b -> has_share (a :: l)
| HS_later a l : has_share l -> has_share (a :: l).

Lemma hs_nil : ~ has_share [].
Proof. intros H. inversion H. Qed.

Lemma hs_cons a l : has_share (a :: l) <-> (exists b, In b l /\ share a b) \/ has_share l.
Proof.
  split.
  - intros H. inversion H; subst.
    + left. eauto.
    + right. assumption.
  - intros [[b [Hb Hs]] | H].
    + eapply HS_here; eauto.
    + apply HS_later. assumption.
Qed.

Lemma two_share_has_share rs : two_share inr rs <-> has_share rs.
Proof.
  split.
  - intros (i & j & a & b & n & Hij & Ha & Hb & Hna & Hnb).
    revert j rs Hij Ha Hb. induction i as [|i IH]; intros j rs Hij Ha Hb.
    + destruct rs as [|x rs]; [discriminate|]. cbn in Ha. injection Ha as ->.
      destruct j as [|j]; [lia|]. cbn in Hb. apply nth_error_In in Hb.
      eapply HS_here; [exact Hb|]. exists n. tauto.
    + destruct rs as [|x rs]; [discriminate|]. destruct j as [|j]; [lia|].
      cbn in Ha, Hb. apply HS_later. apply (IH j); [lia|assumption|assumption].
  - intros H. induction H as [a l b Hb [n [Hna Hnb]] | a l H IH].
    + apply In_nth_error in Hb. destruct Hb as [k Hk].
      exists 0%nat, (S k), a, b, n. cbn. repeat split; try assumption; lia.
    + destruct IH as (i & j & x & y & n & Hij & Hx & Hy & Hnx & Hny).
      exists (S i), (S j), x, y, n. cbn. repeat split; try assumption; lia.
Qed.

Lemma hs_insert x l : has_share (insert_rng x l) <-> (exists b, In b l /\ share x b) \/ has_share l.
Proof.
  induction l as [|y r IH]; cbn.
  - split.
    + intros H. apply hs_cons in H. destruct H as [[b [[] _]]|H]. now apply hs_nil in H.
    + intros [[b [[] _]]|H]. now apply hs_nil in H.
  - destruct (rng_less x y).
    + apply hs_cons.
    + rewrite hs_cons, IH, (hs_cons y r). split.
      * intros [[b [Hb Hs]] | [[b [Hb Hs]] | H]].
        -- apply In_insert in Hb. destruct Hb as [-> | Hb].
           ++ left. exists y. split; [now left|now apply share_sym].
           ++ right. left. eauto.
        -- left. exists b. split; [now right|assumption].
        -- right. right. assumption.
      * intros [[b [[<- | Hb] Hs]] | [[b [Hb Hs]] | H]].
        -- left. exists x. split; [apply In_insert; now left|now apply share_sym].
        -- right. left. eauto.
        -- left. exists b. split; [apply In_insert; now right|assumption].
        -- right. right. assumption.
Qed.

Lemma hs_sort l : has_share (sort_rngs l) <-> has_share l.
Proof.
  induction l as [|x r IH]; cbn.
  - tauto.
  - rewrite hs_insert, hs_cons, IH. split.
    + intros [[b [Hb Hs]] | H]; [left; exists b; split; [now apply In_sort|assumption] | now right].
    + intros [[b [Hb Hs]] | H]; [left; exists b; split; [now apply In_sort|assumption] | now right].
Qed.
End Share.

(* ------------------------------------------------------------------------------------------ *)
(* sortedness *)
Definition le_start (a b : Z * Z) : Prop := fst a <= fst b.

Lemma rng_less_true x y : rng_less x y = true -> fst x <= fst y.
Proof. unfold rng_less. intros H. apply orb_true_iff in H. destruct H as [H|H]; [lia|]. apply andb_true_iff in H. lia. Qed.

Lemma rng_less_false x y : rng_less x y = false -> fst y <= fst x.
Proof. unfold rng_less. intros H. apply orb_false_iff in H. destruct H as [H _]. lia. Qed.

Lemma insert_sorted x l : StronglySorted le_start l -> StronglySorted le_start (insert_rng x l).
Proof.
  induction l as [|y r IH]; intros Hs; cbn.
  - constructor; constructor.
  - destruct (rng_less x y) eqn:E.
    + constructor; [assumption|]. apply rng_less_true in E.
      inversion Hs as [|? ? Hr Hall]; subst. constructor; [exact E|].
      rewrite Forall_forall in *. intros z Hz. specialize (Hall z Hz). unfold le_start in *. lia.
    + apply rng_less_false in E. inversion Hs as [|? ? Hr Hall]; subst.
      constructor; [now apply IH|]. rewrite Forall_forall in *. intros z Hz.
      apply In_insert in Hz. destruct Hz as [-> | Hz]; [exact E|now apply Hall].
Qed.

Lemma sort_sorted l : StronglySorted le_start (sort_rngs l).
Proof. induction l as [|x r IH]; cbn; [constructor|now apply insert_sorted]. Qed.

Lemma Forall_sort (P : Z * Z -> Prop) l : Forall P l -> Forall P (sort_rngs l).
Proof. rewrite !Forall_forall. intros H b Hb. apply H. now apply (proj1 (In_sort b l)). Qed.

Lemma sort_length l : length (sort_rngs l) = length l.
Proof.
  assert (Hi : forall x l, length (insert_rng x l) = S (length l)).
  { intros x l0. induction l0 as [|y r IH]; cbn; [reflexivity|]. destruct (rng_less x y); cbn; [reflexivity|now rewrite IH]. }
  induction l as [|x r IH]; [reflexivity|]. change (sort_rngs (x :: r)) with (insert_rng x (sort_rngs r)).
  rewrite Hi, IH. reflexivity.
Qed.

Lemma app_not_nil {A} (x y : list A) : x ++ y <> [] <-> x <> [] \/ y <> [].
Proof.
  destruct x; cbn.
  - split; [intros H; now right|intros [H|H]; [congruence|assumption]].
  - split; [intros _; left; discriminate|intros _; discriminate].
Qed.

Lemma cond_not_nil (c : bool) (e : ecls) : (if c then [e] else []) <> [] <-> c = true.
Proof. destruct c; split; intros H; congruence. Qed.

(* ------------------------------------------------------------------------------------------ *)
(* the three algorithms, generic in the kind of range *)
Section Scan.
Variable inr : Z -> Z * Z -> Prop.
Variable wf : Z * Z -> Prop.
Variable cmpS : Z -> Z -> bool.   (* the comparison of the adjacent scan: cmpS next.start prev.end *)
Variable cmpE : Z -> Z -> bool.   (* the comparison inside sort.Search: cmpE range.end number *)

(* for ranges in start order, sharing a number is decided by one comparison *)
Hypothesis Hshare : forall a c, wf a -> wf c -> fst a <= fst c -> (share inr a c <-> cmpS (fst c) (snd a) = true).
Hypothesis HmonoS : forall s s' e, s <= s' -> cmpS s' e = true -> cmpS s e = true.
Hypothesis Hin : forall n r, inr n r <-> (fst r <= n /\ cmpE (snd r) n = true).
Hypothesis Hends : forall a c n, wf a -> wf c -> fst a <= fst c -> ~ share inr a c ->
                                 cmpE (snd a) n = true -> cmpE (snd c) n = true.

(* a range that starts no later than every range of a sorted list shares a number with one of
   them iff it does with the first *)
Lemma head_share a b r :
  wf a -> Forall wf (b :: r) -> StronglySorted le_start (b :: r) -> fst a <= fst b ->
  ((exists c, In c (b :: r) /\ share inr a c) <-> cmpS (fst b) (snd a) = true).
Proof.
  intros Ha Hwf Hs Hab. inversion Hwf as [|? ? Hb Hr]; subst. inversion Hs as [|? ? Hsr Hall]; subst.
  split.
  - intros [c [[<- | Hc] Hsh]].
    + apply Hshare; assumption.
    + rewrite Forall_forall in Hall, Hr. specialize (Hall c Hc). unfold le_start in Hall.
      apply (HmonoS (fst b) (fst c)); [assumption|]. apply Hshare; [assumption|now apply Hr|lia|assumption].
  - intros H. exists b. split; [now left|]. apply Hshare; assumption.
Qed.

Lemma scan_adj_correct e : forall l a,
  Forall wf (a :: l) -> StronglySorted le_start (a :: l) ->
  (scan_adj cmpS a l e <> [] <-> has_share inr (a :: l)).
Proof.
  induction l as [|b r IH]; intros a Hwf Hs; cbn.
  - split; [congruence|]. intros H. apply hs_cons in H. destruct H as [[c [[] _]]|H]. now apply hs_nil in H.
  - inversion Hwf as [|? ? Ha Hwf']; subst. inversion Hs as [|? ? Hs' Hall]; subst.
    rewrite app_not_nil, (hs_cons inr a (b :: r)), (IH b Hwf' Hs').
    assert (Hab : fst a <= fst b). { inversion Hall; subst. assumption. }
    rewrite (head_share a b r Ha Hwf' Hs' Hab), cond_not_nil. reflexivity.
Qed.

(* ranges_overlap_sorted_iff *)
Theorem overlap_errs_correct e rs :
  Forall wf rs -> (overlap_errs cmpS (sort_rngs rs) e <> [] <-> two_share inr rs).
Proof.
  intros Hwf. rewrite two_share_has_share, <- hs_sort.
  pose proof (sort_sorted rs) as Hs. pose proof (Forall_sort wf rs Hwf) as Hw.
  unfold overlap_errs. destruct (sort_rngs rs) as [|p r].
  - split; [congruence|intros H; now apply hs_nil in H].
  - now apply scan_adj_correct.
Qed.

(* ---- sort.Search ---- *)
Lemma div2_between i j : (i < j)%nat -> (i <= Nat.div2 (i + j) < j)%nat.
Proof.
  intros H. pose proof (Nat.div2_double i) as Hd.
  assert (H1 : (Nat.div2 (2 * i) <= Nat.div2 (i + j))%nat).
  { rewrite !Nat.div2_div. apply Nat.div_le_mono; lia. }
  rewrite Hd in H1. split; [assumption|].
  rewrite Nat.div2_div. apply Nat.div_lt_upper_bound; lia.
Qed.

Lemma search_loop_spec (pred : nat -> bool) (len : nat) :
  (forall k k', (k <= k' < len)%nat -> pred k = true -> pred k' = true) ->
  forall fuel i j, (j - i < fuel)%nat -> (i <= j <= len)%nat ->
    (forall k, (k < i)%nat -> pred k = false) -> (forall k, (j <= k < len)%nat -> pred k = true) ->
    exists r, search_loop fuel pred i j = Some r /\ (r <= len)%nat /\
              (forall k, (k < r)%nat -> pred k = false) /\ (forall k, (r <= k < len)%nat -> pred k = true).
Proof.
  intros Hmono. induction fuel as [|f IH]; intros i j Hf Hij Hlo Hhi; [lia|].
  cbn [search_loop]. destruct (Nat.ltb i j) eqn:E.
  - apply Nat.ltb_lt in E. pose proof (div2_between i j E) as Hh. set (h := Nat.div2 (i + j)) in *.
    destruct (pred h) eqn:Ph; cbn [negb].
    + apply IH; [lia|lia|assumption|]. intros k Hk.
      destruct (Nat.le_gt_cases j k) as [Hjk|Hjk]; [apply Hhi; lia|]. apply (Hmono h k); [lia|assumption].
    + apply IH; [lia|lia| |assumption]. intros k Hk.
      destruct (Nat.lt_ge_cases k i) as [Hki|Hki]; [now apply Hlo|].
      destruct (pred k) eqn:Pk; [|reflexivity]. rewrite (Hmono k h) in Ph; [discriminate|lia|assumption].
  - apply Nat.ltb_ge in E. exists i. assert (i = j) by lia. subst j. repeat split; try assumption; lia.
Qed.

Lemma sort_search_spec (pred : nat -> bool) (len : nat) :
  (forall k k', (k <= k' < len)%nat -> pred k = true -> pred k' = true) ->
  exists r, sort_search len pred = Some r /\ (r <= len)%nat /\
            (forall k, (k < r)%nat -> pred k = false) /\ (forall k, (r <= k < len)%nat -> pred k = true).
Proof.
  intros Hmono. unfold sort_search. apply (search_loop_spec pred len Hmono); try lia.
Qed.

Lemma sorted_nth l : StronglySorted le_start l ->
  forall k k' d, (k <= k' < length l)%nat -> fst (nth k l d) <= fst (nth k' l d).
Proof.
  induction 1 as [|a l Hs IH Hall]; intros k k' d Hk; cbn in Hk; [lia|].
  destruct k as [|k], k' as [|k']; cbn; try lia.
  - rewrite Forall_forall in Hall. apply Hall. apply nth_In. lia.
  - apply IH. lia.
Qed.

Lemma no_share_nth l : ~ has_share inr l ->
  forall k k' d, (k < k' < length l)%nat -> ~ share inr (nth k l d) (nth k' l d).
Proof.
  intros Hn k k' d Hk [n [H1 H2]]. apply Hn. apply two_share_has_share.
  exists k, k', (nth k l d), (nth k' l d), n. repeat split; try assumption; try lia.
  - apply nth_error_nth'. lia.
  - apply nth_error_nth'. lia.
Qed.

(* tag_in_range_iff *)
Theorem in_sorted_ranges_correct rs n :
  Forall wf rs -> ~ two_share inr rs ->
  exists b, in_sorted_ranges cmpE (sort_rngs rs) n = Some b /\ (b = true <-> in_some inr n rs).
Proof.
  intros Hwf Hno. rewrite two_share_has_share, <- hs_sort in Hno.
  pose proof (sort_sorted rs) as Hs. pose proof (Forall_sort wf rs Hwf) as Hw.
  assert (Hsome : in_some inr n rs <-> in_some inr n (sort_rngs rs)).
  { unfold in_some. split; intros [r [Hr Hi]]; exists r; (split; [now apply In_sort|assumption]). }
  enough (exists b, in_sorted_ranges cmpE (sort_rngs rs) n = Some b /\ (b = true <-> in_some inr n (sort_rngs rs))) as (b0 & Hb0 & Hiff).
  { exists b0. split; [assumption|]. rewrite Hiff. symmetry. exact Hsome. }
  clear Hsome. set (l := sort_rngs rs) in *. clearbody l. clear rs Hwf.
  unfold in_sorted_ranges. set (pred := fun i : nat => cmpE (snd (nth i l (0, 0))) n).
  destruct (sort_search_spec pred (length l)) as (r & Hr & Hlen & Hlo & Hhi).
  { intros k k' Hk Hp. destruct (Nat.eq_dec k k') as [->|Hne]; [assumption|].
    unfold pred in *. apply (Hends (nth k l (0, 0)) (nth k' l (0, 0))); try assumption.
    - rewrite Forall_forall in Hw. apply Hw, nth_In. lia.
    - rewrite Forall_forall in Hw. apply Hw, nth_In. lia.
    - apply sorted_nth; [assumption|lia].
    - apply no_share_nth; [assumption|lia]. }
  rewrite Hr. eexists. split; [reflexivity|]. split.
  - intros H. apply andb_true_iff in H. destruct H as [H1 H2]. apply Nat.ltb_lt in H1. apply Z.leb_le in H2.
    exists (nth r l (0, 0)). split; [apply nth_In; assumption|]. apply Hin. split; [assumption|].
    apply (Hhi r). lia.
  - intros [x [Hx Hi]]. apply (In_nth l x (0, 0)) in Hx. destruct Hx as [k [Hk Hnth]]. subst x.
    apply Hin in Hi. destruct Hi as [Hs1 Hp].
    assert (Hrk : (r <= k)%nat).
    { destruct (Nat.le_gt_cases r k) as [H|H]; [assumption|]. specialize (Hlo k H). unfold pred in Hlo. congruence. }
    apply andb_true_iff. split; [apply Nat.ltb_lt; lia|]. apply Z.leb_le.
    pose proof (sorted_nth l Hs r k (0, 0)). lia.
Qed.
End Scan.

(* ------------------------------------------------------------------------------------------ *)
(* the two instances *)
Lemma ho_share a c : wf_ho a -> wf_ho c -> fst a <= fst c -> (share in_ho a c <-> Z.ltb (fst c) (snd a) = true).
Proof.
  unfold wf_ho, share, in_ho. intros Ha Hc Hac. rewrite Z.ltb_lt. split.
  - intros [n H]. lia.
  - intros H. exists (fst c). lia.
Qed.
Lemma cl_share a c : wf_cl a -> wf_cl c -> fst a <= fst c -> (share in_cl a c <-> Z.leb (fst c) (snd a) = true).
Proof.
  unfold wf_cl, share, in_cl. intros Ha Hc Hac. rewrite Z.leb_le. split.
  - intros [n H]. lia.
  - intros H. exists (fst c). lia.
Qed.
Lemma ho_in n r : in_ho n r <-> (fst r <= n /\ Z.gtb (snd r) n = true).
Proof. unfold in_ho. rewrite Z.gtb_ltb, Z.ltb_lt. tauto. Qed.
Lemma cl_in n r : in_cl n r <-> (fst r <= n /\ Z.geb (snd r) n = true).
Proof. unfold in_cl. rewrite Z.geb_leb, Z.leb_le. tauto. Qed.
Lemma ho_ends a c n : wf_ho a -> wf_ho c -> fst a <= fst c -> ~ share in_ho a c ->
  Z.gtb (snd a) n = true -> Z.gtb (snd c) n = true.
Proof.
  intros Ha Hc Hac Hn. rewrite (ho_share a c Ha Hc Hac), Z.ltb_lt in Hn. unfold wf_ho in *.
  rewrite !Z.gtb_ltb, !Z.ltb_lt. lia.
Qed.
Lemma cl_ends a c n : wf_cl a -> wf_cl c -> fst a <= fst c -> ~ share in_cl a c ->
  Z.geb (snd a) n = true -> Z.geb (snd c) n = true.
Proof.
  intros Ha Hc Hac Hn. rewrite (cl_share a c Ha Hc Hac), Z.leb_le in Hn. unfold wf_cl in *.
  rewrite !Z.geb_leb, !Z.leb_le. lia.
Qed.
Lemma ltb_mono s s' e : s <= s' -> Z.ltb s' e = true -> Z.ltb s e = true.
Proof. rewrite !Z.ltb_lt. lia. Qed.
Lemma leb_mono s s' e : s <= s' -> Z.leb s' e = true -> Z.leb s e = true.
Proof. rewrite !Z.leb_le. lia. Qed.

(* message ranges (reserved, extension): start < prev.end on the sorted list *)
Theorem ranges_overlap_sorted_iff_lemma e rs :
  Forall wf_ho rs -> (overlap_errs Z.ltb (sort_rngs rs) e <> [] <-> two_share in_ho rs).
Proof. apply overlap_errs_correct with (wf := wf_ho); [exact ho_share|exact ltb_mono]. Qed.

(* enum reserved ranges: start <= prev.end *)
Theorem enum_ranges_overlap_sorted_iff_lemma e rs :
  Forall wf_cl rs -> (overlap_errs Z.leb (sort_rngs rs) e <> [] <-> two_share in_cl rs).
Proof. apply overlap_errs_correct with (wf := wf_cl); [exact cl_share|exact leb_mono]. Qed.

Theorem tag_in_range_iff_lemma rs n :
  Forall wf_ho rs -> ~ two_share in_ho rs ->
  exists b, in_sorted_ranges Z.gtb (sort_rngs rs) n = Some b /\ (b = true <-> in_some in_ho n rs).
Proof. apply in_sorted_ranges_correct with (wf := wf_ho); [exact ho_in|exact ho_ends]. Qed.

Theorem enum_number_in_range_iff_lemma rs n :
  Forall wf_cl rs -> ~ two_share in_cl rs ->
  exists b, in_sorted_ranges Z.geb (sort_rngs rs) n = Some b /\ (b = true <-> in_some in_cl n rs).
Proof. apply in_sorted_ranges_correct with (wf := wf_cl); [exact cl_in|exact cl_ends]. Qed.

(* ------------------------------------------------------------------------------------------ *)
(* the merge scan of reserved against extension ranges *)
Lemma cross_cons_l a xs ys :
  cross_share in_ho (a :: xs) ys <-> (exists b, In b ys /\ share in_ho a b) \/ cross_share in_ho xs ys.
Proof.
  unfold cross_share, share. split.
  - intros (x & b & n & [<- | Hx] & Hb & H1 & H2); [left; eauto|right; eauto 8].
  - intros [(b & Hb & n & H1 & H2) | (x & b & n & Hx & Hb & H1 & H2)].
    + exists a, b, n. split; [now left|]. split; [assumption|]. split; assumption.
    + exists x, b, n. split; [now right|]. split; [assumption|]. split; assumption.
Qed.

Lemma cross_cons_r xs b ys :
  cross_share in_ho xs (b :: ys) <-> (exists a, In a xs /\ share in_ho b a) \/ cross_share in_ho xs ys.
Proof.
  unfold cross_share, share. split.
  - intros (x & y & n & Hx & [<- | Hy] & H1 & H2); [left; exists x; split; [assumption|exists n; tauto]|right; eauto 8].
  - intros [(a & Ha & n & H1 & H2) | (x & y & n & Hx & Hy & H1 & H2)].
    + exists a, b, n. split; [assumption|]. split; [now left|]. split; assumption.
    + exists x, y, n. split; [assumption|]. split; [now right|]. split; assumption.
Qed.

Lemma cross_nil_l ys : ~ cross_share in_ho [] ys.
Proof. intros (a & b & n & [] & _). Qed.
Lemma cross_nil_r xs : ~ cross_share in_ho xs [].
Proof. intros (a & b & n & _ & [] & _). Qed.

Lemma merge_scan_correct : forall fuel rsvd exts,
  (length rsvd + length exts <= fuel)%nat ->
  StronglySorted le_start rsvd -> StronglySorted le_start exts -> Forall wf_ho rsvd -> Forall wf_ho exts ->
  exists l, merge_scan fuel rsvd exts = Some l /\ (l <> [] <-> cross_share in_ho rsvd exts).
Proof.
  induction fuel as [|f IH]; intros rsvd exts Hlen Hsr Hsx Hwr Hwx.
  - destruct rsvd, exts; cbn in Hlen; try lia. exists []. split; [reflexivity|].
    split; [congruence|intros H; now apply cross_nil_l in H].
  - destruct rsvd as [|r rs].
    { exists []. split; [destruct exts; reflexivity|]. split; [congruence|intros H; now apply cross_nil_l in H]. }
    destruct exts as [|x xs].
    { exists []. split; [reflexivity|]. split; [congruence|intros H; now apply cross_nil_r in H]. }
    cbn [merge_scan]. cbn in Hlen.
    inversion Hwr as [|? ? Hr Hwrs]; subst. inversion Hwx as [|? ? Hx Hwxs]; subst.
    destruct (fst r <? fst x) eqn:E.
    + apply Z.ltb_lt in E. inversion Hsr as [|? ? Hsrs Hallr]; subst.
      destruct (IH rs (x :: xs)) as (l & Hl & Hspec); try assumption; [cbn; lia|].
      rewrite Hl. cbn [option_map]. eexists. split; [reflexivity|].
      rewrite app_not_nil, cross_cons_l, Hspec.
      rewrite (head_share in_ho wf_ho Z.ltb ho_share ltb_mono r x xs Hr Hwx Hsx); [|lia].
      assert (Hhit : ((fst x <=? fst r) && (fst r <? snd x) || (fst r <=? fst x) && (fst x <? snd r)) = (fst x <? snd r)).
      { unfold wf_ho in *.
        destruct (Z.leb_spec (fst x) (fst r)), (Z.ltb_spec (fst r) (snd x)), (Z.leb_spec (fst r) (fst x)), (Z.ltb_spec (fst x) (snd r));
          cbn; try reflexivity; lia. }
      rewrite Hhit, cond_not_nil. reflexivity.
    + apply Z.ltb_ge in E. inversion Hsx as [|? ? Hsxs Hallx]; subst.
      destruct (IH (r :: rs) xs) as (l & Hl & Hspec); try assumption; [cbn; lia|].
      rewrite Hl. cbn [option_map]. eexists. split; [reflexivity|].
      rewrite app_not_nil, cross_cons_r, Hspec.
      rewrite (head_share in_ho wf_ho Z.ltb ho_share ltb_mono x r rs Hx Hwr Hsr E).
      assert (Hhit : ((fst x <=? fst r) && (fst r <? snd x) || (fst r <=? fst x) && (fst x <? snd r)) = (fst r <? snd x)).
      { unfold wf_ho in *.
        destruct (Z.leb_spec (fst x) (fst r)), (Z.ltb_spec (fst r) (snd x)), (Z.leb_spec (fst r) (fst x)), (Z.ltb_spec (fst x) (snd r));
          cbn; try reflexivity; lia. }
      rewrite Hhit, cond_not_nil. reflexivity.
Qed.

Lemma cross_sort xs ys : cross_share in_ho (sort_rngs xs) (sort_rngs ys) <-> cross_share in_ho xs ys.
Proof.
  unfold cross_share. split; intros (a & b & n & Ha & Hb & H); exists a, b, n;
    (split; [now apply In_sort|split; [now apply In_sort|assumption]]).
Qed.

(* cross_overlap_iff: the fuel of the model suffices and the scan decides the declarative statement *)
Theorem cross_overlap_iff_lemma rsvr extr :
  Forall wf_ho rsvr -> Forall wf_ho extr ->
  exists l, merge_scan (length (sort_rngs rsvr) + length (sort_rngs extr)) (sort_rngs rsvr) (sort_rngs extr) = Some l
            /\ (l <> [] <-> cross_share in_ho rsvr extr).
Proof.
  intros Hr Hx.
  destruct (merge_scan_correct (length (sort_rngs rsvr) + length (sort_rngs extr)) (sort_rngs rsvr) (sort_rngs extr))
    as (l & Hl & Hspec); [lia|apply sort_sorted|apply sort_sorted|now apply Forall_sort|now apply Forall_sort|].
  exists l. split; [assumption|]. rewrite Hspec. apply cross_sort.
Qed.
