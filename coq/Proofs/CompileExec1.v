(* Basic invariants of the compile executor model and the termination measure. *)
From Coq Require Import List Arith Bool Lia.
From PV Require Import Model.CompileExec.
Import ListNotations.

Definition wf_graph (g : graph) : Prop :=
  forall f d, In d (imports g f) -> f < nfiles g /\ d < nfiles g.

Lemma memb_In x l : memb x l = true <-> In x l.
Proof.
  unfold memb. rewrite existsb_exists. split.
  - intros (y & Hy & E). apply Nat.eqb_eq in E. now subst.
  - intros H. exists x. split; [assumption|apply Nat.eqb_refl].
Qed.

Lemma memb_false x l : memb x l = false <-> ~ In x l.
Proof. rewrite <- memb_In. destruct (memb x l); split; congruence. Qed.

Lemma upd_same m k v : upd m k v k = v.
Proof. unfold upd. now rewrite Nat.eqb_refl. Qed.

Lemma upd_other m k v x : x <> k -> upd m k v x = m x.
Proof. intros H. unfold upd. apply Nat.eqb_neq in H. now rewrite H. Qed.

Section Exec.
Variable g : graph.
Hypothesis wfg : wf_graph g.

Inductive reach (par : nat) (req : list nat) : state -> Prop :=
| reach_init : reach par req (init par req)
| reach_step s f s' : reach par req s -> step g s f = Some s' -> reach par req s'.

Lemma run_reach par req sched : forall s, reach par req s -> reach par req (run g sched s).
Proof.
  induction sched as [|f rest IH]; intros s Hs; cbn [run]; [assumption|].
  destruct (step g s f) eqn:E; [apply IH; eapply reach_step; eassumption|apply IH; assumption].
Qed.

(* ---- shape of a step ---- *)
Lemma step_spec s f s' : step g s f = Some s' ->
  exists t' cr pe tick, step_local g s f = Some (t', cr, pe, tick) /\
    tasks s' = upd (apply_create (tasks s) cr) f t' /\
    clock s' = (if tick then S (clock s) else clock s) /\
    match pe with
    | PSame => permits s' = permits s
    | PRel => permits s' = S (permits s)
    | PAcq => permits s = S (permits s')
    end.
Proof.
  unfold step. destruct (step_local g s f) as [[[[t' cr] pe] tick]|] eqn:E; [|discriminate].
  intros H. exists t', cr, pe, tick. split; [reflexivity|].
  destruct pe; [destruct (permits s) eqn:Ep; [discriminate|]| |]; inversion H; subst; cbn; auto.
Qed.

Ltac local_cases H :=
  unfold step_local in H; cbv zeta in H;
  match type of H with context [match tpc ?t with _ => _ end] => destruct (tpc t) eqn:Epc end;
  repeat match type of H with
         | context [match ?x with _ => _ end] => destruct x eqn:?
         end; try discriminate; inversion H; subst; clear H.

(* what a step can create: a dependency of the stepping task that had no result *)
Lemma step_local_create s f t' d pe tick :
  step_local g s f = Some (t', Some d, pe, tick) ->
  created s d = false /\ d <> f /\ In d (imports g f).
Proof.
  intros H. local_cases H.
  repeat split; try assumption.
  - apply Nat.eqb_neq. assumption.
  - eapply nth_error_In; eassumption.
Qed.

Lemma created_false s d : created s d = false <-> tpc (tasks s d) = PNone.
Proof. unfold created. destruct (tpc (tasks s d)); split; congruence. Qed.

(* tasks other than the stepping one are untouched, except a result being created *)
Lemma step_other s f s' x : step g s f = Some s' -> x <> f ->
  tasks s' x = tasks s x \/ (tpc (tasks s x) = PNone /\ tasks s' x = fresh_task /\ In x (imports g f)).
Proof.
  intros H Hx. destruct (step_spec _ _ _ H) as (t' & cr & pe & tick & Hl & Ht & _).
  rewrite Ht, upd_other by assumption. destruct cr as [d|]; cbn [apply_create]; [|now left].
  destruct (Nat.eq_dec x d) as [->|Hd].
  - right. rewrite upd_same. destruct (step_local_create _ _ _ _ _ _ Hl) as (Hc & _ & Hin).
    apply created_false in Hc. auto.
  - left. now rewrite upd_other.
Qed.

Lemma step_self s f s' : step g s f = Some s' ->
  exists t' cr pe tick, step_local g s f = Some (t', cr, pe, tick) /\ tasks s' f = t'.
Proof.
  intros H. destruct (step_spec _ _ _ H) as (t' & cr & pe & tick & Hl & Ht & _).
  exists t', cr, pe, tick. split; [assumption|]. rewrite Ht. apply upd_same.
Qed.

Lemma step_clock_mono s f s' : step g s f = Some s' -> clock s <= clock s'.
Proof.
  intros H. destruct (step_spec _ _ _ H) as (t' & cr & pe & tick & _ & _ & Hc & _).
  rewrite Hc. destruct tick; lia.
Qed.

(* how a step changes what other tasks can observe of the stepping task's blockedOn *)
Lemma step_local_blocked s f t' cr pe tick :
  step_local g s f = Some (t', cr, pe, tick) ->
  let t := tasks s f in
  (blocked t' = blocked t /\ ptime t' = ptime t /\ tick = false) \/
  (blocked t = false \/ tpc t = PPublish) /\ blocked t' = true /\ ptime t' = clock s /\ tick = true \/
  (blocked t' = false /\ tick = false).
Proof.
  intros H t. subst t. local_cases H; cbn;
    first [left; repeat split; reflexivity | right; right; split; reflexivity | right; left; repeat split; auto].
Qed.

(* ---- invariant 1: bookkeeping ---- *)
Definition pc_blocked (p : pc) : bool :=
  match p with
  | PLoop _ | PCall _ | PDfs _ _ | PRelease | PWait _ | PClear => true
  | PDone (Some (FCycle _ _)) | PDone (Some (FDep _)) => true
  | _ => false
  end.

Definition frame_rest_ok (fr : frame) : Prop :=
  match fr with Frame sq rest => forall d, In d rest -> d < nfiles g end.

Definition pc_ok (s : state) (f : nat) (p : pc) : Prop :=
  match p with
  | PCall i => exists d, nth_error (imports g f) i = Some d /\ created s d = true /\ d <> f
  | PDfs i st => i < length (imports g f) /\ Forall frame_rest_ok st
  | _ => True
  end.

Record inv1_task (s : state) (f : nat) : Prop := {
  i1_out : nfiles g <= f -> tpc (tasks s f) = PNone;
  i1_blocked : blocked (tasks s f) = pc_blocked (tpc (tasks s f));
  i1_clock : blocked (tasks s f) = true -> ptime (tasks s f) < clock s;
  i1_nodup : NoDup (checked (tasks s f));
  i1_checked : forall x, In x (checked (tasks s f)) -> x < nfiles g /\ created s x = true;
  i1_pc : pc_ok s f (tpc (tasks s f))
}.

Definition inv1 (s : state) : Prop :=
  (forall f, inv1_task s f) /\
  (forall x y, x <> y -> blocked (tasks s x) = true -> blocked (tasks s y) = true ->
               ptime (tasks s x) <> ptime (tasks s y)).

Lemma created_mono s f s' x : step g s f = Some s' -> created s x = true -> created s' x = true.
Proof.
  intros H Hc. destruct (Nat.eq_dec x f) as [->|Hx].
  - destruct (step_self _ _ _ H) as (t' & cr & pe & tick & Hl & Ht).
    unfold created in *. rewrite Ht. clear H Ht. local_cases Hl; cbn; try reflexivity;
      try (rewrite Epc in Hc; discriminate).
    all: try destruct (imports g f); reflexivity.
  - destruct (step_other _ _ _ x H Hx) as [E|(E & _)].
    + unfold created in *. now rewrite E.
    + unfold created in Hc. rewrite E in Hc. discriminate.
Qed.

Lemma inv1_init par req : (forall x, In x req -> x < nfiles g) -> inv1 (init par req).
Proof.
  intros Hreq. split.
  - intros f. constructor; unfold init; cbn; destruct (memb f req) eqn:E; cbn;
      try tauto; try constructor; try discriminate.
    intros Hf. apply memb_In in E. apply Hreq in E. lia.
  - intros x y _. cbn. destruct (memb x req); cbn; discriminate.
Qed.

Lemma get_blocked_lt s x d : In d (get_blocked g s x) -> d < nfiles g.
Proof.
  unfold get_blocked. destruct (blocked (tasks s x)); [|intros []]. intros H. apply (wfg _ _ H).
Qed.

Lemma nth_error_lt {A} (l : list A) i x : nth_error l i = Some x -> i < length l.
Proof. intros H. apply nth_error_Some. congruence. Qed.

Lemma step_f_lt s f s' : inv1 s -> step g s f = Some s' -> f < nfiles g.
Proof.
  intros [Ht _] H. destruct (le_lt_dec (nfiles g) f) as [Hle|]; [|assumption].
  pose proof (i1_out _ _ (Ht f) Hle) as E. unfold step, step_local in H. rewrite E in H. discriminate.
Qed.

(* the stepping task keeps inv1_task *)
Lemma inv1_step_self s f s' : inv1 s -> step g s f = Some s' -> inv1_task s' f.
Proof.
  intros Hinv H. pose proof (step_f_lt _ _ _ Hinv H) as Hf. destruct Hinv as [Ht Hdist].
  pose proof (step_clock_mono _ _ _ H) as Hck.
  destruct (step_spec _ _ _ H) as (t' & cr & pe & tick & Hl & Htk & Hc & _).
  pose proof (Ht f) as I. destruct I as [Io Ib Ic In_ Ich Ipc].
  assert (Hself : tasks s' f = t') by (rewrite Htk; apply upd_same).
  assert (Hcr : forall y, created s y = true -> created s' y = true)
    by (intros y; apply (created_mono _ _ _ _ H)).
  assert (Hold : forall y, In y (checked (tasks s f)) -> y < nfiles g /\ created s' y = true)
    by (intros y Hy'; destruct (Ich y Hy') as [A B]; split; [assumption|apply Hcr; assumption]).
  constructor; rewrite ?Hself.
  - intros; lia.
  - clear Htk Hself. local_cases Hl; cbn; try reflexivity; try (rewrite Ib; reflexivity).
    all: try (destruct (lres g f); reflexivity).
  - clear Htk Hself. intros Hb. local_cases Hl; cbn in *; try lia; try (specialize (Ic Hb); lia).
    all: try discriminate.
  - clear Htk Hself. local_cases Hl; cbn; try assumption.
    all: constructor; [apply memb_false; assumption|assumption].
  - clear Htk Hself. intros y Hy. local_cases Hl; cbn in Hy; try (apply Hold; assumption).
    + destruct Hy as [<-|Hy]; [|apply Hold; assumption].
      destruct Ipc as (d0 & Hd0 & Hcd & _). rewrite Heqo in Hd0. inversion Hd0; subst d0.
      split; [|apply Hcr; assumption]. apply nth_error_In in Heqo. apply (wfg _ _ Heqo).
    + destruct Hy as [<-|Hy]; [|apply Hold; assumption].
      destruct Ipc as (_ & Hfr). inversion Hfr as [|fr frs Hfr1 Hfr2]; subst.
      split; [apply Hfr1; left; reflexivity|]. apply Hcr.
      destruct (created s n); [reflexivity|discriminate].
  - clear Hself. local_cases Hl; cbn; try exact I.
    + exists n. split; [assumption|]. split; [apply Hcr; assumption|apply Nat.eqb_neq; assumption].
    + exists n. split; [assumption|]. split; [|apply Nat.eqb_neq; assumption].
      unfold created. rewrite Htk. apply Nat.eqb_neq in Heqb. rewrite upd_other by assumption.
      cbn [apply_create]. rewrite upd_same. reflexivity.
    + split; [eapply nth_error_lt; eassumption|]. repeat constructor.
      intros d Hd. eapply get_blocked_lt; eassumption.
    + destruct Ipc as [Hi Hfr]. split; [assumption|]. inversion Hfr; assumption.
    + destruct Ipc as [Hi Hfr]. split; [assumption|]. inversion Hfr as [|fr frs H1 H2]; subst.
      constructor; [|assumption]. intros d Hd. apply H1. right. assumption.
    + destruct Ipc as [Hi Hfr]. split; [assumption|]. inversion Hfr as [|fr frs H1 H2]; subst.
      constructor; [|assumption]. intros d Hd. apply H1. right. assumption.
    + destruct Ipc as [Hi Hfr]. split; [assumption|]. inversion Hfr as [|fr frs H1 H2]; subst.
      constructor; [intros d Hd; eapply get_blocked_lt; eassumption|].
      constructor; [|assumption]. intros d Hd. apply H1. right. assumption.
Qed.


Lemma inv1_step s f s' : inv1 s -> step g s f = Some s' -> inv1 s'.
Proof.
  intros Hinv H. pose proof (inv1_step_self _ _ _ Hinv H) as Hself.
  pose proof (step_f_lt _ _ _ Hinv H) as Hf.
  pose proof (step_clock_mono _ _ _ H) as Hck.
  destruct Hinv as [Ht Hdist].
  assert (Hcr : forall y, created s y = true -> created s' y = true)
    by (intros y; apply (created_mono _ _ _ _ H)).
  split.
  - intros x. destruct (Nat.eq_dec x f) as [->|Hx]; [assumption|].
    destruct (step_other _ _ _ x H Hx) as [E|(E & E' & Hin)].
    + destruct (Ht x) as [Io Ib Ic In_ Ich Ipc]. constructor; rewrite E; try assumption.
      * intros Hb. specialize (Ic Hb). lia.
      * intros y Hy. destruct (Ich y Hy). auto.
      * destruct (tpc (tasks s x)); cbn in *; try assumption.
        destruct Ipc as (d & A & B & C). exists d. auto.
    + constructor; rewrite E'; cbn; try constructor; try discriminate; try tauto.
      intros Hle. destruct (wfg _ _ Hin). lia.
  - intros x y Hxy Hbx Hby.
    destruct (step_spec _ _ _ H) as (t' & cr & pe & tick & Hl & Htk & Hc & _).
    pose proof (step_local_blocked _ _ _ _ _ _ Hl) as Hb. cbn zeta in Hb.
    assert (Hoth : forall z, z <> f -> blocked (tasks s' z) = true ->
                   tasks s' z = tasks s z).
    { intros z Hz Hbz. destruct (step_other _ _ _ z H Hz) as [E|(_ & E' & _)]; [assumption|].
      rewrite E' in Hbz. discriminate. }
    assert (Hselfeq : tasks s' f = t') by (rewrite Htk; apply upd_same).
    destruct (Nat.eq_dec x f) as [->|Hxf]; destruct (Nat.eq_dec y f) as [->|Hyf]; try congruence.
    + pose proof (Hoth y Hyf Hby) as Ey. rewrite Ey in Hby |- *. rewrite Hselfeq in *.
      destruct Hb as [(B1 & B2 & _)|[(_ & B1 & B2 & _)|(B1 & _)]].
      * rewrite B2. apply Hdist; congruence.
      * rewrite B2. pose proof (i1_clock _ _ (Ht y) Hby). lia.
      * congruence.
    + pose proof (Hoth x Hxf Hbx) as Ex. rewrite Ex in Hbx |- *. rewrite Hselfeq in *.
      destruct Hb as [(B1 & B2 & _)|[(_ & B1 & B2 & _)|(B1 & _)]].
      * rewrite B2. apply Hdist; congruence.
      * rewrite B2. pose proof (i1_clock _ _ (Ht x) Hbx). lia.
      * congruence.
    + pose proof (Hoth x Hxf Hbx) as Ex. pose proof (Hoth y Hyf Hby) as Ey.
      rewrite Ex in Hbx |- *. rewrite Ey in Hby |- *. apply Hdist; assumption.
Qed.

Lemma reach_inv1 par req s :
  (forall x, In x req -> x < nfiles g) -> reach par req s -> inv1 s.
Proof.
  intros Hreq H. induction H as [|s f s' Hr IH Hs]; [apply inv1_init; assumption|].
  eapply inv1_step; eassumption.
Qed.

(* ---- termination measure: every step strictly decreases it ---- *)
Variable D : nat.
Hypothesis Hdeg : forall f, length (imports g f) <= D.

Fixpoint entries (st : list frame) : nat :=
  match st with
  | [] => 0
  | Frame _ rest :: st' => length rest + entries st'
  end.

Definition weight (f : nat) (t : tstate) : nat :=
  let L := length (imports g f) in
  let N := nfiles g in
  let W := D + 2 in
  let base := L + 6 in
  let c := length (checked t) in
  match tpc t with
  | PDone _ => 0
  | PLink => 1
  | PReacquire => 2
  | PClear => 3
  | PWait i => (L - i) + 4
  | PRelease => L + 5
  | PLoop i => base + 3 * (L - i) + W * (N - c)
  | PCall i => base + 3 * (L - i) - 1 + W * (N - c)
  | PDfs i st => base + 3 * (L - i) - 2 + W * (N - c) + entries st + length st
  | PPublish => base + 3 * L + W * N + 1
  | PResolve => base + 3 * L + W * N + 2
  | PAcquire => base + 3 * L + W * N + 3
  | PNone => base + 3 * L + W * N + 4
  end.

Fixpoint sum_to (n : nat) (h : nat -> nat) : nat :=
  match n with O => 0 | S k => sum_to k h + h k end.

Definition measure (s : state) : nat := sum_to (nfiles g) (fun f => weight f (tasks s f)).

Lemma sum_to_le n h h' : (forall x, x < n -> h' x <= h x) -> sum_to n h' <= sum_to n h.
Proof.
  induction n as [|n IH]; intros H; cbn; [lia|].
  pose proof (H n ltac:(lia)). assert (sum_to n h' <= sum_to n h) by (apply IH; intros; apply H; lia). lia.
Qed.

Lemma sum_to_lt n h h' f : f < n -> (forall x, x < n -> h' x <= h x) -> h' f < h f ->
  sum_to n h' < sum_to n h.
Proof.
  induction n as [|n IH]; intros Hf H Hlt; [lia|]. cbn.
  destruct (Nat.eq_dec f n) as [->|Hn].
  - assert (sum_to n h' <= sum_to n h) by (apply sum_to_le; intros; apply H; lia). lia.
  - pose proof (H n ltac:(lia)).
    assert (sum_to n h' < sum_to n h) by (apply IH; [lia|intros; apply H; lia|assumption]). lia.
Qed.

Lemma checked_length s f : inv1 s -> length (checked (tasks s f)) <= nfiles g.
Proof.
  intros [Ht _]. destruct (Ht f) as [_ _ _ Hnd Hch _].
  rewrite <- (seq_length (nfiles g) 0). apply NoDup_incl_length; [assumption|].
  intros x Hx. apply in_seq. destruct (Hch x Hx). lia.
Qed.

Lemma checked_length_push s f d : inv1 s -> ~ In d (checked (tasks s f)) -> d < nfiles g ->
  S (length (checked (tasks s f))) <= nfiles g.
Proof.
  intros [Ht _] Hnin Hd. destruct (Ht f) as [_ _ _ Hnd Hch _].
  change (S (length (checked (tasks s f)))) with (length (d :: checked (tasks s f))).
  rewrite <- (seq_length (nfiles g) 0). apply NoDup_incl_length; [constructor; assumption|].
  intros x [<-|Hx]; apply in_seq; [lia|]. destruct (Hch x Hx). lia.
Qed.

Lemma get_blocked_length s x : length (get_blocked g s x) <= D.
Proof. unfold get_blocked. destruct (blocked (tasks s x)); [apply Hdeg|cbn; lia]. Qed.

Lemma step_weight_self s f s' : inv1 s -> step g s f = Some s' ->
  weight f (tasks s' f) < weight f (tasks s f).
Proof.
  intros Hinv H. destruct (step_self _ _ _ H) as (t' & cr & pe & tick & Hl & Ht). rewrite Ht. clear Ht H.
  pose proof (checked_length s f Hinv) as Hlen.
  pose proof (fun d => checked_length_push s f d Hinv) as Hpush.
  pose proof (i1_pc _ _ (proj1 Hinv f)) as Hpc.
  pose proof (Hdeg f) as HL.
  local_cases Hl; unfold weight; rewrite ?Epc; cbn [tpc checked set_pc set_pc_checked length entries].
  all: try match goal with Hn : nth_error _ _ = Some _ |- _ => pose proof (nth_error_lt _ _ _ Hn) end.
  all: try match goal with Hn : nth_error _ _ = None |- _ => apply nth_error_None in Hn end.
  all: cbn [pc_ok] in Hpc.
  all: try lia.
  all: try (set (X := (D + 2) * (nfiles g - length (checked (tasks s f)))); clearbody X; lia).
  - (* PCall push *)
    pose proof (get_blocked_length s n).
    apply memb_false in Heqb. apply nth_error_In in Heqo. destruct (wfg _ _ Heqo) as [_ Hn].
    specialize (Hpush n Heqb Hn).
    replace (nfiles g - length (checked (tasks s f))) with (S (nfiles g - S (length (checked (tasks s f))))) by lia.
    rewrite Nat.mul_succ_r.
    set (X := (D + 2) * (nfiles g - S (length (checked (tasks s f))))); clearbody X. lia.
  - (* PDfs push *)
    pose proof (get_blocked_length s n).
    apply memb_false in Heqb1. destruct Hpc as [Hi Hfr]. inversion Hfr as [|fr frs H1 H2]; subst.
    assert (Hn : n < nfiles g) by (apply H1; left; reflexivity).
    specialize (Hpush n Heqb1 Hn).
    replace (nfiles g - length (checked (tasks s f))) with (S (nfiles g - S (length (checked (tasks s f))))) by lia.
    rewrite Nat.mul_succ_r.
    set (X := (D + 2) * (nfiles g - S (length (checked (tasks s f))))); clearbody X. lia.
Qed.

Lemma step_measure s f s' : inv1 s -> step g s f = Some s' -> measure s' < measure s.
Proof.
  intros Hinv H. pose proof (step_f_lt _ _ _ Hinv H) as Hf.
  pose proof (step_weight_self _ _ _ Hinv H) as Hw.
  unfold measure. apply sum_to_lt with (f := f); [assumption| |assumption].
  intros x Hx. destruct (Nat.eq_dec x f) as [->|Hxf]; [lia|].
  destruct (step_other _ _ _ x H Hxf) as [E|(E & E' & _)]; [rewrite E; lia|].
  rewrite E'. unfold weight. rewrite E. cbn. lia.
Qed.

(* consequence: in any run at most (measure s) steps are actually taken, whatever the schedule *)
Fixpoint steps_taken (sched : list nat) (s : state) : nat :=
  match sched with
  | [] => 0
  | f :: rest => match step g s f with
                 | Some s' => S (steps_taken rest s')
                 | None => steps_taken rest s
                 end
  end.

Lemma steps_bounded par req : (forall x, In x req -> x < nfiles g) ->
  forall sched s, reach par req s -> steps_taken sched s <= measure s.
Proof.
  intros Hreq. induction sched as [|f rest IH]; intros s Hr; cbn [steps_taken]; [lia|].
  destruct (step g s f) as [s'|] eqn:E; [|apply IH; assumption].
  pose proof (step_measure _ _ _ (reach_inv1 _ _ _ Hreq Hr) E).
  specialize (IH s' (reach_step _ _ _ _ _ Hr E)). lia.
Qed.

End Exec.
