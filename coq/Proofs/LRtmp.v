From Coq Require Import List NArith ZArith Bool Lia Arith.
From PV Require Import Model.MiniProto Model.Lower.
Import ListNotations.
Open Scope Z_scope.

Definition msg_limit (body : list melem) : Z :=
  match is_msgset body with MsYes => msgset_max | _ => field_max end.
Definition own_rsvr (mt : Z) (e : melem) : list (Z * Z) :=
  match e with MReserved rs => fst (lower_ranges (fun r => msg_range r mt) rs) | _ => [] end.
Definition own_extr (mt : Z) (e : melem) : list (Z * Z) :=
  match e with
  | MExtensions rs => fst (lower_ranges (fun r => msg_range r mt) rs)
  | MExtensionsOpt rs _ => fst (lower_ranges (fun r => msg_range r mt) rs)
  | _ => []
  end.

Definition same_ranges (a b : macc) : Prop := a_rsvr b = a_rsvr a /\ a_extr b = a_extr a.

Lemma same_refl a : same_ranges a a. Proof. split; reflexivity. Qed.
Lemma same_trans a b c : same_ranges a b -> same_ranges b c -> same_ranges a c.
Proof. intros [H1 H2] [H3 H4]. split; congruence. Qed.
Lemma same_add_errs a es : same_ranges a (add_errs a es). Proof. split; reflexivity. Qed.
Lemma same_add_field a fd : same_ranges a (add_field a fd). Proof. split; reflexivity. Qed.
Lemma same_add_nested a m : same_ranges a (add_nested a m). Proof. split; reflexivity. Qed.
Lemma same_add_ext a fd : same_ranges a (add_ext a fd). Proof. split; reflexivity. Qed.

Lemma lower_elem_ranges : forall syn mt d e a,
  a_rsvr (lower_elem syn mt d a e) = a_rsvr a ++ own_rsvr mt e /\
  a_extr (lower_elem syn mt d a e) = a_extr a ++ own_extr mt e.
Proof.
  intros syn mt d e a. destruct e; cbn [own_rsvr own_extr]; rewrite ?app_nil_r.
  - simpl. destruct (as_field syn mt f). split; reflexivity.
  - simpl. destruct (lower_map syn mt (S d) key val nm num opts) as [[fd md] es]. split; reflexivity.
  - simpl. repeat match goal with |- context [match ?X with pair _ _ => _ end] => destruct X end. split; reflexivity.
  - simpl.
    match goal with |- context [match ?F ?p elems with pair _ _ => _ end] =>
      assert (Hst : forall els ac, same_ranges (fst ac) (fst (F ac els)));
      [ induction els as [|x r IHr]; intros ac; [apply same_refl|];
        destruct x; simpl; try apply IHr;
        repeat match goal with |- context [match ?X with pair _ _ => _ end] => destruct X end;
        (eapply same_trans; [|apply IHr]); cbn [fst]; split; reflexivity
      | destruct (F p elems) as [a2 n] eqn:E; specialize (Hst elems p); rewrite E in Hst; cbn [fst] in Hst;
        destruct Hst as [H1 H2]; destruct n; cbn; rewrite ?H1, ?H2; split; reflexivity ]
    end.
  - simpl. match goal with |- ?G => idtac G end.
Admitted.
