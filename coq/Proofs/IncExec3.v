(* Incremental executor model, acyclic dependency functions without panics: the dependency edges
   are exact, memoized values are the values of a fresh computation, Evict removes exactly the
   dependents. *)
From Coq Require Import List Arith Bool NArith Lia.
From PV Require Import Model.IncExec Proofs.IncExec1 Proofs.IncExec2.
Import ListNotations.

(* ---- the specification: a fresh computation ---- *)
Section Fresh.
Variable w : world.
Variable rk : key -> nat.
Hypothesis Hdag : forall i k d, In d (flatd w i k) -> rk d < rk k.

Fixpoint fresh (n : nat) (inp : key -> nat) (k : key) : N :=
  match n with
  | O => 0%N
  | S f => wcomp w (inp k) k (map (fun d => CV (fresh f inp d)) (flatd w (inp k) k))
  end.
Definition freshv (inp : key -> nat) (k : key) : N := fresh (S (rk k)) inp k.

Lemma fresh_stable inp : forall n k, rk k < n -> fresh n inp k = freshv inp k.
Proof.
  assert (H : forall m n k, rk k < m -> rk k < n -> fresh n inp k = fresh (S (rk k)) inp k).
  { induction m as [|m IH]; intros n k Hm Hn; [lia|].
    destruct n as [|n]; [lia|]. cbn [fresh]. f_equal. apply map_ext_in. intros d Hd.
    pose proof (Hdag _ _ _ Hd) as Hlt. f_equal.
    rewrite (IH n d) by lia. rewrite (IH (rk k) d) by lia. reflexivity. }
  intros n k Hn. unfold freshv. apply (H n); assumption.
Qed.

Lemma freshv_unfold inp k :
  freshv inp k = wcomp w (inp k) k (map (fun d => CV (freshv inp d)) (flatd w (inp k) k)).
Proof.
  unfold freshv at 1. cbn [fresh]. f_equal. apply map_ext_in. intros d Hd. f_equal.
  apply fresh_stable. apply (Hdag _ _ _ Hd).
Qed.

(* the value only depends on the inputs of the keys it (transitively) reads *)
Lemma freshv_local inp inp' (P : key -> Prop) :
  (forall k, P k -> inp' k = inp k /\ forall d, In d (flatd w (inp k) k) -> P d) ->
  forall k, P k -> freshv inp' k = freshv inp k.
Proof.
  intros HP. assert (H : forall n k, rk k < n -> P k -> freshv inp' k = freshv inp k).
  { induction n as [|n IH]; intros k Hn Hk; [lia|]. destruct (HP k Hk) as [E Hd].
    rewrite (freshv_unfold inp' k), (freshv_unfold inp k), E. f_equal. apply map_ext_in. intros d Hin. f_equal.
    apply IH; [pose proof (Hdag _ _ _ Hin); lia|apply Hd; assumption]. }
  intros k Hk. apply (H (S (rk k))); [lia|assumption].
Qed.
End Fresh.

(* ---- the closure computed by Evict ---- *)
Lemma filter_true_len {A} (l : list A) : length (filter (fun _ => true) l) = length l.
Proof. induction l; cbn; auto. Qed.

Section Closure.
Variable ed : list (key * key).

Inductive dependent (ks : list key) : key -> Prop :=
| dep_base k : In k ks -> dependent ks k
| dep_step c d : dependent ks d -> In (c, d) ed -> dependent ks c.

Lemma evict_close_incl fuel : forall acc, incl acc (evict_close fuel ed acc).
Proof.
  induction fuel as [|f IH]; intros acc x Hx; cbn; [assumption|]. apply IH. apply in_or_app. left. assumption.
Qed.

Lemma evict_close_sound fuel : forall acc ks, (forall x, In x acc -> dependent ks x) ->
  forall x, In x (evict_close fuel ed acc) -> dependent ks x.
Proof.
  induction fuel as [|f IH]; intros acc ks H x Hx; cbn in Hx; [apply H; assumption|].
  eapply IH; [|eassumption]. intros y Hy. apply in_app_or in Hy. destruct Hy as [Hy|Hy]; [apply H; assumption|].
  apply filter_In in Hy. destruct Hy as [Hy _]. apply in_flat_map in Hy. destruct Hy as (d & Hd & Hc).
  apply callers_of_In in Hc. eapply dep_step; [apply H; eassumption|assumption].
Qed.

(* number of keys below n that are in a list *)
Definition cnt (n : nat) (l : list key) : nat := length (filter (fun k => memb k l) (seq 0 n)).

Lemma filter_mono_len {A} (p q : A -> bool) l : (forall x, p x = true -> q x = true) ->
  length (filter p l) <= length (filter q l).
Proof.
  intros H. induction l as [|a l IH]; cbn; [lia|]. destruct (p a) eqn:Ep.
  - rewrite (H a Ep). cbn. lia.
  - destruct (q a); cbn; lia.
Qed.
Lemma filter_mono_lt {A} (p q : A -> bool) l x : (forall y, p y = true -> q y = true) ->
  In x l -> p x = false -> q x = true -> length (filter p l) < length (filter q l).
Proof.
  intros H. induction l as [|a l IH]; intros Hin Hp Hq; [destruct Hin|]. cbn.
  destruct Hin as [->|Hin].
  - rewrite Hp, Hq. cbn. pose proof (filter_mono_len p q l H). lia.
  - specialize (IH Hin Hp Hq). destruct (p a) eqn:Ep.
    + rewrite (H a Ep). cbn. lia.
    + destruct (q a); cbn; lia.
Qed.

Definition closed_set (acc : list key) : Prop := forall d c, In d acc -> In (c, d) ed -> In c acc.
Definition newc (acc : list key) : list key := filter (fun c => negb (memb c acc)) (flat_map (callers_of ed) acc).

Lemma newc_nil_closed acc : newc acc = [] -> closed_set acc.
Proof.
  intros Hn d c Hd Hc. destruct (memb c acc) eqn:E; [apply memb_In; assumption|].
  assert (In c (newc acc)) as Hin; [|rewrite Hn in Hin; destruct Hin].
  apply filter_In. split; [|rewrite E; reflexivity]. apply in_flat_map. exists d. split; [assumption|].
  apply callers_of_In. assumption.
Qed.
Lemma closed_newc_nil acc : closed_set acc -> newc acc = [].
Proof.
  intros H. unfold newc. destruct (filter _ _) as [|x l] eqn:E; [reflexivity|].
  assert (In x (x :: l)) as Hin by (left; reflexivity). rewrite <- E in Hin. apply filter_In in Hin.
  destruct Hin as [Hf Hm]. apply in_flat_map in Hf. destruct Hf as (d & Hd & Hc). apply callers_of_In in Hc.
  apply negb_true_iff, memb_false in Hm. exfalso. apply Hm. eapply H; eassumption.
Qed.
Lemma closed_stable fuel : forall acc, closed_set acc -> closed_set (evict_close fuel ed acc).
Proof.
  induction fuel as [|f IH]; intros acc H; cbn; [assumption|]. fold (newc acc).
  rewrite (closed_newc_nil acc H), app_nil_r. apply IH. assumption.
Qed.

Lemma evict_close_closed n : (forall c d, In (c, d) ed -> c < n) ->
  forall fuel acc, n <= cnt n acc + fuel -> closed_set (evict_close fuel ed acc).
Proof.
  intros Hb. induction fuel as [|f IH]; intros acc Hc.
  - cbn. intros d c Hd Hcd. pose proof (Hb _ _ Hcd) as Hlt.
    destruct (memb c acc) eqn:E; [apply memb_In; assumption|exfalso].
    assert (cnt n acc < length (filter (fun _ => true) (seq 0 n))).
    { unfold cnt. apply filter_mono_lt with (x := c); auto. apply in_seq. lia. }
    rewrite filter_true_len in H. rewrite seq_length in H. lia.
  - cbn. fold (newc acc). destruct (newc acc) as [|x l] eqn:En.
    + rewrite app_nil_r. apply closed_stable. apply newc_nil_closed. assumption.
    + apply IH. assert (In x (newc acc)) as Hx by (rewrite En; left; reflexivity).
      apply filter_In in Hx. destruct Hx as [Hf Hm]. apply in_flat_map in Hf. destruct Hf as (d & Hd & Hcd).
      apply callers_of_In in Hcd. pose proof (Hb _ _ Hcd) as Hlt.
      assert (cnt n acc < cnt n (acc ++ x :: l)).
      { unfold cnt. apply filter_mono_lt with (x := x).
        - intros y Hy. apply memb_In. apply in_or_app. left. apply memb_In. assumption.
        - apply in_seq. lia.
        - apply negb_true_iff. assumption.
        - apply memb_In. apply in_or_app. right. left. reflexivity. }
      lia.
Qed.
End Closure.

(* ---- the invariant ---- *)
Definition stored (p : pc) (gs : list (list key)) : list key :=
  match p with
  | PBody g => concat (firstn g gs)
  | PEdges g i => concat (firstn g gs) ++ firstn i (nth g gs [])
  | PStart g _ _ | PCall g _ | PJoinRel g | PJoin g | PJoinAcq g => concat (firstn (S g) gs)
  | PRelease _ | PClose _ => concat gs
  | _ => []
  end.
Definition nocyc_res (r : dres) : Prop := match r with DCyc _ => False | _ => True end.
Definition nocyc_pc (p : pc) : Prop :=
  match p with RCycW _ _ | RCycR _ => False | PReturn r => nocyc_res r | _ => True end.

Section Inv3.
Variable w : world.
Variable par : nat.
Hypothesis Hnp : forall k, wpanic w k = None.
Hypothesis Hwf : wf_world w.
Variable rk : key -> nat.
Hypothesis Hdag : forall i k d, In d (flatd w i k) -> rk d < rk k.

Record thread3 (s : state) (id : nat) : Prop := {
  v_pc : nocyc_pc (tpc (thr s id));
  v_slots : forall i p, nth_error (tslots (thr s id)) i <> Some (Some (DCyc p));
  v_acc : ~ In CC (tacc (thr s id));
  v_bfs : forall o q seen d, tpc (thr s id) = RCheck o q seen -> tkey (thr s id) = Some d ->
          forall x, In x q -> rk x <= rk d;
  v_stored : forall k, tkey (thr s id) = Some k ->
             forall d, In d (stored (tpc (thr s id)) (groups w s id)) -> In (k, d) (edges s);
  v_key : forall k, tkey (thr s id) = Some k -> k < wn w
}.

Record inv3 (s : state) : Prop := {
  k_thr : forall id, id < nthr s -> thread3 s id;
  k_e1 : forall c d, In (c, d) (edges s) -> In d (flatd w (inp s c) c);
  k_e2 : forall k, is_done s k = true -> forall d, In d (flatd w (inp s k) k) ->
         In (k, d) (edges s) /\ is_done s d = true;
  k_e3 : forall c d, In (c, d) (edges s) -> tmap s c <> TAbsent;
  k_e5 : forall k, tmap s k <> TAbsent -> k < wn w;
  k_val : forall k v, done_val s k = Some v -> v = freshv w rk (inp s) k;
  k_roots : forall id ks k, In (id, ks) (roots s) -> In k ks -> k < wn w
}.

Lemma is_done_val s k : is_done s k = true <-> exists v, done_val s k = Some v.
Proof.
  unfold is_done, done_val. destruct (tmap s k) as [| |o]; try (split; [discriminate|intros [v F]; discriminate]).
  destruct (oclosed (objs s o)); split; eauto; try discriminate. intros [v F]. discriminate.
Qed.

Lemma bfs_push_in ds x : forall q seen q' seen', bfs_push ds x q seen = (q', seen') ->
  forall y, In y q' -> In y q \/ In y ds.
Proof.
  induction ds as [|a ds IH]; intros q seen q' seen' H y Hy; cbn in H.
  - inversion H; subst. left. assumption.
  - destruct (memb a (map fst seen)).
    + destruct (IH _ _ _ _ H y Hy); [left|right; right]; assumption.
    + destruct (IH _ _ _ _ H y Hy) as [Hq|Hd]; [|right; right; assumption].
      apply in_app_or in Hq. destruct Hq as [Hq|[<-|[]]]; [left; assumption|right; left; reflexivity].
Qed.

(* a key that a thread handles is a dependency of its caller *)
Lemma callee_rank s id c d : inv1 w par s -> id < nthr s -> ended (tpc (thr s id)) = false ->
  tkey (thr s id) = Some d -> tcaller (thr s id) = Some c -> rk d < rk c.
Proof.
  intros Hi Hid Hl Hk Hc. pose proof (i_thr _ _ _ Hi id Hid) as Ht.
  destruct (t_host _ _ _ Ht ltac:(congruence) Hl) as [(hp & hi & g & grp & d' & H1 & H2 & H3 & H4 & H5 & H6 & H7 & _)].
  rewrite Hk in H7. inversion H7; subst d'. rewrite Hc in H4. unfold groups in H5. rewrite <- H4 in H5.
  apply (Hdag (inp s c) c d). unfold flatd. apply in_concat. exists grp. split; [eapply nth_error_In; eassumption|].
  eapply nth_error_In; eassumption.
Qed.


Lemma edges_mono s id e p x : In x (edges s) -> In x (edges (apply_eff s id e p)).
Proof.
  intros H. unfold apply_eff; cbn. destruct (e_edge e) as [ed|]; [|assumption].
  destruct (has_edge (edges s) ed); [assumption|apply in_or_app; left; assumption].
Qed.
Lemma edges_new s id e p ed : e_edge e = Some ed -> In ed (edges (apply_eff s id e p)).
Proof.
  intros H. unfold apply_eff; cbn. rewrite H. destruct (has_edge (edges s) ed) eqn:E.
  - apply has_edge_In. assumption.
  - apply in_or_app. right. left. reflexivity.
Qed.
Lemma edges_inv s id e p x : In x (edges (apply_eff s id e p)) -> In x (edges s) \/ e_edge e = Some x.
Proof.
  unfold apply_eff; cbn. destruct (e_edge e) as [ed|]; [|auto]. destruct (has_edge (edges s) ed); [auto|].
  intros H. apply in_app_or in H. destruct H as [H|[<-|[]]]; auto.
Qed.

Lemma firstn_S_last {A} (l : list A) i d : nth_error l i = Some d -> firstn (S i) l = firstn i l ++ [d].
Proof. apply firstn_S_nth. Qed.

Lemma step_self3 s id e p : inv1 w par s -> inv2 w s -> inv3 s -> id < nthr s -> step_local w s id = Some e ->
  let s' := apply_eff s id e p in let t' := e_self e in
  nocyc_pc (tpc t') /\
  (forall i q, nth_error (tslots t') i <> Some (Some (DCyc q))) /\
  ~ In CC (tacc t') /\
  (forall o q seen d, tpc t' = RCheck o q seen -> tkey t' = Some d -> forall x, In x q -> rk x <= rk d) /\
  (forall k, tkey t' = Some k -> forall d, In d (stored (tpc t') (groups w s id)) -> In (k, d) (edges s')).
Proof.
  intros Hi Hj Hk Hid H. pose proof (i_thr _ _ _ Hi id Hid) as Ht. pose proof (k_thr _ Hk id Hid) as Hv.
  pose proof (cancelled_false w par s (thr s id) Hi) as Hc.
  pose proof (t_hold _ _ _ Ht) as Hh. unfold hexp in Hh. pose proof (t_synconly _ _ _ Ht) as Hso.
  pose proof (t_mode _ _ _ Ht) as Hmo.
  pose proof (v_pc _ _ Hv) as Vp. pose proof (v_slots _ _ Hv) as Vs. pose proof (v_acc _ _ Hv) as Va.
  pose proof (v_bfs _ _ Hv) as Vb.
  assert (Vst : forall k, tkey (thr s id) = Some k -> forall d, In d (stored (tpc (thr s id)) (groups w s id)) ->
                In (k, d) (edges (apply_eff s id e p))).
  { intros k Hkk d Hd. apply edges_mono. eapply (v_stored _ _ Hv); eassumption. }
  pose proof (fun ed => edges_new s id e p ed) as Enew.
  pose proof (step_local_live w _ _ _ H) as Hlive.
  pose proof (fun c d => callee_rank s id c d Hi Hid Hlive) as Hrank.
  pose proof (t_slots _ _ _ Ht) as Tsl. pose proof (u_bodyg _ _ _ (j_thr _ _ Hj id Hid)) as Ub.
  destruct (step_self_id w s id e H) as (Ia & Ib & Ic & Id & Ie).
  cbv zeta. rewrite Ib. clear Ia Ib Ic Id Ie. set (s' := apply_eff s id e p) in *. clearbody s'.
  local_cases H; rewrite ?Epc in *; cbn [hpc] in Hh;
    rewrite ?after_resolve_nc by assumption;
    rewrite ?do_release_hold by (rewrite Hh; first [reflexivity | cbn; apply Hso; reflexivity]);
    cbn [e_self e_edge E Esem set_pc set_pc_hold set_pc_slots set_pc_obj set_pc_pub set_pc_disc leave_resolve
         tpc tslots tacc tkey nocyc_pc nocyc_res stored val_of] in *.
  all: try (specialize (Hmo _ (or_intror eq_refl)); discriminate).
  all: try match goal with Hb : panics_at _ _ _ _ = true |- _ => rewrite (panics_at_false w Hnp) in Hb; discriminate end.
  all: try contradiction.
  all: repeat split; try assumption; try exact I; try (intros; discriminate); try (intros; contradiction).
  all: try solve [intros o' q' sn' d' Hq Hd x Hx; inversion Hq; inversion Hd; subst; destruct Hx as [<-|[]]; lia].
  all: try solve [intros i' q' Hn; destruct (le_lt_dec (length l) i') as [Hle|Hlt];
                  [assert (nth_error (repeat (@None dres) (length l)) i' = None) as E
                     by (apply nth_error_None; rewrite repeat_length; lia); congruence
                  |rewrite nth_error_repeat in Hn by assumption; discriminate]].
  all: try solve [intros Hin; apply in_app_or in Hin; destruct Hin as [Hin|Hin]; [contradiction|];
                  apply in_map_iff in Hin; destruct Hin as ([[v ch|q|]|] & E & Hin); cbn in E; try discriminate;
                  apply In_nth_error in Hin; destruct Hin as [i' Hin]; eapply Vs; eassumption].
  all: try solve [destruct (tcaller (thr s id)) as [c|] eqn:Ec; [|discriminate]; apply Nat.eqb_eq in Heqb; subst c;
                  pose proof (Vb _ _ _ _ eq_refl eq_refl k0 (or_introl eq_refl));
                  pose proof (Hrank k0 k eq_refl eq_refl); lia].
  all: try solve [intros k1 Hk1 d' Hd'; apply (Vst k1 Hk1); rewrite firstn_all2; [assumption|];
                  apply nth_error_None in Heqo; lia].
  all: try solve [intros k1 Hk1 d' Hd'; apply (Vst k1 Hk1); cbn [firstn] in Hd'; rewrite app_nil_r in Hd'; assumption].
  - (* one node of the cycle check *)
    intros o' q' sn' d' Hq Hd x Hx. inversion Hq; inversion Hd; subst.
    match goal with Hb : bfs_push _ _ _ _ = _ |- _ => destruct (bfs_push_in _ _ _ _ _ _ Hb x Hx) as [Hin|Hin] end.
    + apply (Vb _ _ _ _ eq_refl eq_refl). right. assumption.
    + apply deps_of_In in Hin. pose proof (k_e1 _ Hk _ _ Hin) as Hf. pose proof (Hdag _ _ _ Hf).
      pose proof (Vb _ _ _ _ eq_refl eq_refl k0 (or_introl eq_refl)). lia.
  - intros k1 Hk1 d' Hd'. inversion Hk1; subst.
    match goal with Hg : nth_error (groups _ _ _) _ = Some ?l, Hd0 : nth_error ?l _ = Some _ |- _ =>
      rewrite (nth_error_nth _ _ _ Hg) in *; rewrite (firstn_S_nth _ _ _ Hd0) in Hd' end.
    rewrite app_assoc in Hd'. apply in_app_or in Hd'.
    destruct Hd' as [Hd'|[<-|[]]]; [apply (Vst _ eq_refl); assumption|apply Enew; reflexivity].
  - intros k1 Hk1 d' Hd'. inversion Hk1; subst.
    match goal with Hg : nth_error (groups _ _ _) _ = Some ?l, Hd0 : nth_error ?l _ = Some _ |- _ =>
      rewrite (nth_error_nth _ _ _ Hg) in *; rewrite (firstn_S_nth _ _ _ Hd0) in Hd' end.
    rewrite app_assoc in Hd'. apply in_app_or in Hd'.
    destruct Hd' as [Hd'|[<-|[]]]; [apply (Vst _ eq_refl); assumption|apply Enew; reflexivity].
  - intros k1 Hk1 d' Hd'. inversion Hk1; subst.
    match goal with Hg : nth_error (groups _ _ _) _ = Some ?l, Hd0 : nth_error ?l _ = Some _ |- _ =>
      rewrite (nth_error_nth _ _ _ Hg) in *; rewrite (firstn_S_nth _ _ _ Hd0) in Hd' end.
    rewrite app_assoc in Hd'. apply in_app_or in Hd'.
    destruct Hd' as [Hd'|[<-|[]]]; [apply (Vst _ eq_refl); assumption|apply Enew; reflexivity].
  - intros k1 Hk1 d' Hd'. apply (Vst k1 Hk1). rewrite (nth_error_nth _ _ _ Heqo).
    rewrite (firstn_S_nth _ _ _ Heqo), concat_app in Hd'. cbn [concat] in Hd'. rewrite app_nil_r in Hd'.
    apply nth_error_None in Heqo0. rewrite (firstn_all2 _ Heqo0). assumption.
  - intros i' q' Hn. destruct (Nat.eq_dec i' n) as [->|Hne].
    + destruct (le_lt_dec (length (tslots (thr s id))) n) as [Hle|Hlt].
      * assert (nth_error (set_slot (tslots (thr s id)) n d) n = None) as E
          by (apply nth_error_None; rewrite set_slot_length; assumption). congruence.
      * rewrite set_slot_same in Hn by assumption. inversion Hn; subst d.
        destruct (tmap s k) as [| |o']; try discriminate. destruct (oclosed (objs s o')); discriminate.
    + rewrite set_slot_other in Hn by assumption. eapply Vs; eassumption.
Qed.


Lemma done_mono s id e p k : inv1 w par s -> inv2 w s -> id < nthr s -> step_local w s id = Some e ->
  is_done s k = true -> is_done (apply_eff s id e p) k = true /\ done_val (apply_eff s id e p) k = done_val s k.
Proof.
  intros Hi Hj Hid Hl Hd. destruct (mem_stable w par s id e p Hi Hj Hid Hl) as (Ma & Mb & _).
  unfold is_done, done_val in *. destruct (tmap s k) as [| |o] eqn:Et; try discriminate.
  rewrite (Ma _ _ Et). destruct (Mb _ _ Et Hd) as (B1 & B2 & _). rewrite B1, B2, Hd. auto.
Qed.

(* the tacc of a leader that is about to publish its result *)
Lemma acc_fresh s l acc : inv3 s -> Forall2 (cres_ok s) l acc -> ~ In CC acc ->
  acc = map (fun d => CV (freshv w rk (inp s) d)) l /\ forall d, In d l -> is_done s d = true.
Proof.
  intros Hk H. induction H as [|d c l acc Hc H IH]; intros Hn; [split; [reflexivity|intros d []]|].
  destruct IH as [IH1 IH2]; [intros F; apply Hn; right; assumption|].
  destruct c as [v| |]; cbn in Hc; [|exfalso; apply Hn; left; reflexivity|contradiction].
  destruct Hc as (o & H1 & H2 & H3).
  assert (Hdv : done_val s d = Some v) by (unfold done_val; rewrite H1, H2, H3; reflexivity).
  split.
  - cbn [map]. f_equal; [f_equal; apply (k_val _ Hk _ _ Hdv)|exact IH1].
  - intros d' [<-|Hd']; [apply is_done_val; eauto|apply IH2; assumption].
Qed.

Lemma pedges_step s id e : inv1 w par s -> id < nthr s -> step_local w s id = Some e ->
  (forall ed, e_edge e = Some ed -> exists g grp i, tpc (thr s id) = PEdges g i /\
     nth_error (groups w s id) g = Some grp /\ nth_error grp i = Some (snd ed) /\ tkey (thr s id) = Some (fst ed)) /\
  (forall d, e_tmap e = Some (d, TNil) -> exists g grp i, tpc (thr s id) = PEdges g i /\
     nth_error (groups w s id) g = Some grp /\ nth_error grp i = Some d).
Proof.
  intros Hi Hid H. pose proof (t_mode _ _ _ (i_thr _ _ _ Hi id Hid)) as Hmo.
  pose proof (cancelled_false w par s (thr s id) Hi) as Hc.
  local_cases H; cbn; split; intros; try discriminate.
  all: try (unfold do_release, after_resolve in *;
            repeat match goal with Hx : context [if ?x then _ else _] |- _ => destruct x end; discriminate).
  all: try (specialize (Hmo _ (or_intror eq_refl)); discriminate).
  all: try match goal with Hb : wfix w && cancelled _ _ = true |- _ => rewrite Hc, andb_false_r in Hb; discriminate end.
  all: match goal with Hx : Some _ = Some _ |- _ => inversion Hx; subst end;
       do 3 eexists; cbn; repeat split; try reflexivity; eassumption.
Qed.

Lemma group_key_bound s id g grp i d : inv1 w par s -> inv3 s -> id < nthr s ->
  nth_error (groups w s id) g = Some grp -> nth_error grp i = Some d -> d < wn w.
Proof.
  intros Hi Hk Hid Hg Hd. unfold groups in Hg. destruct (tkey (thr s id)) as [k|] eqn:Ek.
  - apply (Hwf (inp s k) k). unfold flatd. apply in_concat. eexists; split; eapply nth_error_In; eassumption.
  - destruct (find (fun r => fst r =? id) (roots s)) as [[id' ks']|] eqn:Ef; [|destruct g; discriminate].
    apply find_some in Ef. destruct Ef as [Ef1 _].
    destruct g; [|destruct g; discriminate]. cbn in Hg. inversion Hg; subst grp.
    eapply (k_roots _ Hk); [exact Ef1|eapply nth_error_In; eassumption].
Qed.

Lemma inv3_step s id s1 : inv1 w par s -> inv2 w s -> inv3 s -> step w s id = Some s1 -> inv3 s1.
Proof.
  intros Hi Hj Hk H. destruct (step_spec _ _ _ _ H) as (Hid & e & p & Hl & -> & Hp).
  set (s' := apply_eff s id e p).
  destruct (thr_after w par s id e p Hi Hid Hl) as (Tself & Toth & Tn). fold s' in Tself, Toth, Tn.
  destruct (mem_stable w par s id e p Hi Hj Hid Hl) as (Ma & Mb & Mc & Md & Mn & Minp & Mroots & Mcyc).
  fold s' in Ma, Mb, Mc, Md, Mn, Minp, Mroots, Mcyc.
  destruct (step_self3 s id e p Hi Hj Hk Hid Hl) as (S1 & S2 & S3 & S4 & S5). fold s' in S5.
  destruct (step_self_id w s id e Hl) as (Ia & Ib & Ic & Id & Ie).
  pose proof (i_thr _ _ _ Hi id Hid) as Htid. pose proof (j_thr _ _ Hj id Hid) as Huid.
  pose proof (k_thr _ Hk id Hid) as Hvid.
  assert (Hkey : forall x, x < nthr s -> tkey (thr s' x) = tkey (thr s x)).
  { intros x Hx. destruct (Nat.eq_dec x id) as [->|Hxi]; [rewrite Tself; assumption|].
    destruct (Toth x Hx Hxi) as [->|(hi & r & h & _ & _ & ->)]; reflexivity. }
  assert (Hgr : forall x, x < nthr s -> groups w s' x = groups w s x) by (intros x Hx; apply groups_eq; auto).
  assert (Hem : forall x, In x (edges s) -> In x (edges s')) by (intros x; apply edges_mono).
  assert (Hdm : forall k, is_done s k = true -> is_done s' k = true /\ done_val s' k = done_val s k)
    by (intros k; apply done_mono; assumption).
  (* what becomes done in this step *)
  assert (Hnewdone : forall k, is_done s' k = true -> is_done s k = true \/
            (is_done s k = false /\ tpc (thr s id) = PClose MDone /\ tkey (thr s id) = Some k /\
             done_val s' k = Some (wcomp w (inp s k) k (tacc (thr s id))))).
  { intros k Hd. destruct (is_done s k) eqn:Eo; [left; reflexivity|right]. split; [reflexivity|].
    unfold is_done in Hd, Eo. destruct (tmap s' k) as [| |o] eqn:Et'; try discriminate.
    destruct (Md _ _ Et') as [A|(A1 & A2 & A3 & A4 & A5 & A6)]; [|rewrite A5 in Hd; discriminate].
    rewrite A in Eo. destruct (Mc _ _ A Eo) as [(C1 & _)|(C1 & C2 & C3 & C4)]; [congruence|].
    split; [assumption|]. split; [assumption|].
    unfold done_val. rewrite Et', Hd. f_equal.
    pose proof (cancelled_false w par s (thr s id) Hi) as Hc.
    clear - Hl C1 C2 C3 Hc. unfold step_local in Hl. cbv zeta in Hl. rewrite C1, C2, Hc, andb_false_r in Hl.
    inversion Hl; subst e. unfold s', apply_eff. cbn. rewrite <- C3, upd_same. reflexivity. }
  constructor.
  - intros x Hx. destruct (le_lt_dec (nthr s) x) as [Hge|Hlt].
    + destruct Tn as [E|(E & j & d & sy & h & Hc)]; [lia|]. assert (x = nthr s) as -> by lia.
      constructor; rewrite Hc; unfold child_of; cbn; try exact I; try (intros; discriminate); try (intros; contradiction).
      * intros i q. destruct i; discriminate.
      * intros F; exact F.
      * intros k Hkk. inversion Hkk; subst k.
        destruct (step_kinds w s id e Hl) as [[A B]|[(r & hp & hi & A1 & A2 & A3 & _)|(g & j' & nw & grp & d' & A1 & A2 & A3 & A4 & A5 & _)]].
        -- unfold s', apply_eff in E. cbn in E. rewrite B in E. lia.
        -- unfold s', apply_eff in E. cbn in E. rewrite A3 in E. lia.
        -- unfold s', apply_eff in Hc. cbn in Hc. rewrite A5, upd_same in Hc. unfold child_of in Hc. inversion Hc; subst.
           eapply group_key_bound; eassumption.
    + destruct (Nat.eq_dec x id) as [->|Hxi].
      * constructor; rewrite ?Tself, ?Hgr by assumption; try assumption. rewrite Ib. apply (v_key _ _ Hvid).
      * pose proof (k_thr _ Hk x Hlt) as Hv.
        destruct (Toth x Hlt Hxi) as [E|(hi & r & h & Q1 & Q2 & E)].
        -- constructor; rewrite ?E, ?Hgr by assumption; try apply Hv.
           intros k Hkk d Hd. apply Hem. eapply (v_stored _ _ Hv); eassumption.
        -- constructor; rewrite ?E, ?Hgr by assumption; cbn [slot_write tpc tslots tacc tkey]; try apply Hv.
           ++ intros i q. destruct (Nat.eq_dec i hi) as [->|Hne].
              ** destruct (le_lt_dec (length (tslots (thr s x))) hi) as [Hle|Hl'].
                 --- assert (nth_error (set_slot (tslots (thr s x)) hi r) hi = None) as En
                       by (apply nth_error_None; rewrite set_slot_length; assumption). congruence.
                 --- rewrite set_slot_same by assumption. intros F. inversion F; subst r.
                     pose proof (v_pc _ _ Hvid) as Vp. rewrite Q1 in Vp. exact Vp.
              ** rewrite set_slot_other by assumption. apply (v_slots _ _ Hv).
           ++ intros k Hkk d Hd. apply Hem. eapply (v_stored _ _ Hv); eassumption.
  - intros c d Hin. rewrite Minp. destruct (edges_inv s id e p _ Hin) as [Ho|Hn]; [apply (k_e1 _ Hk); assumption|].
    destruct (proj1 (pedges_step s id e Hi Hid Hl) _ Hn) as (g & grp & i & P1 & P2 & P3 & P4). cbn [fst snd] in *.
    unfold groups in P2. rewrite P4 in P2. unfold flatd. apply in_concat. eexists; split; eapply nth_error_In; eassumption.
  - intros k Hd d Hin. rewrite Minp in Hin. destruct (Hnewdone k Hd) as [Ho|(Ho & C1 & C2 & C3)].
    + destruct (k_e2 _ Hk k Ho d Hin) as [A B]. split; [apply Hem; assumption|apply (Hdm d B)].
    + pose proof (v_stored _ _ Hvid k C2 d) as Vst. rewrite C1 in Vst. cbn [stored] in Vst.
      assert (Hgk : groups w s id = wdeps w (inp s k) k) by (unfold groups; rewrite C2; reflexivity).
      rewrite Hgk in Vst. split; [apply Hem; apply Vst; assumption|].
      pose proof (u_acc _ _ _ Huid (length (groups w s id))) as Ua. unfold acc_index in Ua. rewrite C1 in Ua.
      specialize (Ua eq_refl). rewrite firstn_all, Hgk in Ua.
      destruct (acc_fresh s _ _ Hk Ua (v_acc _ _ Hvid)) as [_ Hall]. apply (Hdm d). apply Hall. assumption.
  - intros c d Hin. destruct (edges_inv s id e p _ Hin) as [Ho|Hn].
    + pose proof (k_e3 _ Hk _ _ Ho) as Hne. destruct (tmap s c) as [| |o] eqn:Et; [congruence| |rewrite (Ma _ _ Et); discriminate].
      intros F. unfold s', apply_eff in F. cbn [tmap] in F. destruct (e_tmap e) as [[k' v']|] eqn:Ee; [|congruence].
      unfold upd in F. destruct (Nat.eqb c k'); [|congruence].
      destruct (step_mem w par s id e Hi Hid Hl) as [(B1 & _)|[(k0 & _ & _ & _ & B & _)|[(d0 & _ & B & _)|[(o0 & path & _ & B & _)|(k0 & _ & _ & B & _)]]]]; congruence.
    + destruct (proj1 (pedges_step s id e Hi Hid Hl) _ Hn) as (g & grp & i & P1 & P2 & P3 & P4). cbn [fst snd] in *.
      destruct (u_leader _ _ _ Huid c P4 ltac:(rewrite P1; reflexivity)) as [A _]. rewrite (Ma _ _ A). discriminate.
  - intros k Hne. destruct (tmap s k) eqn:Et; [|apply (k_e5 _ Hk); congruence|apply (k_e5 _ Hk); congruence].
    unfold s', apply_eff in Hne. cbn [tmap] in Hne. destruct (e_tmap e) as [[k' v']|] eqn:Ee; [|congruence].
    unfold upd in Hne. destruct (Nat.eqb k k') eqn:Ek; [apply Nat.eqb_eq in Ek; subst k'|congruence].
    destruct (step_mem w par s id e Hi Hid Hl) as [(B1 & _)|[(k0 & B1 & _ & _ & B & _)|[(d0 & _ & B & _)|[(o0 & path & _ & B & _)|(k0 & _ & _ & B & _)]]]]; try congruence.
    + rewrite B in Ee. inversion Ee; subst. apply (v_key _ _ Hvid). assumption.
    + rewrite B in Ee. inversion Ee; subst.
      destruct (proj2 (pedges_step s id e Hi Hid Hl) _ B) as (g & grp & i & P1 & P2 & P3).
      eapply group_key_bound; eassumption.
  - intros k v Hv. rewrite Minp. assert (Hd : is_done s' k = true) by (apply is_done_val; eauto).
    destruct (Hnewdone k Hd) as [Ho|(Ho & C1 & C2 & C3)].
    + destruct (Hdm k Ho) as [_ E]. rewrite E in Hv. apply (k_val _ Hk); assumption.
    + rewrite C3 in Hv. inversion Hv; subst v.
      assert (Hgk : groups w s id = wdeps w (inp s k) k) by (unfold groups; rewrite C2; reflexivity).
      pose proof (u_acc _ _ _ Huid (length (groups w s id))) as Ua. unfold acc_index in Ua. rewrite C1 in Ua.
      specialize (Ua eq_refl). rewrite firstn_all, Hgk in Ua.
      destruct (acc_fresh s _ _ Hk Ua (v_acc _ _ Hvid)) as [Hacc _].
      rewrite (freshv_unfold w rk Hdag (inp s) k). unfold flatd. rewrite Hacc. reflexivity.
  - intros x ks k. rewrite Mroots. apply (k_roots _ Hk).
Qed.


Lemma set_inputs_other ks : forall vs m k, ~ In k ks -> set_inputs m ks vs k = m k.
Proof.
  induction ks as [|a ks IH]; intros vs m k Hn; cbn; [reflexivity|]. destruct vs as [|v vs]; [reflexivity|].
  rewrite IH by (intros F; apply Hn; right; assumption). apply upd_other. intros ->. apply Hn. left. reflexivity.
Qed.

Lemma inv3_start_run s ks : inv3 s -> (forall k, In k ks -> k < wn w) -> inv3 (start_run s ks).
Proof.
  intros Hk Hks. set (s' := start_run s ks).
  assert (Hnew : thr s' (nthr s) = root_thread (S (nrun s))) by (unfold s', start_run; cbn; apply upd_same).
  assert (Hoth : forall x, x < nthr s -> thr s' x = thr s x) by (intros x Hx; unfold s', start_run; cbn; apply upd_other; lia).
  assert (Hgr : forall x, x < nthr s -> groups w s' x = groups w s x) by (intros; apply groups_start_run; assumption).
  constructor; try apply Hk.
  - intros x Hx. change (nthr s') with (S (nthr s)) in Hx. destruct (Nat.eq_dec x (nthr s)) as [->|Hxn].
    + constructor; rewrite Hnew; cbn; try exact I; try (intros; discriminate); try (intros; contradiction).
      * intros i q. destruct i; discriminate.
      * intros F; exact F.
    + assert (Hx' : x < nthr s) by lia. pose proof (k_thr _ Hk x Hx') as Hv.
      constructor; rewrite ?Hoth, ?Hgr by assumption; apply Hv.
  - intros x ks' k [Hin|Hin] Hkk; [inversion Hin; subst; apply Hks; assumption|eapply (k_roots _ Hk); eassumption].
Qed.

(* Evict, possibly after a change of the inputs of the evicted keys *)
Lemma inv3_evict s ks inp' : inv1 w par s -> inv2 w s -> inv3 s -> quiescent s = true ->
  (forall k, ~ In k ks -> inp' k = inp s k) ->
  inv3 (evict w (with_inputs s inp') ks).
Proof.
  intros Hi Hj Hk Hq Hinp. set (s1 := with_inputs s inp'). set (s' := evict w s1 ks).
  set (ev := evict_set w s1 ks).
  pose proof (quiescent_ended s Hq) as He.
  assert (Hcl : closed_set (edges s) ev).
  { unfold ev, evict_set. apply (evict_close_closed (edges s) (wn w)); [|lia].
    intros c d Hin. apply (k_e5 _ Hk). apply (k_e3 _ Hk _ _ Hin). }
  assert (Hks : forall k, In k ks -> tmap s k <> TAbsent -> In k ev).
  { intros k Hin Hm. unfold ev, evict_set. apply evict_close_incl. apply filter_In. split; [assumption|].
    unfold in_map. cbn. destruct (tmap s k); congruence. }
  assert (Htm : forall k, tmap s' k = if memb k ev then TAbsent else tmap s k) by reflexivity.
  assert (Hed : forall c d, In (c, d) (edges s') <-> In (c, d) (edges s) /\ ~ In c ev).
  { intros c d. unfold s', evict. cbn [edges]. fold ev. rewrite filter_In. cbn [fst].
    rewrite negb_true_iff, memb_false. reflexivity. }
  assert (Hdone : forall k, is_done s' k = true -> is_done s k = true /\ ~ In k ev /\ ~ In k ks).
  { intros k Hd. unfold is_done in Hd. rewrite Htm in Hd. destruct (memb k ev) eqn:Em; [discriminate|].
    apply memb_false in Em. split; [exact Hd|]. split; [assumption|].
    intros Hin. apply Em. apply Hks; [assumption|]. unfold is_done in Hd. destruct (tmap s k); congruence. }
  assert (Hdone' : forall k, is_done s k = true -> ~ In k ev -> is_done s' k = true).
  { intros k Hd Hn. unfold is_done. rewrite Htm. apply memb_false in Hn. rewrite Hn. exact Hd. }
  assert (He2 : forall k, is_done s' k = true -> forall d, In d (flatd w (inp s k) k) ->
                In (k, d) (edges s') /\ is_done s' d = true).
  { intros k Hd d Hin. destruct (Hdone k Hd) as (D1 & D2 & D3).
    destruct (k_e2 _ Hk k D1 d Hin) as [A B]. split; [apply Hed; auto|].
    apply Hdone'; [assumption|]. intros Hdev. apply D2. eapply Hcl; eassumption. }
  constructor.
  - intros x Hx. change (nthr s') with (nthr s) in Hx. specialize (He x Hx). pose proof (k_thr _ Hk x Hx) as Hv.
    change (thr s' x) with (thr s x).
    constructor; try apply Hv.
    intros k Hkk d Hd. exfalso. revert Hd. change (thr s' x) with (thr s x).
    destruct (tpc (thr s x)); try discriminate; cbn; auto.
  - intros c d Hin. apply Hed in Hin. destruct Hin as [Hin Hn]. change (inp s') with inp'.
    rewrite Hinp; [apply (k_e1 _ Hk); assumption|].
    intros Hc. apply Hn. apply Hks; [assumption|apply (k_e3 _ Hk _ _ Hin)].
  - intros k Hd d Hin. destruct (Hdone k Hd) as (D1 & D2 & D3). change (inp s') with inp' in Hin.
    rewrite Hinp in Hin by assumption. apply He2; assumption.
  - intros c d Hin. apply Hed in Hin. destruct Hin as [Hin Hn]. rewrite Htm. apply memb_false in Hn. rewrite Hn.
    apply (k_e3 _ Hk _ _ Hin).
  - intros k Hm. rewrite Htm in Hm. destruct (memb k ev); [congruence|]. apply (k_e5 _ Hk). assumption.
  - intros k v Hv. assert (Hd : is_done s' k = true) by (apply is_done_val; eauto).
    destruct (Hdone k Hd) as (D1 & D2 & D3).
    assert (Hv0 : done_val s k = Some v).
    { unfold done_val in *. rewrite Htm in Hv. apply memb_false in D2. rewrite D2 in Hv. exact Hv. }
    rewrite (k_val _ Hk _ _ Hv0). change (inp s') with inp'. symmetry.
    apply (freshv_local w rk Hdag (inp s) inp' (fun k => is_done s' k = true)); [|assumption].
    intros k0 Hk0. destruct (Hdone k0 Hk0) as (E1 & E2 & E3). split; [apply Hinp; assumption|].
    intros d0 Hd0. apply (He2 k0 Hk0 d0 Hd0).
  - intros x ks' k. apply (k_roots _ Hk).
Qed.

Lemma inv3_event s e s' : inv1 w par s -> inv2 w s -> inv3 s -> do_event w s e = Some s' -> inv3 s'.
Proof.
  intros Hi Hj Hk H. destruct e as [t|ks|ks|ks vs]; cbn [do_event] in H.
  - eapply inv3_step; eassumption.
  - destruct (forallb (fun k => Nat.ltb k (wn w)) ks) eqn:Ef; inversion H. apply inv3_start_run; [assumption|].
    intros k Hin. rewrite forallb_forall in Ef. apply Nat.ltb_lt. apply Ef. assumption.
  - destruct (quiescent s) eqn:Hq; inversion H.
    replace s with (with_inputs s (inp s)) at 1 by (destruct s; reflexivity).
    apply inv3_evict; auto.
  - destruct (quiescent s) eqn:Hq; inversion H. apply inv3_evict; auto.
    intros k Hn. apply set_inputs_other. assumption.
Qed.

Lemma inv3_init inputs : inv3 (init par inputs).
Proof.
  constructor; cbn; try (intros; lia); try (intros; discriminate); try (intros; contradiction); try (intros; congruence).
Qed.

Lemma reach_inv3 inputs s : reach w par inputs s -> inv1 w par s /\ inv2 w s /\ inv3 s.
Proof.
  induction 1 as [|s e s' Hr (IH1 & IH2 & IH3) He].
  - split; [apply inv1_init|split; [apply inv2_init|apply inv3_init]].
  - split; [eapply inv1_event; eassumption|split; [eapply inv2_event; eassumption|eapply inv3_event; eassumption]].
Qed.

End Inv3.
