(* Outcome invariants of the compile executor model: soundness of cycle reports, closure of
   successful results, root causes of failures; the verdict theorem. *)
From Coq Require Import List Arith Bool Lia.
From PV Require Import Model.CompileExec Proofs.CompileExec1.
Import ListNotations.

Section Exec2.
Variable g : graph.
Hypothesis wfg : wf_graph g.
Variable par : nat.
Variable req : list nat.
Hypothesis Hreq : forall x, In x req -> x < nfiles g.

Notation reach := (reach g par req).

Ltac local_cases H :=
  unfold step_local in H; cbv zeta in H;
  match type of H with context [match tpc ?t with _ => _ end] => destruct (tpc t) eqn:Epc end;
  repeat match type of H with
         | context [match ?x with _ => _ end] => destruct x eqn:?
         end; try discriminate; inversion H; subst; clear H.

(* import paths *)
Inductive gpath : nat -> nat -> Prop :=
| gp_one a b : In b (imports g a) -> gpath a b
| gp_step a b c : In b (imports g a) -> gpath b c -> gpath a c.

Lemma gpath_trans a b c : gpath a b -> gpath b c -> gpath a c.
Proof. induction 1; intros; eapply gp_step; eauto. Qed.

Fixpoint is_path (l : list nat) : Prop :=
  match l with
  | a :: (b :: _) as t => In b (imports g a) /\ is_path t
  | _ => True
  end.

Lemma is_path_app_one l x : is_path l -> l <> [] -> In x (imports g (last l 0)) -> is_path (l ++ [x]).
Proof.
  induction l as [|a l IH]; intros Hp Hne Hl; [congruence|].
  destruct l as [|b l].
  - cbn. split; [assumption|exact I].
  - cbn [app is_path] in *. destruct Hp as [Hab Hp]. split; [assumption|].
    apply IH; [assumption|discriminate|]. exact Hl.
Qed.

(* every element after the head of a path is reachable from the head *)
Lemma is_path_gpath l a x : is_path (a :: l) -> In x l -> gpath a x.
Proof.
  revert a. induction l as [|b l IH]; intros a Hp Hx; [destruct Hx|].
  cbn [is_path] in Hp. destruct Hp as [Hab Hp]. destruct Hx as [<-|Hx].
  - apply gp_one. assumption.
  - eapply gp_step; [eassumption|]. apply IH; assumption.
Qed.

Lemma is_path_last_gpath l a : is_path (a :: l) -> l <> [] -> gpath a (last (a :: l) 0).
Proof.
  intros Hp Hl. apply is_path_gpath with (l := l); [assumption|].
  destruct l as [|b l]; [congruence|]. change (last (a :: b :: l) 0) with (last (b :: l) 0).
  clear. revert b. induction l as [|c l IH]; intros b; [left; reflexivity|].
  right. apply IH.
Qed.

(* from an element of a path to its last element *)
Lemma is_path_suffix l d : is_path l -> In d l -> d = last l 0 \/ gpath d (last l 0).
Proof.
  induction l as [|a l IH]; intros Hp Hd; [destruct Hd|].
  destruct l as [|b l].
  - destruct Hd as [<-|[]]. left. reflexivity.
  - destruct Hd as [<-|Hd].
    + right. apply is_path_last_gpath; [assumption|discriminate].
    + change (last (a :: b :: l) 0) with (last (b :: l) 0).
      cbn [is_path] in Hp. destruct Hp as [_ Hp]. apply IH; assumption.
Qed.

Definition frame_ok (f : nat) (fr : frame) : Prop :=
  match fr with
  | Frame sq rest => hd_error sq = Some f /\ is_path sq /\ incl rest (imports g (last sq 0))
  end.

Definition all_ok (s : state) (l : list nat) : Prop :=
  forall d, In d l -> tpc (tasks s d) = PDone None.

Definition root_cause (e : fail) : bool :=
  match e with FDep _ => false | _ => true end.

Record inv2_task (s : state) (f : nat) : Prop := {
  i2_frames : forall i st, tpc (tasks s f) = PDfs i st -> Forall (frame_ok f) st;
  i2_cycle : forall sq d, tpc (tasks s f) = PDone (Some (FCycle sq d)) ->
             hd_error sq = Some f /\ is_path sq /\ In d (imports g (last sq 0)) /\ In d sq;
  i2_ok : tpc (tasks s f) = PDone None ->
          rres g f = ROk /\ lres g f = true /\ all_ok s (imports g f) /\ ~ gpath f f;
  i2_wait : forall i, tpc (tasks s f) = PWait i -> all_ok s (firstn i (imports g f));
  i2_late : (tpc (tasks s f) = PClear \/ tpc (tasks s f) = PReacquire \/ tpc (tasks s f) = PLink) ->
            all_ok s (imports g f);
  i2_link : tpc (tasks s f) = PDone (Some FLink) -> all_ok s (imports g f);
  i2_dep : forall d, tpc (tasks s f) = PDone (Some (FDep d)) ->
           In d (imports g f) /\ exists e, tpc (tasks s d) = PDone (Some e);
  i2_res : match tpc (tasks s f) with
           | PNone | PAcquire | PResolve => True
           | PDone (Some FResolve) => rres g f = RErr
           | PDone (Some FPanic) => rres g f = RPanic
           | PDone (Some FLink) => rres g f = ROk /\ lres g f = false
           | _ => rres g f = ROk
           end;
  i2_reach : created s f = true -> In f req \/ exists r, In r req /\ gpath r f
}.

Definition inv2 (s : state) : Prop :=
  (forall f, inv2_task s f) /\
  (forall r, In r req -> created s r = true) /\
  ((exists f e, tpc (tasks s f) = PDone (Some e)) ->
   exists f e, tpc (tasks s f) = PDone (Some e) /\ root_cause e = true).

Lemma done_stable s f s' x r : step g s f = Some s' -> tpc (tasks s x) = PDone r ->
  tpc (tasks s' x) = PDone r.
Proof.
  intros H Hx. destruct (Nat.eq_dec x f) as [->|Hxf].
  - unfold step, step_local in H. rewrite Hx in H. discriminate.
  - destruct (step_other g _ _ _ x H Hxf) as [E|(E & _)]; [now rewrite E|congruence].
Qed.

Lemma all_ok_stable s f s' l : step g s f = Some s' -> all_ok s l -> all_ok s' l.
Proof. intros H Ha d Hd. eapply done_stable; eauto. Qed.

(* everything reachable from a successful result is successful *)
Lemma ok_closed s : inv2 s -> forall a b, gpath a b -> tpc (tasks s a) = PDone None ->
  tpc (tasks s b) = PDone None.
Proof.
  intros [Ht _] a b Hp. induction Hp as [a b Hab|a b c Hab Hbc IH]; intros Ha.
  - destruct (i2_ok _ _ (Ht a) Ha) as (_ & _ & Hall & _). apply Hall. assumption.
  - apply IH. destruct (i2_ok _ _ (Ht a) Ha) as (_ & _ & Hall & _). apply Hall. assumption.
Qed.

Lemma inv2_init : inv2 (init par req).
Proof.
  split; [|split].
  - intros f. constructor; unfold init; cbn; destruct (memb f req) eqn:E; cbn; try discriminate;
      try (intros; discriminate); try exact I.
    all: try (intros [A|[A|A]]; discriminate).
    + intros _. left. apply memb_In. assumption.
    + unfold created; cbn. rewrite E. discriminate.
  - intros r Hr. unfold created, init; cbn. apply memb_In in Hr. rewrite Hr. reflexivity.
  - intros (f & e & H). unfold init in H; cbn in H. destruct (memb f req); discriminate.
Qed.

Lemma get_blocked_incl s x : incl (get_blocked g s x) (imports g x).
Proof. unfold get_blocked. destruct (blocked (tasks s x)); [apply incl_refl|intros y []]. Qed.

Lemma firstn_S_nth {A} (l : list A) i d : nth_error l i = Some d -> firstn (S i) l = firstn i l ++ [d].
Proof.
  revert i. induction l as [|a l IH]; intros [|i] H; cbn in *; try discriminate.
  - inversion H. reflexivity.
  - rewrite (IH i H). reflexivity.
Qed.

Lemma hd_error_app {A} (l : list A) x a : hd_error l = Some a -> hd_error (l ++ [x]) = Some a.
Proof. destruct l; cbn; [discriminate|auto]. Qed.

Lemma inv2_step_self s f s' : inv1 g s -> inv2 s -> step g s f = Some s' -> inv2_task s' f.
Proof.
  intros Hinv1 Hinv2 H. destruct Hinv2 as [Ht [Hrq Hroot]].
  pose proof (Ht f) as I. destruct I as [Ifr Icy Iok Iwt Ilt Ilk Idp Irs Irc].
  destruct (step_spec g _ _ _ H) as (t' & cr & pe & tick & Hl & Htk & _).
  assert (Hself : tasks s' f = t') by (rewrite Htk; apply upd_same).
  assert (Hst : forall l, all_ok s l -> all_ok s' l) by (intros l; apply (all_ok_stable _ _ _ _ H)).
  constructor; rewrite ?Hself.
  - (* frames *)
    clear Hself Htk. intros i0 st0 E0. local_cases Hl; cbn in E0; try discriminate; inversion E0; subst; clear E0.
    + constructor; [|constructor]. cbn. split; [reflexivity|]. split.
      * split; [eapply nth_error_In; eassumption|exact I].
      * apply get_blocked_incl.
    + specialize (Ifr _ _ eq_refl). inversion Ifr; assumption.
    + specialize (Ifr _ _ eq_refl). inversion Ifr as [|fr frs H1 H2]; subst. constructor; [|assumption].
      cbn in *. destruct H1 as (A & B & C). repeat split; try assumption.
      intros y Hy. apply C. right. assumption.
    + specialize (Ifr _ _ eq_refl). inversion Ifr as [|fr frs H1 H2]; subst. constructor; [|assumption].
      cbn in *. destruct H1 as (A & B & C). repeat split; try assumption.
      intros y Hy. apply C. right. assumption.
    + specialize (Ifr _ _ eq_refl). inversion Ifr as [|fr frs H1 H2]; subst.
      cbn in H1. destruct H1 as (A & B & C).
      constructor; [|constructor; [|assumption]].
      * cbn. split; [apply hd_error_app; assumption|]. split.
        -- apply is_path_app_one; [assumption|destruct sq; discriminate|]. apply C. left. reflexivity.
        -- rewrite last_last. apply get_blocked_incl.
      * cbn. repeat split; try assumption. intros y Hy. apply C. right. assumption.
  - (* cycle reports are real *)
    clear Hself Htk. intros sq0 d0 E0. local_cases Hl; cbn in E0; try discriminate; inversion E0; subst; clear E0.
    + apply Nat.eqb_eq in Heqb. subst. cbn. apply nth_error_In in Heqo. auto.
    + specialize (Ifr _ _ eq_refl). inversion Ifr as [|fr frs H1 H2]; subst.
      cbn in H1. destruct H1 as (A & B & C). repeat split; try assumption.
      * apply C. left. reflexivity.
      * apply memb_In. assumption.
  - (* successful result *)
    clear Hself Htk. intros E0. local_cases Hl; cbn in E0; try discriminate.
    destruct (lres g f) eqn:El; [|discriminate].
    assert (Hall : all_ok s (imports g f)) by (apply Ilt; auto).
    repeat split; try assumption; [apply Hst; assumption|].
    intros Hcyc.
    assert (tpc (tasks s f) = PDone None); [|congruence].
    inversion Hcyc as [a b Hab|a b c Hab Hbc]; subst.
    + apply Hall. assumption.
    + eapply (ok_closed s (conj Ht (conj Hrq Hroot))); [eassumption|]. apply Hall. assumption.
  - (* wait prefix *)
    clear Hself Htk. intros i0 E0. local_cases Hl; cbn in E0; try discriminate; inversion E0; subst; clear E0.
    + intros d [].
    + apply Hst. rewrite (firstn_S_nth _ _ _ Heqo). intros d Hd. apply in_app_or in Hd.
      destruct Hd as [Hd|[<-|[]]]; [apply (Iwt _ eq_refl); assumption|assumption].
  - (* late phases *)
    clear Hself Htk. intros E0. apply Hst. local_cases Hl; cbn in E0; destruct E0 as [E0|[E0|E0]]; try discriminate.
    all: try (apply Ilt; auto; fail).
    + intros d [].
    + apply nth_error_None in Heqo. specialize (Iwt _ eq_refl). rewrite firstn_all2 in Iwt by assumption. assumption.
  - (* link failure *)
    clear Hself Htk. intros E0. apply Hst. local_cases Hl; cbn in E0; try discriminate. apply Ilt. auto.
  - (* failed dependency *)
    clear Hself Htk. intros d0 E0. local_cases Hl; cbn in E0; try discriminate; inversion E0; subst; clear E0.
    split; [eapply nth_error_In; eassumption|]. exists f0. eapply done_stable; eassumption.
  - (* resolver outcome *)
    clear Hself Htk. local_cases Hl; cbn; try assumption; try exact I; try (destruct (imports g f); assumption).
    all: try (destruct (lres g f) eqn:El; auto).
  - (* reachability of created results *)
    intros _. apply Irc. unfold created. unfold step, step_local in H.
    destruct (tpc (tasks s f)); try reflexivity. discriminate.
Qed.


Lemma created_stepping s f s' : step g s f = Some s' -> created s f = true.
Proof.
  unfold step, step_local, created. destruct (tpc (tasks s f)); try reflexivity. discriminate.
Qed.

Lemma inv2_step s f s' : inv1 g s -> inv2 s -> step g s f = Some s' -> inv2 s'.
Proof.
  intros Hinv1 Hinv2 H. pose proof (inv2_step_self _ _ _ Hinv1 Hinv2 H) as Hself.
  destruct Hinv2 as [Ht [Hrq Hroot]].
  assert (Hst : forall l, all_ok s l -> all_ok s' l) by (intros l; apply (all_ok_stable _ _ _ _ H)).
  split; [|split].
  - intros x. destruct (Nat.eq_dec x f) as [->|Hx]; [assumption|].
    destruct (step_other g _ _ _ x H Hx) as [E|(E & E' & Hin)].
    + destruct (Ht x) as [Ifr Icy Iok Iwt Ilt Ilk Idp Irs Irc]. constructor; rewrite ?E; try assumption.
      * intros Ho. destruct (Iok Ho) as (A & B & C & D). auto.
      * intros i Hi. apply Hst. auto.
      * intros Hl. apply Hst. auto.
      * intros Hl. apply Hst. auto.
      * intros d Hd. destruct (Idp d Hd) as (A & e & B). split; [assumption|]. exists e.
        eapply done_stable; eassumption.
      * intros Hc. apply Irc. unfold created in *. rewrite E in Hc. assumption.
    + constructor; rewrite ?E'; cbn; try discriminate; try (intros; discriminate); try exact I.
      * intros [A|[A|A]]; discriminate.
      * intros _. pose proof (created_stepping _ _ _ H) as Hcf.
        destruct (i2_reach _ _ (Ht f) Hcf) as [Hr|(r & Hr & Hp)].
        -- right. exists f. split; [assumption|]. apply gp_one. assumption.
        -- right. exists r. split; [assumption|]. eapply gpath_trans; [eassumption|]. apply gp_one. assumption.
  - intros r Hr. eapply created_mono; [eassumption|]. apply Hrq. assumption.
  - intros (x & e & Hx).
    assert (Hold : (exists f e, tpc (tasks s f) = PDone (Some e)) ->
                   exists f e, tpc (tasks s' f) = PDone (Some e) /\ root_cause e = true).
    { intros Hex. destruct (Hroot Hex) as (y & e' & Hy & Hrc). exists y, e'. split; [|assumption].
      eapply done_stable; eassumption. }
    destruct (Nat.eq_dec x f) as [->|Hxf].
    + destruct (root_cause e) eqn:Erc; [exists f, e; auto|].
      destruct e; try discriminate. apply Hold.
      destruct (step_self g _ _ _ H) as (t' & cr & pe & tick & Hl & Ht'). rewrite Ht' in Hx. clear Ht'.
      local_cases Hl; cbn in Hx; try discriminate.
      * exists n, f0. assumption.
    + apply Hold. destruct (step_other g _ _ _ x H Hxf) as [E|(E & E' & _)].
      * rewrite E in Hx. exists x, e. assumption.
      * rewrite E' in Hx. discriminate.
Qed.

Lemma reach_inv2 s : reach s -> inv1 g s /\ inv2 s.
Proof.
  intros H. induction H as [|s f s' Hr [IH1 IH2] Hs].
  - split; [apply inv1_init; assumption|apply inv2_init].
  - split; [eapply inv1_step; eassumption|eapply inv2_step; eassumption].
Qed.

(* ---- theorems ---- *)

(* a reported import cycle is a real cycle, reachable from the reporting file *)
Theorem cycle_report_sound s f sq d : reach s ->
  tpc (tasks s f) = PDone (Some (FCycle sq d)) ->
  gpath d d /\ (f = d \/ gpath f d) /\ (In f req \/ exists r, In r req /\ gpath r f).
Proof.
  intros Hr Hc. destruct (reach_inv2 _ Hr) as [_ [Ht _]].
  destruct (i2_cycle _ _ (Ht f) _ _ Hc) as (Hhd & Hp & Hlast & Hin).
  split; [|split].
  - destruct (is_path_suffix _ _ Hp Hin) as [->|Hg].
    + apply gp_one. assumption.
    + eapply gpath_trans; [eassumption|]. apply gp_one. assumption.
  - destruct sq as [|a l]; [discriminate|]. cbn in Hhd. inversion Hhd; subst a.
    destruct Hin as [->|Hin]; [left; reflexivity|right]. eapply is_path_gpath; eassumption.
  - apply (i2_reach _ _ (Ht f)). unfold created. rewrite Hc. reflexivity.
Qed.

Definition reachable_from_req (x : nat) : Prop := In x req \/ exists r, In r req /\ gpath r x.

(* success implies that everything reachable resolved, linked and is acyclic *)
Theorem success_implies_clean s : reach s -> verdict s req = true ->
  forall x, reachable_from_req x -> rres g x = ROk /\ lres g x = true /\ ~ gpath x x.
Proof.
  intros Hr Hv x Hx. destruct (reach_inv2 _ Hr) as [_ Hi2]. pose proof Hi2 as [Ht _].
  unfold verdict in Hv. rewrite forallb_forall in Hv.
  assert (Hok : tpc (tasks s x) = PDone None).
  { destruct Hx as [Hx|(r & Hrq & Hp)].
    - specialize (Hv x Hx). destruct (tpc (tasks s x)) as [| | | | | | | | | | | |[e|]]; try discriminate. reflexivity.
    - apply (ok_closed s Hi2 r x Hp). specialize (Hv r Hrq).
      destruct (tpc (tasks s r)) as [| | | | | | | | | | | |[e|]]; try discriminate. reflexivity. }
  destruct (i2_ok _ _ (Ht x) Hok) as (A & B & _ & C). auto.
Qed.

Lemma final_done s x : final g s = true -> x < nfiles g -> created s x = true ->
  exists r, tpc (tasks s x) = PDone r.
Proof.
  intros Hf Hx Hc. unfold final in Hf. rewrite forallb_forall in Hf.
  specialize (Hf x ltac:(apply in_seq; lia)). unfold created in Hc.
  destruct (tpc (tasks s x)); try discriminate. eauto.
Qed.

(* conversely: in a final state of a clean reachable graph every requested file succeeded *)
Theorem clean_implies_success s : reach s -> final g s = true ->
  (forall x, reachable_from_req x -> rres g x = ROk /\ lres g x = true /\ ~ gpath x x) ->
  verdict s req = true.
Proof.
  intros Hr Hf Hclean. destruct (reach_inv2 _ Hr) as [Hi1 Hi2]. pose proof Hi2 as [Ht [Hrq Hroot]].
  (* no task failed *)
  assert (Hnofail : ~ exists f e, tpc (tasks s f) = PDone (Some e)).
  { intros Hex. destruct (Hroot Hex) as (y & e & Hy & Hrc).
    assert (Hyr : reachable_from_req y) by (apply (i2_reach _ _ (Ht y)); unfold created; rewrite Hy; reflexivity).
    destruct (Hclean y Hyr) as (A & B & C).
    pose proof (i2_res _ _ (Ht y)) as Hres. rewrite Hy in Hres.
    destruct e; try discriminate; try congruence.
    - destruct Hres. congruence.
    - destruct (cycle_report_sound _ _ _ _ Hr Hy) as (Hdd & Hyd & _).
      assert (reachable_from_req d).
      { destruct Hyd as [<-|Hyd]; [assumption|]. destruct Hyr as [Hyr|(r & Hr' & Hp)].
        - right. exists y. auto.
        - right. exists r. split; [assumption|]. eapply gpath_trans; eassumption. }
      destruct (Hclean d H) as (_ & _ & Hn). contradiction. }
  unfold verdict. apply forallb_forall. intros r Hr'.
  destruct (final_done s r Hf (Hreq r Hr') (Hrq r Hr')) as ([e|] & He); rewrite He; [|reflexivity].
  exfalso. apply Hnofail. eauto.
Qed.

End Exec2.
