(* Incremental executor model: the C34 theorems.  Without panics (any dependency graph, cycles
   included, any parallelism >= 1, overlapping Runs): every Run completes and all permits come back.
   With panics the code as it is (wfix = false) can leave a task pending forever; witnesses below. *)
From Coq Require Import List Arith Bool NArith Lia.
From PV Require Import Model.IncExec Proofs.IncExec1 Proofs.IncExec2 Proofs.IncExec3 Proofs.IncExec5 Proofs.IncExec6.
Import ListNotations.

(* paths in the stored dependency edges *)
Inductive epath (ed : list (key * key)) : key -> key -> Prop :=
| ep_refl a : epath ed a a
| ep_step a b c : epath ed a b -> In (b, c) ed -> epath ed a c.

Lemma epath_mono ed ed' a b : (forall x, In x ed -> In x ed') -> epath ed a b -> epath ed' a b.
Proof. intros H. induction 1; [constructor|econstructor; eauto]. Qed.

Section Inv6.
Variable w : world.
Variable par : nat.
Hypothesis Hnp : forall k, wpanic w k = None.
Hypothesis Hwf : wf_world w.

Record inv6 (s : state) : Prop := {
  r_real : forall c d, In (c, d) (edges s) -> In d (flatd w (inp s c) c);
  r_inmap : forall c d, In (c, d) (edges s) -> tmap s c <> TAbsent;
  r_bfs : forall id o q seen d, id < nthr s -> tpc (thr s id) = RCheck o q seen -> tkey (thr s id) = Some d ->
          forall x, In x q -> epath (edges s) d x
}.

Lemma inv6_step s id s1 : inv1 w par s -> inv2 w s -> inv6 s -> step w s id = Some s1 -> inv6 s1.
Proof.
  intros Hi Hj Hr H. destruct (step_spec _ _ _ _ H) as (Hid & e & p & Hl & -> & Hp).
  set (s' := apply_eff s id e p).
  destruct (thr_after w par s id e p Hi Hid Hl) as (Tself & Toth & Tn). fold s' in Tself, Toth, Tn.
  destruct (mem_stable w par s id e p Hi Hj Hid Hl) as (Ma & _). fold s' in Ma.
  destruct (step_self_id w s id e Hl) as (Ia & Ib & Ic & Id & Ie).
  pose proof (j_thr _ _ Hj id Hid) as Huid.
  assert (Hem : forall x, In x (edges s) -> In x (edges s')) by (intros x; apply edges_mono).
  constructor.
  - intros c d Hin. change (inp s') with (inp s). destruct (edges_inv s id e p _ Hin) as [Ho|Hn]; [apply (r_real _ Hr); assumption|].
    destruct (proj1 (pedges_step w par s id e Hi Hid Hl) _ Hn) as (g & grp & i & P1 & P2 & P3 & P4). cbn [fst snd] in *.
    unfold groups in P2. rewrite P4 in P2. unfold flatd. apply in_concat. eexists; split; eapply nth_error_In; eassumption.
  - intros c d Hin. destruct (edges_inv s id e p _ Hin) as [Ho|Hn].
    + pose proof (r_inmap _ Hr _ _ Ho) as Hne. destruct (tmap s c) as [| |o] eqn:Et; [congruence| |rewrite (Ma _ _ Et); discriminate].
      intros F. unfold s', apply_eff in F. cbn [tmap] in F. destruct (e_tmap e) as [[k' v']|] eqn:Ee; [|congruence].
      unfold upd in F. destruct (Nat.eqb c k'); [|congruence].
      destruct (step_mem w par s id e Hi Hid Hl) as [(B1 & _)|[(k0 & _ & _ & _ & B & _)|[(d0 & _ & B & _)|[(o0 & path & _ & B & _)|(k0 & _ & _ & B & _)]]]]; congruence.
    + destruct (proj1 (pedges_step w par s id e Hi Hid Hl) _ Hn) as (g & grp & i & P1 & P2 & P3 & P4). cbn [fst snd] in *.
      destruct (u_leader _ _ _ Huid c P4 ltac:(rewrite P1; reflexivity)) as [A _]. rewrite (Ma _ _ A). discriminate.
  - intros x o q seen d Hx' Hpc Hk y Hy. destruct (le_lt_dec (nthr s) x) as [Hge|Hlt].
    + destruct Tn as [E|(E & j & d' & sy & h & Hc)]; [lia|]. assert (x = nthr s) as -> by lia. rewrite Hc in Hpc. discriminate.
    + destruct (Nat.eq_dec x id) as [->|Hxi].
      * rewrite Tself in *. rewrite Ib in Hk.
        destruct (rcheck_step w par s id e o q seen Hi Hid Hl Hpc) as [(d' & D1 & -> & ->)|(x0 & q0 & seen0 & D1 & D2)].
        -- destruct Hy as [<-|[]]. assert (d' = d) as -> by congruence. constructor.
        -- destruct (bfs_push_in _ _ _ _ _ _ D2 y Hy) as [Hq|Hd].
           ++ eapply epath_mono; [exact Hem|]. eapply (r_bfs _ Hr); try eassumption. right. assumption.
           ++ apply deps_of_In in Hd. econstructor; [|apply Hem; exact Hd].
              eapply epath_mono; [exact Hem|]. eapply (r_bfs _ Hr); try eassumption. left. reflexivity.
      * assert (Hth : tpc (thr s' x) = tpc (thr s x) /\ tkey (thr s' x) = tkey (thr s x)).
        { destruct (Toth x Hlt Hxi) as [->|(hi & r & h & _ & _ & ->)]; split; reflexivity. }
        destruct Hth as [E1 E2]. rewrite E1 in Hpc. rewrite E2 in Hk.
        eapply epath_mono; [exact Hem|]. eapply (r_bfs _ Hr); eassumption.
Qed.

Lemma inv6_event s e s' : inv1 w par s -> inv2 w s -> inv6 s -> do_event w s e = Some s' -> inv6 s'.
Proof.
  intros Hi Hj Hr H. destruct e as [t|ks|ks|ks vs]; cbn [do_event] in H.
  - eapply inv6_step; eassumption.
  - destruct (forallb (fun k => Nat.ltb k (wn w)) ks); inversion H. constructor; try apply Hr.
    intros x o q seen d Hx' Hpc Hk. unfold start_run in *. cbn in *. unfold upd in *.
    destruct (Nat.eqb x (nthr s)) eqn:Ex; [discriminate|]. apply Nat.eqb_neq in Ex.
    eapply (r_bfs _ Hr); try eassumption. lia.
  - destruct (quiescent s) eqn:Hq; inversion H. pose proof (quiescent_ended s Hq) as He. constructor.
    + intros c d Hin. unfold evict in Hin. cbn in Hin. apply filter_In in Hin. apply (r_real _ Hr). apply Hin.
    + intros c d Hin. unfold evict in *. cbn in *. apply filter_In in Hin. destruct Hin as [Hin Hn].
      cbn in Hn. apply negb_true_iff in Hn. rewrite Hn. apply (r_inmap _ Hr _ _ Hin).
    + intros x o q seen d Hx' Hpc. cbn in *. specialize (He x Hx'). rewrite Hpc in He. discriminate.
  - destruct (quiescent s) eqn:Hq; inversion H. pose proof (quiescent_ended s Hq) as He. constructor.
    + intros c d Hin. unfold evict in Hin. cbn in Hin. apply filter_In in Hin. destruct Hin as [Hin Hn]. cbn in Hn.
      apply negb_true_iff, memb_false in Hn.
      change (inp (evict w (with_inputs s (set_inputs (inp s) ks vs)) ks) c) with (set_inputs (inp s) ks vs c).
      rewrite set_inputs_other; [apply (r_real _ Hr); assumption|].
      intros Hc. apply Hn. unfold evict_set. apply evict_close_incl. apply filter_In. split; [assumption|].
      unfold in_map. cbn. pose proof (r_inmap _ Hr _ _ Hin). destruct (tmap s c); congruence.
    + intros c d Hin. unfold evict in *. cbn in *. apply filter_In in Hin. destruct Hin as [Hin Hn].
      cbn in Hn. apply negb_true_iff in Hn. rewrite Hn. apply (r_inmap _ Hr _ _ Hin).
    + intros x o q seen d Hx' Hpc. cbn in *. specialize (He x Hx'). rewrite Hpc in He. discriminate.
Qed.

Lemma reach_inv6 inputs s : reach w par inputs s -> inv6 s.
Proof.
  induction 1 as [|s e s' Hr IH He].
  - constructor; cbn; try (intros; contradiction); intros; lia.
  - destruct (reach_inv2 w par Hnp inputs s Hr) as [Hi Hj]. eapply inv6_event; eassumption.
Qed.

End Inv6.

Section C34.
Variable w : world.
Variable par : nat.
Hypothesis Hnp : forall k, wpanic w k = None.
Hypothesis Hwf : wf_world w.
Variable inputs : key -> nat.

(* from every reachable state the threads can be driven to quiescence (every Run has returned and
   all goroutines are gone), and no schedule can avoid it for more than measure-many steps *)
Theorem can_finish : 1 <= par -> forall s, reach w par inputs s ->
  exists sched, quiescent (run w (map EStep sched) s) = true.
Proof.
  intros Hpar.
  assert (Hind : forall n s, measure w s < n -> reach w par inputs s ->
                 exists sched, quiescent (run w (map EStep sched) s) = true).
  { induction n as [|n IH]; intros s Hm Hr; [lia|].
    destruct (quiescent s) eqn:Eq; [exists []; exact Eq|].
    destruct (no_deadlock w par Hnp Hwf inputs s Hpar Hr Eq) as (t & s' & Hs).
    destruct (reach_inv4 w par Hnp Hwf inputs s Hr) as (Hi & Hj & Hx).
    pose proof (step_measure w par Hnp s t s' Hi Hj Hx Hs) as Hlt.
    assert (Hr' : reach w par inputs s') by (apply (reach_ev w par inputs s (EStep t) s' Hr); exact Hs).
    destruct (IH s' ltac:(lia) Hr') as (sched & Hfin).
    exists (t :: sched). cbn [map run do_event]. rewrite Hs. exact Hfin. }
  intros s Hr. eapply Hind; [apply Nat.lt_succ_diag_r|assumption].
Qed.

Lemma holders_zero s : inv1 w par s -> quiescent s = true -> holders s = 0.
Proof.
  intros Hi Hq. pose proof (quiescent_ended s Hq) as He. unfold holders.
  assert (H : forall n, n <= nthr s -> sum_to n (fun i => b2n (thold (thr s i))) = 0).
  { induction n as [|n IH]; intros Hn; [reflexivity|]. cbn. rewrite IH by lia.
    pose proof (t_hold _ _ _ (i_thr _ _ _ Hi n ltac:(lia))) as Hh. specialize (He n ltac:(lia)).
    unfold hexp in Hh. destruct (tpc (thr s n)); try discriminate; rewrite Hh; reflexivity. }
  apply H. lia.
Qed.

(* when everything has returned, every permit is back in the semaphore *)
Theorem permits_all_released s : reach w par inputs s -> quiescent s = true -> permits s = par.
Proof.
  intros Hr Hq. destruct (reach_inv2 w par Hnp inputs s Hr) as [Hi _].
  pose proof (i_perm _ _ _ Hi) as Hp. rewrite (holders_zero s Hi Hq) in Hp. lia.
Qed.

(* nobody ever calls acquire() while holding or release() without holding (Task.abort is unreachable) *)
Theorem never_aborts s id : reach w par inputs s -> id < nthr s -> tpc (thr s id) <> PAbort.
Proof.
  intros Hr Hid. destruct (reach_inv2 w par Hnp inputs s Hr) as [Hi _]. apply (t_noabort _ _ _ (i_thr _ _ _ Hi id Hid)).
Qed.


(* checkCycle only reports a cycle when the stored edges - which are real dependencies - lead from the
   awaited query back to the caller, whose edge to the awaited query is stored too *)
Theorem cycle_detected_only_on_real_cycle s id o x q seen d :
  reach w par inputs s -> id < nthr s ->
  tpc (thr s id) = RCheck o (x :: q) seen -> tcaller (thr s id) = Some x -> tkey (thr s id) = Some d ->
  In (x, d) (edges s) /\ epath (edges s) d x /\
  (forall a b, In (a, b) (edges s) -> In b (flatd w (inp s a) a)).
Proof.
  intros Hr Hid Hpc Hc Hk. destruct (reach_inv5 w par Hnp Hwf inputs s Hr) as (Hi & Hj & Hx & Hz).
  pose proof (reach_inv6 w par Hnp inputs s Hr) as H6.
  split; [|split; [eapply (r_bfs _ _ H6); try eassumption; left; reflexivity|apply (r_real _ _ H6)]].
  pose proof (i_thr _ _ _ Hi id Hid) as Ht.
  destruct (t_host _ _ _ Ht ltac:(congruence) ltac:(rewrite Hpc; reflexivity)) as [(hp & hi & g & grp & d' & H1 & H2 & H3 & H4 & H5 & H6' & H7 & H8 & H9)].
  rewrite Hk in H7. inversion H7; subst d'. rewrite Hc in H4.
  assert (Hpg : pubd (tpc (thr s hp)) = Some g).
  { destruct (tsync (thr s id)); [destruct H9 as [_ [nw E]]; rewrite E; reflexivity|].
    destruct H9 as [_ E]. destruct (tpc (thr s hp)); cbn in E; try contradiction; cbn.
    - destruct E as (-> & _). reflexivity. - destruct E as (-> & _). reflexivity. - subst; reflexivity. - subst; reflexivity. }
  apply (y_stored _ _ _ (z_thr _ _ Hz hp ltac:(lia)) x g grp (eq_sym H4) Hpg H5). eapply nth_error_In; eassumption.
Qed.

End C34.
