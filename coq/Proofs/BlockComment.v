(* Proofs about the model of printer.emitBlockComment (Model/BlockComment.v): printing the printed
   comment again, at the same indentation depth, gives the same lines - for the verbatim mode of
   the Default preset without any premise, for the normalising mode of the Legacy preset for every
   comment whose last line is not blank and whose other lines do not begin with the closer (true of
   every block comment token: it ends with its only closer). *)
From Coq Require Import List NArith Bool Arith Lia.
From PV Require Import Common.Corr Model.BlockComment.
Import ListNotations.

(* ------------------------------------------------------------------ white space *)
Definition all_ws (l : line) : bool := forallb is_ws l.

Lemma trim_left_nil_iff l : trim_left l = [] <-> all_ws l = true.
Proof.
  induction l as [|c r IH]; cbn; [tauto|].
  destruct (is_ws c); cbn; [exact IH|]. split; discriminate.
Qed.

Lemma trim_left_all_ws_app a y : all_ws a = true -> trim_left (a ++ y) = trim_left y.
Proof.
  induction a as [|c r IH]; cbn; intros H; [reflexivity|].
  apply andb_prop in H as [H1 H2]. rewrite H1. auto.
Qed.

Lemma trim_left_app_nonblank x y : trim_left x <> [] -> trim_left (x ++ y) = trim_left x ++ y.
Proof.
  induction x as [|c r IH]; cbn; intros H; [congruence|].
  destruct (is_ws c); [auto|reflexivity].
Qed.

Lemma trim_left_head l c r : trim_left l = c :: r -> is_ws c = false.
Proof.
  induction l as [|d s IH]; cbn; [discriminate|].
  destruct (is_ws d) eqn:E; [exact IH|]. intros H. injection H as H1 H2. subst. exact E.
Qed.

Lemma trim_left_nonws c r : is_ws c = false -> trim_left (c :: r) = c :: r.
Proof. intros H. cbn. rewrite H. reflexivity. Qed.

Lemma trim_left_idem l : trim_left (trim_left l) = trim_left l.
Proof.
  destruct (trim_left l) as [|c r] eqn:E; [reflexivity|].
  apply trim_left_nonws. eapply trim_left_head; eauto.
Qed.

Lemma all_ws_app a b : all_ws (a ++ b) = all_ws a && all_ws b.
Proof. apply forallb_app. Qed.

Lemma all_ws_rev l : all_ws (rev l) = all_ws l.
Proof.
  induction l as [|c r IH]; cbn; [reflexivity|].
  rewrite all_ws_app, IH. cbn. rewrite andb_true_r. apply andb_comm.
Qed.

Lemma all_ws_spaces k : all_ws (spaces k) = true.
Proof. induction k; cbn; auto. Qed.

Lemma rev_nil_iff {A} (l : list A) : rev l = [] <-> l = [].
Proof.
  split; intros H; [|subst; reflexivity].
  apply (f_equal (@rev A)) in H. rewrite rev_involutive in H. exact H.
Qed.

Lemma trim_right_nil_iff l : trim_right l = [] <-> all_ws l = true.
Proof.
  split; intros H.
  - unfold trim_right in H. apply (proj1 (rev_nil_iff _)) in H. apply (proj1 (trim_left_nil_iff _)) in H.
    rewrite all_ws_rev in H. exact H.
  - unfold trim_right. apply (proj2 (rev_nil_iff _)). apply (proj2 (trim_left_nil_iff _)).
    rewrite all_ws_rev. exact H.
Qed.

Lemma trim_right_idem l : trim_right (trim_right l) = trim_right l.
Proof. unfold trim_right. rewrite rev_involutive, trim_left_idem. reflexivity. Qed.

Lemma trim_right_app a l : trim_right l <> [] -> trim_right (a ++ l) = a ++ trim_right l.
Proof.
  unfold trim_right. intros H. rewrite rev_app_distr.
  rewrite trim_left_app_nonblank.
  - rewrite rev_app_distr, rev_involutive. reflexivity.
  - intros E. apply H. rewrite E. reflexivity.
Qed.

Lemma trim_right_cons_nonws c r : is_ws c = false -> trim_right (c :: r) = c :: trim_right r.
Proof.
  intros H. destruct (all_ws r) eqn:A.
  - assert (E : trim_right r = []) by (apply trim_right_nil_iff; exact A). rewrite E.
    unfold trim_right. cbn [rev]. rewrite trim_left_all_ws_app by (rewrite all_ws_rev; exact A).
    rewrite trim_left_nonws by exact H. reflexivity.
  - change (c :: r) with ([c] ++ r). apply trim_right_app.
    intros E. apply trim_right_nil_iff in E. congruence.
Qed.

Lemma trim_right_cons_ws c r : is_ws c = true ->
  trim_right (c :: r) = if all_ws r then [] else c :: trim_right r.
Proof.
  intros H. destruct (all_ws r) eqn:A.
  - apply trim_right_nil_iff. change (is_ws c && all_ws r = true). rewrite H, A. reflexivity.
  - change (c :: r) with ([c] ++ r). apply trim_right_app.
    intros E. apply trim_right_nil_iff in E. congruence.
Qed.

Lemma trim_comm l : trim_left (trim_right l) = trim_right (trim_left l).
Proof.
  induction l as [|c r IH]; [reflexivity|].
  destruct (is_ws c) eqn:W.
  - rewrite trim_right_cons_ws by exact W. cbn [trim_left]. rewrite W.
    destruct (all_ws r) eqn:A.
    + apply trim_left_nil_iff in A. rewrite A. reflexivity.
    + cbn [trim_left]. rewrite W. exact IH.
  - rewrite trim_right_cons_nonws by exact W.
    rewrite !trim_left_nonws by exact W.
    rewrite trim_right_cons_nonws by exact W. reflexivity.
Qed.

Lemma blank_all_ws l : blank l = all_ws l.
Proof.
  unfold blank. destruct (trim_left l) eqn:E; cbn.
  - symmetry. apply trim_left_nil_iff. exact E.
  - destruct (all_ws l) eqn:A; [|reflexivity]. apply trim_left_nil_iff in A. congruence.
Qed.

Lemma trim_right_all_ws l : all_ws (trim_right l) = true -> trim_right l = [].
Proof.
  intros H. apply trim_right_nil_iff in H. rewrite trim_right_idem in H. exact H.
Qed.

(* a right-trimmed non-empty line is not blank, whatever white space is put before it *)
Lemma rt_nonblank a l : trim_right l = l -> l <> [] -> blank (a ++ l) = false.
Proof.
  intros R N. rewrite blank_all_ws, all_ws_app.
  destruct (all_ws l) eqn:A; [|apply andb_false_r].
  exfalso. apply N. rewrite <- R. apply trim_right_nil_iff. exact A.
Qed.

(* ------------------------------------------------------------------ columns *)
Lemma tab_stop_gt pos : pos < tab_stop pos.
Proof.
  unfold tab_stop. assert (pos mod 8 < 8) by (apply Nat.mod_upper_bound; lia). lia.
Qed.

Lemma vindent_from_ge l : forall pos, pos <= vindent_from pos l.
Proof.
  induction l as [|c r IH]; intros pos; cbn; [lia|].
  destruct (is_sp c); [specialize (IH (S pos)); lia|].
  destruct (is_tab c); [|lia]. specialize (IH (tab_stop pos)). pose proof (tab_stop_gt pos). lia.
Qed.

Lemma is_ws_32 : is_ws 32%N = true. Proof. reflexivity. Qed.

Lemma vindent_from_spaces j l : forall pos, vindent_from pos (spaces j ++ l) = vindent_from (pos + j) l.
Proof.
  induction j as [|j IH]; intros pos; cbn.
  - rewrite Nat.add_0_r. reflexivity.
  - rewrite IH. f_equal. lia.
Qed.

Lemma vindent_from_nonws pos c r : is_ws c = false -> vindent_from pos (c :: r) = pos.
Proof.
  unfold is_ws. intros H. apply orb_false_elim in H as [H1 H2]. cbn. rewrite H1, H2. reflexivity.
Qed.

Lemma unindent_spaces j l : forall pos, unindent_from pos (pos + j) (spaces j ++ l) = l.
Proof.
  induction j as [|j IH]; intros pos.
  - cbn [spaces repeat app]. rewrite Nat.add_0_r. destruct l; [reflexivity|].
    cbn [unindent_from]. rewrite Nat.eqb_refl. reflexivity.
  - change (spaces (S j) ++ l) with (32%N :: (spaces j ++ l)).
    cbn [unindent_from].
    replace (pos =? pos + S j) with false by (symmetry; apply Nat.eqb_neq; lia).
    replace (pos + S j <? pos) with false by (symmetry; apply Nat.ltb_ge; lia).
    rewrite (eq_refl : is_sp 32%N = true).
    replace (pos + S j) with (S pos + j) by lia. apply IH.
Qed.

(* removing the whole indentation of a line that is not blank leaves the line without it *)
Lemma unindent_own l : forall pos, blank l = false ->
  unindent_from pos (vindent_from pos l) l = trim_left l.
Proof.
  induction l as [|c r IH]; intros pos B; [discriminate|].
  unfold blank in B. cbn [trim_left] in B.
  cbn [unindent_from vindent_from trim_left].
  unfold is_ws in *. destruct (is_sp c) eqn:S1; cbn [orb] in *.
  - pose proof (vindent_from_ge r (S pos)).
    replace (pos =? vindent_from (S pos) r) with false by (symmetry; apply Nat.eqb_neq; lia).
    replace (vindent_from (S pos) r <? pos) with false by (symmetry; apply Nat.ltb_ge; lia).
    apply IH. exact B.
  - destruct (is_tab c) eqn:T1.
    + pose proof (vindent_from_ge r (tab_stop pos)). pose proof (tab_stop_gt pos).
      replace (pos =? vindent_from (tab_stop pos) r) with false by (symmetry; apply Nat.eqb_neq; lia).
      replace (vindent_from (tab_stop pos) r <? pos) with false by (symmetry; apply Nat.ltb_ge; lia).
      apply IH. exact B.
    + rewrite Nat.eqb_refl. reflexivity.
Qed.

(* unindent only touches leading white space *)
Lemma trim_left_unindent l : forall pos n, blank l = false ->
  trim_left (unindent_from pos n l) = trim_left l.
Proof.
  induction l as [|c r IH]; intros pos n B; [reflexivity|].
  cbn [unindent_from].
  destruct (pos =? n); [reflexivity|].
  destruct (n <? pos).
  { apply trim_left_all_ws_app. apply all_ws_spaces. }
  unfold blank in B. cbn [trim_left] in B. cbn [trim_left]. unfold is_ws in *.
  destruct (is_sp c) eqn:S1; cbn [orb] in *; [apply IH; exact B|].
  destruct (is_tab c) eqn:T1; [apply IH; exact B|].
  cbn [trim_left]. unfold is_ws. rewrite S1, T1. reflexivity.
Qed.

Lemma unindent_blank l : forall pos n, blank l = true -> all_ws (unindent_from pos n l) = true.
Proof.
  induction l as [|c r IH]; intros pos n B; [reflexivity|].
  rewrite blank_all_ws in B.
  cbn [unindent_from].
  destruct (pos =? n); [exact B|].
  destruct (n <? pos); [rewrite all_ws_app, all_ws_spaces; exact B|].
  cbn in B. apply andb_prop in B as [B1 B2]. unfold is_ws in B1.
  destruct (is_sp c); [apply IH; rewrite blank_all_ws; exact B2|].
  destruct (is_tab c); [apply IH; rewrite blank_all_ws; exact B2|]. discriminate.
Qed.

(* ------------------------------------------------------------------ minimum of a list *)
Definition omin (a : nat) (o : option nat) : option nat :=
  match o with None => Some a | Some m => Some (Nat.min a m) end.
Fixpoint min_list (xs : list nat) : option nat :=
  match xs with [] => None | x :: r => omin x (min_list r) end.

Lemma min_list_spec xs m : min_list xs = Some m -> In m xs /\ Forall (fun x => m <= x) xs.
Proof.
  revert m. induction xs as [|x r IH]; intros m H; [discriminate|].
  cbn in H. destruct (min_list r) as [m'|] eqn:E; cbn in H; injection H as H; subst.
  - destruct (IH m' eq_refl) as [I F]. split.
    + destruct (Nat.min_dec x m') as [D|D]; rewrite D; [left; reflexivity|right; exact I].
    + constructor; [lia|]. eapply Forall_impl; [|exact F]. cbn. intros. lia.
  - destruct r; [|cbn in E; destruct (min_list r); discriminate].
    split; [left; reflexivity|]. constructor; [lia|constructor].
Qed.

Lemma min_list_some xs : xs <> [] -> exists m, min_list xs = Some m.
Proof.
  destruct xs as [|x r]; [congruence|]. intros _. cbn. destruct (min_list r); cbn; eauto.
Qed.

Lemma min_list_unique xs m :
  In m xs -> Forall (fun x => m <= x) xs -> min_list xs = Some m.
Proof.
  intros I F. destruct (min_list_some xs) as [m' E]; [destruct xs; [destruct I|congruence]|].
  destruct (min_list_spec _ _ E) as [I' F'].
  rewrite Forall_forall in F, F'. specialize (F _ I'). specialize (F' _ I).
  rewrite E. f_equal. lia.
Qed.

Lemma min_indent_v_min_list ls :
  min_indent_v ls = min_list (map vindent (filter (fun l => negb (blank l)) ls)).
Proof.
  induction ls as [|l r IH]; [reflexivity|].
  cbn. destruct (blank l); cbn; rewrite IH; reflexivity.
Qed.

(* ------------------------------------------------------------------ verbatim *)
Definition rtrimmed (l : line) : Prop := trim_right l = l.

Lemma trim_last_fix ls : Forall rtrimmed ls -> trim_last ls = ls.
Proof.
  intros F. unfold trim_last. destruct (rev ls) as [|l r] eqn:E.
  - apply (proj1 (rev_nil_iff _)) in E. subst. reflexivity.
  - assert (R : rtrimmed l).
    { rewrite Forall_forall in F. apply F. apply in_rev. rewrite E. left. reflexivity. }
    rewrite R. rewrite <- E. apply rev_involutive.
Qed.

Lemma trim_last_shape ls : ls <> [] ->
  exists a l, ls = a ++ [l] /\ trim_last ls = a ++ [trim_right l].
Proof.
  intros N. destruct (exists_last N) as [a [l E]]. exists a, l. split; [exact E|].
  subst. unfold trim_last. rewrite rev_app_distr. cbn. rewrite rev_involutive. reflexivity.
Qed.

Lemma rtrimmed_spaces_app k l : rtrimmed l -> l <> [] -> rtrimmed (spaces k ++ l).
Proof.
  unfold rtrimmed. intros R N. rewrite trim_right_app; [rewrite R; reflexivity|].
  rewrite R. exact N.
Qed.

Lemma nonempty_true l : nonempty l = true <-> l <> [].
Proof. destruct l; cbn; split; congruence. Qed.

(* the lines after the first that the verbatim mode leaves: right-trimmed, not empty, and - when
   any is left - one of them begins with something that is not white space *)
Definition vlines (rest : list line) : list line :=
  filter nonempty (map (fun l => trim_right (unindent l (or0 (min_indent_v rest)))) rest).

Lemma vlines_props rest :
  Forall (fun l => rtrimmed l /\ l <> []) (vlines rest).
Proof.
  unfold vlines. apply Forall_forall. intros l I. apply filter_In in I as [I N].
  apply in_map_iff in I as [l0 [E _]]. subst l. split.
  - apply trim_right_idem.
  - apply nonempty_true. exact N.
Qed.

Lemma min_indent_v_none rest : min_indent_v rest = None -> Forall (fun l => blank l = true) rest.
Proof.
  induction rest as [|l r IH]; intros E; [constructor|].
  cbn in E. destruct (blank l) eqn:B.
  - constructor; [exact B|apply IH; exact E].
  - destruct (min_indent_v r); discriminate.
Qed.

Lemma vlines_all_blank rest : Forall (fun l => blank l = true) rest ->
  filter nonempty (map (fun l => trim_right (unindent l 0)) rest) = [].
Proof.
  induction 1 as [|l r B _ IH]; [reflexivity|].
  cbn [map filter].
  assert (A : trim_right (unindent l 0) = []).
  { apply trim_right_nil_iff. apply unindent_blank. exact B. }
  rewrite A. cbn. exact IH.
Qed.

Lemma vlines_head rest : vlines rest <> [] ->
  exists c r, In (c :: r) (vlines rest) /\ is_ws c = false.
Proof.
  intros N. unfold vlines in *. destruct (min_indent_v rest) as [m|] eqn:E; cbn [or0] in *.
  - rewrite min_indent_v_min_list in E. apply min_list_spec in E as [I _].
    apply in_map_iff in I as [l [V I]]. apply filter_In in I as [I B].
    apply negb_true_iff in B.
    assert (U : unindent l m = trim_left l).
    { unfold unindent. rewrite <- V. apply unindent_own. exact B. }
    destruct (trim_left l) as [|c r] eqn:T.
    { unfold blank in B. rewrite T in B. discriminate. }
    pose proof (trim_left_head _ _ _ T) as W.
    exists c, (trim_right r). split; [|exact W].
    apply filter_In. split; [|reflexivity].
    apply in_map_iff. exists l. split; [|exact I].
    rewrite U. apply trim_right_cons_nonws. exact W.
  - exfalso. apply N. apply min_indent_v_none in E. apply vlines_all_blank. exact E.
Qed.

(* printing again the lines the verbatim mode printed at depth k *)
Lemma min_indent_v_reprint k L :
  Forall (fun l => rtrimmed l /\ l <> []) L ->
  (exists c r, In (c :: r) L /\ is_ws c = false) ->
  min_indent_v (map (fun l => spaces k ++ l) L) = Some k.
Proof.
  intros F [c [r [I W]]]. rewrite min_indent_v_min_list. apply min_list_unique.
  - apply in_map_iff. exists (spaces k ++ c :: r). split.
    + unfold vindent. rewrite vindent_from_spaces. apply vindent_from_nonws. exact W.
    + apply filter_In. split; [apply in_map_iff; exists (c :: r); auto|].
      apply negb_true_iff. rewrite Forall_forall in F. destruct (F _ I) as [R N].
      apply rt_nonblank; assumption.
  - apply Forall_forall. intros x Ix. apply in_map_iff in Ix as [l [V Il]]. subst x.
    apply filter_In in Il as [Il _]. apply in_map_iff in Il as [l0 [E _]]. subst l.
    unfold vindent. rewrite vindent_from_spaces. pose proof (vindent_from_ge l0 (0 + k)). lia.
Qed.

Lemma verbatim_rest_reprint k rest :
  verbatim_rest k (verbatim_rest k rest) = verbatim_rest k rest.
Proof.
  change (verbatim_rest k rest) with (map (fun l => spaces k ++ l) (vlines rest)).
  pose proof (vlines_props rest) as F.
  destruct (vlines rest) as [|l0 L0] eqn:EL; [reflexivity|].
  assert (H : exists c r, In (c :: r) (vlines rest) /\ is_ws c = false).
  { apply vlines_head. rewrite EL. discriminate. }
  rewrite EL in H. remember (l0 :: L0) as L. clear HeqL EL l0 L0.
  unfold verbatim_rest at 1. rewrite (min_indent_v_reprint k L F H). cbn [or0].
  f_equal. rewrite map_map.
  assert (M : map (fun x => trim_right (unindent (spaces k ++ x) k)) L = L).
  { rewrite <- (map_id L) at 2. apply map_ext_in. intros l I.
    rewrite Forall_forall in F. destruct (F _ I) as [R _].
    unfold unindent. pose proof (unindent_spaces k l 0) as U. cbn [Nat.add] in U. rewrite U. exact R. }
  rewrite M. clear M H.
  induction F as [|l L [R N] _ IH]; [reflexivity|].
  cbn [filter]. apply nonempty_true in N. rewrite N. f_equal. exact IH.
Qed.

Lemma verbatim_rest_rtrimmed k rest : Forall rtrimmed (verbatim_rest k rest).
Proof.
  change (verbatim_rest k rest) with (map (fun l => spaces k ++ l) (vlines rest)).
  apply Forall_forall. intros x I. apply in_map_iff in I as [l [E I]]. subst x.
  pose proof (vlines_props rest) as F. rewrite Forall_forall in F. destruct (F _ I).
  apply rtrimmed_spaces_app; assumption.
Qed.

Lemma trim_last_single ls f : trim_last ls = [f] -> rtrimmed f.
Proof.
  intros E. destruct ls as [|x xs]; [discriminate|].
  destruct (trim_last_shape (x :: xs)) as [a [l [E1 E2]]]; [discriminate|].
  rewrite E in E2. destruct a as [|y a]; cbn in E2.
  - injection E2 as E2. subst f. apply trim_right_idem.
  - destruct a; discriminate.
Qed.

Lemma emit_verbatim_reprint k f rest :
  emit_verbatim k (trim_right f :: verbatim_rest k rest) = trim_right f :: verbatim_rest k rest.
Proof.
  unfold emit_verbatim. rewrite trim_last_fix.
  2:{ constructor; [apply trim_right_idem|apply verbatim_rest_rtrimmed]. }
  destruct (verbatim_rest k rest) as [|v vs] eqn:V; [reflexivity|].
  rewrite <- V. rewrite trim_right_idem, verbatim_rest_reprint. reflexivity.
Qed.

Theorem emit_verbatim_idempotent_lemma : forall k ls,
  emit_verbatim k (emit_verbatim k ls) = emit_verbatim k ls.
Proof.
  intros k ls.
  assert (C : emit_verbatim k ls = [] \/ (exists l, emit_verbatim k ls = [l] /\ rtrimmed l)
              \/ exists f rest, emit_verbatim k ls = trim_right f :: verbatim_rest k rest).
  { unfold emit_verbatim. destruct (trim_last ls) as [|f rest] eqn:E; [left; reflexivity|].
    destruct rest as [|l1 rest'].
    - right. left. exists f. split; [reflexivity|]. eapply trim_last_single; eauto.
    - right. right. eauto. }
  destruct C as [E|[[l [E R]]|[f [rest E]]]]; rewrite E.
  - reflexivity.
  - unfold emit_verbatim. rewrite trim_last_fix by (constructor; [exact R|constructor]). reflexivity.
  - apply emit_verbatim_reprint.
Qed.

(* ------------------------------------------------------------------ normalised *)
Definition core (l : line) : line := trim_right (trim_left l).

Lemma core_rtrimmed l : trim_right (core l) = core l.
Proof. unfold core. apply trim_right_idem. Qed.

Lemma core_nonblank l : blank l = false ->
  exists c r, trim_left l = c :: r /\ is_ws c = false /\ core l = c :: trim_right r.
Proof.
  unfold blank. destruct (trim_left l) as [|c r] eqn:T; [discriminate|]. intros _.
  exists c, r. pose proof (trim_left_head _ _ _ T) as W. repeat split; auto.
  unfold core. rewrite T. apply trim_right_cons_nonws. exact W.
Qed.

Lemma core_of_rtrimmed l : rtrimmed l -> core l = trim_left l.
Proof. unfold core, rtrimmed. intros R. rewrite <- trim_comm, R. reflexivity. Qed.

Lemma trim_left_core l : trim_left (core l) = core l.
Proof. unfold core. rewrite <- trim_comm. apply trim_left_idem. Qed.

Lemma line_eqb_eq a b : line_eqb a b = true <-> a = b.
Proof.
  unfold line_eqb, list_N_eqb. destruct (list_eq_dec N.eq_dec a b); split; congruence.
Qed.

Lemma starts_close_close : starts_close close_tok = true.
Proof. reflexivity. Qed.

(* a line whose trimmed text is the closer begins with the closer *)
Lemma core_close_starts l : core l = close_tok -> starts_close (trim_left l) = true.
Proof.
  intros E. destruct (blank l) eqn:B.
  - unfold blank, core in *. destruct (trim_left l); [discriminate E|discriminate B].
  - destruct (core_nonblank l B) as [c [r [T [W C]]]]. rewrite C in E. rewrite T.
    unfold close_tok in E. injection E as E1 E2. subst c.
    destruct r as [|d r']; [discriminate E2|].
    destruct (is_ws d) eqn:Wd.
    + rewrite trim_right_cons_ws in E2 by exact Wd. destruct (all_ws r'); [discriminate|].
      injection E2 as E2 _. subst d. discriminate Wd.
    + rewrite trim_right_cons_nonws in E2 by exact Wd. injection E2 as E2 _. subst d. reflexivity.
Qed.

(* what the first loop looks at in a line: nothing, or the first character of its trimmed text *)
Definition psig_t (t : line) : option N :=
  if is_nil t || line_eqb t close_tok then None else hd_error t.
Definition psig (l : line) : option N := psig_t (trim_left l).

Definition pfx_step (ps : N * bool) (ch : N) : N * bool :=
  if is_comment_prefix ch then
    if negb (snd ps) then (ch, true)
    else if negb (ch =? fst ps)%N then (0%N, snd ps) else (fst ps, snd ps)
  else (0%N, snd ps).

Lemma scan_step_psig st l :
  scan_step st l =
  match psig l with
  | None => st
  | Some ch => mkScan (omin (vindent l) (s_min st))
                      (fst (pfx_step (s_pfx st, s_set st) ch)) (snd (pfx_step (s_pfx st, s_set st) ch))
  end.
Proof.
  unfold scan_step, psig, psig_t. destruct (trim_left l) as [|ch t]; [reflexivity|].
  destruct (is_nil (ch :: t) || line_eqb (ch :: t) close_tok); [reflexivity|].
  cbn [hd_error]. unfold pfx_step, omin. cbn [fst snd].
  destruct (is_comment_prefix ch); [|destruct (s_min st); reflexivity].
  destruct (negb (s_set st)); [destruct (s_min st); reflexivity|].
  destruct (negb (ch =? s_pfx st)%N); destruct (s_min st); reflexivity.
Qed.

Definition sig_list (l : line) : list N := match psig l with None => [] | Some c => [c] end.
Definition sigs (ls : list line) : list N := flat_map sig_list ls.
Definition takes_part (l : line) : bool := match psig l with None => false | Some _ => true end.
Definition parts (ls : list line) : list line := filter takes_part ls.

Lemma scan_fold ls : forall st,
  let st' := fold_left scan_step ls st in
  (s_pfx st', s_set st') = fold_left pfx_step (sigs ls) (s_pfx st, s_set st)
  /\ s_min st' = fold_left (fun o x => omin x o) (map vindent (parts ls)) (s_min st).
Proof.
  induction ls as [|l r IH]; intros st; [split; reflexivity|].
  cbn [fold_left]. specialize (IH (scan_step st l)). cbv zeta in *. destruct IH as [IH1 IH2].
  rewrite IH1, IH2. unfold sigs, parts. cbn [flat_map filter]. unfold sig_list at 2, takes_part at 2.
  rewrite scan_step_psig. destruct (psig l) as [ch|]; cbn [app map fold_left s_pfx s_set s_min].
  - rewrite <- surjective_pairing. split; reflexivity.
  - split; reflexivity.
Qed.

Lemma fold_omin xs : forall o,
  fold_left (fun o x => omin x o) xs o = match min_list xs with None => o | Some m => omin m o end.
Proof.
  induction xs as [|x r IH]; intros o; [reflexivity|].
  cbn [fold_left min_list]. rewrite IH. destruct (min_list r) as [m|]; cbn [omin].
  - destruct o; cbn [omin]; f_equal; lia.
  - reflexivity.
Qed.

Lemma scan_min ls : s_min (scan ls) = min_list (map vindent (parts ls)).
Proof.
  unfold scan. destruct (scan_fold ls (mkScan None 0%N false)) as [_ H]. cbv zeta in H.
  rewrite H. cbn [s_min]. rewrite fold_omin. destruct (min_list _); reflexivity.
Qed.

Lemma scan_pfx ls : (s_pfx (scan ls), s_set (scan ls)) = fold_left pfx_step (sigs ls) (0%N, false).
Proof.
  unfold scan. destruct (scan_fold ls (mkScan None 0%N false)) as [H _]. exact H.
Qed.

Lemma sigs_app a b : sigs (a ++ b) = sigs a ++ sigs b.
Proof. unfold sigs. apply flat_map_app. Qed.

Lemma parts_app a b : parts (a ++ b) = parts a ++ parts b.
Proof. unfold parts. apply filter_app. Qed.

(* ---- one line and what the second loop makes of it *)
Definition rl (k : nat) (e : option line) : line :=
  match e with None => [] | Some c => spaces k ++ c end.

Lemma render_ends_some k es c : render k (es ++ [Some c]) = map (rl k) (es ++ [Some c]).
Proof.
  induction es as [|e r IH]; [reflexivity|].
  cbn [app render map]. rewrite IH. destruct e as [x|]; [reflexivity|].
  destruct r; reflexivity.
Qed.

Lemma norm_entry_blank pfx m l : blank l = true -> norm_entry pfx m l = None.
Proof. unfold norm_entry, blank. intros B. rewrite B. reflexivity. Qed.

Lemma trim_left_spaces k l : trim_left (spaces k ++ l) = trim_left l.
Proof. apply trim_left_all_ws_app. apply all_ws_spaces. Qed.

Lemma norm_entry_nonblank k pfx m l : blank l = false ->
  exists c, norm_entry pfx m l = Some c /\ trim_left (spaces k ++ c) = core l
            /\ (pfx <> 0%N -> c = 32%N :: core l)
            /\ (pfx = 0%N -> c = (32 :: 32 :: 32 :: trim_right (unindent l m))%N).
Proof.
  intros B. destruct (core_nonblank l B) as [c0 [r0 [T [W C]]]].
  unfold norm_entry. unfold blank in B. rewrite B.
  destruct (pfx =? 0)%N eqn:P; cbn [negb].
  - assert (X : trim_left (trim_right (unindent l m)) = core l).
    { rewrite trim_comm. unfold unindent. rewrite trim_left_unindent; [reflexivity|exact B]. }
    destruct (trim_right (unindent l m)) as [|x xs] eqn:U.
    { cbn in X. rewrite C in X. discriminate. }
    cbn [is_nil]. eexists. split; [reflexivity|]. split; [|split].
    + rewrite trim_left_spaces. exact X.
    + intros N. apply N.eqb_eq in P. contradiction.
    + intros _. reflexivity.
  - eexists. split; [reflexivity|]. split; [|split].
    + rewrite trim_left_spaces. change (trim_left (32%N :: trim_right (trim_left l))) with (trim_left (core l)).
      apply trim_left_core.
    + intros _. reflexivity.
    + intros N. apply N.eqb_neq in P. contradiction.
Qed.

Lemma psig_t_core l : blank l = false ->
  starts_close (trim_left l) = false \/ rtrimmed l ->
  psig_t (core l) = psig_t (trim_left l).
Proof.
  intros B [H|H].
  - destruct (core_nonblank l B) as [c [r [T [W C]]]].
    unfold psig_t. rewrite C, T. cbn [is_nil orb hd_error].
    destruct (line_eqb (c :: trim_right r) close_tok) eqn:E1.
    { apply line_eqb_eq in E1. rewrite <- C in E1. apply core_close_starts in E1. congruence. }
    destruct (line_eqb (c :: r) close_tok) eqn:E2; [|reflexivity].
    apply line_eqb_eq in E2. rewrite T, E2 in H. discriminate.
  - rewrite core_of_rtrimmed by exact H. reflexivity.
Qed.

Lemma psig_entry k pfx m l :
  starts_close (trim_left l) = false \/ rtrimmed l ->
  psig (rl k (norm_entry pfx m l)) = psig l.
Proof.
  intros H. destruct (blank l) eqn:B.
  - rewrite norm_entry_blank by exact B. unfold psig, blank in *. cbn.
    destruct (trim_left l); [reflexivity|discriminate].
  - destruct (norm_entry_nonblank k pfx m l B) as [c [E [T _]]]. rewrite E. cbn [rl].
    unfold psig. rewrite T. apply psig_t_core; assumption.
Qed.

Lemma standalone_close_tl a b : trim_left a = trim_left b -> standalone_close a = standalone_close b.
Proof. unfold standalone_close. intros E. rewrite E. reflexivity. Qed.

Lemma spaces_add a b : spaces a ++ spaces b = spaces (a + b).
Proof. unfold spaces. symmetry. apply repeat_app. Qed.

Lemma three_spaces xx : (32 :: 32 :: 32 :: xx)%N = spaces 3 ++ xx.
Proof. reflexivity. Qed.

Lemma vindent_plain k xx : vindent (spaces k ++ (32 :: 32 :: 32 :: xx)%N) = vindent_from (k + 3) xx.
Proof.
  rewrite three_spaces, app_assoc, spaces_add. unfold vindent. rewrite vindent_from_spaces. reflexivity.
Qed.

Lemma unindent_plain k xx : unindent (spaces k ++ (32 :: 32 :: 32 :: xx)%N) (k + 3) = xx.
Proof.
  rewrite three_spaces, app_assoc, spaces_add. unfold unindent.
  pose proof (unindent_spaces (k + 3) xx 0) as U. cbn [Nat.add] in U. exact U.
Qed.

Lemma takes_part_nonblank l : takes_part l = true -> blank l = false.
Proof.
  unfold takes_part, psig, psig_t, blank. destruct (trim_left l); cbn; [discriminate|reflexivity].
Qed.

Lemma takes_part_interior l :
  blank l = false -> line_eqb (trim_left l) close_tok = false -> takes_part l = true.
Proof.
  unfold takes_part, psig, psig_t, blank. intros B E. rewrite B, E. cbn [orb].
  destruct (trim_left l); [discriminate|reflexivity].
Qed.

Lemma not_close_of_starts t : starts_close t = false -> line_eqb t close_tok = false.
Proof.
  intros H. destruct (line_eqb t close_tok) eqn:E; [|reflexivity].
  apply line_eqb_eq in E. subst t. discriminate.
Qed.

Lemma standalone_rtrimmed l : rtrimmed l ->
  standalone_close l = line_eqb (trim_left l) close_tok.
Proof.
  intros R. unfold standalone_close.
  change (trim_right (trim_left l)) with (core l). rewrite core_of_rtrimmed by exact R.
  destruct (line_eqb (trim_left l) close_tok) eqn:E; [|apply andb_false_r].
  apply line_eqb_eq in E. rewrite E. reflexivity.
Qed.

(* the lines after the first as the normalising mode prints them, A = all of them but the last *)
Lemma norm_rest_shape k A lastl :
  blank lastl = false -> rtrimmed lastl ->
  let rest := A ++ [lastl] in
  let st := scan rest in
  let ne := norm_entry (s_pfx st) (or0 (s_min st)) in
  exists cz,
    norm_rest k rest = map (rl k) (map ne A) ++ [spaces k ++ cz]
    /\ (standalone_close lastl = true ->
        cz = (if (s_pfx st =? 42)%N then 32%N :: close_tok else close_tok))
    /\ (standalone_close lastl = false -> ne lastl = Some cz).
Proof.
  intros B R. cbv zeta. unfold norm_rest. rewrite last_last, removelast_last.
  set (st := scan (A ++ [lastl])). set (ne := norm_entry (s_pfx st) (or0 (s_min st))).
  destruct (standalone_close lastl) eqn:SC.
  - eexists. split; [|split; [intros _; reflexivity|discriminate]].
    rewrite render_ends_some, map_app. reflexivity.
  - destruct (norm_entry_nonblank k (s_pfx st) (or0 (s_min st)) lastl B) as [c [E _]].
    exists c. split; [|split; [discriminate|intros _; exact E]].
    rewrite app_nil_r, map_app. cbn [map]. fold ne in E. rewrite E.
    rewrite render_ends_some, map_app. reflexivity.
Qed.

Lemma trim_left_closing k p :
  trim_left (spaces k ++ (if (p =? 42)%N then 32%N :: close_tok else close_tok)) = close_tok.
Proof. rewrite trim_left_spaces. destruct (p =? 42)%N; reflexivity. Qed.

Lemma sigs_map_ext (g : line -> line) A :
  (forall l, In l A -> psig (g l) = psig l) -> sigs (map g A) = sigs A.
Proof.
  induction A as [|a A IH]; intros H; [reflexivity|].
  change (sigs (map g (a :: A))) with (sig_list (g a) ++ sigs (map g A)).
  change (sigs (a :: A)) with (sig_list a ++ sigs A).
  rewrite IH by (intros; apply H; right; assumption).
  unfold sig_list. rewrite H by (left; reflexivity). reflexivity.
Qed.

Lemma norm_rest_reprint k A lastl :
  Forall (fun l => starts_close (trim_left l) = false) A ->
  blank lastl = false -> rtrimmed lastl ->
  norm_rest k (norm_rest k (A ++ [lastl])) = norm_rest k (A ++ [lastl]).
Proof.
  intros HA B R.
  destruct (norm_rest_shape k A lastl B R) as [cz [ER [CZ1 CZ2]]]. cbv zeta in *.
  set (rest := A ++ [lastl]) in *. set (st := scan rest) in *.
  set (pfx := s_pfx st) in *. set (m := or0 (s_min st)) in *.
  set (ne := norm_entry pfx m) in *.
  set (g := fun l => rl k (ne l)).
  set (z := spaces k ++ cz) in *.
  assert (ER' : norm_rest k rest = map g A ++ [z]) by (rewrite ER, map_map; reflexivity).
  clear ER. rewrite ER'.
  (* the last line *)
  assert (Tz : trim_left z = trim_left lastl).
  { destruct (standalone_close lastl) eqn:SC.
    - unfold z. rewrite (CZ1 eq_refl). rewrite trim_left_closing.
      rewrite standalone_rtrimmed in SC by exact R. apply line_eqb_eq in SC. symmetry. exact SC.
    - destruct (norm_entry_nonblank k pfx m lastl B) as [c [E [T _]]].
      fold ne in E. rewrite (CZ2 eq_refl) in E. injection E as E. subst c.
      unfold z. rewrite T. apply core_of_rtrimmed. exact R. }
  assert (SCz : standalone_close z = standalone_close lastl) by (apply standalone_close_tl; exact Tz).
  assert (Pz : psig z = psig lastl) by (unfold psig; rewrite Tz; reflexivity).
  (* the other lines *)
  assert (Pg : forall l, In l A -> psig (g l) = psig l).
  { intros l I. unfold g, ne. apply psig_entry. left. rewrite Forall_forall in HA. apply HA. exact I. }
  assert (SG : sigs (map g A ++ [z]) = sigs rest).
  { unfold rest. rewrite !sigs_app. f_equal.
    - apply sigs_map_ext. exact Pg.
    - unfold sigs. cbn [flat_map]. unfold sig_list. rewrite Pz. reflexivity. }
  assert (PF : s_pfx (scan (map g A ++ [z])) = pfx).
  { pose proof (scan_pfx (map g A ++ [z])) as H1. pose proof (scan_pfx rest) as H2.
    rewrite SG, <- H2 in H1. injection H1 as H1 _. exact H1. }
  (* the common indentation seen by the second pass, plain style *)
  assert (M2 : pfx = 0%N -> parts rest <> [] -> or0 (s_min (scan (map g A ++ [z]))) = k + 3).
  { intros P0 NE. rewrite scan_min.
    assert (PL : forall l, blank l = false -> In l rest ->
                 g l = spaces k ++ (32 :: 32 :: 32 :: trim_right (unindent l m))%N).
    { intros l Bl _. unfold g. destruct (norm_entry_nonblank k pfx m l Bl) as [c [E [_ [_ C]]]].
      fold ne in E. rewrite E. cbn [rl]. rewrite (C P0). reflexivity. }
    assert (Zl : takes_part lastl = true -> z = g lastl).
    { intros TP. unfold g. destruct (standalone_close lastl) eqn:SC.
      - rewrite standalone_rtrimmed in SC by exact R.
        unfold takes_part, psig, psig_t in TP. rewrite SC, orb_true_r in TP. discriminate.
      - rewrite (CZ2 eq_refl). reflexivity. }
    assert (PR : forall x, In x (parts (map g A ++ [z])) ->
                 exists l, In l (parts rest) /\ x = g l).
    { intros x I. rewrite parts_app in I. apply in_app_or in I as [I|I].
      - unfold parts in I. apply filter_In in I as [I T]. apply in_map_iff in I as [l [E I]].
        subst x. exists l. split; [|reflexivity]. unfold rest. rewrite parts_app. apply in_or_app. left.
        unfold parts. apply filter_In. split; [exact I|].
        unfold takes_part in *. rewrite Pg in T by exact I. exact T.
      - unfold parts in I. cbn [filter] in I. destruct (takes_part z) eqn:T; [|destruct I].
        destruct I as [I|[]]. subst x. unfold takes_part in T. rewrite Pz in T.
        exists lastl. split; [|apply Zl; exact T].
        unfold rest. rewrite parts_app. apply in_or_app. right. unfold parts. cbn [filter].
        unfold takes_part. destruct (psig lastl); [left; reflexivity|discriminate]. }
    replace (min_list (map vindent (parts (map g A ++ [z])))) with (Some (k + 3)); [reflexivity|].
    symmetry. apply min_list_unique.
    - (* the line of least indentation of the first pass is printed at column k + 3 *)
      destruct (min_list_some (map vindent (parts rest))) as [m' E'].
      { destruct (parts rest); [congruence|discriminate]. }
      assert (Em : m = m'). { unfold m, st. rewrite scan_min, E'. reflexivity. }
      apply min_list_spec in E' as [I' _]. apply in_map_iff in I' as [l [V I']].
      assert (Bl : blank l = false).
      { apply takes_part_nonblank. unfold parts in I'. apply filter_In in I'. tauto. }
      assert (Il : In l rest) by (unfold parts in I'; apply filter_In in I'; tauto).
      apply in_map_iff. exists (g l). split.
      + rewrite (PL l Bl Il), vindent_plain.
        assert (U : unindent l m = trim_left l).
        { unfold unindent. rewrite Em, <- V. apply unindent_own. exact Bl. }
        rewrite U. destruct (core_nonblank l Bl) as [c [r [T [W C]]]].
        change (trim_right (trim_left l)) with (core l). rewrite C.
        apply vindent_from_nonws. exact W.
      + unfold rest in I'. rewrite parts_app in I'. apply in_app_or in I' as [I'|I'].
        * rewrite parts_app. apply in_or_app. left. unfold parts in *.
          apply filter_In in I' as [I' T]. apply filter_In. split; [apply in_map; exact I'|].
          unfold takes_part in *. rewrite Pg by exact I'. exact T.
        * unfold parts in I'. cbn [filter] in I'. destruct (takes_part lastl) eqn:T; [|destruct I'].
          destruct I' as [I'|[]]. subst l.
          rewrite parts_app. apply in_or_app. right. rewrite <- (Zl eq_refl).
          unfold parts. cbn [filter]. unfold takes_part in *. rewrite Pz.
          destruct (psig lastl); [left; reflexivity|discriminate].
    - apply Forall_forall. intros v Iv. apply in_map_iff in Iv as [x [V Ix]]. subst v.
      destruct (PR x Ix) as [l [Il E]]. subst x.
      assert (Bl : blank l = false).
      { apply takes_part_nonblank. unfold parts in Il. apply filter_In in Il. tauto. }
      rewrite (PL l Bl) by (unfold parts in Il; apply filter_In in Il; tauto).
      rewrite vindent_plain. apply vindent_from_ge. }
  (* every line is printed the same again *)
  assert (NE2 : forall l, (In l A \/ (l = lastl /\ standalone_close lastl = false)) ->
                norm_entry pfx (or0 (s_min (scan (map g A ++ [z])))) (g l) = ne l).
  { intros l Hl. destruct (blank l) eqn:Bl.
    - unfold g, ne. rewrite (norm_entry_blank pfx m l Bl). reflexivity.
    - assert (TP : takes_part l = true).
      { apply takes_part_interior; [exact Bl|]. destruct Hl as [I|[E SC]].
        - apply not_close_of_starts. rewrite Forall_forall in HA. apply HA. exact I.
        - subst l. rewrite standalone_rtrimmed in SC by exact R. exact SC. }
      assert (NEp : parts rest <> []).
      { assert (I : In l (parts rest)).
        { unfold parts. apply filter_In. split; [|exact TP]. unfold rest. apply in_or_app.
          destruct Hl as [I|[E _]]; [left; exact I|right; left; symmetry; exact E]. }
        intros E. rewrite E in I. destruct I. }
      destruct (norm_entry_nonblank k pfx m l Bl) as [c [E [T [C1 C0]]]].
      change (g l) with (rl k (ne l)). fold ne in E. rewrite E. cbn [rl].
      destruct (core_nonblank l Bl) as [c0 [r0 [T0 [W0 C]]]].
      unfold norm_entry. rewrite T, C. cbn [is_nil].
      destruct (pfx =? 0)%N eqn:P; cbn [negb].
      + apply N.eqb_eq in P. rewrite (M2 P NEp). rewrite (C0 P), unindent_plain, trim_right_idem.
        rewrite (C0 P) in E. unfold ne, norm_entry in E. unfold blank in Bl. rewrite Bl in E.
        apply N.eqb_eq in P. rewrite P in E. cbn [negb] in E.
        destruct (trim_right (unindent l m)); [discriminate E|]. reflexivity.
      + apply N.eqb_neq in P. rewrite (C1 P). rewrite <- C, core_rtrimmed. reflexivity. }
  (* put together *)
  unfold norm_rest at 1. rewrite last_last, removelast_last, SCz, PF.
  assert (MA : map (norm_entry pfx (or0 (s_min (scan (map g A ++ [z]))))) (map g A) = map ne A).
  { rewrite map_map. apply map_ext_in. intros l I. apply NE2. left. exact I. }
  assert (GA : map g A = map (rl k) (map ne A)) by (rewrite map_map; reflexivity).
  destruct (standalone_close lastl) eqn:SC.
  - rewrite MA, render_ends_some, map_app, <- GA. cbn [map rl]. unfold z.
    rewrite (CZ1 eq_refl). reflexivity.
  - rewrite app_nil_r, map_app, MA. cbn [map].
    assert (NZ : norm_entry pfx (or0 (s_min (scan (map g A ++ [z])))) z = Some cz).
    { pose proof (NE2 lastl (or_intror (conj eq_refl eq_refl))) as H.
      change (g lastl) with (rl k (ne lastl)) in H. rewrite (CZ2 eq_refl) in H. exact H. }
    rewrite NZ, render_ends_some, map_app, <- GA. reflexivity.
Qed.

Lemma rtrimmed_app a l : rtrimmed l -> l <> [] -> rtrimmed (a ++ l).
Proof.
  unfold rtrimmed. intros R N. rewrite trim_right_app; [rewrite R; reflexivity|].
  rewrite R. exact N.
Qed.

Lemma trim_last_app_rt a z : rtrimmed z -> trim_last (a ++ [z]) = a ++ [z].
Proof.
  intros R. unfold trim_last. rewrite rev_app_distr. cbn [rev app]. rewrite R.
  cbn [rev]. rewrite rev_involutive. reflexivity.
Qed.

Lemma blank_trim_right l : blank (trim_right l) = blank l.
Proof.
  rewrite !blank_all_ws. destruct (all_ws l) eqn:A.
  - apply trim_right_nil_iff in A. rewrite A. reflexivity.
  - destruct (all_ws (trim_right l)) eqn:A2; [|reflexivity].
    apply trim_right_all_ws in A2. apply trim_right_nil_iff in A2. congruence.
Qed.

(* the last line the normalising mode prints is right-trimmed *)
Lemma norm_rest_last_rt k A lastl :
  blank lastl = false -> rtrimmed lastl ->
  exists R0 z, norm_rest k (A ++ [lastl]) = R0 ++ [z] /\ rtrimmed z.
Proof.
  intros B R. destruct (norm_rest_shape k A lastl B R) as [cz [E [C1 C2]]]. cbv zeta in *.
  eexists. eexists. split; [exact E|].
  destruct (standalone_close lastl) eqn:SC.
  - rewrite (C1 eq_refl). apply rtrimmed_app; destruct (_ =? 42)%N; try reflexivity; discriminate.
  - destruct (norm_entry_nonblank k (s_pfx (scan (A ++ [lastl]))) (or0 (s_min (scan (A ++ [lastl])))) lastl B)
      as [c [E2 [_ [P1 P0]]]].
    rewrite (C2 eq_refl) in E2. injection E2 as E2. subst c.
    destruct (core_nonblank lastl B) as [c0 [r0 [T [W C]]]].
    destruct (s_pfx (scan (A ++ [lastl])) =? 0)%N eqn:P.
    + apply N.eqb_eq in P. rewrite (P0 P). rewrite three_spaces, app_assoc.
      assert (X : trim_left (trim_right (unindent lastl (or0 (s_min (scan (A ++ [lastl])))))) = core lastl).
      { rewrite trim_comm. unfold unindent. rewrite trim_left_unindent; [reflexivity|exact B]. }
      apply rtrimmed_app; [apply trim_right_idem|].
      intros E0. rewrite E0 in X. cbn in X. rewrite C in X. discriminate.
    + apply N.eqb_neq in P. rewrite (P1 P).
      change (spaces k ++ 32%N :: core lastl) with (spaces k ++ [32%N] ++ core lastl).
      rewrite app_assoc. apply rtrimmed_app; [apply core_rtrimmed|]. rewrite C. discriminate.
Qed.

Definition comment_ok (ls : list line) : Prop :=
  blank (last ls []) = false
  /\ Forall (fun l => starts_close (trim_left l) = false) (removelast ls).

Theorem emit_norm_idempotent_lemma : forall k ls,
  blank (last ls []) = false ->
  Forall (fun l => starts_close (trim_left l) = false) (removelast ls) ->
  emit_norm k (emit_norm k ls) = emit_norm k ls.
Proof.
  intros k ls OK1 OK2.
  destruct ls as [|x xs]; [reflexivity|].
  destruct (trim_last_shape (x :: xs)) as [a [l [E1 E2]]]; [discriminate|].
  rewrite E1 in OK1, OK2. rewrite last_last in OK1. rewrite removelast_last in OK2.
  assert (EN : emit_norm k (x :: xs) =
               match a ++ [trim_right l] with
               | [] => []
               | [l0] => [l0]
               | first :: rest => trim_right first :: norm_rest k rest
               end).
  { unfold emit_norm. rewrite E2. reflexivity. }
  rewrite EN. clear EN.
  destruct a as [|first A]; cbn [app].
  - unfold emit_norm. rewrite trim_last_fix by (constructor; [apply trim_right_idem|constructor]).
    reflexivity.
  - set (lastl := trim_right l).
    assert (B : blank lastl = false) by (unfold lastl; rewrite blank_trim_right; exact OK1).
    assert (R : rtrimmed lastl) by apply trim_right_idem.
    assert (HA : Forall (fun l => starts_close (trim_left l) = false) A) by (inversion OK2; assumption).
    destruct (A ++ [lastl]) as [|r0 rs] eqn:ER; [destruct A; discriminate|]. rewrite <- ER.
    destruct (norm_rest_last_rt k A lastl B R) as [R0 [z [EZ RZ]]].
    unfold emit_norm.
    rewrite EZ. change (trim_right first :: R0 ++ [z]) with ((trim_right first :: R0) ++ [z]).
    rewrite trim_last_app_rt by exact RZ. cbn [app].
    replace (match R0 ++ [z] with
             | [] => [trim_right first]
             | _ :: _ => trim_right (trim_right first) :: norm_rest k (R0 ++ [z])
             end) with (trim_right (trim_right first) :: norm_rest k (R0 ++ [z]))
      by (destruct R0; reflexivity).
    rewrite <- EZ. rewrite trim_right_idem, norm_rest_reprint by assumption. reflexivity.
Qed.

(* both presets *)
Theorem emit_comment_idempotent_lemma : forall normalise k ls,
  (normalise = true -> comment_ok ls) ->
  emit_comment normalise k (emit_comment normalise k ls) = emit_comment normalise k ls.
Proof.
  intros [|] k ls H; cbn [emit_comment].
  - destruct (H eq_refl). apply emit_norm_idempotent_lemma; assumption.
  - apply emit_verbatim_idempotent_lemma.
Qed.
