(* Warnings are erasable: every run of a configuration is simulated, step by step, by a run of the same
   configuration with all HandleWarning operations removed from the programs; the two runs agree on
   every handler field, every counter, the reporter's error calls and the results of all other
   operations.  So a warning can never be the reason for an outcome. *)
From Coq Require Import List Arith Bool Lia.
From PV Require Import Model.Reporter Proofs.Reporter.
Import ListNotations.

Definition in_warning (p : pc) : bool := match p with PInWarn _ | PWUnlock => true | _ => false end.

(* a thread inside a HandleWarning corresponds to the idle thread that has already dropped it *)
Definition erase_thread (ts : tstate) : tstate :=
  if in_warning (tpc ts)
  then {| tpc := PIdle; prog := erase_prog (tl (prog ts)); tlog := erase_log (tlog ts) |}
  else {| tpc := tpc ts; prog := erase_prog (prog ts); tlog := erase_log (tlog ts) |}.

Record sim (s s' : state) : Prop := {
  sim_hs : forall h, hs s' h = hs s h;
  sim_mu : mu s' = match mu s with
                   | Some o => if in_warning (tpc (threads s o)) then None else Some o
                   | None => None
                   end;
  sim_ncalls : ncalls s' = ncalls s;
  sim_rlog : rlog s' = erase_rlog (rlog s);
  sim_handled : handled s' = handled s;
  sim_plain : plain_seen s' = plain_seen s;
  sim_hcount : forall h, hcount s' h = hcount s h;
  sim_threads : forall t, threads s' t = erase_thread (threads s t)
}.

Section Erase.
Variable cfg : config.
Let cfg' := erase_cfg cfg.

Lemma sim_init : sim (init cfg) (init cfg').
Proof. constructor; intros; reflexivity. Qed.

Lemma path_of_erase h : path_of cfg' h = path_of cfg h.
Proof. reflexivity. Qed.

Lemma upd_ext {A} (m m' : nat -> A) k v x : m' x = m x -> upd m' k v x = upd m k v x.
Proof. unfold upd. destruct (Nat.eqb x k); auto. Qed.

Lemma mu_free_sim s s' : sim s s' -> mu_free s = true -> mu_free s' = true.
Proof.
  intros S H. apply mu_free_none in H. apply mu_free_none. rewrite (sim_mu _ _ S), H. reflexivity.
Qed.

Lemma erase_thread_nw ts : in_warning (tpc ts) = false ->
  erase_thread ts = {| tpc := tpc ts; prog := erase_prog (prog ts); tlog := erase_log (tlog ts) |}.
Proof. unfold erase_thread. intros ->. reflexivity. Qed.

Ltac simx :=
  cbn [hs mu ncalls rlog handled plain_seen hcount threads with_thread with_mu with_h with_call
       with_rlog with_handled with_plain with_hcount tpc prog tlog set_pc complete
       eh epos etag esnap herr hreported in_warning erase_prog erase_log erase_rlog
       filter is_warn_op is_warn_entry is_warn_call negb tl rep parent erase_cfg] in *.

Ltac close_thread :=
  unfold erase_thread; simx;
  repeat match goal with
         | E : tpc _ = _ |- _ => rewrite E
         | E : prog _ = _ |- _ => rewrite E
         | E : forall h, hs _ h = hs _ h |- _ => rewrite E
         end; simx; try reflexivity.

(* the thread map after a step of t, on both sides *)
Lemma threads_upd s s' t ts ts' :
  (forall x, threads s' x = erase_thread (threads s x)) -> ts' = erase_thread ts ->
  forall x, upd (threads s') t ts' x = erase_thread (upd (threads s) t ts x).
Proof. intros H E x. unfold upd. destruct (Nat.eqb x t); [assumption|apply H]. Qed.

(* the abstract mutex after a step that leaves the concrete mutex alone and keeps the owner's kind *)
Lemma mu_keep s t ts m :
  (forall o, mu s = Some o -> o = t -> in_warning (tpc ts) = in_warning (tpc (threads s t))) ->
  m = match mu s with Some o => if in_warning (tpc (threads s o)) then None else Some o | None => None end ->
  m = match mu s with Some o => if in_warning (tpc (upd (threads s) t ts o)) then None else Some o | None => None end.
Proof.
  intros H ->. destruct (mu s) as [o|]; [|reflexivity]. unfold upd.
  destruct (Nat.eqb_spec o t) as [->|Hne]; [|reflexivity]. rewrite (H t eq_refl eq_refl). reflexivity.
Qed.

Lemma simulation s s' t s1 : reach cfg s -> sim s s' -> step cfg s t = Some s1 ->
  exists s1', (s1' = s' \/ step cfg' s' t = Some s1') /\ sim s1 s1'.
Proof.
  intros Hr S H.
  pose proof (reach_inv _ _ Hr) as Iv. pose proof (reach_inv2 _ _ Hr) as J.
  pose proof (sim_threads _ _ S t) as Ht. pose proof (sim_hs _ _ S) as Hh.
  pose proof (i2_call _ _ J t) as Hcall.
  assert (Hown : in_critical (tpc (threads s t)) = true -> mu s = Some t) by (apply (inv_mu _ _ Iv)).
  assert (Hnown : in_critical (tpc (threads s t)) = false -> forall o, mu s = Some o -> o <> t).
  { intros Hc o Ho ->. apply (inv_mu _ _ Iv) in Ho. congruence. }
  unfold step in H. cbv zeta in H.
  destruct (tpc (threads s t)) eqn:Epc.
  - (* PIdle *)
    destruct (prog (threads s t)) as [|o rest] eqn:Eprog; [discriminate|].
    destruct o as [h pos tag|h tag|h|h].
    + (* invoke HandleError *)
      inversion H; subst; clear H. eexists. split.
      * right. unfold step. rewrite Ht, erase_thread_nw by (rewrite Epc; reflexivity). simx. rewrite Epc. rewrite Eprog. simx. reflexivity.
      * constructor; simx; try apply S.
        -- apply mu_keep; [|apply S]. intros o _ _. rewrite Epc. reflexivity.
        -- apply threads_upd; [apply S|]. close_thread.
    + (* HandleWarning: the erased run does nothing *)
      destruct (mu_free s) eqn:Ef; [|discriminate]. inversion H; subst; clear H.
      exists s'. split; [left; reflexivity|].
      apply mu_free_none in Ef.
      constructor; simx; try apply S.
      * rewrite upd_same. simx. rewrite (sim_mu _ _ S), Ef. reflexivity.
      * intros x. rewrite (sim_threads _ _ S x). unfold upd. destruct (Nat.eqb_spec x t) as [->|Hne]; [|reflexivity].
        unfold erase_thread. rewrite Epc. simx. rewrite Eprog. reflexivity.
    + (* Error() *)
      destruct (Nat.eqb h 0 && negb (mu_free s)) eqn:Eb; [discriminate|]. inversion H; subst; clear H.
      eexists. split.
      * right. unfold step. rewrite Ht, erase_thread_nw by (rewrite Epc; reflexivity). simx. rewrite Epc. rewrite Eprog. simx.
        assert (Eb' : Nat.eqb h 0 && negb (mu_free s') = false).
        { destruct (Nat.eqb h 0); [|reflexivity]. cbn [andb] in *.
          destruct (mu_free s) eqn:Ef; [|discriminate]. rewrite (mu_free_sim _ _ S Ef). reflexivity. }
        rewrite Eb'. reflexivity.
      * constructor; simx; try apply S.
        -- apply mu_keep; [|apply S]. intros o _ _. rewrite Epc. reflexivity.
        -- apply threads_upd; [apply S|]. close_thread.
    + (* ReporterError() *)
      destruct (Nat.eqb h 0 && negb (mu_free s)) eqn:Eb; [discriminate|]. inversion H; subst; clear H.
      eexists. split.
      * right. unfold step. rewrite Ht, erase_thread_nw by (rewrite Epc; reflexivity). simx. rewrite Epc. rewrite Eprog. simx.
        assert (Eb' : Nat.eqb h 0 && negb (mu_free s') = false).
        { destruct (Nat.eqb h 0); [|reflexivity]. cbn [andb] in *.
          destruct (mu_free s) eqn:Ef; [|discriminate]. rewrite (mu_free_sim _ _ S Ef). reflexivity. }
        rewrite Eb'. reflexivity.
      * constructor; simx; try apply S.
        -- apply mu_keep; [|apply S]. intros o _ _. rewrite Epc. reflexivity.
        -- apply threads_upd; [apply S|]. close_thread.
  - (* PLock *)
    destruct (mu_free s) eqn:Ef; [|discriminate]. inversion H; subst; clear H.
    eexists. split.
    + right. unfold step. rewrite Ht, erase_thread_nw by (rewrite Epc; reflexivity). simx. rewrite Epc.
      rewrite (mu_free_sim _ _ S Ef). reflexivity.
    + constructor; simx; try apply S.
      * rewrite upd_same. reflexivity.
      * apply threads_upd; [apply S|]. close_thread.
  - (* PCheck *)
    assert (Hstep : forall X, step cfg' s' t = X <->
      match herr (hs s 0) with
      | Some e => Some (with_thread (with_handled s') t (set_pc (erase_thread (threads s t)) (PUnlock c (Some e))))
      | None =>
        if epos c then
          Some (with_thread (with_call (with_h (with_handled s') 0 {| herr := None; hreported := true |})) t
                            (set_pc (erase_thread (threads s t)) (PInRep c (ncalls s))))
        else
          Some (with_thread (with_plain (with_h (with_handled s') 0 {| herr := Some (EPlain (etag c));
                                                                      hreported := hreported (hs s 0) |})) t
                            (set_pc (erase_thread (threads s t)) (PUnlock c (Some (EPlain (etag c))))))
      end = X).
    { intros X. unfold step. rewrite Ht. rewrite (erase_thread_nw (threads s t)) at 1 by (rewrite Epc; reflexivity).
      simx. rewrite Epc. cbv zeta. rewrite <- Ht. rewrite !Hh, (sim_ncalls _ _ S). rewrite Ht. tauto. }
    destruct (herr (hs s 0)) as [e|] eqn:Eh; [|destruct (epos c) eqn:Ep]; inversion H; subst; clear H;
      (eexists; split; [right; apply Hstep; reflexivity|]);
      constructor; simx; try apply S; try (rewrite (sim_handled _ _ S); reflexivity);
        try (rewrite (sim_ncalls _ _ S); reflexivity);
        try (intros h; apply upd_ext; apply Hh);
        try (apply mu_keep; [intros o _ _; rewrite Epc; reflexivity|apply S]);
        try (apply threads_upd; [apply S|close_thread]); try reflexivity.
  - (* PInRep *)
    inversion H; subst; clear H. eexists. split.
    + right. unfold step. rewrite Ht, erase_thread_nw by (rewrite Epc; reflexivity). simx. rewrite Epc. cbv zeta. rewrite !Hh. reflexivity.
    + constructor; simx; try apply S.
      * intros h; apply upd_ext; apply Hh.
      * apply mu_keep; [intros o _ _; rewrite Epc; reflexivity|apply S].
      * rewrite (sim_rlog _ _ S). reflexivity.
      * apply threads_upd; [apply S|close_thread].
  - (* PUnlock *)
    inversion H; subst; clear H. eexists. split.
    + right. unfold step. rewrite Ht, erase_thread_nw by (rewrite Epc; reflexivity). simx. rewrite Epc. reflexivity.
    + constructor; simx; try apply S; try reflexivity.
      apply threads_upd; [apply S|close_thread].
  - (* PUnwind *)
    destruct path as [|h rest].
    + (* HandleError returns: the operation in progress is at the head of the program *)
      inversion H; subst; clear H.
      cbn [pc_call] in Hcall. destruct (Hcall _ eq_refl) as (rest & Eprog).
      eexists. split.
      * right. unfold step. rewrite Ht, erase_thread_nw by (rewrite Epc; reflexivity). simx. rewrite Epc. reflexivity.
      * constructor; simx; try apply S.
        -- apply mu_keep; [|apply S]. intros o Ho ->. exfalso. eapply Hnown; [reflexivity|eassumption|reflexivity].
        -- apply threads_upd; [apply S|]. close_thread.
    + inversion H; subst; clear H. eexists. split.
      * right. unfold step. rewrite Ht, erase_thread_nw by (rewrite Epc; reflexivity). simx. rewrite Epc. rewrite !Hh. reflexivity.
      * constructor; simx; try apply S.
        -- intros h0; apply upd_ext; apply Hh.
        -- apply mu_keep; [intros o _ _; rewrite Epc; reflexivity|apply S].
        -- intros h0. rewrite (sim_hcount _ _ S h). apply upd_ext. apply S.
        -- apply threads_upd; [apply S|close_thread].
  - (* PInWarn: reporter.Warning returns; the erased run does nothing *)
    inversion H; subst; clear H. exists s'. split; [left; reflexivity|].
    constructor; simx; try apply S.
    + apply mu_keep; [intros o _ _; rewrite Epc; reflexivity|apply S].
    + intros x. rewrite (sim_threads _ _ S x). unfold upd. destruct (Nat.eqb_spec x t) as [->|Hne]; [|reflexivity].
      unfold erase_thread. rewrite Epc. reflexivity.
  - (* PWUnlock: the warning is over *)
    inversion H; subst; clear H. exists s'. split; [left; reflexivity|].
    assert (Hmu : mu s = Some t) by (apply Hown; reflexivity).
    constructor; simx; try apply S.
    + rewrite (sim_mu _ _ S), Hmu, Epc. reflexivity.
    + intros x. rewrite (sim_threads _ _ S x). unfold upd. destruct (Nat.eqb_spec x t) as [->|Hne]; [|reflexivity].
      unfold erase_thread. rewrite Epc. reflexivity.
Qed.

Lemma simulation_run sched : forall s s', reach cfg s -> sim s s' ->
  exists sched', sim (run cfg sched s) (run cfg' sched' s').
Proof.
  induction sched as [|t rest IH]; intros s s' Hr S; [exists []; exact S|].
  cbn [run]. destruct (step cfg s t) as [s1|] eqn:E; [|apply IH; assumption].
  assert (Hr1 : reach cfg s1) by (eapply reach_step; eassumption).
  destruct (simulation _ _ _ _ Hr S E) as (s1' & [->|E'] & S1).
  - apply IH; assumption.
  - destruct (IH _ _ Hr1 S1) as (sched' & Hs). exists (t :: sched'). cbn [run]. rewrite E'. exact Hs.
Qed.

Theorem warnings_erasable_lemma : forall sched, exists sched',
  let s := run cfg sched (init cfg) in
  let s' := run cfg' sched' (init cfg') in
  (forall h, hs s' h = hs s h) /\ (forall h, error_result (hs s' h) = error_result (hs s h)) /\
  ncalls s' = ncalls s /\ rlog s' = erase_rlog (rlog s) /\
  (forall t, tlog (threads s' t) = erase_log (tlog (threads s t))) /\
  (forall t, finished (threads s t) = true -> finished (threads s' t) = true).
Proof.
  intros sched. destruct (simulation_run sched _ _ (reach_init cfg) sim_init) as (sched' & S).
  exists sched'. cbv zeta. split; [apply S|]. split; [intros h; rewrite (sim_hs _ _ S); reflexivity|].
  split; [apply S|]. split; [apply S|]. split.
  - intros t. rewrite (sim_threads _ _ S). unfold erase_thread. destruct (in_warning _); reflexivity.
  - intros t. rewrite (sim_threads _ _ S). unfold finished, erase_thread.
    destruct (tpc (threads (run cfg sched (init cfg)) t)); try discriminate.
    cbn. destruct (prog _); [reflexivity|discriminate].
Qed.

End Erase.
