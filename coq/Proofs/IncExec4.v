(* Incremental executor model: the C33 theorems (memoization, invalidation, Changed flags) for
   dependency functions without panics; values and eviction for acyclic ones. *)
From Coq Require Import List Arith Bool NArith Lia.
From PV Require Import Model.IncExec Proofs.IncExec1 Proofs.IncExec2 Proofs.IncExec3.
Import ListNotations.

Section C33.
Variable w : world.
Variable par : nat.
Hypothesis Hnp : forall k, wpanic w k = None.
Variable inputs : key -> nat.

(* ---- Changed flags ---- *)
(* all callers of one Run see the same flag (and the same value) for a key *)
Theorem changed_flag_consistent s a b ga gb i j d va cha vb chb :
  reach w par inputs s -> a < nthr s -> b < nthr s -> trun (thr s a) = trun (thr s b) ->
  cur_group w s a = Some ga -> nth_error ga i = Some d -> nth_error (tslots (thr s a)) i = Some (Some (DVal va cha)) ->
  cur_group w s b = Some gb -> nth_error gb j = Some d -> nth_error (tslots (thr s b)) j = Some (Some (DVal vb chb)) ->
  va = vb /\ cha = chb.
Proof.
  intros Hr Ha Hb Hrun Ga Da Sa Gb Db Sb. destruct (reach_inv2 w par Hnp inputs s Hr) as [Hi Hj].
  pose proof (u_slots _ _ _ (j_thr _ _ Hj a Ha) _ _ _ _ Ga Da Sa) as Ra.
  pose proof (u_slots _ _ _ (j_thr _ _ Hj b Hb) _ _ _ _ Gb Db Sb) as Rb.
  cbn in Ra, Rb. destruct Ra as (o & A1 & A2 & A3 & A4). destruct Rb as (o' & B1 & B2 & B3 & B4).
  assert (o' = o) by congruence. subst o'. rewrite Hrun in A4. split; congruence.
Qed.

(* the flag says whether the memoized result carries the id of the observing Run *)
Theorem changed_iff_result_of_this_run s a ga i d v ch :
  reach w par inputs s -> a < nthr s ->
  cur_group w s a = Some ga -> nth_error ga i = Some d -> nth_error (tslots (thr s a)) i = Some (Some (DVal v ch)) ->
  exists o, tmap s d = TRes o /\ oclosed (objs s o) = true /\ oval (objs s o) = v /\
            (ch = true <-> orun (objs s o) = trun (thr s a)).
Proof.
  intros Hr Ha Ga Da Sa. destruct (reach_inv2 w par Hnp inputs s Hr) as [Hi Hj].
  pose proof (u_slots _ _ _ (j_thr _ _ Hj a Ha) _ _ _ _ Ga Da Sa) as Ra. cbn in Ra.
  destruct Ra as (o & A1 & A2 & A3 & A4). exists o. repeat split; try assumption.
  - intros ->. symmetry in A4. apply Nat.eqb_eq in A4. assumption.
  - intros E. rewrite E, Nat.eqb_refl in A4. assumption.
Qed.

(* ... and a result carries the id of the Run whose thread computed it: the step that completes a
   pending result is a step of its leader and stamps it with the leader's run id *)
Theorem result_stamped_by_its_run s id s' k o :
  reach w par inputs s -> step w s id = Some s' ->
  tmap s k = TRes o -> oclosed (objs s o) = false -> oclosed (objs s' o) = true ->
  tkey (thr s id) = Some k /\ tobj (thr s id) = o /\ orun (objs s' o) = trun (thr s id).
Proof.
  intros Hr Hs Hk Hc Hc'. destruct (reach_inv2 w par Hnp inputs s Hr) as [Hi Hj].
  destruct (step_spec _ _ _ _ Hs) as (Hid & e & p & Hl & -> & Hp).
  destruct (mem_stable w par s id e p Hi Hj Hid Hl) as (_ & _ & Mc & _).
  destruct (Mc _ _ Hk Hc) as [(C1 & _)|(C1 & C2 & C3 & C4)]; [congruence|].
  split; [assumption|]. split; [assumption|].
  pose proof (cancelled_false w par s (thr s id) Hi) as Hcn.
  unfold step_local in Hl. cbv zeta in Hl. rewrite C1, C2, Hcn, andb_false_r in Hl. inversion Hl; subst e.
  unfold apply_eff. cbn. rewrite <- C3, upd_same. reflexivity.
Qed.

(* a completed result is never altered while it stays in the map *)
Theorem memoized_result_stable s e s' k o :
  reach w par inputs s -> do_event w s e = Some s' ->
  tmap s k = TRes o -> oclosed (objs s o) = true -> tmap s' k = TRes o ->
  oclosed (objs s' o) = true /\ oval (objs s' o) = oval (objs s o) /\ orun (objs s' o) = orun (objs s o).
Proof.
  intros Hr He Hk Hc Hk'. destruct (reach_inv2 w par Hnp inputs s Hr) as [Hi Hj].
  destruct e as [t|ks|ks|ks vs]; cbn [do_event] in He.
  - destruct (step_spec _ _ _ _ He) as (Hid & e & p & Hl & -> & Hp).
    destruct (mem_stable w par s t e p Hi Hj Hid Hl) as (_ & Mb & _).
    destruct (Mb _ _ Hk Hc) as (B1 & B2 & B3 & _). rewrite B1, B2, B3. auto.
  - destruct (forallb (fun k => Nat.ltb k (wn w)) ks); inversion He; subst. cbn. auto.
  - destruct (quiescent s); inversion He; subst. cbn. auto.
  - destruct (quiescent s); inversion He; subst. cbn. auto.
Qed.

(* ---- values and eviction: acyclic dependency functions ---- *)
Hypothesis Hwf : wf_world w.
Variable rk : key -> nat.
Hypothesis Hdag : forall i k d, In d (flatd w i k) -> rk d < rk k.

(* every memoized value is the value a fresh computation on the current inputs gives *)
Theorem memoized_values_fresh s k v : reach w par inputs s -> done_val s k = Some v -> v = freshv w rk (inp s) k.
Proof.
  intros Hr. destruct (reach_inv3 w par Hnp Hwf rk Hdag inputs s Hr) as (_ & _ & Hk). apply (k_val _ _ _ Hk).
Qed.

(* what Run returns: when the root Task leaves Resolve, its results are the fresh values of the queries *)
Theorem run_returns_fresh_values s id ks m : reach w par inputs s -> id < nthr s ->
  tkey (thr s id) = None -> tpc (thr s id) = PRelease m -> groups w s id = [ks] ->
  tacc (thr s id) = map (fun k => CV (freshv w rk (inp s) k)) ks.
Proof.
  intros Hr Hid Hk Hpc Hg. destruct (reach_inv3 w par Hnp Hwf rk Hdag inputs s Hr) as (Hi & Hj & Hk3).
  pose proof (u_acc _ _ _ (j_thr _ _ Hj id Hid) (length (groups w s id))) as Ua.
  unfold acc_index in Ua. rewrite Hpc in Ua. specialize (Ua eq_refl). rewrite firstn_all, Hg in Ua.
  cbn [concat] in Ua. rewrite app_nil_r in Ua.
  apply (acc_fresh w rk s ks _ Hk3 Ua). apply (v_acc _ _ _ _ (k_thr _ _ _ Hk3 id Hid)).
Qed.

(* the same for every query: Execute only ever sees fresh values of its dependencies *)
Theorem execute_sees_fresh_values s id k g : reach w par inputs s -> id < nthr s ->
  tkey (thr s id) = Some k -> acc_index w s id = Some g ->
  tacc (thr s id) = map (fun d => CV (freshv w rk (inp s) d)) (concat (firstn g (wdeps w (inp s k) k))).
Proof.
  intros Hr Hid Hk Hg. destruct (reach_inv3 w par Hnp Hwf rk Hdag inputs s Hr) as (Hi & Hj & Hk3).
  pose proof (u_acc _ _ _ (j_thr _ _ Hj id Hid) g Hg) as Ua.
  assert (Hgk : groups w s id = wdeps w (inp s k) k) by (unfold groups; rewrite Hk; reflexivity).
  rewrite Hgk in Ua. apply (acc_fresh w rk s _ _ Hk3 Ua). apply (v_acc _ _ _ _ (k_thr _ _ _ Hk3 id Hid)).
Qed.

(* ---- Evict removes exactly the memoized keys that depend on an evicted memoized key ---- *)
Inductive depends (s : state) (ks : list key) : key -> Prop :=
| dp_base k : In k ks -> is_done s k = true -> depends s ks k
| dp_step c d : depends s ks d -> is_done s c = true -> In d (flatd w (inp s c) c) -> depends s ks c.

Theorem evict_closure_exact s ks k : reach w par inputs s -> quiescent s = true ->
  is_done (evict w s ks) k = true <-> (is_done s k = true /\ ~ depends s ks k).
Proof.
  intros Hr Hq. destruct (reach_inv3 w par Hnp Hwf rk Hdag inputs s Hr) as (Hi & Hj & Hk).
  set (ev := evict_set w s ks).
  assert (Hcl : closed_set (edges s) ev).
  { unfold ev, evict_set. apply (evict_close_closed (edges s) (wn w)); [|lia].
    intros c d Hin. apply (k_e5 _ _ _ Hk). apply (k_e3 _ _ _ Hk _ _ Hin). }
  assert (Hdep_in : forall x, depends s ks x -> In x ev).
  { induction 1 as [x Hx Hd|c d Hdep IH Hc Hin].
    - unfold ev, evict_set. apply evict_close_incl. apply filter_In. split; [assumption|].
      unfold in_map. unfold is_done in Hd. destruct (tmap s x); congruence.
    - destruct (k_e2 _ _ _ Hk c Hc d Hin) as [A _]. eapply Hcl; eassumption. }
  assert (Hin_dep : forall x, In x ev -> is_done s x = true -> depends s ks x).
  { intros x Hx. unfold ev, evict_set in Hx.
    pose proof (evict_close_sound (edges s) (wn w) (filter (in_map s) ks) (filter (in_map s) ks)
                  (fun y Hy => dep_base (edges s) _ y Hy) x Hx) as Hd. clear Hx.
    induction Hd as [x Hx|c d Hd IH Hcd]; intros Hdone.
    - apply filter_In in Hx. apply dp_base; [apply Hx|assumption].
    - pose proof (k_e1 _ _ _ Hk _ _ Hcd) as Hf. destruct (k_e2 _ _ _ Hk c Hdone d Hf) as [_ Hdd].
      eapply dp_step; [apply IH; assumption|assumption|assumption]. }
  unfold is_done at 1. unfold evict. cbn [tmap objs]. fold ev. split.
  - destruct (memb k ev) eqn:Em; [discriminate|]. intros Hd. split; [exact Hd|].
    intros Hdep. apply memb_false in Em. apply Em. apply Hdep_in. assumption.
  - intros [Hd Hn]. destruct (memb k ev) eqn:Em; [|exact Hd]. exfalso. apply Hn. apply Hin_dep; [apply memb_In; assumption|assumption].
Qed.

End C33.

(* ---- run ids: every thread belongs to a Run that has started, and a completed result always carries
   the id of such a Run (ids start at 1; the zero id of a fresh result object never survives the
   completion, whatever the query returned - a value or a fatal error, which are one opaque number
   oval for the executor) ---- *)
Section RunIds.
Variable w : world.
Variable par : nat.
Hypothesis Hnp : forall k, wpanic w k = None.
Variable inputs : key -> nat.

Record inv_rid (s : state) : Prop := {
  r_thr : forall id, id < nthr s -> 1 <= trun (thr s id) <= nrun s;
  r_obj : forall o, oclosed (objs s o) = true -> 1 <= orun (objs s o) <= nrun s
}.

Lemma trun_apply_slot m sl x : trun (apply_slot m sl x) = trun (m x).
Proof.
  destruct sl as [[[[p i] r] h]|]; cbn; [|reflexivity].
  unfold upd. destruct (Nat.eqb x p) eqn:E; [apply Nat.eqb_eq in E; subst; reflexivity|reflexivity].
Qed.

Lemma inv_rid_step s id s' : inv1 w par s -> inv_rid s -> step w s id = Some s' -> inv_rid s'.
Proof.
  intros Hi Hr Hs. destruct (step_spec _ _ _ _ Hs) as (Hid & e & p & Hl & -> & _).
  pose proof (step_self_id w s id e Hl) as (Hrun & _).
  pose proof (r_thr _ Hr id Hid) as Hme.
  assert (Hthr : forall x, x < nthr s -> 1 <= trun (apply_slot (upd (thr s) id (e_self e)) (e_slot e) x) <= nrun s).
  { intros x Hx. rewrite trun_apply_slot. unfold upd. destruct (Nat.eqb x id); [rewrite Hrun; assumption|].
    apply (r_thr _ Hr x Hx). }
  constructor.
  - intros x Hx. unfold apply_eff in *. cbn [thr nthr nrun] in *.
    destruct (step_kinds w s id e Hl) as [(_ & Sp)|[(r0 & p0 & i0 & _ & _ & Sp & _)|(g & j & nw & grp & d & _ & _ & _ & _ & Sp & _)]];
      rewrite Sp in *.
    + apply Hthr. assumption.
    + apply Hthr. assumption.
    + cbv iota in *. destruct (Nat.eq_dec x (nthr s)) as [->|Hne].
      * rewrite upd_same. cbn. assumption.
      * rewrite upd_other by assumption. apply Hthr. lia.
  - intros o Ho. unfold apply_eff in *. cbn [objs nrun] in *.
    destruct (step_mem w par s id e Hi Hid Hl) as [(_ & B & _)|[(k0 & _ & _ & _ & _ & B & _)|[(d & _ & _ & B & _)|[(o0 & path & _ & _ & _ & B)|(k0 & _ & _ & _ & _ & B & _)]]]];
      rewrite B in *.
    + apply (r_obj _ Hr). assumption.
    + unfold upd in *. destruct (Nat.eqb o (nobj s)); [cbn in Ho; discriminate|apply (r_obj _ Hr); assumption].
    + apply (r_obj _ Hr). assumption.
    + unfold upd in *. destruct (Nat.eqb o o0) eqn:E; [|apply (r_obj _ Hr); assumption].
      apply Nat.eqb_eq in E. subst o0. cbn in *. apply (r_obj _ Hr). assumption.
    + unfold upd in *. destruct (Nat.eqb o (tobj (thr s id))); [cbn; assumption|apply (r_obj _ Hr); assumption].
Qed.

Lemma inv_rid_event s e s' : inv1 w par s -> inv_rid s -> do_event w s e = Some s' -> inv_rid s'.
Proof.
  intros Hi Hr He. destruct e as [t|ks|ks|ks vs]; cbn [do_event] in He.
  - eapply inv_rid_step; eassumption.
  - destruct (forallb (fun k => Nat.ltb k (wn w)) ks); inversion He; subst. constructor; cbn.
    + intros x Hx. unfold upd. destruct (Nat.eqb x (nthr s)) eqn:E; [cbn; lia|].
      apply Nat.eqb_neq in E. pose proof (r_thr _ Hr x ltac:(lia)). lia.
    + intros o Ho. pose proof (r_obj _ Hr o Ho). lia.
  - destruct (quiescent s); inversion He; subst. constructor; cbn; [apply (r_thr _ Hr)|apply (r_obj _ Hr)].
  - destruct (quiescent s); inversion He; subst. constructor; cbn; [apply (r_thr _ Hr)|apply (r_obj _ Hr)].
Qed.

Lemma reach_inv_rid s : reach w par inputs s -> inv_rid s.
Proof.
  induction 1 as [|s e s' Hr IH He].
  - constructor; cbn; [intros; lia|intros o Ho; discriminate].
  - eapply inv_rid_event; [eapply reach_inv1; eassumption|exact IH|exact He].
Qed.

(* a memoized (completed) result - whether it holds a value or a fatal error - carries the id of a Run
   that has started: it is never left with the zero id of a fresh result object *)
Theorem result_run_id_valid s k o :
  reach w par inputs s -> tmap s k = TRes o -> oclosed (objs s o) = true ->
  1 <= orun (objs s o) <= nrun s.
Proof. intros Hr _ Hc. apply (r_obj _ (reach_inv_rid s Hr)). assumption. Qed.

(* the step that completes a result leaves it in the map, stamped with the run id of the completing
   thread, and hands Changed = true to that thread's own caller - whatever the query returned *)
Theorem completion_reports_changed s id s' k o :
  reach w par inputs s -> step w s id = Some s' ->
  tmap s k = TRes o -> oclosed (objs s o) = false -> oclosed (objs s' o) = true ->
  tmap s' k = TRes o /\ orun (objs s' o) = trun (thr s' id) /\ 1 <= orun (objs s' o) /\
  tpc (thr s' id) = PReturn (DVal (oval (objs s' o)) true).
Proof.
  intros Hr Hs Hk Hc Hc'. destruct (reach_inv2 w par Hnp inputs s Hr) as [Hi Hj].
  assert (Hr' : reach w par inputs s') by (apply (reach_ev w par inputs s (EStep id) s' Hr); exact Hs).
  pose proof (r_obj _ (reach_inv_rid s' Hr') o Hc') as Hrid.
  destruct (step_spec _ _ _ _ Hs) as (Hid & e & p & Hl & -> & Hp).
  destruct (mem_stable w par s id e p Hi Hj Hid Hl) as (Ma & _ & Mc & _).
  destruct (Mc _ _ Hk Hc) as [(C1 & _)|(C1 & C2 & C3 & C4)]; [congruence|].
  split; [apply Ma; assumption|].
  pose proof (cancelled_false w par s (thr s id) Hi) as Hcn.
  unfold step_local in Hl. cbv zeta in Hl. rewrite C1, C2, Hcn, andb_false_r in Hl. inversion Hl; subst e.
  unfold apply_eff in *. cbn in *. rewrite <- C3 in *. rewrite !upd_same in *. cbn in *.
  repeat split; try reflexivity. lia.
Qed.
End RunIds.

(* ---- C35: the long-lived executor agrees with a brand-new one ---- *)
Section C35.
Variable w : world.
Hypothesis Hnp : forall k, wpanic w k = None.
Hypothesis Hwf : wf_world w.
Variable rk : key -> nat.
Hypothesis Hdag : forall i k d, In d (flatd w i k) -> rk d < rk k.

Lemma freshv_ext inp inp' k : (forall x, inp' x = inp x) -> freshv w rk inp' k = freshv w rk inp k.
Proof.
  intros H. apply (freshv_local w rk Hdag inp inp' (fun _ => True)); [|exact I]. intros x _. split; [apply H|auto].
Qed.

(* Two executors with arbitrary histories behind them (Runs, overlapping Runs, Edits that evict the
   keys whose input changed, plain Evicts, any schedules, any numbers of permits, different initial
   inputs) whose current inputs agree: a Run of the same queries returns the same results on both.
   With sB reached from init parB (inp sA) by one Run this is: incremental = batch. *)
Theorem incremental_eq_batch parA parB inputsA inputsB sA sB idA idB ks mA mB :
  reach w parA inputsA sA -> reach w parB inputsB sB -> (forall k, inp sA k = inp sB k) ->
  idA < nthr sA -> tkey (thr sA idA) = None -> tpc (thr sA idA) = PRelease mA -> groups w sA idA = [ks] ->
  idB < nthr sB -> tkey (thr sB idB) = None -> tpc (thr sB idB) = PRelease mB -> groups w sB idB = [ks] ->
  tacc (thr sA idA) = tacc (thr sB idB).
Proof.
  intros HrA HrB Hinp A1 A2 A3 A4 B1 B2 B3 B4.
  rewrite (run_returns_fresh_values w parA Hnp inputsA Hwf rk Hdag sA idA ks mA HrA A1 A2 A3 A4).
  rewrite (run_returns_fresh_values w parB Hnp inputsB Hwf rk Hdag sB idB ks mB HrB B1 B2 B3 B4).
  apply map_ext. intros k. f_equal. apply freshv_ext. assumption.
Qed.

(* The same with inputs that agree only where the Run can look: P holds of the requested queries and is closed
   under the dependencies the queries have on A's current inputs.  Inputs outside P (files no requested query
   transitively reads) may differ arbitrarily - an edit there changes no result, and the brand-new executor need
   only be given the part of the workspace the queries read. *)
Theorem incremental_eq_batch_local parA parB inputsA inputsB sA sB idA idB ks mA mB (P : key -> Prop) :
  reach w parA inputsA sA -> reach w parB inputsB sB ->
  (forall k, P k -> inp sB k = inp sA k /\ forall d, In d (flatd w (inp sA k) k) -> P d) ->
  (forall k, In k ks -> P k) ->
  idA < nthr sA -> tkey (thr sA idA) = None -> tpc (thr sA idA) = PRelease mA -> groups w sA idA = [ks] ->
  idB < nthr sB -> tkey (thr sB idB) = None -> tpc (thr sB idB) = PRelease mB -> groups w sB idB = [ks] ->
  tacc (thr sA idA) = tacc (thr sB idB).
Proof.
  intros HrA HrB HP Hks A1 A2 A3 A4 B1 B2 B3 B4.
  rewrite (run_returns_fresh_values w parA Hnp inputsA Hwf rk Hdag sA idA ks mA HrA A1 A2 A3 A4).
  rewrite (run_returns_fresh_values w parB Hnp inputsB Hwf rk Hdag sB idB ks mB HrB B1 B2 B3 B4).
  apply map_ext_in. intros k Hk. f_equal. symmetry.
  apply (freshv_local w rk Hdag (inp sA) (inp sB) P HP k (Hks k Hk)).
Qed.
End C35.
