(* C10 - proofs for Model/JsonNames.v: on the output of a compilation from source, the JSON-name validation of
   the re-link (no AST) reports an error only where the validation of the source compilation reported one; so a
   file that compiled (with warnings at most) re-links without a JSON-name error. *)
From Coq Require Import List Bool String Lia.
From PV Require Import Model.JsonNames.
Import ListNotations.
Open Scope string_scope.
Open Scope list_scope.

(* the two seen-maps of the two runs: same keys in the same order, a name that is custom for the re-link is
   custom for the source compilation *)
Inductive seen_le : list (string * bool) -> list (string * bool) -> Prop :=
| seen_nil : seen_le [] []
| seen_cons : forall k c1 c2 s1 s2, (c2 = true -> c1 = true) -> seen_le s1 s2 -> seen_le ((k, c1) :: s1) ((k, c2) :: s2).

Lemma lookup_le : forall k s1 s2, seen_le s1 s2 ->
  match lookup k s1, lookup k s2 with
  | Some c1, Some c2 => c2 = true -> c1 = true
  | None, None => True
  | _, _ => False
  end.
Proof.
  intros k s1 s2 H. induction H as [| k' c1 c2 s1 s2 Hc Hs IH]; cbn [lookup]; [exact I |].
  destruct (String.eqb k k'); [exact Hc | exact IH].
Qed.

(* the claim of a compiled field: the same name in both runs, custom for the re-link only if custom for the source *)
Lemma claim_le : forall uc f, compiled f ->
  fst (claim uc true f) = fst (claim uc false f) /\ (snd (claim uc false f) = true -> snd (claim uc true f) = true).
Proof.
  intros uc f Hc. unfold claim. destruct uc; [| split; [reflexivity | intros H; exact H]].
  cbn [andb]. destruct (String.eqb (jf_json f) (jf_default f)) eqn:E; cbn [negb orb].
  - apply String.eqb_eq in E. destruct (jf_explicit f); cbn [fst snd].
    + split; [exact E | discriminate].
    + split; [reflexivity | intros H; exact H].
  - split; [reflexivity | reflexivity].
Qed.

Lemma pass_errors_le : forall compliant uc fs s1 s2,
  Forall compiled fs -> seen_le s1 s2 ->
  In EErr (pass compliant uc false fs s2) -> In EErr (pass compliant uc true fs s1).
Proof.
  intros compliant uc fs. induction fs as [| f r IH]; intros s1 s2 Hc Hs Hin; cbn [pass] in *; [exact Hin |].
  inversion Hc as [| x l Hf Hr]; subst.
  destruct (claim_le uc f Hf) as [Hn Hcu].
  destruct (claim uc true f) as [n1 c1] eqn:E1. destruct (claim uc false f) as [n2 c2] eqn:E2.
  cbn [fst snd] in Hn, Hcu. subst n2.
  pose proof (lookup_le n1 s1 s2 Hs) as Hl.
  destruct (lookup n1 s1) as [x1 |]; destruct (lookup n1 s2) as [x2 |]; try contradiction.
  - apply in_app_or in Hin. apply in_or_app. destruct Hin as [Hin | Hin].
    + left.
      destruct uc, c1, c2, x1, x2, compliant; cbn in Hin |- *;
        try (specialize (Hcu eq_refl)); try (specialize (Hl eq_refl)); try discriminate;
        try contradiction; try (left; reflexivity); try (destruct Hin as [Hin | []]; discriminate Hin).
    + right. eapply IH; eassumption.
  - eapply IH; [exact Hr | | exact Hin]. constructor; assumption.
Qed.

Lemma relink_json_errors_subset_lemma : forall compliant fs,
  Forall compiled fs -> In EErr (validate compliant false fs) -> In EErr (validate compliant true fs).
Proof.
  intros compliant fs Hc Hin. unfold validate in *. apply in_app_or in Hin. apply in_or_app.
  destruct Hin as [Hin | Hin]; [left | right]; eapply pass_errors_le; try eassumption; constructor.
Qed.

Lemma errors_zero_iff : forall l, errors l = 0 <-> ~ In EErr l.
Proof.
  intros l. unfold errors. induction l as [| e r IH]; cbn [filter].
  - split; [intros _ [] | reflexivity].
  - destruct e; cbn [is_err].
    + rewrite IH. split; [intros H [H1 | H1]; [discriminate | exact (H H1)] | intros H H1; apply H; right; exact H1].
    + cbn [length]. split; [discriminate | intros H; exfalso; apply H; left; reflexivity].
Qed.

(* the fixpoint statement: a message that passed the source compilation's JSON-name validation without an error
   passes the re-link's without an error *)
Lemma relink_json_no_new_errors_lemma : forall compliant fs,
  Forall compiled fs -> errors (validate compliant true fs) = 0 -> errors (validate compliant false fs) = 0.
Proof.
  intros compliant fs Hc H. apply errors_zero_iff. apply errors_zero_iff in H.
  intros Hin. apply H. apply relink_json_errors_subset_lemma; assumption.
Qed.

Lemma compiled_b_sound : forall f, compiled_b f = true -> compiled f.
Proof.
  intros f H He. unfold compiled_b in H. rewrite He in H. cbn [orb] in H. apply String.eqb_eq. exact H.
Qed.
