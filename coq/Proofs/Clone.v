(* Proofs about Model/Clone.v (property C24). *)
From Coq Require Import List NArith Bool PeanoNat Lia.
From PV Require Import Model.Clone.
Import ListNotations.

(* ---------------------------------------------------------------- induction principle *)
Section ElemInd.
  Variable P : elem -> Prop.
  Hypothesis HE : forall k a o pl slots, Forall (Forall P) slots -> P (Elem k a o pl slots).
  Fixpoint elem_ind' (e : elem) : P e :=
    match e with
    | Elem k a o pl slots =>
      HE k a o pl slots
         ((fix go (ss : list (list elem)) : Forall (Forall P) ss :=
             match ss with
             | [] => Forall_nil _
             | s :: tl =>
               Forall_cons s ((fix go1 (l : list elem) : Forall P l :=
                                 match l with
                                 | [] => Forall_nil _
                                 | x :: m => Forall_cons x (elem_ind' x) (go1 m)
                                 end) s) (go tl)
             end) slots)
    end.
End ElemInd.

(* ---------------------------------------------------------------- equality tests *)
Lemma step_eqb_eq : forall x y, step_eqb x y = true <-> x = y.
Proof.
  intros [s i| |j|j k] [s' i'| |j'|j' k']; cbn [step_eqb]; split; intros H; try discriminate; try reflexivity.
  - apply andb_true_iff in H. destruct H as [H1 H2]. apply Nat.eqb_eq in H1, H2. subst. reflexivity.
  - injection H as -> ->. rewrite !Nat.eqb_refl. reflexivity.
  - apply Nat.eqb_eq in H. subst. reflexivity.
  - injection H as ->. apply Nat.eqb_refl.
  - apply andb_true_iff in H. destruct H as [H1 H2]. apply Nat.eqb_eq in H1, H2. subst. reflexivity.
  - injection H as -> ->. rewrite !Nat.eqb_refl. reflexivity.
Qed.

Lemma steps_eqb_eq : forall x y, steps_eqb x y = true <-> x = y.
Proof.
  induction x as [|a x IH]; intros [|b y]; cbn [steps_eqb]; split; intros H; try discriminate; try reflexivity.
  - apply andb_true_iff in H. destruct H as [H1 H2]. apply step_eqb_eq in H1. apply IH in H2. subst. reflexivity.
  - injection H as -> ->. apply andb_true_iff. split; [apply step_eqb_eq | apply IH]; reflexivity.
Qed.

Lemma addr_eqb_eq : forall a b, addr_eqb a b = true <-> a = b.
Proof.
  intros [g p] [g' p']. unfold addr_eqb. cbn [fst snd]. split; intros H.
  - apply andb_true_iff in H. destruct H as [H1 H2]. apply N.eqb_eq in H1. apply steps_eqb_eq in H2. subst. reflexivity.
  - injection H as -> ->. apply andb_true_iff. split; [apply N.eqb_refl | apply steps_eqb_eq; reflexivity].
Qed.

Lemma key_eqb_eq : forall x y, key_eqb x y = true <-> x = y.
Proof.
  intros [a|a] [b|b]; cbn [key_eqb]; split; intros H; try discriminate.
  - apply addr_eqb_eq in H. subst. reflexivity.
  - injection H as ->. apply addr_eqb_eq. reflexivity.
  - apply addr_eqb_eq in H. subst. reflexivity.
  - injection H as ->. apply addr_eqb_eq. reflexivity.
Qed.

Lemma key_eqb_refl : forall x, key_eqb x x = true.
Proof. intros. apply key_eqb_eq. reflexivity. Qed.

Lemma key_eqb_neq : forall x y, x <> y -> key_eqb x y = false.
Proof. intros x y H. destruct (key_eqb x y) eqn:E; [|reflexivity]. apply key_eqb_eq in E. contradiction. Qed.

(* ---------------------------------------------------------------- updateNodeIndex *)
Section Upd.
  Variable look : key -> option node.

  Lemma upd_other : forall ko kc m k, k <> kc -> upd look ko kc m k = m k.
  Proof.
    intros ko kc m k H. unfold upd. destruct (look ko); [|reflexivity]. rewrite (key_eqb_neq _ _ H). reflexivity.
  Qed.

  Lemma upd_same : forall ko kc m, m kc = None -> upd look ko kc m kc = look ko.
  Proof.
    intros ko kc m H. unfold upd. destruct (look ko) eqn:E; [|exact H]. rewrite key_eqb_refl. reflexivity.
  Qed.
End Upd.

(* a key of the objects allocated at generation g under the position bp *)
Definition under (g : N) (bp : list step) (k : key) : Prop := exists suf, key_addr k = (g, bp ++ suf).

Lemma under_app : forall g bp x k, under g (bp ++ x) k -> under g bp k.
Proof. intros g bp x k [suf H]. exists (x ++ suf). rewrite H, app_assoc. reflexivity. Qed.

Lemma under_disjoint : forall g bp a b k, under g (bp ++ [a]) k -> under g (bp ++ [b]) k -> a = b.
Proof.
  intros g bp a b k [s1 H1] [s2 H2]. rewrite H1 in H2. injection H2 as H2.
  rewrite <- !app_assoc in H2. apply app_inv_head in H2. cbn [app] in H2. injection H2 as H2 _. exact H2.
Qed.

Lemma not_under_self : forall g bp a k, key_addr k = (g, bp) -> ~ under g (bp ++ [a]) k.
Proof.
  intros g bp a k H [suf H']. rewrite H in H'. injection H' as H'.
  rewrite <- app_assoc in H'. rewrite <- (app_nil_r bp) in H' at 1. apply app_inv_head in H'. discriminate H'.
Qed.

Lemma under_self : forall g bp k, key_addr k = (g, bp) -> under g bp k.
Proof. intros g bp k H. exists []. rewrite app_nil_r. exact H. Qed.

Lemma under_one : forall g bp a k, key_addr k = (g, bp ++ [a]) -> under g bp k.
Proof. intros g bp a k H. exists [a]. exact H. Qed.

(* ---------------------------------------------------------------- the options of one element *)
Section Options.
  Variable look : key -> option node.
  Variable g : N.
  Variable bp : list step.

  Definition ok (j : nat) : key := KMsg (g, bp ++ [SOpt j]).
  Definition pk (j i : nat) : key := KMsg (g, bp ++ [SPart j i]).

  Lemma pk_inj : forall j i j' i', pk j i = pk j' i' -> j = j' /\ i = i'.
  Proof.
    intros j i j' i' H. unfold pk in H. injection H as H. apply app_inv_head in H. injection H as -> ->. split; reflexivity.
  Qed.
  Lemma ok_inj : forall j j', ok j = ok j' -> j = j'.
  Proof. intros j j' H. unfold ok in H. injection H as H. apply app_inv_head in H. injection H as ->. reflexivity. Qed.
  Lemma ok_pk : forall j j' i, ok j <> pk j' i.
  Proof. intros j j' i H. unfold ok, pk in H. injection H as H. apply app_inv_head in H. discriminate H. Qed.

  Definition part_copy (j : nat) (i : nat) (p : addr * N) : addr * N := ((g, bp ++ [SPart j i]), snd p).

  Lemma part_copy_fst : forall j i p, fst (part_copy j i p) = (g, bp ++ [SPart j i]).
  Proof. reflexivity. Qed.

  Lemma parts_frame : forall j po i0 m k,
    (forall i, i0 <= i -> k <> pk j i) ->
    recreate_parts look po (mapi_from (part_copy j) i0 po) m k = m k.
  Proof.
    intros j. induction po as [|p po IH]; intros i0 m k H; cbn [mapi_from recreate_parts].
    - reflexivity.
    - rewrite IH.
      + rewrite part_copy_fst. apply upd_other. apply (H i0). lia.
      + intros i Hi. apply H. lia.
  Qed.

  Lemma parts_correct : forall j po i0 m n p,
    nth_error po n = Some p -> m (pk j (i0 + n)) = None ->
    recreate_parts look po (mapi_from (part_copy j) i0 po) m (pk j (i0 + n)) = look (KMsg (fst p)).
  Proof.
    intros j. induction po as [|p0 po IH]; intros i0 m n p Hn Hm.
    - destruct n; discriminate Hn.
    - cbn [mapi_from recreate_parts]. rewrite part_copy_fst. destruct n as [|n].
      + cbn [nth_error] in Hn. injection Hn as ->. rewrite Nat.add_0_r in *.
        rewrite parts_frame.
        * apply upd_same. exact Hm.
        * intros i Hi E. apply pk_inj in E. lia.
      + cbn [nth_error] in Hn. replace (i0 + S n) with (S i0 + n) in * by lia.
        apply IH; [exact Hn|]. rewrite upd_other; [exact Hm|].
        intros E. apply pk_inj in E. lia.
  Qed.

  Lemma copy_uopt_eq : forall j a pl ps,
    copy_uopt g bp j (UOpt a pl ps) = UOpt (g, bp ++ [SOpt j]) pl (mapi_from (part_copy j) 0 ps).
  Proof. reflexivity. Qed.

  Lemma uopts_frame : forall uo j0 m k,
    (forall j, j0 <= j -> k <> ok j /\ forall i, k <> pk j i) ->
    recreate_uopts look uo (mapi_from (copy_uopt g bp) j0 uo) m k = m k.
  Proof.
    induction uo as [|[a pl ps] uo IH]; intros j0 m k H; cbn [mapi_from recreate_uopts].
    - reflexivity.
    - rewrite copy_uopt_eq. rewrite IH.
      + rewrite parts_frame.
        * apply upd_other. apply (H j0). lia.
        * intros i _. apply (H j0). lia.
      + intros j Hj. apply H. lia.
  Qed.

  Lemma uopts_correct_opt : forall uo j0 m n u,
    nth_error uo n = Some u -> m (ok (j0 + n)) = None ->
    recreate_uopts look uo (mapi_from (copy_uopt g bp) j0 uo) m (ok (j0 + n)) = look (KMsg (uopt_addr u)).
  Proof.
    induction uo as [|[a pl ps] uo IH]; intros j0 m n u Hn Hm.
    - destruct n; discriminate Hn.
    - cbn [mapi_from recreate_uopts]. rewrite copy_uopt_eq. destruct n as [|n].
      + cbn [nth_error] in Hn. injection Hn as <-. rewrite Nat.add_0_r in *. cbn [uopt_addr].
        rewrite uopts_frame.
        * rewrite parts_frame.
          -- apply upd_same. exact Hm.
          -- intros i _. apply ok_pk.
        * intros j Hj. split.
          -- intros E. apply ok_inj in E. lia.
          -- intros i. apply ok_pk.
      + cbn [nth_error] in Hn. replace (j0 + S n) with (S j0 + n) in * by lia.
        apply IH; [exact Hn|]. rewrite parts_frame.
        * rewrite upd_other; [exact Hm|]. intros E. apply ok_inj in E. lia.
        * intros i _. apply ok_pk.
  Qed.

  Lemma uopts_correct_part : forall uo j0 m n u i q,
    nth_error uo n = Some u -> nth_error (uopt_parts u) i = Some q -> m (pk (j0 + n) i) = None ->
    recreate_uopts look uo (mapi_from (copy_uopt g bp) j0 uo) m (pk (j0 + n) i) = look (KMsg (fst q)).
  Proof.
    induction uo as [|[a pl ps] uo IH]; intros j0 m n u i q Hn Hq Hm.
    - destruct n; discriminate Hn.
    - cbn [mapi_from recreate_uopts]. rewrite copy_uopt_eq. destruct n as [|n].
      + cbn [nth_error] in Hn. injection Hn as <-. rewrite Nat.add_0_r in *. cbn [uopt_parts] in Hq.
        rewrite uopts_frame.
        * apply (parts_correct j0 ps 0 _ i q Hq). rewrite upd_other; [exact Hm|].
          intros E. symmetry in E. exact (ok_pk _ _ _ E).
        * intros j Hj. split.
          -- intros E. symmetry in E. exact (ok_pk _ _ _ E).
          -- intros i' E. apply pk_inj in E. lia.
      + cbn [nth_error] in Hn. replace (j0 + S n) with (S j0 + n) in * by lia.
        apply (IH (S j0) _ n u i q Hn Hq). rewrite parts_frame.
        * rewrite upd_other; [exact Hm|]. intros E. symmetry in E. exact (ok_pk _ _ _ E).
        * intros i' _ E. apply pk_inj in E. lia.
  Qed.

  (* the options stage as a whole *)
  Definition opt_key (k : key) : Prop := (exists j, k = ok j) \/ (exists j i, k = pk j i).

  Lemma opts_frame : forall oo m k, ~ opt_key k -> recreate_opts look oo (copy_opts g bp oo) m k = m k.
  Proof.
    intros [[[a pl] us]|] m k H; cbn [copy_opts recreate_opts]; [|reflexivity].
    apply uopts_frame. intros j _. split.
    - intros E. apply H. left. exists j. exact E.
    - intros i E. apply H. right. exists j, i. exact E.
  Qed.

  Lemma opt_key_under : forall k, opt_key k -> under g bp k.
  Proof.
    intros k [[j ->]|[j [i ->]]]; [exists [SOpt j] | exists [SPart j i]]; reflexivity.
  Qed.
End Options.

(* ---------------------------------------------------------------- lists of children *)
Lemma nth_error_mapi_from : forall {A B} (f : nat -> A -> B) l i0 n,
  nth_error (mapi_from f i0 l) n = option_map (f (i0 + n)) (nth_error l n).
Proof.
  intros A B f. induction l as [|x l IH]; intros i0 n.
  - destruct n; reflexivity.
  - destruct n as [|n]; cbn [mapi_from nth_error].
    + rewrite Nat.add_0_r. reflexivity.
    + rewrite IH. replace (S i0 + n) with (i0 + S n) by lia. reflexivity.
Qed.

Definition child_copy (g : N) (bp : list step) (s i : nat) (x : elem) : elem := copy_elem g (bp ++ [SChild s i]) x.
Definition slot_copy (g : N) (bp : list step) (s : nat) (l : list elem) : list elem := mapi_from (child_copy g bp s) 0 l.

Lemma copy_elem_eq : forall g bp k a o pl slots,
  copy_elem g bp (Elem k a o pl slots) = Elem k (g, bp) (copy_opts g bp o) pl (mapi_from (slot_copy g bp) 0 slots).
Proof. reflexivity. Qed.

Lemma recreate_as_eq : forall look kind k a o pl so k' a' o' pl' sc m,
  recreate_as look kind (Elem k a o pl so) (Elem k' a' o' pl' sc) m =
  recreate_slots (recreate_as look) (schema kind) so sc
    (let m1 := if is_extrange kind then upd look (KExts a) (KExts a') m else m in
     let m2 := upd look (KMsg a) (KMsg a') m1 in
     if has_opts kind then recreate_opts look o o' m2 else m2).
Proof. reflexivity. Qed.

Lemma child_regions_disjoint : forall g bp s i s' i' k,
  under g (bp ++ [SChild s i]) k -> under g (bp ++ [SChild s' i']) k -> s = s' /\ i = i'.
Proof. intros g bp s i s' i' k H1 H2. pose proof (under_disjoint _ _ _ _ _ H1 H2) as E. injection E as -> ->. split; reflexivity. Qed.

Section Children.
  Variable look : key -> option node.
  Variable g : N.

  (* handling x against its copy at bp' touches only keys under bp' *)
  Definition frameP (x : elem) : Prop :=
    forall kind bp' m k, ~ under g bp' k -> recreate_as look kind x (copy_elem g bp' x) m k = m k.
  (* ... and gives every key position of the copy the node of the original's key at that position *)
  Definition correctP (x : elem) : Prop :=
    forall kind bp' m p ko kc,
      wf_as kind x = true -> key_at x p = Some ko -> key_at (copy_elem g bp' x) p = Some kc ->
      (forall k, under g bp' k -> m k = None) ->
      recreate_as look kind x (copy_elem g bp' x) m kc = look ko.
  Definition underP (x : elem) : Prop :=
    forall bp' p kc, key_at (copy_elem g bp' x) p = Some kc -> under g bp' kc.

  Variable bp : list step.

  Lemma list_frame : forall kind s lo i0 m k,
    Forall frameP lo ->
    (forall i, i0 <= i -> ~ under g (bp ++ [SChild s i]) k) ->
    recreate_list (recreate_as look kind) lo (mapi_from (child_copy g bp s) i0 lo) m k = m k.
  Proof.
    intros kind s. induction lo as [|x lo IH]; intros i0 m k HF H; cbn [mapi_from recreate_list].
    - reflexivity.
    - inversion HF as [|? ? Hx Hlo]; subst. rewrite IH; [|exact Hlo|intros i Hi; apply H; lia].
      unfold child_copy. apply Hx. apply H. lia.
  Qed.

  Lemma list_correct : forall kind s lo i0 m n x p ko kc,
    Forall frameP lo -> Forall correctP lo -> Forall underP lo ->
    nth_error lo n = Some x -> wf_as kind x = true ->
    key_at x p = Some ko -> key_at (copy_elem g (bp ++ [SChild s (i0 + n)]) x) p = Some kc ->
    (forall k, under g (bp ++ [SChild s (i0 + n)]) k -> m k = None) ->
    recreate_list (recreate_as look kind) lo (mapi_from (child_copy g bp s) i0 lo) m kc = look ko.
  Proof.
    intros kind s. induction lo as [|x0 lo IH]; intros i0 m n x p ko kc HF HC HU Hn Hwf Hko Hkc Hm.
    - destruct n; discriminate Hn.
    - inversion HF as [|? ? Fx Flo]; subst. inversion HC as [|? ? Cx Clo]; subst. inversion HU as [|? ? Ux Ulo]; subst.
      cbn [mapi_from recreate_list]. destruct n as [|n].
      + cbn [nth_error] in Hn. injection Hn as ->. rewrite Nat.add_0_r in *.
        pose proof (Ux _ _ _ Hkc) as Hu.
        rewrite list_frame; [|exact Flo|].
        * unfold child_copy. apply (Cx kind _ m p ko kc Hwf Hko Hkc Hm).
        * intros i Hi Hu'. destruct (child_regions_disjoint _ _ _ _ _ _ _ Hu Hu') as [_ E]. lia.
      + cbn [nth_error] in Hn. replace (i0 + S n) with (S i0 + n) in * by lia.
        apply (IH (S i0) _ n x p ko kc Flo Clo Ulo Hn Hwf Hko Hkc).
        intros k Hk. unfold child_copy. rewrite Fx; [apply Hm; exact Hk|].
        intros Hk'. destruct (child_regions_disjoint _ _ _ _ _ _ _ Hk Hk') as [_ E]. lia.
  Qed.

  Lemma slots_frame : forall ks so s0 m k,
    Forall (Forall frameP) so ->
    (forall s i, s0 <= s -> ~ under g (bp ++ [SChild s i]) k) ->
    recreate_slots (recreate_as look) ks so (mapi_from (slot_copy g bp) s0 so) m k = m k.
  Proof.
    intros ks so. revert ks. induction so as [|l so IH]; intros ks s0 m k HF H; cbn [mapi_from recreate_slots].
    - reflexivity.
    - destruct ks as [|k1 ks]; [reflexivity|].
      inversion HF as [|? ? Hl Hso]; subst. rewrite IH; [|exact Hso|intros s i Hs; apply H; lia].
      unfold slot_copy. apply list_frame; [exact Hl|]. intros i _. apply H. lia.
  Qed.

  Lemma slots_correct : forall ks so s0 m sn l i x p ko kc,
    Forall (Forall frameP) so -> Forall (Forall correctP) so -> Forall (Forall underP) so ->
    wf_slots wf_as ks so = true ->
    nth_error so sn = Some l -> nth_error l i = Some x ->
    key_at x p = Some ko -> key_at (copy_elem g (bp ++ [SChild (s0 + sn) i]) x) p = Some kc ->
    (forall k, under g (bp ++ [SChild (s0 + sn) i]) k -> m k = None) ->
    recreate_slots (recreate_as look) ks so (mapi_from (slot_copy g bp) s0 so) m kc = look ko.
  Proof.
    intros ks so. revert ks. induction so as [|l0 so IH]; intros ks s0 m sn l i x p ko kc HF HC HU Hwf Hsn Hi Hko Hkc Hm.
    - destruct sn; discriminate Hsn.
    - destruct ks as [|k1 ks]; [discriminate Hwf|].
      cbn [wf_slots] in Hwf. apply andb_true_iff in Hwf. destruct Hwf as [Hwf1 Hwf2].
      inversion HF as [|? ? Fl Fso]; subst. inversion HC as [|? ? Cl Cso]; subst. inversion HU as [|? ? Ul Uso]; subst.
      cbn [mapi_from recreate_slots]. destruct sn as [|sn].
      + cbn [nth_error] in Hsn. injection Hsn as ->. rewrite Nat.add_0_r in *.
        assert (Hu : under g (bp ++ [SChild s0 i]) kc).
        { rewrite Forall_forall in Ul. apply (Ul x (nth_error_In _ _ Hi) _ _ _ Hkc). }
        rewrite slots_frame; [|exact Fso|].
        * unfold slot_copy. rewrite <- (Nat.add_0_l i) in Hkc, Hm.
          apply (list_correct k1 s0 l 0 m i x p ko kc Fl Cl Ul Hi); try assumption.
          rewrite forallb_forall in Hwf1. apply Hwf1. apply (nth_error_In _ _ Hi).
        * intros s i' Hs Hu'. destruct (child_regions_disjoint _ _ _ _ _ _ _ Hu Hu') as [E _]. lia.
      + cbn [nth_error] in Hsn. replace (s0 + S sn) with (S s0 + sn) in * by lia.
        apply (IH ks (S s0) _ sn l i x p ko kc Fso Cso Uso Hwf2 Hsn Hi Hko Hkc).
        intros k Hk. unfold slot_copy. rewrite list_frame; [apply Hm; exact Hk|exact Fl|].
        intros i' _ Hk'. destruct (child_regions_disjoint _ _ _ _ _ _ _ Hk Hk') as [E _]. lia.
  Qed.
End Children.

(* ---------------------------------------------------------------- every element *)
Lemma Forall_Forall_all : forall {A} (P : A -> Prop) (ss : list (list A)), (forall x, P x) -> Forall (Forall P) ss.
Proof. intros A P ss H. apply Forall_forall. intros s _. apply Forall_forall. intros x _. apply H. Qed.

Section Elements.
  Variable look : key -> option node.
  Variable g : N.

  Lemma self_not_opt_key : forall bp k, key_addr k = (g, bp) -> ~ opt_key g bp k.
  Proof.
    intros bp k H [[j E]|[j [i E]]]; subst k; cbn [key_addr ok pk] in H; injection H as H;
      rewrite <- (app_nil_r bp) in H at 2; apply app_inv_head in H; discriminate H.
  Qed.

  Lemma opt_key_not_child : forall bp k s i, opt_key g bp k -> ~ under g (bp ++ [SChild s i]) k.
  Proof.
    intros bp k s i [[j E]|[j [i' E]]] Hu; subst k.
    - assert (H : under g (bp ++ [SOpt j]) (ok g bp j)) by (exists []; rewrite app_nil_r; reflexivity).
      pose proof (under_disjoint _ _ _ _ _ H Hu) as E. discriminate E.
    - assert (H : under g (bp ++ [SPart j i']) (pk g bp j i')) by (exists []; rewrite app_nil_r; reflexivity).
      pose proof (under_disjoint _ _ _ _ _ H Hu) as E. discriminate E.
  Qed.

  Lemma frame_all : forall x, frameP look g x.
  Proof.
    induction x as [k a o pl slots IH] using elem_ind'. intros kind bp m key Hk.
    rewrite copy_elem_eq, recreate_as_eq.
    rewrite slots_frame; [|exact IH|].
    - cbv zeta.
      assert (E2 : forall m', upd look (KMsg a) (KMsg (g, bp)) m' key = m' key).
      { intros m'. apply upd_other. intros ->. apply Hk. apply under_self. reflexivity. }
      assert (E1 : (if is_extrange kind then upd look (KExts a) (KExts (g, bp)) m else m) key = m key).
      { destruct (is_extrange kind); [|reflexivity]. apply upd_other. intros ->. apply Hk. apply under_self. reflexivity. }
      destruct (has_opts kind).
      + rewrite opts_frame; [rewrite E2; exact E1|].
        intros Ho. apply Hk. apply (opt_key_under _ _ _ Ho).
      + rewrite E2. exact E1.
    - intros s i _ Hu. apply Hk. apply (under_app _ _ _ _ Hu).
  Qed.

  Lemma under_all : forall x, underP g x.
  Proof.
    induction x as [k a o pl slots IH] using elem_ind'. intros bp p kc H.
    rewrite copy_elem_eq in H. destruct p as [[| |j|j i]|s i p']; cbn [key_at] in H.
    - injection H as <-. apply under_self. reflexivity.
    - destruct (is_extrange k); [|discriminate H]. injection H as <-. apply under_self. reflexivity.
    - destruct o as [[[ao plo] us]|]; cbn [copy_opts] in H; [|discriminate H].
      unfold mapi in H. rewrite nth_error_mapi_from in H. destruct (nth_error us j) as [[ua upl ups]|]; [|discriminate H].
      cbn [option_map copy_uopt uopt_addr] in H. injection H as <-. exists [SOpt j]. reflexivity.
    - destruct o as [[[ao plo] us]|]; cbn [copy_opts] in H; [|discriminate H].
      unfold mapi in H. rewrite nth_error_mapi_from in H. destruct (nth_error us j) as [[ua upl ups]|]; [|discriminate H].
      cbn [option_map copy_uopt uopt_parts] in H. unfold mapi in H. rewrite nth_error_mapi_from in H.
      destruct (nth_error ups i) as [q|]; [|discriminate H]. cbn [option_map fst] in H. injection H as <-.
      exists [SPart j i]. reflexivity.
    - rewrite nth_error_mapi_from in H. destruct (nth_error slots s) as [l|] eqn:El; [|discriminate H].
      cbn [option_map] in H. unfold slot_copy in H. rewrite nth_error_mapi_from in H.
      destruct (nth_error l i) as [x|] eqn:Ex; [|discriminate H]. cbn [option_map] in H. unfold child_copy in H.
      rewrite Forall_forall in IH. specialize (IH l (nth_error_In _ _ El)). rewrite Forall_forall in IH.
      specialize (IH x (nth_error_In _ _ Ex)). apply (under_app g bp [SChild (0 + s) (0 + i)]). apply (IH _ _ _ H).
  Qed.

  Lemma recreate_slots_nil : forall rc so sc m, recreate_slots rc [] so sc m = m.
  Proof. intros rc [|l so] sc m; reflexivity. Qed.

  Lemma correct_all : forall x, correctP look g x.
  Proof.
    induction x as [k a o pl slots IH] using elem_ind'. intros kind bp m p ko kc Hwf Hko Hkc Hm.
    cbn [wf_as] in Hwf. apply andb_true_iff in Hwf. destruct Hwf as [Hwf Hwfs].
    apply andb_true_iff in Hwf. destruct Hwf as [Hkind Hopts].
    assert (Ekind : kind = k) by (destruct kind, k; try discriminate Hkind; reflexivity). subst kind.
    rewrite copy_elem_eq in Hkc. rewrite copy_elem_eq, recreate_as_eq. cbv zeta.
    pose proof (Forall_Forall_all (frameP look g) slots frame_all) as HF.
    pose proof (Forall_Forall_all (underP g) slots under_all) as HU.
    (* the map before the child collections, at a key that is none of the two keys of the element itself *)
    assert (Epre : forall key, key <> KMsg (g, bp) -> key <> KExts (g, bp) ->
              upd look (KMsg a) (KMsg (g, bp)) (if is_extrange k then upd look (KExts a) (KExts (g, bp)) m else m) key = m key).
    { intros key N1 N2. rewrite upd_other; [|exact N1]. destruct (is_extrange k); [|reflexivity]. apply upd_other. exact N2. }
    destruct p as [[| |j|j i]|s i p']; cbn [key_at] in Hko, Hkc.
    - (* the element itself *)
      injection Hko as <-. injection Hkc as <-.
      rewrite slots_frame; [|exact HF|intros s i _; apply not_under_self; reflexivity].
      assert (E : upd look (KMsg a) (KMsg (g, bp)) (if is_extrange k then upd look (KExts a) (KExts (g, bp)) m else m) (KMsg (g, bp))
                  = look (KMsg a)).
      { apply upd_same. destruct (is_extrange k).
        - rewrite upd_other; [|discriminate]. apply Hm. apply under_self. reflexivity.
        - apply Hm. apply under_self. reflexivity. }
      destruct (has_opts k); [|exact E].
      rewrite opts_frame; [exact E|]. apply self_not_opt_key. reflexivity.
    - (* the extensions statement of a range *)
      destruct (is_extrange k) eqn:Ex; [|discriminate Hko]. injection Hko as <-. injection Hkc as <-.
      rewrite slots_frame; [|exact HF|intros s i _; apply not_under_self; reflexivity].
      assert (E : upd look (KMsg a) (KMsg (g, bp)) (upd look (KExts a) (KExts (g, bp)) m) (KExts (g, bp)) = look (KExts a)).
      { rewrite upd_other; [|discriminate]. apply upd_same. apply Hm. apply under_self. reflexivity. }
      destruct (has_opts k); [|exact E].
      rewrite opts_frame; [exact E|]. apply self_not_opt_key. reflexivity.
    - (* an uninterpreted option *)
      destruct o as [[[ao plo] us]|]; cbn [copy_opts] in Hkc; [|discriminate Hko].
      cbn [orb] in Hopts. rewrite orb_false_r in Hopts. rewrite Hopts.
      unfold mapi in Hkc. rewrite nth_error_mapi_from in Hkc. destruct (nth_error us j) as [u|] eqn:Eu; [|discriminate Hko].
      cbn [option_map] in Hko, Hkc. injection Hko as <-. destruct u as [ua upl ups]. cbn [copy_uopt uopt_addr] in Hkc. injection Hkc as <-.
      assert (Hok : opt_key g bp (ok g bp (0 + j))) by (left; exists (0 + j); reflexivity).
      rewrite slots_frame; [|exact HF|intros s i _; apply (opt_key_not_child _ _ s i Hok)].
      cbn [recreate_opts copy_opts]. unfold mapi.
      change (KMsg (g, bp ++ [SOpt (0 + j)])) with (ok g bp (0 + j)).
      rewrite (uopts_correct_opt look g bp us 0 _ j _ Eu); [reflexivity|].
      rewrite Epre; [apply Hm; apply (opt_key_under _ _ _ Hok) | |discriminate].
      intros E. apply (self_not_opt_key bp (ok g bp (0 + j))); [|exact Hok]. rewrite E. reflexivity.
    - (* a name part *)
      destruct o as [[[ao plo] us]|]; cbn [copy_opts] in Hkc; [|discriminate Hko].
      cbn [orb] in Hopts. rewrite orb_false_r in Hopts. rewrite Hopts.
      unfold mapi in Hkc. rewrite nth_error_mapi_from in Hkc. destruct (nth_error us j) as [u|] eqn:Eu; [|discriminate Hko].
      cbn [option_map] in Hkc. destruct u as [ua upl ups]. cbn [copy_uopt uopt_parts] in Hko, Hkc.
      unfold mapi in Hkc. rewrite nth_error_mapi_from in Hkc. destruct (nth_error ups i) as [q|] eqn:Eq; [|discriminate Hko].
      cbn [option_map fst] in Hko, Hkc. injection Hko as <-. injection Hkc as <-.
      assert (Hpk : opt_key g bp (pk g bp (0 + j) (0 + i))) by (right; exists (0 + j), (0 + i); reflexivity).
      rewrite slots_frame; [|exact HF|intros s i' _; apply (opt_key_not_child _ _ s i' Hpk)].
      cbn [recreate_opts copy_opts]. unfold mapi.
      change (KMsg (g, bp ++ [SPart (0 + j) (0 + i)])) with (pk g bp (0 + j) (0 + i)).
      rewrite (uopts_correct_part look g bp us 0 _ j _ (0 + i) q Eu); [reflexivity|exact Eq|].
      rewrite Epre; [apply Hm; apply (opt_key_under _ _ _ Hpk) | |discriminate].
      intros E. apply (self_not_opt_key bp (pk g bp (0 + j) (0 + i))); [|exact Hpk]. rewrite E. reflexivity.
    - (* inside a child *)
      rewrite nth_error_mapi_from in Hkc. destruct (nth_error slots s) as [l|] eqn:El; [|discriminate Hko].
      cbn [option_map] in Hkc. unfold slot_copy in Hkc. rewrite nth_error_mapi_from in Hkc.
      destruct (nth_error l i) as [x|] eqn:Ex; [|discriminate Hko]. cbn [option_map] in Hkc. unfold child_copy in Hkc.
      apply (slots_correct look g bp (schema k) slots 0 _ s l (0 + i) x p' ko kc HF IH HU Hwfs El); try assumption.
      intros key Hkey.
      {
        assert (N1 : key <> KMsg (g, bp)) by (intros ->; revert Hkey; apply not_under_self; reflexivity).
        assert (N2 : key <> KExts (g, bp)) by (intros ->; revert Hkey; apply not_under_self; reflexivity).
        assert (Ebase : m key = None) by (apply Hm; apply (under_app _ _ _ _ Hkey)).
        destruct (has_opts k).
        * rewrite opts_frame; [rewrite Epre; assumption|]. intros Ho. exact (opt_key_not_child _ _ _ _ Ho Hkey).
        * rewrite Epre; assumption.
      }
  Qed.
End Elements.

(* ---------------------------------------------------------------- the index of the clone *)
Lemma index_complete_core : forall look g e p ko kc,
  wf_as CFile e = true -> key_at e p = Some ko -> key_at (copy_elem g [] e) p = Some kc ->
  recreate_as look CFile e (copy_elem g [] e) empty_index kc = look ko.
Proof.
  intros look g e p ko kc Hwf Hko Hkc.
  apply (correct_all look g e CFile [] empty_index p ko kc Hwf Hko Hkc). intros k _. reflexivity.
Qed.

Lemma clone_index_complete_partial_lemma : forall g r look p ko kc,
  r_nodes r = Some look -> wf_as CFile (r_proto r) = true ->
  key_at (r_proto r) p = Some ko -> key_at (r_proto (clone g r)) p = Some kc ->
  node_of (clone g r) kc = node_of r ko.
Proof.
  intros g r look p ko kc Hn Hwf Hko Hkc. unfold clone in *. unfold node_of. cbn [r_nodes r_proto] in *.
  unfold orig_look. rewrite Hn. apply (index_complete_core look g _ p ko kc Hwf Hko Hkc).
Qed.

Definition witness_noast : result := Result None (Elem CFile (0%N, []) None 0%N [[]; []; []; []]) None (Some 7%N).

Lemma clone_index_complete_refuted_lemma :
  exists g r p ko kc,
    wf_as CFile (r_proto r) = true /\ key_at (r_proto r) p = Some ko /\ key_at (r_proto (clone g r)) p = Some kc /\
    node_of r ko = Some 7%N /\ node_of (clone g r) kc = None.
Proof.
  exists 1%N, witness_noast, (PHere WSelf), (KMsg (0%N, [])), (KMsg (1%N, [])).
  repeat split; vm_compute; reflexivity.
Qed.

Lemma clone_fixed_index_complete_lemma : forall g r p ko kc,
  wf_as CFile (r_proto r) = true ->
  key_at (r_proto r) p = Some ko -> key_at (r_proto (clone_fixed g r)) p = Some kc ->
  node_of (clone_fixed g r) kc = node_of r ko.
Proof.
  intros g r p ko kc Hwf Hko Hkc. unfold clone_fixed in *. unfold node_of.
  destruct (r_nodes r) as [look|] eqn:Hn; cbn [r_nodes r_proto r_noast] in *.
  - apply (index_complete_core look g _ p ko kc Hwf Hko Hkc).
  - reflexivity.
Qed.

(* the clone's index knows no object of another generation *)
Lemma index_fresh_core : forall look g e k,
  fst (key_addr k) <> g -> recreate_as look CFile e (copy_elem g [] e) empty_index k = None.
Proof.
  intros look g e k H. rewrite (frame_all look g e CFile [] empty_index k); [reflexivity|].
  intros [suf E]. apply H. rewrite E. reflexivity.
Qed.

Lemma clone_index_fresh_lemma : forall g r m k,
  r_nodes (clone g r) = Some m -> fst (key_addr k) <> g -> m k = None.
Proof.
  intros g r m k Hm H. unfold clone in Hm. cbn [r_nodes] in Hm. injection Hm as <-. apply index_fresh_core. exact H.
Qed.

Lemma clone_fixed_index_fresh_lemma : forall g r m k,
  r_nodes (clone_fixed g r) = Some m -> fst (key_addr k) <> g -> m k = None.
Proof.
  intros g r m k Hm H. unfold clone_fixed in Hm. destruct (r_nodes r); cbn [r_nodes] in Hm; [|discriminate Hm].
  injection Hm as <-. apply index_fresh_core. exact H.
Qed.

(* ---------------------------------------------------------------- proto.Clone: equal content, new objects *)
Lemma map_mapi_from : forall {A B C} (f : B -> C) (h : nat -> A -> B) (f' : A -> C) l i0,
  (forall i x, In x l -> f (h i x) = f' x) -> map f (mapi_from h i0 l) = map f' l.
Proof.
  intros A B C f h f'. induction l as [|x l IH]; intros i0 H; cbn [mapi_from map].
  - reflexivity.
  - rewrite (H i0 x (or_introl eq_refl)), IH; [reflexivity|]. intros i y Hy. apply H. right. exact Hy.
Qed.

Lemma erase_copy_opts : forall g bp o, erase_opts (copy_opts g bp o) = erase_opts o.
Proof.
  intros g bp [[[a pl] us]|]; cbn [copy_opts erase_opts]; [|reflexivity].
  f_equal. f_equal. unfold mapi. apply map_mapi_from. intros j [ua upl ups] _. cbn [copy_uopt erase_uopt].
  f_equal. unfold mapi. apply map_mapi_from. intros. reflexivity.
Qed.

Lemma erase_copy : forall g e bp, erase (copy_elem g bp e) = erase e.
Proof.
  intros g. induction e as [k a o pl slots IH] using elem_ind'. intros bp.
  rewrite copy_elem_eq. cbn [erase]. rewrite erase_copy_opts. f_equal.
  apply map_mapi_from. intros s l Hl. unfold slot_copy. apply map_mapi_from. intros i x Hx. unfold child_copy.
  rewrite Forall_forall in IH. specialize (IH l Hl). rewrite Forall_forall in IH. apply (IH x Hx).
Qed.

Lemma clone_proto_equal_lemma : forall g r, erase (r_proto (clone g r)) = erase (r_proto r).
Proof. intros. unfold clone. cbn [r_proto]. apply erase_copy. Qed.

Lemma clone_fixed_proto_equal_lemma : forall g r, erase (r_proto (clone_fixed g r)) = erase (r_proto r).
Proof. intros. unfold clone_fixed. destruct (r_nodes r); cbn [r_proto]; apply erase_copy. Qed.

Lemma Forall_mapi_from : forall {A B} (P : B -> Prop) (h : nat -> A -> B) l i0,
  (forall i x, In x l -> P (h i x)) -> Forall P (mapi_from h i0 l).
Proof.
  intros A B P h. induction l as [|x l IH]; intros i0 H; cbn [mapi_from]; constructor.
  - apply H. left. reflexivity.
  - apply IH. intros i y Hy. apply H. right. exact Hy.
Qed.

Lemma Forall_flat_map : forall {A B} (P : B -> Prop) (f : A -> list B) l,
  Forall (fun x => Forall P (f x)) l -> Forall P (flat_map f l).
Proof.
  intros A B P f l H. induction H as [|x l Hx _ IH]; cbn [flat_map]; [constructor|]. apply Forall_app. split; assumption.
Qed.

Lemma copy_addrs_gen : forall g e bp, Forall (fun a => fst a = g) (addrs_of (copy_elem g bp e)).
Proof.
  intros g. induction e as [k a o pl slots IH] using elem_ind'. intros bp.
  rewrite copy_elem_eq. cbn [addrs_of]. constructor; [reflexivity|]. apply Forall_app. split.
  - destruct o as [[[ao plo] us]|]; cbn [copy_opts opts_addrs]; constructor; [reflexivity|].
    apply Forall_flat_map. unfold mapi. apply Forall_mapi_from. intros j [ua upl ups] _.
    cbn [copy_uopt]. unfold uopt_addrs. cbn [uopt_addr uopt_parts]. constructor; [reflexivity|].
    apply Forall_forall. intros x Hx. apply in_map_iff in Hx. destruct Hx as [q [<- Hq]].
    unfold mapi in Hq. revert Hq. generalize 0. induction ups as [|p0 ups IHu]; intros n0 Hq; cbn [mapi_from] in Hq.
    + destruct Hq.
    + destruct Hq as [<-|Hq]; [reflexivity|]. apply (IHu _ Hq).
  - apply Forall_flat_map. apply Forall_mapi_from. intros s l Hl. apply Forall_flat_map. unfold slot_copy.
    apply Forall_mapi_from. intros i x Hx. unfold child_copy.
    rewrite Forall_forall in IH. specialize (IH l Hl). rewrite Forall_forall in IH. apply (IH x Hx).
Qed.

Lemma copy_disjoint : forall g e e' bp a,
  older g e -> In a (addrs_of (copy_elem g bp e')) -> ~ In a (addrs_of e).
Proof.
  intros g e e' bp a Ho Hin Hin'. unfold older in Ho. rewrite Forall_forall in Ho. specialize (Ho a Hin').
  pose proof (copy_addrs_gen g e' bp) as Hg. rewrite Forall_forall in Hg. specialize (Hg a Hin). rewrite Hg in Ho.
  apply N.lt_irrefl in Ho. exact Ho.
Qed.

Lemma clone_independent_lemma : forall g r a,
  older g (r_proto r) -> In a (addrs_of (r_proto (clone g r))) -> ~ In a (addrs_of (r_proto r)).
Proof. intros g r a Ho Hin. unfold clone in Hin. cbn [r_proto] in Hin. apply (copy_disjoint g _ _ _ a Ho Hin). Qed.

Lemma clone_fixed_independent_lemma : forall g r a,
  older g (r_proto r) -> In a (addrs_of (r_proto (clone_fixed g r))) -> ~ In a (addrs_of (r_proto r)).
Proof.
  intros g r a Ho Hin. unfold clone_fixed in Hin. destruct (r_nodes r); cbn [r_proto] in Hin; apply (copy_disjoint g _ _ _ a Ho Hin).
Qed.

(* ---------------------------------------------------------------- a write to an object outside the tree *)
Lemma write_other : forall h a c b, b <> a -> write h a c b = h b.
Proof.
  intros h a c b H. unfold write. destruct (addr_eqb b a) eqn:E; [|reflexivity]. apply addr_eqb_eq in E. contradiction.
Qed.

Lemma stored_uopt_write : forall h a c u, ~ In a (uopt_addrs u) -> stored_uopt h u -> stored_uopt (write h a c) u.
Proof.
  intros h a c [ua upl ups] Hn [H1 H2]. unfold uopt_addrs in Hn. cbn [uopt_addr uopt_parts] in Hn. cbn [stored_uopt]. split.
  - rewrite write_other; [exact H1|]. intros ->. apply Hn. left. reflexivity.
  - rewrite Forall_forall in *. intros q Hq. rewrite write_other; [apply H2; exact Hq|].
    intros E. apply Hn. right. apply in_map_iff. exists q. split; [exact E|exact Hq].
Qed.

Lemma stored_opts_write : forall h a c o, ~ In a (opts_addrs o) -> stored_opts h o -> stored_opts (write h a c) o.
Proof.
  intros h a c [[[ao plo] us]|] Hn H; cbn [stored_opts opts_addrs] in *; [|exact I].
  destruct H as [H1 H2]. split.
  - rewrite write_other; [exact H1|]. intros ->. apply Hn. left. reflexivity.
  - rewrite Forall_forall in *. intros u Hu. apply stored_uopt_write; [|apply H2; exact Hu].
    intros Hin. apply Hn. right. apply in_flat_map. exists u. split; assumption.
Qed.

Lemma all_in_impl : forall {A} (P Q : A -> Prop) l, (forall x, In x l -> P x -> Q x) -> all_in P l -> all_in Q l.
Proof.
  intros A P Q. induction l as [|x l IH]; intros H Hl; cbn [all_in] in *; [exact I|].
  destruct Hl as [Hx Hl]. split; [apply H; [left; reflexivity|exact Hx]|]. apply IH; [|exact Hl].
  intros y Hy. apply H. right. exact Hy.
Qed.

Lemma all_in2_impl : forall {A} (P Q : A -> Prop) ss,
  (forall l x, In l ss -> In x l -> P x -> Q x) -> all_in2 P ss -> all_in2 Q ss.
Proof.
  intros A P Q. induction ss as [|l ss IH]; intros H Hs; cbn [all_in2] in *; [exact I|].
  destruct Hs as [Hl Hs]. split.
  - apply (all_in_impl P Q l); [|exact Hl]. intros x Hx. apply (H l x); [left; reflexivity|exact Hx].
  - apply IH; [|exact Hs]. intros l' x Hl' Hx. apply (H l' x); [right; exact Hl'|exact Hx].
Qed.

Lemma stored_write : forall h a c e, ~ In a (addrs_of e) -> stored h e -> stored (write h a c) e.
Proof.
  intros h a c. induction e as [k ea o pl slots IH] using elem_ind'. intros Hn Hs.
  cbn [stored addrs_of] in *. destruct Hs as [H1 [H2 H3]]. split; [|split].
  - rewrite write_other; [exact H1|]. intros ->. apply Hn. left. reflexivity.
  - apply stored_opts_write; [|exact H2]. intros Hin. apply Hn. right. apply in_app_iff. left. exact Hin.
  - apply (all_in2_impl (stored h) (stored (write h a c)) slots); [|exact H3].
    intros l x Hl Hx Hsx. rewrite Forall_forall in IH. specialize (IH l Hl). rewrite Forall_forall in IH.
    apply (IH x Hx); [|exact Hsx]. intros Hin. apply Hn. right. apply in_app_iff. right.
    apply in_flat_map. exists l. split; [exact Hl|]. apply in_flat_map. exists x. split; assumption.
Qed.

Lemma clone_heap_independent_lemma : forall g r h a c,
  older g (r_proto r) -> stored h (r_proto r) -> In a (addrs_of (r_proto (clone g r))) ->
  stored (write h a c) (r_proto r).
Proof. intros g r h a c Ho Hs Hin. apply stored_write; [|exact Hs]. apply (clone_independent_lemma g r a Ho Hin). Qed.

Lemma clone_fixed_heap_independent_lemma : forall g r h a c,
  older g (r_proto r) -> stored h (r_proto r) -> In a (addrs_of (r_proto (clone_fixed g r))) ->
  stored (write h a c) (r_proto r).
Proof. intros g r h a c Ho Hs Hin. apply stored_write; [|exact Hs]. apply (clone_fixed_independent_lemma g r a Ho Hin). Qed.
