(* C04 - proofs: feature resolution finds the nearest override; the linker's descriptor views agree with the
   Go runtime's rules (Model/RuntimeSpec.v) on every well-formed field / enum, for chains of any depth. *)
From Coq Require Import List NArith Bool Lia ZifyBool ZifyN.
From PV Require Import Model.FeaturesTables Model.Features Model.FieldView Model.RuntimeSpec.
Import ListNotations.
Open Scope N_scope.

(* ------------------------------------------------------------------ resolve_chain *)
Lemma resolve_chain_nearest : forall c f pre s post v,
  levels c = pre ++ s :: post ->
  Forall (fun g => fs_get g f = None) pre ->
  fs_get s f = Some v ->
  resolve_chain c f = Some v.
Proof.
  induction c as [s0 | s0 p IH]; intros f pre s post v Hl Hpre Hs.
  - cbn [levels] in Hl. destruct pre as [| a pre].
    + cbn [app] in Hl. injection Hl as Hl _. subst s0. cbn [resolve_chain]. exact Hs.
    + cbn [app] in Hl. injection Hl as _ Hl. destruct pre; discriminate Hl.
  - cbn [levels] in Hl. destruct pre as [| a pre].
    + cbn [app] in Hl. injection Hl as Hl _. subst s0. cbn [resolve_chain]. rewrite Hs. reflexivity.
    + cbn [app] in Hl. injection Hl as Ha Hl. subst a.
      inversion Hpre as [| x l Hx Hrest]; subst.
      cbn [resolve_chain]. rewrite Hx. eapply IH; eauto.
Qed.

Lemma resolve_chain_none : forall c f,
  Forall (fun g => fs_get g f = None) (levels c) -> resolve_chain c f = None.
Proof.
  induction c as [s0 | s0 p IH]; intros f H; cbn [levels] in H; cbn [resolve_chain].
  - inversion H; subst; assumption.
  - inversion H as [| x l Hx Hrest]; subst. rewrite Hx. apply IH; assumption.
Qed.

(* conversely: what resolve_chain returns is set at some level and at no nearer one *)
Lemma resolve_chain_some_inv : forall c f v,
  resolve_chain c f = Some v ->
  exists pre s post, levels c = pre ++ s :: post /\ Forall (fun g => fs_get g f = None) pre /\ fs_get s f = Some v.
Proof.
  induction c as [s0 | s0 p IH]; intros f v H; cbn [resolve_chain] in H.
  - exists [], s0, []. cbn. auto.
  - destruct (fs_get s0 f) as [w |] eqn:E.
    + injection H as H; subst w. exists [], s0, (levels p). cbn. auto.
    + destruct (IH f v H) as (pre & s & post & Hl & Hp & Hs).
      exists (s0 :: pre), s, post. cbn [levels app]. rewrite Hl. auto.
Qed.

Lemma is_editions_not_p23 : forall e, is_editions e = true -> ((e =? ED_PROTO2) || (e =? ED_PROTO3)) = false.
Proof. intros e H. unfold is_editions in H. destruct ((e =? ED_PROTO2) || (e =? ED_PROTO3)); [discriminate | reflexivity]. Qed.

Theorem resolve_feature_is_nearest_override_lemma : forall e c f,
  (is_editions e = true ->
     (forall pre s post v, levels c = pre ++ s :: post ->
        Forall (fun g => fs_get g f = None) pre -> fs_get s f = Some v ->
        resolve_feature e c f = v)
     /\ (Forall (fun g => fs_get g f = None) (levels c) -> resolve_feature e c f = edition_default e f))
  /\ (is_editions e = false -> resolve_feature e c f = edition_default e f).
Proof.
  intros e c f. split.
  - intro He. pose proof (is_editions_not_p23 e He) as Hn. split.
    + intros pre s post v Hl Hp Hs. unfold resolve_feature. rewrite Hn.
      rewrite (resolve_chain_nearest c f pre s post v Hl Hp Hs). reflexivity.
    + intro Hall. unfold resolve_feature. rewrite Hn. rewrite (resolve_chain_none c f Hall). reflexivity.
  - intro He. unfold resolve_feature. unfold is_editions in He.
    destruct ((e =? ED_PROTO2) || (e =? ED_PROTO3)); [reflexivity | discriminate].
Qed.

(* ------------------------------------------------------------------ runtime flags = flags of the resolved values *)
Definition flags_of (val : feature -> N) : rtflags :=
  mkrt ((val FieldPresence =? FP_LEGACY_REQUIRED) || (val FieldPresence =? FP_EXPLICIT))
       (val FieldPresence =? FP_LEGACY_REQUIRED)
       (val EnumType =? ET_OPEN)
       (val RepeatedFieldEncoding =? RFE_PACKED)
       (val Utf8Validation =? UTF8_VERIFY)
       (val MessageEncoding =? ME_DELIMITED)
       (val JsonFormat =? JF_ALLOW).

Lemma flags_of_ext : forall g h, (forall ft, g ft = h ft) -> flags_of g = flags_of h.
Proof. intros g h H. unfold flags_of. rewrite !H. reflexivity. Qed.

Definition over (s : fset) (d : feature -> N) (ft : feature) : N :=
  match fs_get s ft with Some v => v | None => d ft end.

Lemma rt_merge_flags_of : forall d s, rt_merge (flags_of d) s = flags_of (over s d).
Proof.
  intros d [fp et rfe u8 me jf].
  destruct fp, et, rfe, u8, me, jf; reflexivity.
Qed.

Fixpoint rt_flags_from (b : rtflags) (c : chain) : rtflags :=
  match c with
  | CFile s => rt_merge b s
  | CNest s p => rt_merge (rt_flags_from b p) s
  end.

Lemma rt_flags_is_from : forall e c, rt_flags e c = rt_flags_from (rt_merge rt_zero (rt_default_fset e)) c.
Proof. induction c as [s | s p IH]; cbn [rt_flags rt_flags_from]; [reflexivity | rewrite IH; reflexivity]. Qed.

Definition over_chain (c : chain) (d : feature -> N) (ft : feature) : N :=
  match resolve_chain c ft with Some v => v | None => d ft end.

Lemma rt_flags_from_flags_of : forall d c, rt_flags_from (flags_of d) c = flags_of (over_chain c d).
Proof.
  intros d. induction c as [s | s p IH]; cbn [rt_flags_from].
  - rewrite rt_merge_flags_of. apply flags_of_ext. intro ft. reflexivity.
  - rewrite IH, rt_merge_flags_of. apply flags_of_ext. intro ft.
    unfold over, over_chain. cbn [resolve_chain]. destruct (fs_get s ft); reflexivity.
Qed.

(* the two tables agree on the three supported editions (kernel evaluation over a 3-element domain) *)
Lemma tables_agree : forall e, supported_edition e = true ->
  rt_merge rt_zero (rt_default_fset e) = flags_of (edition_default e).
Proof.
  intros e H. unfold supported_edition in H.
  destruct (e =? ED_PROTO2) eqn:E2; [apply N.eqb_eq in E2; subst e; vm_compute; reflexivity |].
  destruct (e =? ED_PROTO3) eqn:E3; [apply N.eqb_eq in E3; subst e; vm_compute; reflexivity |].
  destruct (e =? ED_2023) eqn:E4; [apply N.eqb_eq in E4; subst e; vm_compute; reflexivity |].
  discriminate H.
Qed.

Lemma chain_empty_resolve_none : forall c ft, chain_empty c = true -> resolve_chain c ft = None.
Proof.
  intros c ft H. apply resolve_chain_none. unfold chain_empty in H.
  rewrite forallb_forall in H. apply Forall_forall. intros s Hs. specialize (H s Hs).
  destruct s as [a b c0 d e0 g]. destruct a, b, c0, d, e0, g; try discriminate H. destruct ft; reflexivity.
Qed.

Lemma rt_flags_resolved : forall e c,
  supported_edition e = true ->
  (is_editions e || chain_empty c) = true ->
  rt_flags e c = flags_of (resolve_feature e c).
Proof.
  intros e c Hs Hw. rewrite rt_flags_is_from, (tables_agree e Hs), rt_flags_from_flags_of.
  apply flags_of_ext. intro ft. unfold over_chain, resolve_feature.
  destruct (is_editions e) eqn:He.
  - rewrite (is_editions_not_p23 e He). reflexivity.
  - cbn [orb] in Hw. rewrite (chain_empty_resolve_none c ft Hw).
    unfold is_editions in He. destruct ((e =? ED_PROTO2) || (e =? ED_PROTO3)); [reflexivity | discriminate].
Qed.

(* ------------------------------------------------------------------ fields *)
Lemma wf_field_parts : forall f, wf_field f = true ->
  supported_edition (f_edition f) = true /\
  (is_editions (f_edition f) || chain_empty (f_chain f)) = true /\
  ((f_label f =? LABEL_OPTIONAL) || (f_label f =? LABEL_REQUIRED) || (f_label f =? LABEL_REPEATED)) = true /\
  (negb (f_msg_mapentry f) || ((f_type f =? TYPE_MESSAGE) && (f_label f =? LABEL_REPEATED) && negb (f_is_ext f))) = true /\
  (negb ((f_label f =? LABEL_REPEATED) || f_is_ext f || f_has_oneof f || f_parent_mapentry f) || negb (f_resolve f FieldPresence =? FP_LEGACY_REQUIRED)) = true /\
  ((negb (f_parent_mapentry f) || (negb (f_is_ext f) && negb (f_type f =? TYPE_GROUP))) && negb (f_is_ext f && f_has_oneof f)) = true /\
  (negb (f_p3opt f) || ((f_label f =? LABEL_OPTIONAL) && (f_edition f =? ED_PROTO3))) = true.
Proof. intros f H. unfold wf_field in H. repeat (apply andb_prop in H; destruct H as [H ?]). repeat split; assumption. Qed.

Lemma rt_field_flags_resolved : forall f, wf_field f = true ->
  rt_field_flags f =
  let fl := flags_of (f_resolve f) in
  match f_packed f with
  | Some b => mkrt (IsFieldPresence fl) (IsLegacyRequired fl) (IsOpenEnum fl) b
                   (IsUTF8Validated fl) (IsDelimitedEncoded fl) (IsJSONCompliant fl)
  | None => fl
  end.
Proof.
  intros f H. destruct (wf_field_parts f H) as (Hs & Hw & _).
  unfold rt_field_flags. rewrite (rt_flags_resolved _ _ Hs Hw). reflexivity.
Qed.

(* the only proto2/proto3 facts needed: their default presence is not LEGACY_REQUIRED and their default
   message encoding is not DELIMITED (finite evaluation) *)
Lemma p23_defaults : forall e, is_editions e = false ->
  (edition_default e FieldPresence =? FP_LEGACY_REQUIRED) = false /\
  (edition_default e MessageEncoding =? ME_DELIMITED) = false.
Proof.
  intros e H. unfold is_editions in H.
  destruct (e =? ED_PROTO2) eqn:E2; [apply N.eqb_eq in E2; subst e; vm_compute; auto |].
  destruct (e =? ED_PROTO3) eqn:E3; [apply N.eqb_eq in E3; subst e; vm_compute; auto |].
  discriminate H.
Qed.

Lemma p23_resolve : forall e c ft, is_editions e = false -> resolve_feature e c ft = edition_default e ft.
Proof. intros e c ft. apply resolve_feature_is_nearest_override_lemma. Qed.

Ltac unfold_consts :=
  unfold LABEL_OPTIONAL, LABEL_REQUIRED, LABEL_REPEATED, CARD_OPTIONAL, CARD_REQUIRED, CARD_REPEATED,
         TYPE_STRING, TYPE_GROUP, TYPE_MESSAGE, TYPE_BYTES, TYPE_ENUM in *.

(* ---- proof automation: split on the label, then on the few type numbers that matter, then treat the
   remaining comparisons (on resolved feature values) as opaque booleans and split on those ---- *)
Ltac finish := cbn [andb orb negb] in *; try reflexivity; try discriminate; try congruence.

Ltac split_eqb x k :=
  let E := fresh "E" in
  destruct (x =? k) eqn:E; [apply N.eqb_eq in E; try subst x | ].

Ltac label_cases lab Hl :=
  unfold LABEL_OPTIONAL, LABEL_REQUIRED, LABEL_REPEATED in Hl;
  let E := fresh "E" in
  destruct (lab =? 1) eqn:E; [apply N.eqb_eq in E; subst lab |
    clear E; destruct (lab =? 2) eqn:E; [apply N.eqb_eq in E; subst lab |
      clear E; destruct (lab =? 3) eqn:E; [apply N.eqb_eq in E; subst lab | discriminate Hl]]].

(* after the constants are substituted, every remaining comparison whose left side is not itself a
   conditional is made an opaque boolean; then all booleans are split, conditionals reduce, and the
   comparisons that have become closed are computed *)
Ltac opaque_eqb :=
  repeat match goal with
  | |- context [ (?a =? ?b) ] =>
      lazymatch a with
      | (if _ then _ else _) => fail
      | _ => let v := fresh "b" in set (v := (a =? b)) in *; clearbody v
      end
  | HH : context [ (?a =? ?b) ] |- _ =>
      lazymatch a with
      | (if _ then _ else _) => fail
      | _ => let v := fresh "b" in set (v := (a =? b)) in *; clearbody v
      end
  end.

Ltac opaque_ed :=
  repeat match goal with
  | |- context [ is_editions ?e ] => let v := fresh "ed" in set (v := is_editions e) in *; clearbody v
  | HH : context [ is_editions ?e ] |- _ => let v := fresh "ed" in set (v := is_editions e) in *; clearbody v
  end.

Ltac clear_unused_bools := repeat match goal with v : bool |- _ => clear v end.

Ltac bool_split :=
  repeat match goal with
  | v : bool |- _ => destruct v; cbn [andb orb negb N.eqb Pos.eqb] in *; try discriminate; try reflexivity
  end.

Ltac bool_cases :=
  unfold f_resolve in *;
  cbn [f_edition f_label f_type f_number f_is_ext f_has_oneof f_p3opt f_packed f_msg_mapentry f_parent_mapentry f_chain] in *;
  cbn [andb orb negb N.eqb Pos.eqb] in *;
  opaque_ed; opaque_eqb; clear_unused_bools; bool_split;
  (* comparisons that were hidden under a conditional *)
  try (opaque_eqb; bool_split).

Lemma fl_legacy : forall f, wf_field f = true ->
  IsLegacyRequired (rt_field_flags f) = (f_resolve f FieldPresence =? FP_LEGACY_REQUIRED).
Proof. intros f H. rewrite (rt_field_flags_resolved f H). cbv zeta. destruct (f_packed f); reflexivity. Qed.

Lemma fl_presence : forall f, wf_field f = true ->
  IsFieldPresence (rt_field_flags f) =
  ((f_resolve f FieldPresence =? FP_LEGACY_REQUIRED) || (f_resolve f FieldPresence =? FP_EXPLICIT)).
Proof. intros f H. rewrite (rt_field_flags_resolved f H). cbv zeta. destruct (f_packed f); reflexivity. Qed.

Lemma fl_delimited : forall f, wf_field f = true ->
  IsDelimitedEncoded (rt_field_flags f) = (f_resolve f MessageEncoding =? ME_DELIMITED).
Proof. intros f H. rewrite (rt_field_flags_resolved f H). cbv zeta. destruct (f_packed f); reflexivity. Qed.

Lemma fl_packed : forall f, wf_field f = true ->
  IsPacked (rt_field_flags f) =
  match f_packed f with Some b => b | None => f_resolve f RepeatedFieldEncoding =? RFE_PACKED end.
Proof. intros f H. rewrite (rt_field_flags_resolved f H). cbv zeta. destruct (f_packed f); reflexivity. Qed.

(* in a proto2 / proto3 file nothing is legacy-required or delimited by feature *)
Lemma p23_field : forall f, is_editions (f_edition f) = false ->
  (f_resolve f FieldPresence =? FP_LEGACY_REQUIRED) = false /\
  (f_resolve f MessageEncoding =? ME_DELIMITED) = false.
Proof.
  intros f He. unfold f_resolve. rewrite !(p23_resolve _ _ _ He). apply p23_defaults. exact He.
Qed.

(* The facts about a well-formed field that the attribute proofs use, with the field taken apart:
   LR = presence resolves to LEGACY_REQUIRED, EX = to EXPLICIT, DL = message encoding resolves to DELIMITED. *)
Lemma field_facts : forall f, wf_field f = true ->
  let LR := (f_resolve f FieldPresence =? FP_LEGACY_REQUIRED) in
  let EX := (f_resolve f FieldPresence =? FP_EXPLICIT) in
  let DL := (f_resolve f MessageEncoding =? ME_DELIMITED) in
  IsLegacyRequired (rt_field_flags f) = LR /\
  IsFieldPresence (rt_field_flags f) = (LR || EX) /\
  IsDelimitedEncoded (rt_field_flags f) = DL /\
  IsPacked (rt_field_flags f) =
    match f_packed f with Some b => b | None => f_resolve f RepeatedFieldEncoding =? RFE_PACKED end /\
  ((f_label f =? LABEL_OPTIONAL) || (f_label f =? LABEL_REQUIRED) || (f_label f =? LABEL_REPEATED)) = true /\
  (negb (f_msg_mapentry f) || ((f_type f =? TYPE_MESSAGE) && (f_label f =? LABEL_REPEATED) && negb (f_is_ext f))) = true /\
  (negb ((f_label f =? LABEL_REPEATED) || f_is_ext f || f_has_oneof f || f_parent_mapentry f) || negb LR) = true /\
  ((negb (f_parent_mapentry f) || (negb (f_is_ext f) && negb (f_type f =? TYPE_GROUP))) && negb (f_is_ext f && f_has_oneof f)) = true /\
  (negb (f_p3opt f) || ((f_label f =? LABEL_OPTIONAL) && (f_edition f =? ED_PROTO3))) = true /\
  (is_editions (f_edition f) || (negb LR && negb DL)) = true.
Proof.
  intros f H. cbv zeta.
  destruct (wf_field_parts f H) as (Hs & Hw & Hl & Hm & Hr & Hpm & Hp).
  rewrite (fl_legacy f H), (fl_presence f H), (fl_delimited f H), (fl_packed f H).
  repeat split; try assumption.
  destruct (is_editions (f_edition f)) eqn:He; [reflexivity |].
  destruct (p23_field f He) as [A B]. rewrite A, B. reflexivity.
Qed.

Ltac field_start f H :=
  let A1 := fresh "A" in let A2 := fresh "A" in let A3 := fresh "A" in let A4 := fresh "A" in
  let Hl := fresh "Hl" in let Hm := fresh "Hm" in let Hr := fresh "Hr" in let Hp := fresh "Hp" in
  let H23 := fresh "H23" in let Hpm := fresh "Hpm" in
  pose proof (field_facts f H) as FF; cbv zeta in FF;
  destruct FF as (A1 & A2 & A3 & A4 & Hl & Hm & Hr & Hpm & Hp & H23);
  clear H.

Theorem cardinality_eq_runtime_lemma : forall f, wf_field f = true -> cardinality f = rt_cardinality f.
Proof.
  intros f H. field_start f H.
  unfold cardinality, rt_cardinality. rewrite A. clear A A0 A1 A2 Hm Hp.
  destruct f as [e lab ty num ext oo p3 pk mm pm ch]; cbn [f_edition f_label f_type f_number f_is_ext f_has_oneof f_p3opt f_packed f_msg_mapentry f_parent_mapentry f_chain] in *.
  unfold_consts. label_cases lab Hl; cbn [N.eqb Pos.eqb] in *; bool_cases.
Qed.

Lemma is_map_eq_runtime_lemma : forall f, wf_field f = true -> is_map f = rt_is_map f.
Proof.
  intros f H. field_start f H.
  unfold is_map, rt_is_map, is_map_entry_typed, rt_has_message. clear A A0 A1 A2 Hr Hp H23.
  destruct f as [e lab ty num ext oo p3 pk mm pm ch]; cbn [f_edition f_label f_type f_number f_is_ext f_has_oneof f_p3opt f_packed f_msg_mapentry f_parent_mapentry f_chain] in *.
  unfold_consts. label_cases lab Hl; cbn [N.eqb Pos.eqb] in *;
  (split_eqb ty 11; [| split_eqb ty 10]); cbn [N.eqb Pos.eqb] in *; bool_cases.
Qed.

Theorem kind_eq_runtime_lemma : forall f, wf_field f = true -> kind f = rt_kind f.
Proof.
  intros f H. pose proof (is_map_eq_runtime_lemma f H) as HM. field_start f H.
  unfold kind, rt_kind. rewrite A1, <- HM. clear HM A A0 A1 A2 Hr Hp.
  unfold is_map, is_map_entry_typed in *.
  destruct f as [e lab ty num ext oo p3 pk mm pm ch]; cbn [f_edition f_label f_type f_number f_is_ext f_has_oneof f_p3opt f_packed f_msg_mapentry f_parent_mapentry f_chain] in *.
  unfold_consts. label_cases lab Hl; cbn [N.eqb Pos.eqb] in *;
  (split_eqb ty 11; [| split_eqb ty 10]); cbn [N.eqb Pos.eqb] in *;
  bool_cases.
Qed.

Ltac take_apart f :=
  destruct f as [e lab ty num ext oo p3 pk mm pm ch];
  cbn [f_edition f_label f_type f_number f_is_ext f_has_oneof f_p3opt f_packed f_msg_mapentry f_parent_mapentry f_chain] in *.

Theorem has_presence_eq_runtime_lemma : forall f, wf_field f = true -> has_presence f = rt_has_presence f.
Proof.
  intros f H. pose proof (kind_eq_runtime_lemma f H) as HK. pose proof (cardinality_eq_runtime_lemma f H) as HC.
  field_start f H.
  unfold has_presence, rt_has_presence. rewrite <- HC, A0. clear HC A A0 A2 Hp.
  unfold rt_has_message.
  (* the linker asks Kind(), the runtime asks whether a message type is attached *)
  unfold kind, rt_kind, cardinality, is_map, is_map_entry_typed in *. rewrite A1 in *. clear A1 HK.
  take_apart f.
  unfold_consts. label_cases lab Hl; cbn [N.eqb Pos.eqb] in *;
  (split_eqb ty 11; [| split_eqb ty 10]); cbn [N.eqb Pos.eqb] in *; bool_cases.
Qed.

Theorem is_packed_eq_runtime_lemma : forall f, wf_field f = true -> is_packed f = rt_is_packed f.
Proof.
  intros f H. pose proof (kind_eq_runtime_lemma f H) as HK. pose proof (cardinality_eq_runtime_lemma f H) as HC.
  field_start f H.
  unfold is_packed, rt_is_packed, can_pack. rewrite <- HC, <- HK, A2. clear HC HK A A0 A1 A2 Hp.
  generalize (kind f). intro k. generalize (cardinality f). intro c.
  unfold_consts.
  destruct (f_packed f) as [pb |]; bool_cases.
Qed.

Theorem is_list_eq_runtime_lemma : forall f, wf_field f = true -> is_list f = rt_is_list f.
Proof.
  intros f H. pose proof (is_map_eq_runtime_lemma f H) as HM. pose proof (cardinality_eq_runtime_lemma f H) as HC.
  field_start f H.
  unfold is_list, rt_is_list. rewrite <- HC, <- HM. clear HC HM A A0 A1 A2 Hp.
  unfold cardinality, is_map, is_map_entry_typed.
  take_apart f.
  unfold_consts. label_cases lab Hl; cbn [N.eqb Pos.eqb] in *;
  (split_eqb ty 11; [| split_eqb ty 10]); cbn [N.eqb Pos.eqb] in *; bool_cases.
Qed.

Theorem has_optional_keyword_eq_runtime_lemma : forall f, wf_field f = true ->
  has_optional_keyword f = rt_has_optional_keyword f.
Proof.
  intros f H. pose proof (cardinality_eq_runtime_lemma f H) as HC.
  field_start f H.
  unfold has_optional_keyword, rt_has_optional_keyword. rewrite <- HC. clear HC A A0 A1 A2.
  unfold cardinality.
  take_apart f.
  destruct (e =? ED_PROTO2) eqn:EP.
  - apply N.eqb_eq in EP. subst e.
    replace (is_editions ED_PROTO2) with false in * by (vm_compute; reflexivity).
    replace (ED_PROTO2 =? ED_PROTO3) with false in * by (vm_compute; reflexivity).
    unfold_consts; label_cases lab Hl; cbn [N.eqb Pos.eqb] in *; bool_cases.
  - unfold_consts; label_cases lab Hl; cbn [N.eqb Pos.eqb] in *; bool_cases.
Qed.

(* ------------------------------------------------------------------ enums *)
Lemma forallb_et_known_head : forall c, enum_type_known c = true ->
  forall v, resolve_chain c EnumType = Some v -> ((v =? ET_OPEN) || (v =? ET_CLOSED)) = true.
Proof.
  intros c H v Hv. destruct (resolve_chain_some_inv c EnumType v Hv) as (pre & s & post & Hl & _ & Hs).
  unfold enum_type_known in H. rewrite forallb_forall in H.
  assert (Hin : In s (levels c)) by (rewrite Hl; apply in_or_app; right; left; reflexivity).
  specialize (H s Hin). cbn [fs_get] in Hs. rewrite Hs in H. exact H.
Qed.

Lemma supported_defaults_et_known : forall e, supported_edition e = true ->
  ((edition_default e EnumType =? ET_OPEN) || (edition_default e EnumType =? ET_CLOSED)) = true.
Proof.
  intros e H. unfold supported_edition in H.
  destruct (e =? ED_PROTO2) eqn:E2; [apply N.eqb_eq in E2; subst e; vm_compute; reflexivity |].
  destruct (e =? ED_PROTO3) eqn:E3; [apply N.eqb_eq in E3; subst e; vm_compute; reflexivity |].
  destruct (e =? ED_2023) eqn:E4; [apply N.eqb_eq in E4; subst e; vm_compute; reflexivity |].
  discriminate H.
Qed.

Lemma resolved_et_known : forall e c, supported_edition e = true -> enum_type_known c = true ->
  ((resolve_feature e c EnumType =? ET_OPEN) || (resolve_feature e c EnumType =? ET_CLOSED)) = true.
Proof.
  intros e c Hs Hk. unfold resolve_feature.
  destruct ((e =? ED_PROTO2) || (e =? ED_PROTO3)); [apply supported_defaults_et_known; exact Hs |].
  destruct (resolve_chain c EnumType) as [v |] eqn:E.
  - apply (forallb_et_known_head c Hk v E).
  - apply supported_defaults_et_known; exact Hs.
Qed.

(* IsClosed: the full agreement (repaired code) *)
Theorem is_closed_eq_runtime_lemma : forall e c,
  wf_enum e c = true -> is_closed e c = rt_is_closed e c.
Proof.
  intros e c H. unfold wf_enum in H. apply andb_prop in H. destruct H as [Hs Hw].
  unfold is_closed, rt_is_closed. rewrite (rt_flags_resolved e c Hs Hw). reflexivity.
Qed.

(* historical: the code before the repair (== CLOSED) agreed only when every override was OPEN or CLOSED *)
Lemma is_closed_old_eq_runtime_partial_lemma : forall e c,
  wf_enum e c = true -> enum_type_known c = true -> is_closed_old e c = rt_is_closed e c.
Proof.
  intros e c H Hk. unfold wf_enum in H. apply andb_prop in H. destruct H as [Hs Hw].
  unfold is_closed_old, rt_is_closed. rewrite (rt_flags_resolved e c Hs Hw). cbn [flags_of IsOpenEnum].
  pose proof (resolved_et_known e c Hs Hk) as HR.
  unfold ET_OPEN, ET_CLOSED in *.
  destruct (resolve_feature e c EnumType =? 1) eqn:E1; destruct (resolve_feature e c EnumType =? 2) eqn:E2;
    cbn [negb orb] in *; try reflexivity; try discriminate.
  apply N.eqb_eq in E1. apply N.eqb_eq in E2. congruence.
Qed.

(* historical: ENUM_TYPE_UNKNOWN (0) on an enum of an edition-2023 file: the old code said open, the runtime closed *)
Lemma is_closed_old_eq_runtime_refuted_lemma :
  exists e c, wf_enum e c = true /\ is_closed_old e c <> rt_is_closed e c.
Proof.
  exists ED_2023, (CNest (mkfs None (Some 0) None None None None) (CFile fs_empty)).
  split; [vm_compute; reflexivity | vm_compute; discriminate].
Qed.

(* ------------------------------------------------------------------ required numbers *)
(* RequiredNumbers: the full agreement (repaired code: select on Cardinality()) *)
Theorem required_numbers_eq_runtime_lemma : forall fields,
  Forall (fun f => wf_field f = true) fields ->
  required_numbers fields = rt_required_numbers fields.
Proof.
  intros fields Hwf. unfold required_numbers, rt_required_numbers. f_equal.
  induction fields as [| f r IH]; [reflexivity |].
  inversion Hwf as [| x l Hf Hr]; subst.
  cbn [filter]. rewrite (IH Hr), (cardinality_eq_runtime_lemma f Hf). reflexivity.
Qed.

(* historical: the code before the repair (select on the label) agreed only without legacy-required fields *)
Lemma required_numbers_old_eq_runtime_partial_lemma : forall fields,
  Forall (fun f => wf_field f = true) fields ->
  Forall (fun f => is_editions (f_edition f) = false \/
                   (f_resolve f FieldPresence =? FP_LEGACY_REQUIRED) = false) fields ->
  required_numbers_old fields = rt_required_numbers fields.
Proof.
  intros fields Hwf Hg. unfold required_numbers_old, rt_required_numbers. f_equal.
  induction fields as [| f r IH]; [reflexivity |].
  inversion Hwf as [| x l Hf Hr]; subst. inversion Hg as [| x l Gf Gr]; subst.
  cbn [filter]. rewrite (IH Hr Gr).
  assert (Heq : (f_label f =? LABEL_REQUIRED) = (rt_cardinality f =? CARD_REQUIRED)).
  { rewrite <- (cardinality_eq_runtime_lemma f Hf). unfold cardinality.
    assert (HL : (is_editions (f_edition f) && (f_resolve f FieldPresence =? FP_LEGACY_REQUIRED)) = false).
    { destruct Gf as [G | G]; rewrite G; [reflexivity | apply andb_false_r]. }
    rewrite HL. unfold_consts.
    destruct (f_label f =? 3) eqn:E3; [apply N.eqb_eq in E3; rewrite E3; reflexivity |].
    destruct (f_label f =? 2) eqn:E2; [reflexivity |].
    destruct (f_label f =? 1) eqn:E1; reflexivity. }
  rewrite Heq. reflexivity.
Qed.

Definition witness_lr_field : field :=
  mkfield ED_2023 LABEL_OPTIONAL 4 1 false false false None false false
          (CNest (mkfs (Some FP_LEGACY_REQUIRED) None None None None None)
                 (CNest fs_empty (CFile (mkfs (Some FP_IMPLICIT) (Some ET_OPEN) None None None None)))).

(* historical: editions/features_with_overrides.proto, message foo.bar.baz.Foo, field id = 1 *)
Lemma required_numbers_old_eq_runtime_refuted_lemma :
  exists fields, Forall (fun f => wf_field f = true) fields /\
                 required_numbers_old fields = [] /\ rt_required_numbers fields = [1].
Proof.
  exists [witness_lr_field]. split; [| split].
  - constructor; [vm_compute; reflexivity | constructor].
  - vm_compute; reflexivity.
  - vm_compute; reflexivity.
Qed.

(* ------------------------------------------------------------------ where the compiler's checks give wf *)
(* From source, field_presence can only be set on a field or on the file (option targets), the file may not
   say LEGACY_REQUIRED (validateFile) and a repeated field or an extension may not set it
   (validateFieldFeatures). That is enough for the legacy-required clause of wf_field. *)
Fixpoint middle_unset (c : chain) : bool :=
  match c with
  | CFile _ => true
  | CNest s p => match fs_fp s with None => middle_unset p | Some _ => false end
  end.

Definition only_ends_set_fp (c : chain) : bool :=
  match c with CFile _ => true | CNest _ p => middle_unset p end.

Fixpoint file_fs (c : chain) : fset := match c with CFile s => s | CNest _ p => file_fs p end.

Lemma resolve_fp_middle : forall c, middle_unset c = true ->
  resolve_chain c FieldPresence = fs_fp (file_fs c).
Proof.
  induction c as [s | s p IH]; intro H; cbn [resolve_chain fs_get file_fs middle_unset] in *.
  - reflexivity.
  - destruct (fs_fp s); [discriminate | apply IH; exact H].
Qed.

Lemma resolve_fp_ends : forall c, only_ends_set_fp c = true ->
  fs_fp (chain_head c) = None ->
  resolve_chain c FieldPresence = fs_fp (file_fs c).
Proof.
  intros c H Hh. destruct c as [s | s p].
  - reflexivity.
  - cbn [chain_head] in Hh. cbn [resolve_chain fs_get file_fs only_ends_set_fp] in *. rewrite Hh.
    apply resolve_fp_middle. exact H.
Qed.

Lemma source_rules_give_no_lr : forall f,
  only_ends_set_fp (f_chain f) = true ->
  (match fs_fp (file_fs (f_chain f)) with Some v => negb (v =? FP_LEGACY_REQUIRED) | None => true end) = true ->
  (((f_label f =? LABEL_REPEATED) || f_is_ext f || f_has_oneof f || f_parent_mapentry f) = true -> fs_fp (chain_head (f_chain f)) = None) ->
  supported_edition (f_edition f) = true ->
  (negb ((f_label f =? LABEL_REPEATED) || f_is_ext f || f_has_oneof f || f_parent_mapentry f) || negb (f_resolve f FieldPresence =? FP_LEGACY_REQUIRED)) = true.
Proof.
  intros f Ho Hf Hr Hs.
  destruct ((f_label f =? LABEL_REPEATED) || f_is_ext f || f_has_oneof f || f_parent_mapentry f) eqn:E; [| reflexivity].
  cbn [negb orb]. specialize (Hr eq_refl).
  unfold f_resolve, resolve_feature.
  assert (Hd : forall e, supported_edition e = true -> negb (edition_default e FieldPresence =? FP_LEGACY_REQUIRED) = true).
  { intros e0 H0. unfold supported_edition in H0.
    destruct (e0 =? ED_PROTO2) eqn:E2; [apply N.eqb_eq in E2; subst e0; vm_compute; reflexivity |].
    destruct (e0 =? ED_PROTO3) eqn:E3; [apply N.eqb_eq in E3; subst e0; vm_compute; reflexivity |].
    destruct (e0 =? ED_2023) eqn:E4; [apply N.eqb_eq in E4; subst e0; vm_compute; reflexivity |].
    discriminate H0. }
  destruct ((f_edition f =? ED_PROTO2) || (f_edition f =? ED_PROTO3)); [apply Hd; exact Hs |].
  rewrite (resolve_fp_ends _ Ho Hr).
  destruct (fs_fp (file_fs (f_chain f))); [exact Hf | apply Hd; exact Hs].
Qed.

(* ------------------------------------------------------------------ defaults of the integer kinds *)
From Coq Require Import ZArith Ascii String Decimal DecimalString DecimalZ DecimalPos.

(* the decimal text of an integer, as a compiler writes default_value *)
Definition render_int (z : Z) : string := NilZero.string_of_int (Z.to_int z).

Lemma string_of_uint_digit_head : forall d, d <> Nil ->
  exists c r, NilEmpty.string_of_uint d = String c r /\ Ascii.eqb c "-"%char = false /\ Ascii.eqb c "+"%char = false.
Proof.
  intros d H. destruct d; [contradiction | | | | | | | | | |]; cbn [NilEmpty.string_of_uint];
    eexists _, _; (split; [reflexivity | split; reflexivity]).
Qed.

Lemma parse_uint_text_rendered : forall p,
  parse_uint_text (NilEmpty.string_of_uint (Pos.to_uint p)) = Some (Z.pos p).
Proof.
  intro p. pose proof (Unsigned.to_uint_nonnil p) as Hn.
  destruct (string_of_uint_digit_head _ Hn) as (c & r & Hs & _).
  unfold parse_uint_text. rewrite Hs. rewrite <- Hs. rewrite NilEmpty.usu.
  f_equal. pose proof (DecimalZ.of_to (Z.pos p)) as H. cbn [Z.to_int Z.of_int] in H. exact H.
Qed.

Lemma parse_int_text_rendered : forall z, parse_int_text (render_int z) = Some z.
Proof.
  intros [| p | p]; unfold render_int; cbn [Z.to_int NilZero.string_of_int].
  - vm_compute. reflexivity.
  - pose proof (Unsigned.to_uint_nonnil p) as Hn.
    assert (Hz : NilZero.string_of_uint (Pos.to_uint p) = NilEmpty.string_of_uint (Pos.to_uint p))
      by (destruct (Pos.to_uint p); [contradiction | reflexivity ..]).
    rewrite Hz. destruct (string_of_uint_digit_head _ Hn) as (c & r & Hs & Hm & Hp).
    unfold parse_int_text. rewrite Hs, Hm, Hp. rewrite <- Hs. apply parse_uint_text_rendered.
  - pose proof (Unsigned.to_uint_nonnil p) as Hn.
    assert (Hz : NilZero.string_of_uint (Pos.to_uint p) = NilEmpty.string_of_uint (Pos.to_uint p))
      by (destruct (Pos.to_uint p); [contradiction | reflexivity ..]).
    rewrite Hz. unfold parse_int_text.
    change (Ascii.eqb (Ascii true false true true false true false false) "-"%char) with true. cbn iota.
    rewrite parse_uint_text_rendered. reflexivity.
Qed.

Lemma parse_uint_text_rendered_nonneg : forall z, (0 <= z)%Z -> parse_uint_text (render_int z) = Some z.
Proof.
  intros [| p | p] H; unfold render_int; cbn [Z.to_int NilZero.string_of_int].
  - vm_compute. reflexivity.
  - pose proof (Unsigned.to_uint_nonnil p) as Hn.
    assert (Hz : NilZero.string_of_uint (Pos.to_uint p) = NilEmpty.string_of_uint (Pos.to_uint p))
      by (destruct (Pos.to_uint p); [contradiction | reflexivity ..]).
    rewrite Hz. apply parse_uint_text_rendered.
  - exfalso. apply H. reflexivity.
Qed.

(* Default() of an integer kind is the number whose decimal text default_value holds, for every number in the
   range of the kind *)
Theorem default_int_of_rendered_lemma : forall k signed bits z,
  int_kind k = Some (signed, bits) -> int_in_range signed bits z = true ->
  default_int k (Some (render_int z)) = z.
Proof.
  intros k signed bits z Hk Hr. unfold default_int, parse_default_int. rewrite Hk.
  destruct signed.
  - rewrite parse_int_text_rendered, Hr. reflexivity.
  - assert (H0 : (0 <= z)%Z).
    { unfold int_in_range in Hr. apply andb_prop in Hr. destruct Hr as [Hr _]. apply Z.leb_le. exact Hr. }
    rewrite (parse_uint_text_rendered_nonneg z H0), Hr. reflexivity.
Qed.

(* and it is what the runtime reads from the same text, whenever the runtime accepts it *)
Theorem default_int_eq_runtime_lemma : forall k text v,
  rt_default_int k text = Some v -> default_int k text = v.
Proof.
  intros k [t |] v H; unfold rt_default_int in H; unfold default_int.
  - rewrite H. reflexivity.
  - injection H as H. exact H.
Qed.

(* ---- text names ---- *)
Theorem text_name_eq_runtime_lemma : forall f nm same_file same_scope,
  wf_field f = true -> scopes_by_name f nm same_file same_scope = true ->
  text_name f nm = rt_text_name f nm same_file same_scope.
Proof.
  intros f nm sf ss Hwf Hsc.
  unfold text_name, rt_text_name, looks_like_group, rt_is_group_like, scopes_by_name in *.
  rewrite (kind_eq_runtime_lemma f Hwf).
  destruct (f_is_ext f); [reflexivity|].
  cbn [orb] in Hsc. apply Bool.eqb_prop in Hsc. rewrite <- Hsc.
  rewrite (String.eqb_sym (to_lower (n_msg_name nm)) (n_name nm)).
  destruct (rt_kind f =? TYPE_GROUP); destruct sf; destruct ss;
    destruct (String.eqb (n_name nm) (to_lower (n_msg_name nm))); reflexivity.
Qed.

(* a field is group-like only if its name is spelled exactly as the lower-cased message name: whatever the scopes
   and the encoding, a name that differs from it (for instance only in the case of a letter) keeps its own text name,
   on both sides *)
Theorem text_name_not_lowered_lemma : forall f nm same_file same_scope,
  n_name nm <> to_lower (n_msg_name nm) -> f_is_ext f = false ->
  text_name f nm = n_name nm /\ rt_text_name f nm same_file same_scope = n_name nm.
Proof.
  intros f nm sf ss Hne Hext.
  unfold text_name, rt_text_name, looks_like_group, rt_is_group_like. rewrite Hext.
  assert (H1 : String.eqb (n_name nm) (to_lower (n_msg_name nm)) = false) by (apply String.eqb_neq; exact Hne).
  rewrite (String.eqb_sym (to_lower (n_msg_name nm)) (n_name nm)), H1.
  rewrite !Bool.andb_false_r. cbn [andb]. split; reflexivity.
Qed.
